package c04

import (
	"context"
	"errors"
	"fmt"
	"net"
	"sort"
	"strings"
	"sync"
	"sync/atomic"
	"testing"
	"testing/synctest"
	"time"

	"github.com/libp2p/go-libp2p/core/network"
	"github.com/libp2p/go-libp2p/core/protocol"
	basichost "github.com/libp2p/go-libp2p/p2p/host/basic"
	"github.com/libp2p/go-libp2p/p2p/host/eventbus"
	"github.com/libp2p/go-libp2p/p2p/host/peerstore/pstoremem"
	rcmgr "github.com/libp2p/go-libp2p/p2p/host/resource-manager"
	"github.com/libp2p/go-libp2p/p2p/net/swarm"
	ma "github.com/multiformats/go-multiaddr"
	"pgregory.net/rapid"

	"verif/internal/faultconn"
	"verif/internal/hx"
	"verif/internal/memtpt"
	"verif/internal/stats"
)

// Layer (d): the "stream open or protocol negotiation" stage as a host drives it. Two nodes
// over the in-memory transport with real resource managers behind the refusing wrapper: the
// opening side is always a BasicHost (identify included), the remote is a BasicHost with echo
// handlers or a bare swarm that holds every inbound stream for a generated time and then
// resets it (a peer that answers neither identify nor any negotiation). A generated scenario
// brings the connection up in one of four ways, calls BasicHost.NewStream with contexts that
// end at generated instants (deadline or cancel; also while the identify exchange of a fresh
// connection is still in flight), with protocol lists that are known / unknown / wrongly
// believed to be supported (lazy and eager negotiation) or not supported by the remote, lets
// the manager refuse (or the connection die during) the n-th OpenStream / SetProtocol /
// SetService / ReserveMemory ..., and closes connections and hosts at generated instants.
//
// Oracle, from the statement only: (1) long after every NewStream call has returned and every
// stream that was handed out has been finished by its owner, with the connection possibly still
// up, no resource scope charges a stream and no connection lists one ("every resource scope that
// was opened for it is closed so that ... usage return to their previous values"); where a
// quiescent baseline exists (connection established and identified before the first call) the
// system and transient scopes equal that baseline exactly; (2) after both hosts have been
// closed every scope reads zero, no connection / listen address is listed, both ends of every raw
// connection were closed and the bubble can exit (no goroutine left).

const (
	protoKnown   = protocol.ID("/echo/1")     // handler registered before the connection: identify makes it known (lazy negotiation)
	protoMatched = protocol.ID("/echo/2")     // served through a match function under another name: supported but never known (eager negotiation)
	protoNone    = protocol.ID("/none/1")     // not supported, not known
	protoGone    = protocol.ID("/gone/1")     // not supported
	protoAnyName = protocol.ID("/echo-any/1") // the name the match handler is registered under
)

var hostPids = []protocol.ID{protoKnown, protoMatched, protoNone, protoGone}

type hostOp struct {
	at         int // ms after the connection came up (setup newstream: after the start)
	timeout    int // ms; -1: context without deadline (the host's negotiation timeout applies)
	byCancel   bool
	pids       []protocol.ID
	forceKnown bool // the peerstore is told right before the call that the remote supports pids[0]
	noDial     bool
	finish     string // how the harness finishes a stream it got: close | reset
	raw        string // "": a NewStream through the host; closeWrite | close: a bare swarm stream ended before negotiating
}

func (o hostOp) String() string {
	var ps []string
	for _, p := range o.pids {
		ps = append(ps, string(p))
	}
	return fmt.Sprintf("@%d[%s ctx=%d cancel=%v forceKnown=%v noDial=%v %s raw=%s]", o.at, strings.Join(ps, ","), o.timeout, o.byCancel, o.forceKnown, o.noDial, o.finish, o.raw)
}

type hostScenario struct {
	cfg       config
	remote    string // host | stall
	stallHold int    // ms a bare-swarm remote holds an inbound stream before resetting it
	setup     string // newstream | connect | swarmDial | inbound
	refSide   string
	refHook   string
	refN      int
	refArm    string // start | ops (counting starts with the first NewStream call)
	refKill   bool
	ioSide    string
	ioK       int
	ioKind    faultconn.Kind
	ops       []hostOp
	actions   []swarmAction

	serverResetEvery int
}

func (sc *hostScenario) String() string {
	var os, as []string
	for _, o := range sc.ops {
		os = append(os, o.String())
	}
	for _, a := range sc.actions {
		as = append(as, fmt.Sprintf("%s@%d", a.kind, a.at))
	}
	return fmt.Sprintf("%s remote=%s(hold=%d) setup=%s ref=%s/%s#%d(arm=%s kill=%v) io=%s/op%d/%s ops=%s actions=[%s] serverResetEvery=%d",
		sc.cfg, sc.remote, sc.stallHold, sc.setup, sc.refSide, sc.refHook, sc.refN, sc.refArm, sc.refKill, sc.ioSide, sc.ioK, sc.ioKind,
		strings.Join(os, " "), strings.Join(as, " "), sc.serverResetEvery)
}

func drawHostScenario(rt *rapid.T) *hostScenario {
	sc := &hostScenario{cfg: allConfigs[rapid.IntRange(0, len(allConfigs)-1).Draw(rt, "cfg")]}
	sc.remote = rapid.SampledFrom([]string{"host", "host", "stall"}).Draw(rt, "remote")
	if sc.remote == "stall" {
		sc.stallHold = rapid.SampledFrom([]int{2, 20, 300, 3000, 8000, 30000}).Draw(rt, "stallHold")
	}
	sc.setup = rapid.SampledFrom([]string{"newstream", "connect", "swarmDial", "inbound"}).Draw(rt, "setup")
	if rapid.IntRange(0, 2).Draw(rt, "ref?") > 0 {
		sc.refSide = rapid.SampledFrom([]string{"client", "client", "server"}).Draw(rt, "refSide")
		sc.refHook = rapid.SampledFrom([]string{"OpenStream", "SetProtocol", "SetProtocol", "SetService", "ReserveMemory", "BeginSpan", "SetPeer", "OpenConnection"}).Draw(rt, "refHook")
		sc.refN = rapid.IntRange(0, 4).Draw(rt, "refN")
		sc.refArm = rapid.SampledFrom([]string{"start", "ops"}).Draw(rt, "refArm")
		if rapid.IntRange(0, 3).Draw(rt, "refKill") == 0 {
			// not from inside the muxer's own receive loop (see TestSwarmPair)
			sc.refKill = true
			sc.refHook = rapid.SampledFrom([]string{"OpenStream", "SetProtocol", "SetService"}).Draw(rt, "killHook")
		}
	}
	if rapid.IntRange(0, 4).Draw(rt, "io?") == 0 {
		sc.ioSide = rapid.SampledFrom([]string{"client", "server"}).Draw(rt, "ioSide")
		sc.ioK = rapid.IntRange(0, 90).Draw(rt, "ioK")
		sc.ioKind = faultconn.Kinds[rapid.IntRange(0, len(faultconn.Kinds)-1).Draw(rt, "ioKind")]
	}
	nops := rapid.IntRange(1, 4).Draw(rt, "nops")
	for i := 0; i < nops; i++ {
		var o hostOp
		if rapid.IntRange(0, 3).Draw(rt, "fineAt") > 0 {
			o.at = rapid.IntRange(0, 12).Draw(rt, "at")
		} else {
			o.at = rapid.SampledFrom([]int{20, 50, 200, 6000}).Draw(rt, "atCoarse")
		}
		switch rapid.IntRange(0, 3).Draw(rt, "ctxKind") {
		case 0:
			o.timeout = -1
		case 1, 2:
			o.timeout = rapid.IntRange(0, 16).Draw(rt, "timeout") // around the identify exchange / the negotiation round trips
		default:
			o.timeout = rapid.SampledFrom([]int{30, 100, 1000, 4000, 20000}).Draw(rt, "timeoutCoarse")
		}
		o.byCancel = o.timeout >= 0 && rapid.Bool().Draw(rt, "byCancel")
		np := rapid.SampledFrom([]int{1, 1, 2, 3}).Draw(rt, "npids")
		perm := rapid.Permutation(hostPids).Draw(rt, "pids")
		o.pids = append(o.pids, perm[:np]...)
		o.forceKnown = rapid.IntRange(0, 3).Draw(rt, "forceKnown") == 0
		o.noDial = rapid.IntRange(0, 7).Draw(rt, "noDial") == 0
		o.finish = rapid.SampledFrom([]string{"close", "reset"}).Draw(rt, "finish")
		// raw: a muxed stream opened on the swarm and ended before a single byte of protocol
		// negotiation is sent (closeWrite: half-closed first, closed a moment later; close: closed at once)
		o.raw = rapid.SampledFrom([]string{"", "", "", "", "closeWrite", "close"}).Draw(rt, "raw")
		sc.ops = append(sc.ops, o)
	}
	sc.serverResetEvery = rapid.SampledFrom([]int{0, 0, 0, 1, 2}).Draw(rt, "serverResetEvery")
	na := rapid.SampledFrom([]int{0, 0, 1, 2}).Draw(rt, "nactions")
	for i := 0; i < na; i++ {
		sc.actions = append(sc.actions, swarmAction{
			at:   rapid.SampledFrom([]int{0, 1, 2, 3, 4, 6, 8, 10, 14, 20, 40, 80, 7000}).Draw(rt, "actAt"),
			kind: rapid.SampledFrom([]string{"closeConn", "closePeer", "serverClosePeer", "clientHangup", "closeClientHost", "closeServerHost"}).Draw(rt, "actKind"),
		})
	}
	return sc
}

// hostNode is one side: the node of world_test.go plus a swarm and (unless bare) a BasicHost.
type hostNode struct {
	*node
	sw    *swarm.Swarm
	h     *basichost.BasicHost
	laddr ma.Multiaddr
	once  sync.Once
}

func newHostNode(idx int, cfg config, nw *memtpt.Network, ref *refusal, ip net.IP, bare bool) (*hostNode, error) {
	n, err := newNode(idx, cfg, nw, ref, nil, ip)
	if err != nil {
		return nil, err
	}
	hn := &hostNode{node: n, laddr: ma.StringCast("/ip4/" + ip.String() + "/tcp/4001")}
	ps, err := pstoremem.NewPeerstore()
	if err != nil {
		n.real.Close()
		return nil, err
	}
	ps.AddPrivKey(n.id.ID, n.id.Priv)
	ps.AddPubKey(n.id.ID, n.id.Pub)
	bus := eventbus.NewBus()
	hn.sw, err = swarm.NewSwarm(n.id.ID, ps, bus, swarm.WithResourceManager(n.rm), swarm.WithUDPBlackHoleSuccessCounter(nil), swarm.WithIPv6BlackHoleSuccessCounter(nil))
	if err != nil {
		ps.Close()
		n.real.Close()
		return nil, err
	}
	if err := hn.sw.AddTransport(n.tpt); err != nil {
		hn.close()
		return nil, err
	}
	if err := hn.sw.Listen(hn.laddr); err != nil {
		hn.close()
		return nil, err
	}
	if !bare {
		hn.h, err = basichost.NewHost(hn.sw, &basichost.HostOpts{EventBus: bus})
		if err != nil {
			hn.close()
			return nil, err
		}
		hn.h.Start()
	}
	return hn, nil
}

// close closes the host (which closes its network, peerstore and resource manager) or,
// for a bare swarm, those three.
func (hn *hostNode) close() {
	hn.once.Do(func() {
		if hn.h != nil {
			hn.h.Close()
			return
		}
		hn.sw.Close()
		hn.sw.Peerstore().Close()
		hn.real.Close()
	})
}

// streamUsage describes every stream still charged or listed on this side ("" = none).
func (hn *hostNode) streamUsage() string {
	var out string
	st := hn.real.(rcmgr.ResourceManagerState).Stat()
	chk := func(what string, s network.ScopeStat) {
		if s.NumStreamsInbound != 0 || s.NumStreamsOutbound != 0 {
			out += fmt.Sprintf(" %s=%+v", what, s)
		}
	}
	chk("system", st.System)
	chk("transient", st.Transient)
	var keys []string
	scopes := map[string]network.ScopeStat{}
	for p, s := range st.Peers {
		scopes["peer:"+p.ShortString()] = s
	}
	for p, s := range st.Protocols {
		scopes["proto:"+string(p)] = s
	}
	for p, s := range st.Services {
		scopes["svc:"+p] = s
	}
	for k := range scopes {
		keys = append(keys, k)
	}
	sort.Strings(keys)
	for _, k := range keys {
		chk(k, scopes[k])
	}
	for _, c := range hn.sw.Conns() {
		if ss := c.GetStreams(); len(ss) != 0 || c.Stat().NumStreams != 0 {
			var ps []string
			for _, s := range ss {
				ps = append(ps, fmt.Sprintf("%s/%q", s.Stat().Direction, s.Protocol()))
			}
			out += fmt.Sprintf(" connection %s lists %d streams %v (NumStreams=%d)", c.ID(), len(ss), ps, c.Stat().NumStreams)
		}
	}
	return out
}

type hostObs struct {
	mu      sync.Mutex
	labels  map[string]bool
	fired   bool
	stopped int // NewStream calls that did not hand out a stream
	calls   int
}

func (o *hostObs) label(l string) {
	o.mu.Lock()
	if o.labels == nil {
		o.labels = map[string]bool{}
	}
	o.labels[l] = true
	o.mu.Unlock()
}

func runHostScenario(rt *rapid.T, sc *hostScenario, obs *hostObs) {
	nw := memtpt.NewNetwork()
	nw.Latency = time.Millisecond
	var planC, planS *faultconn.Plan
	if sc.ioSide == "client" {
		planC = &faultconn.Plan{At: sc.ioK, Kind: sc.ioKind}
	} else if sc.ioSide == "server" {
		planS = &faultconn.Plan{At: sc.ioK, Kind: sc.ioKind}
	}
	nw.PlanDial = func(n int) *faultconn.Plan {
		if n == 0 {
			return planC
		}
		return nil
	}
	nw.PlanAccept = func(n int) *faultconn.Plan {
		if n == 0 {
			return planS
		}
		return nil
	}
	var refC, refS *refusal
	if sc.refSide == "client" {
		refC = &refusal{kind: sc.refHook, n: sc.refN}
	} else if sc.refSide == "server" {
		refS = &refusal{kind: sc.refHook, n: sc.refN}
	}
	ref := refC
	if ref == nil {
		ref = refS
	}
	if ref != nil && sc.refArm == "ops" {
		ref.off.Store(true)
	}
	a, err := newHostNode(0, sc.cfg, nw, refC, net.IPv4(10, 0, 0, 1), false)
	if err != nil {
		rt.Fatalf("opening side: %v", err)
	}
	defer a.close()
	b, err := newHostNode(1, sc.cfg, nw, refS, net.IPv4(10, 0, 0, 2), sc.remote == "stall")
	if err != nil {
		rt.Fatalf("remote side: %v", err)
	}
	defer b.close()
	nodes := []*hostNode{a, b}
	sides := []string{"opening", "remote"}
	if sc.refKill {
		for i, r := range []*refusal{refC, refS} {
			if r != nil {
				r.act = func() {
					for _, c := range nodes[i].sw.Conns() {
						c.Close()
					}
				}
			}
		}
	}

	// the remote
	var served atomic.Int64
	echo := func(s network.Stream) {
		if k := sc.serverResetEvery; k > 0 && served.Add(1)%int64(k) == 0 {
			s.Reset()
			return
		}
		if err := s.Scope().SetService("echo-svc"); err != nil {
			s.Reset()
			return
		}
		if err := s.Scope().ReserveMemory(1024, network.ReservationPriorityAlways); err != nil {
			s.Reset()
			return
		}
		defer s.Scope().ReleaseMemory(1024)
		s.SetDeadline(time.Now().Add(5 * time.Second))
		buf := make([]byte, 4)
		if _, err := readFull(s, buf); err != nil {
			s.Reset()
			return
		}
		if _, err := s.Write(buf); err != nil {
			s.Reset()
			return
		}
		s.Close()
	}
	if b.h != nil {
		b.h.SetStreamHandler(protoKnown, echo)
		b.h.SetStreamHandlerMatch(protoAnyName, func(p protocol.ID) bool { return p == protoMatched }, echo)
	} else {
		hold := time.Duration(sc.stallHold) * time.Millisecond
		b.sw.SetStreamHandler(func(s network.Stream) {
			time.Sleep(hold)
			s.Reset()
		})
	}
	a.sw.Peerstore().AddAddr(b.id.ID, b.laddr, time.Hour)
	b.sw.Peerstore().AddAddr(a.id.ID, a.laddr, time.Hour)

	var wg sync.WaitGroup
	at := func(ms int, f func()) {
		wg.Add(1)
		go func() { defer wg.Done(); time.Sleep(time.Duration(ms) * time.Millisecond); f() }()
	}
	var armOnce sync.Once
	doOp := func(op hostOp) {
		ctx := context.Background()
		if op.noDial {
			ctx = network.WithNoDial(ctx, "harness")
		}
		d := time.Duration(op.timeout) * time.Millisecond
		switch {
		case op.timeout < 0:
		case op.byCancel:
			var cancel context.CancelFunc
			ctx, cancel = context.WithCancel(ctx)
			defer cancel()
			tm := time.AfterFunc(d, cancel)
			defer tm.Stop()
		default:
			var cancel context.CancelFunc
			ctx, cancel = context.WithTimeout(ctx, d)
			defer cancel()
		}
		// what the call finds: no connection, a connection whose identify exchange is still
		// running, or an identified one
		state := "no-connection"
		if cs := a.sw.ConnsToPeer(b.id.ID); len(cs) > 0 {
			select {
			case <-a.h.IDService().IdentifyWait(cs[0]):
				state = "identified"
			default:
				state = "identify-in-flight"
			}
		}
		if op.forceKnown {
			a.h.Peerstore().AddProtocols(b.id.ID, op.pids[0])
		}
		if ref != nil {
			armOnce.Do(func() { ref.off.Store(false) })
		}
		if op.raw != "" {
			rs, err := a.sw.NewStream(ctx, b.id.ID)
			obs.label("raw-stream-ended-before-negotiation:" + op.raw + "/" + state)
			if err != nil {
				return
			}
			if op.raw == "closeWrite" {
				rs.CloseWrite()
				time.Sleep(20 * time.Millisecond)
			}
			rs.Close()
			return
		}
		s, err := a.h.NewStream(ctx, b.id.ID, op.pids...)
		obs.mu.Lock()
		obs.calls++
		if err != nil {
			obs.stopped++
		}
		obs.mu.Unlock()
		outcome := "ok"
		switch {
		case err == nil:
		case errors.Is(err, context.DeadlineExceeded) || errors.Is(err, context.Canceled):
			outcome = "context-ended"
		case errors.Is(err, network.ErrResourceLimitExceeded):
			outcome = "refused"
		default:
			outcome = "failed"
		}
		obs.label("NewStream:" + state + "/" + outcome)
		if err != nil {
			if s != nil {
				s.Reset()
			}
			return
		}
		finish := func() {
			if op.finish == "close" {
				s.Close()
			} else {
				s.Reset()
			}
		}
		if err := s.Scope().SetService("echo-svc"); err != nil {
			finish()
			return
		}
		if err := s.Scope().ReserveMemory(2048, network.ReservationPriorityAlways); err != nil {
			finish()
			return
		}
		defer s.Scope().ReleaseMemory(2048)
		s.SetDeadline(time.Now().Add(5 * time.Second))
		if _, err := s.Write([]byte("ping")); err != nil {
			obs.label("stream:write-failed")
			finish()
			return
		}
		buf := make([]byte, 4)
		if _, err := readFull(s, buf); err != nil {
			obs.label("stream:read-failed")
			finish()
			return
		}
		obs.label("stream:echoed")
		s.Close()
	}

	connUp := make(chan struct{}, 16)
	a.sw.Notify(&network.NotifyBundle{ConnectedF: func(network.Network, network.Conn) {
		select {
		case connUp <- struct{}{}:
		default:
		}
	}})
	type snapshot struct {
		system, transient network.ScopeStat
		conns             string
	}
	connIDs := func() string {
		var ids []string
		for _, c := range a.sw.Conns() {
			ids = append(ids, c.ID())
		}
		sort.Strings(ids)
		return strings.Join(ids, ",")
	}
	snap := func(hn *hostNode) snapshot {
		st := hn.real.(rcmgr.ResourceManagerState).Stat()
		return snapshot{system: st.System, transient: st.Transient, conns: connIDs()}
	}
	var baseline []snapshot
	startOps := func() {
		for _, op := range sc.ops {
			at(op.at, func() { doOp(op) })
		}
		for _, act := range sc.actions {
			switch act.kind {
			case "closeConn":
				at(act.at, func() {
					for _, c := range a.sw.ConnsToPeer(b.id.ID) {
						c.Close()
					}
				})
			case "closePeer":
				at(act.at, func() { a.sw.ClosePeer(b.id.ID) })
			case "serverClosePeer":
				at(act.at, func() { b.sw.ClosePeer(a.id.ID) })
			case "clientHangup":
				at(act.at, func() {
					for _, p := range nw.Pairs() {
						if p.Client != nil {
							p.Client.Close()
						}
					}
				})
			case "closeClientHost":
				at(act.at, a.close)
			case "closeServerHost":
				at(act.at, b.close)
			}
		}
	}
	switch sc.setup {
	case "newstream":
		startOps()
	case "connect":
		ctx, cancel := context.WithTimeout(context.Background(), 20*time.Second)
		err := a.h.Connect(ctx, a.sw.Peerstore().PeerInfo(b.id.ID))
		cancel()
		// identify (5 s) and whatever else the new connection started are over in both directions
		// (a mute remote has let go of the identify stream it was holding)
		time.Sleep(15*time.Second + time.Duration(sc.stallHold)*time.Millisecond)
		synctest.Wait()
		if err == nil && len(a.sw.Conns()) == 1 {
			for i, hn := range nodes {
				if u := hn.streamUsage(); u != "" {
					rt.Fatalf("long after Connect, before any NewStream call, the %s side still charges / lists streams:%s\nscenario: %s", sides[i], u, sc)
				}
				baseline = append(baseline, snap(hn))
			}
		}
		startOps()
	case "swarmDial":
		ctx, cancel := context.WithTimeout(context.Background(), 20*time.Second)
		a.sw.DialPeer(ctx, b.id.ID)
		cancel()
		startOps()
	case "inbound":
		ctx, cancel := context.WithTimeout(context.Background(), 20*time.Second)
		go func() {
			defer cancel()
			b.sw.DialPeer(ctx, a.id.ID)
		}()
		select {
		case <-connUp:
		case <-ctx.Done():
		}
		startOps()
	}

	// Long after the last call returned (negotiation timeout 10 s, identify 5 s, stream
	// deadlines 5 s, the longest hold of the mute remote 30 s), while connections may still be up
	time.Sleep(150 * time.Second)
	synctest.Wait()
	wg.Wait()
	synctest.Wait()
	for i, hn := range nodes {
		if u := hn.streamUsage(); u != "" {
			rt.Fatalf("150 s after the last NewStream call, every stream handed out having been closed or reset by its owner, the %s side still charges / lists streams:%s\nscenario: %s", sides[i], u, sc)
		}
	}
	if baseline != nil && baseline[0].conns == connIDs() && len(b.sw.Conns()) == 1 {
		obs.label("baseline-compared")
		for i, hn := range nodes {
			if now := snap(hn); now != baseline[i] {
				rt.Fatalf("with the same connection still up, the %s side's usage did not return to its value before the NewStream calls: before %+v, now %+v\nscenario: %s", sides[i], baseline[i], now, sc)
			}
		}
	}
	if len(a.sw.Conns()) > 0 {
		obs.label("audited-with-connection-up")
	}

	a.close()
	b.close()
	time.Sleep(5 * time.Second)
	synctest.Wait()
	for _, p := range []*faultconn.Plan{planC, planS} {
		if p != nil && p.Fired.Load() {
			obs.fired = true
			obs.label("io-fault-fired")
		}
	}
	if ref != nil && ref.fired.Load() {
		obs.fired = true
		what := "refused:"
		if sc.refKill {
			what = "connections-closed-during-rcmgr-call:"
		}
		obs.label(what + sc.refSide + "/" + sc.refHook)
	}
	for i, hn := range nodes {
		if u := hn.usage(); u != "" {
			rt.Fatalf("after both hosts were closed the %s side's resource manager still charges%s\nscenario: %s", sides[i], u, sc)
		}
		if c := hn.sw.Conns(); len(c) != 0 {
			rt.Fatalf("after Close the %s side still lists %d connections\nscenario: %s", sides[i], len(c), sc)
		}
		if l := hn.sw.ListenAddresses(); len(l) != 0 {
			rt.Fatalf("after Close the %s side still lists listen addresses %v\nscenario: %s", sides[i], l, sc)
		}
	}
	for i, p := range nw.Pairs() {
		if p.Client == nil {
			continue
		}
		if !p.Client.Closed() {
			rt.Fatalf("raw connection %d was never closed by its dialling side\nscenario: %s", i, sc)
		}
		if !p.Server.Closed() {
			rt.Fatalf("raw connection %d was never closed by its listening side\nscenario: %s", i, sc)
		}
	}
}

// TestHostPair: see the comment at the top of this file. Non-trivial = at least one NewStream
// call stopped before handing out a stream, or an injected refusal / I/O fault fired.
func TestHostPair(t *testing.T) {
	name := t.Name()
	hx.Check(t, 800, 120000, 0, func(rt *rapid.T) {
		sc := drawHostScenario(rt)
		var obs hostObs
		hx.Bubble(t, rt, func() { runHostScenario(rt, sc, &obs) })
		labels := []string{"cfg=" + sc.cfg.String(), "setup=" + sc.setup, "remote=" + sc.remote}
		for l := range obs.labels {
			labels = append(labels, l)
		}
		sort.Strings(labels)
		stats.Case(name, sc.String(), obs.stopped > 0 || obs.fired, labels...)
		if stats.WantSample(name) {
			stats.Sample(name, map[string]any{"scenario": sc.String(), "calls": obs.calls, "stopped": obs.stopped, "observed": labels})
		}
	})
}
