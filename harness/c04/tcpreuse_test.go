package c04

import (
	"errors"
	"fmt"
	"net"
	"os"
	"runtime"
	"strings"
	"sync"
	"sync/atomic"
	"testing"
	"time"

	"github.com/libp2p/go-libp2p/core/control"
	"github.com/libp2p/go-libp2p/core/network"
	"github.com/libp2p/go-libp2p/core/peer"
	"github.com/libp2p/go-libp2p/core/transport"
	rcmgr "github.com/libp2p/go-libp2p/p2p/host/resource-manager"
	"github.com/libp2p/go-libp2p/p2p/net/upgrader"
	"github.com/libp2p/go-libp2p/p2p/transport/tcpreuse"
	"github.com/libp2p/go-libp2p/x/rate"
	ma "github.com/multiformats/go-multiaddr"
	manet "github.com/multiformats/go-multiaddr/net"
	"pgregory.net/rapid"

	"verif/internal/hx"
	"verif/internal/stats"
)

// Layer (e): the shared TCP listener (tcpreuse.ConnMgr, what libp2p.ShareTCPListener puts under
// the TCP and WebSocket transports). One socket accepts raw connections through the upgrader's
// gated listener (gater InterceptAccept, resource manager OpenConnection), reads their first three
// bytes and hands them to the demultiplexed listener registered for that kind (multistream / TLS /
// HTTP). Every stage between "taken from the socket" and "taken by Accept" owns a raw connection
// and a connection scope, and every one of them can be cut short by Close().
//
// This layer cannot run over memnet or inside a synctest bubble (ConnMgr opens its own socket), so
// it uses real loopback sockets and real time. Its verdict does not depend on timing: a case fails
// only if, after every Close() call has RETURNED and the harness has disposed of what Accept gave
// it, a connection scope the listener opened is still not Done, the real manager still charges
// something, or a raw connection is still open (its remote end gets neither EOF nor a reset for
// several seconds). Timing only decides which interleaving a case explores.

const tcprStatsName = "TestSharedTCPListener"

// tcprRule is appended to the package's stats.Describe text (see TestMain).
const tcprRule = " Shared TCP listener layer (TestSharedTCPListener, real loopback sockets, real time): a generated world is one tcpreuse.ConnMgr (reuseport on/off) behind the real upgrader gate " +
	"(gater rejecting every k-th InterceptAccept, resource manager refusing every k-th OpenConnection, real manager underneath) with 1-3 demultiplexed listeners on one port, 1-6 inbound raw connections " +
	"(first bytes multistream / TLS / HTTP / unknown kind; sent at once, late, split in two writes, never because the peer hangs up first, or the peer hangs up right after them), a consumer per listener " +
	"that takes a generated number of connections by Accept (0 = never; starting at a generated instant or together with Close) and Close() of every listener at generated offsets (concurrently, " +
	"non-last first). Enumerated beside it: connections that are still silent when Close comes and send their first bytes / hang up 600 ms later (Close has to wait for them), " +
	"70 connections at once (more than the 64 the listener identifies at a time: one waits for a slot when Close comes) and, thorough tier only, " +
	"connections that stay silent until the 5 s identification deadline and connections nobody accepts until the 30 s accept timeout with and without their listener closed. Audit after the last Close returned: every connection scope opened by the gate is Done, the real manager reads zero, " +
	"every raw connection is closed as seen from its remote end, Accept calls have returned, no goroutine of the package is left. Non-trivial there = at least one admitted connection had " +
	"not been released or taken by Accept when the first Close was issued; distinct = the generated world."

// tcprAssumption is listed among the package's assumptions (see TestMain).
const tcprAssumption = "the shared TCP listener layer runs on real loopback sockets in real time: which interleaving a generated world explores is not reproducible exactly; its verdict does not " +
	"depend on timing (the audit starts after Close has returned), except that a raw connection counts as not closed when its remote end sees neither EOF nor a reset for 5 s; " +
	"Listen on an existing port concurrently with Close of that port's last listener is not generated"

// ---------------------------------------------------------------------------
// scenario

type tcprClient struct {
	Kind    string // mss | tls | http | unknown: what its first bytes say
	Prefix  string // the first bytes
	Mode    string // prompt | late | split | hangupSilent | hangupPartial | silent | partialSilent
	DelayMs int    // late: first bytes after the delay; split: rest after the delay; hangup*: hang up after the delay
	GoneMs  int    // >= 0: the peer hangs up that long after it sent its first bytes; -1: it stays
	StartMs int    // when it dials
}

type tcprListener struct {
	Type        tcpreuse.DemultiplexedConnType
	Port0       bool   // registered through /tcp/0 again (else through the bound address)
	Budget      int    // connections its consumer takes by Accept; 0 = it never calls Accept
	Anchor      string // start: the consumer starts AcceptAtMs after the start; close: AcceptAtMs after the first Close is issued
	AcceptAtMs  int
	CloseAtMs   int  // Close() is issued this long after the close base
	DisposeLate bool // the consumer keeps what it accepted until the end (else closes it at once)
}

type tcprScenario struct {
	Reuseport    bool
	Listeners    []tcprListener
	Clients      []tcprClient
	WaitAdmitted bool // the close base waits until every dialled connection went through the gate
	SettleMs     int  // ... plus this long (classification needs a moment); without WaitAdmitted: this long after the start
	RefuseEvery  int  // resource manager refuses every k-th OpenConnection (0: never)
	GateEvery    int  // gater rejects every k-th InterceptAccept (0: never)
	// enumerated slow classes only
	Class       string
	MidAuditMs  int   // > 0: at this offset after the close base the clients in MidReleased must have been released
	MidReleased []int // (the accept timeout has passed for them)
}

func (sc *tcprScenario) String() string {
	var ls, cs []string
	for _, l := range sc.Listeners {
		ls = append(ls, fmt.Sprintf("{%s port0=%v budget=%d accept@%s+%dms close@+%dms disposeLate=%v}", l.Type, l.Port0, l.Budget, l.Anchor, l.AcceptAtMs, l.CloseAtMs, l.DisposeLate))
	}
	for _, c := range sc.Clients {
		cs = append(cs, fmt.Sprintf("{%s %q %s delay=%dms gone=%dms start=%dms}", c.Kind, c.Prefix, c.Mode, c.DelayMs, c.GoneMs, c.StartMs))
	}
	return fmt.Sprintf("reuseport=%v listeners=[%s] clients=[%s] waitAdmitted=%v settle=%dms refuseEvery=%d gateEvery=%d midAudit=%dms%v",
		sc.Reuseport, strings.Join(ls, " "), strings.Join(cs, " "), sc.WaitAdmitted, sc.SettleMs, sc.RefuseEvery, sc.GateEvery, sc.MidAuditMs, sc.MidReleased)
}

var tcprTypes = []tcpreuse.DemultiplexedConnType{tcpreuse.DemultiplexedConnType_MultistreamSelect, tcpreuse.DemultiplexedConnType_TLS, tcpreuse.DemultiplexedConnType_HTTP}
var tcprKindOf = map[tcpreuse.DemultiplexedConnType]string{
	tcpreuse.DemultiplexedConnType_MultistreamSelect: "mss", tcpreuse.DemultiplexedConnType_TLS: "tls", tcpreuse.DemultiplexedConnType_HTTP: "http"}

func tcprPrefix(rt *rapid.T, kind string) string {
	switch kind {
	case "mss":
		return "\x13/multistream/1.0.0\n"
	case "tls":
		return "\x16\x03" + string(rune(rapid.IntRange(1, 3).Draw(rt, "tlsMinor"))) + "\x00\x2eclienthello"
	case "http":
		return rapid.SampledFrom([]string{"GET", "HEAD", "POST", "PUT", "DELETE", "CONNECT", "OPTIONS", "TRACE", "PATCH", "PRI"}).Draw(rt, "method") + " /ws HTTP/1.1\r\n\r\n"
	}
	return rapid.SampledFrom([]string{"SSH-2.0-x\r\n", "\x00\x00\x00\x00", "\x13/x/1.0.0\n", "\x16\x03\x04\x00\x01", "get / HTTP/1.1\r\n"}).Draw(rt, "unknownPrefix")
}

func drawTCPRScenario(rt *rapid.T) *tcprScenario {
	sc := &tcprScenario{Reuseport: rapid.Bool().Draw(rt, "reuseport")}
	nl := rapid.SampledFrom([]int{1, 1, 1, 2, 2, 3}).Draw(rt, "nlisteners")
	perm := rapid.Permutation([]int{0, 1, 2}).Draw(rt, "types")
	for i := 0; i < nl; i++ {
		l := tcprListener{
			Type:        tcprTypes[perm[i]],
			Port0:       i == 0 || rapid.Bool().Draw(rt, "port0"),
			Budget:      rapid.SampledFrom([]int{0, 0, 0, 1, 1, 2, 8}).Draw(rt, "budget"),
			Anchor:      rapid.SampledFrom([]string{"start", "start", "close"}).Draw(rt, "anchor"),
			CloseAtMs:   rapid.SampledFrom([]int{0, 0, 0, 1, 2, 5, 15}).Draw(rt, "closeAt"),
			DisposeLate: rapid.Bool().Draw(rt, "disposeLate"),
		}
		if l.Anchor == "close" {
			l.AcceptAtMs = rapid.SampledFrom([]int{0, 0, 1, 2}).Draw(rt, "acceptAtClose")
		} else {
			l.AcceptAtMs = rapid.SampledFrom([]int{0, 0, 2, 5, 10, 20, 40}).Draw(rt, "acceptAt")
		}
		sc.Listeners = append(sc.Listeners, l)
	}
	nc := rapid.IntRange(1, 6).Draw(rt, "nclients")
	for i := 0; i < nc; i++ {
		var kind string
		if rapid.IntRange(0, 3).Draw(rt, "registeredKind?") > 0 {
			kind = tcprKindOf[sc.Listeners[rapid.IntRange(0, nl-1).Draw(rt, "forListener")].Type]
		} else {
			kind = rapid.SampledFrom([]string{"mss", "tls", "http", "unknown"}).Draw(rt, "kind")
		}
		c := tcprClient{
			Kind:    kind,
			Prefix:  tcprPrefix(rt, kind),
			Mode:    rapid.SampledFrom([]string{"prompt", "prompt", "prompt", "prompt", "prompt", "late", "split", "hangupSilent", "hangupPartial"}).Draw(rt, "mode"),
			DelayMs: rapid.SampledFrom([]int{1, 3, 10, 30}).Draw(rt, "delay"),
			GoneMs:  rapid.SampledFrom([]int{-1, -1, -1, -1, 0, 5}).Draw(rt, "gone"),
			StartMs: rapid.SampledFrom([]int{0, 0, 0, 1, 3}).Draw(rt, "start"),
		}
		sc.Clients = append(sc.Clients, c)
	}
	sc.WaitAdmitted = rapid.IntRange(0, 3).Draw(rt, "waitAdmitted") > 0
	sc.SettleMs = rapid.SampledFrom([]int{0, 1, 3, 10, 30, 60}).Draw(rt, "settle")
	sc.RefuseEvery = rapid.SampledFrom([]int{0, 0, 0, 0, 2, 3}).Draw(rt, "refuseEvery")
	sc.GateEvery = rapid.SampledFrom([]int{0, 0, 0, 0, 2, 3}).Draw(rt, "gateEvery")
	return sc
}

// tcprSlowScenarios: the classes that need real time (hundreds of milliseconds to seconds). They
// run beside the generated cases. "silent-at-close": connections that have not sent their first
// bytes when Close comes; Close has to wait for them; the bytes (or the hang-up) come 600 ms later.
// Thorough tier only: "silent-through-close" (they never come: Close waits for the 5 s
// identification deadline) and "accept-timeout" (nobody accepts for 30 s).
func tcprSlowScenarios() []*tcprScenario {
	const mssP, httpP, tlsP = "\x13/multistream/1.0.0\n", "GET /ws HTTP/1.1\r\n\r\n", "\x16\x03\x01\x00\x2eclienthello"
	M, T, H := tcprTypes[0], tcprTypes[1], tcprTypes[2]
	cl := func(kind, prefix, mode string) tcprClient {
		return tcprClient{Kind: kind, Prefix: prefix, Mode: mode, DelayMs: 1, GoneMs: -1}
	}
	lst := func(t tcpreuse.DemultiplexedConnType, budget, closeAt int) tcprListener {
		return tcprListener{Type: t, Port0: true, Budget: budget, Anchor: "start", CloseAtMs: closeAt, DisposeLate: true}
	}
	var out []*tcprScenario
	variants := []string{"silent-at-close"}
	if hx.Thorough() {
		variants = append(variants, "silent-through-close")
	}
	for _, v := range variants {
		n := 0
		// a connection that is silent when Close comes; whole = it has sent nothing (else 1-2 bytes)
		quiet := func(kind, prefix string, whole bool) tcprClient {
			n++
			c := cl(kind, prefix, "")
			c.DelayMs = 600
			switch {
			case v == "silent-through-close" && whole:
				c.Mode = "silent"
			case v == "silent-through-close":
				c.Mode = "partialSilent"
			case whole && n%2 == 1:
				c.Mode = "late"
			case whole:
				c.Mode = "hangupSilent"
			case n%2 == 1:
				c.Mode = "split"
			default:
				c.Mode = "hangupPartial"
			}
			return c
		}
		out = append(out,
			&tcprScenario{Class: v, Listeners: []tcprListener{lst(M, 0, 0)}, Clients: []tcprClient{cl("mss", mssP, "prompt"), quiet("mss", mssP, true)}, WaitAdmitted: true, SettleMs: 30},
			&tcprScenario{Class: v, Listeners: []tcprListener{lst(H, 0, 0), lst(M, 0, 10)}, Clients: []tcprClient{cl("http", httpP, "prompt"), quiet("mss", mssP, false), cl("tls", tlsP, "prompt"), quiet("http", httpP, true)},
				WaitAdmitted: true, SettleMs: 30},
			&tcprScenario{Class: v, Reuseport: true, Listeners: []tcprListener{lst(T, 1, 0)}, Clients: []tcprClient{cl("tls", tlsP, "prompt"), cl("tls", tlsP, "prompt"), quiet("tls", tlsP, true), quiet("tls", tlsP, false)},
				WaitAdmitted: true, SettleMs: 30},
			&tcprScenario{Class: v, Listeners: []tcprListener{lst(M, 0, 0), lst(T, 8, 0), lst(H, 0, 0)}, Clients: []tcprClient{quiet("mss", mssP, true), quiet("http", httpP, true), cl("mss", mssP, "prompt"), cl("tls", tlsP, "prompt"), cl("http", httpP, "prompt")},
				WaitAdmitted: true, SettleMs: 30, RefuseEvery: 5},
		)
	}
	// more connections than the listener identifies at a time (64): one more has been taken from the
	// socket and waits for a slot when Close comes, the rest wait in the kernel
	full := &tcprScenario{Class: "identification-queue-full", Listeners: []tcprListener{lst(M, 0, 0)}, WaitAdmitted: false, SettleMs: 150}
	for i := 0; i < 70; i++ {
		c := cl("mss", mssP, "late")
		c.DelayMs = 600
		if i%16 == 15 {
			c.Mode = "hangupSilent"
		}
		full.Clients = append(full.Clients, c)
	}
	out = append(out, full)
	if hx.Thorough() {
		out = append(out,
			// nobody accepts until the accept timeout (30 s): released without any Close
			&tcprScenario{Class: "accept-timeout", Listeners: []tcprListener{lst(M, 0, 34000)}, Clients: []tcprClient{cl("mss", mssP, "prompt"), cl("mss", mssP, "late")}, WaitAdmitted: true, SettleMs: 30,
				MidAuditMs: 33000, MidReleased: []int{0, 1}},
			// one of two listeners is closed with a connection pending; the port stays open
			&tcprScenario{Class: "accept-timeout", Listeners: []tcprListener{lst(H, 0, 0), lst(M, 0, 34000)}, Clients: []tcprClient{cl("http", httpP, "prompt"), cl("mss", mssP, "prompt")}, WaitAdmitted: true, SettleMs: 30,
				MidAuditMs: 33000, MidReleased: []int{0, 1}},
			&tcprScenario{Class: "accept-timeout", Reuseport: true, Listeners: []tcprListener{lst(T, 1, 34000), lst(H, 0, 5)}, Clients: []tcprClient{cl("tls", tlsP, "prompt"), cl("tls", tlsP, "prompt"), cl("http", httpP, "split")},
				WaitAdmitted: true, SettleMs: 30, MidAuditMs: 33000, MidReleased: []int{0, 1, 2}},
		)
	}
	return out
}

// ---------------------------------------------------------------------------
// counting resource manager and gater

var errTCPRRefused = fmt.Errorf("harness refusal: %w", network.ErrResourceLimitExceeded)

type tcprScope struct {
	network.ConnManagementScope
	endpoint string
	done     atomic.Int32
	handed   atomic.Bool // Accept gave it to the consumer: the consumer owns it
}

func (s *tcprScope) Done() {
	s.done.Add(1)
	s.ConnManagementScope.Done()
}

type tcprRM struct {
	network.ResourceManager
	refuseEvery int
	mu          sync.Mutex
	calls       int
	refused     int
	scopes      []*tcprScope
}

func (m *tcprRM) OpenConnection(dir network.Direction, usefd bool, endpoint ma.Multiaddr) (network.ConnManagementScope, error) {
	m.mu.Lock()
	m.calls++
	refuse := m.refuseEvery > 0 && m.calls%m.refuseEvery == 0
	if refuse {
		m.refused++
	}
	m.mu.Unlock()
	if refuse {
		return nil, errTCPRRefused
	}
	s, err := m.ResourceManager.OpenConnection(dir, usefd, endpoint)
	if err != nil {
		return nil, err
	}
	ts := &tcprScope{ConnManagementScope: s, endpoint: endpoint.String()}
	m.mu.Lock()
	m.scopes = append(m.scopes, ts)
	m.mu.Unlock()
	return ts, nil
}

func (m *tcprRM) snapshot() (scopes []*tcprScope, refused int) {
	m.mu.Lock()
	defer m.mu.Unlock()
	return append([]*tcprScope(nil), m.scopes...), m.refused
}

// pending: admitted, neither released nor taken by Accept
func (m *tcprRM) pending() (n int) {
	scopes, _ := m.snapshot()
	for _, s := range scopes {
		if s.done.Load() == 0 && !s.handed.Load() {
			n++
		}
	}
	return n
}

type tcprGater struct {
	every    int
	calls    atomic.Int32
	rejected atomic.Int32
}

func (g *tcprGater) InterceptAccept(network.ConnMultiaddrs) bool {
	n := int(g.calls.Add(1))
	if g.every > 0 && n%g.every == 0 {
		g.rejected.Add(1)
		return false
	}
	return true
}
func (g *tcprGater) InterceptPeerDial(peer.ID) bool               { return true }
func (g *tcprGater) InterceptAddrDial(peer.ID, ma.Multiaddr) bool { return true }
func (g *tcprGater) InterceptSecured(network.Direction, peer.ID, network.ConnMultiaddrs) bool {
	return true
}
func (g *tcprGater) InterceptUpgraded(network.Conn) (bool, control.DisconnectReason) { return true, 0 }

// ---------------------------------------------------------------------------
// one world

type tcprResult struct {
	failure      string // property violated
	inconclusive string // resource / timing problem of the harness: never a violation
	pending      int    // admitted connections inside the shared listener when the first Close was issued
	admitted     int
	refused      int
	gated        int
	handed       int
	racingAccept bool // a consumer was blocked in Accept (or about to call it) when Close came
	dialFailed   int
}

const (
	tcprCloseBudget  = 40 * time.Second // Close may have to wait for the 5 s identification deadline
	tcprRemoteBudget = 5 * time.Second  // a closed loopback connection shows EOF / reset at once
)

type tcprClientState struct {
	mu    sync.Mutex
	conn  net.Conn
	local string // multiaddr of the client's end = the endpoint the gate saw
	gone  bool   // the client closed its end itself
}

func tcprAwaitClosed(c net.Conn, d time.Duration) bool {
	c.SetReadDeadline(time.Now().Add(d))
	buf := make([]byte, 256)
	for {
		if _, err := c.Read(buf); err != nil {
			return !errors.Is(err, os.ErrDeadlineExceeded)
		}
	}
}

func runTCPRWorld(sc *tcprScenario) (res tcprResult) {
	ms := func(n int) time.Duration { return time.Duration(n) * time.Millisecond }
	real, err := rcmgr.NewResourceManager(rcmgr.NewFixedLimiter(rcmgr.InfiniteLimits), rcmgr.WithMetricsDisabled(), rcmgr.WithConnRateLimiters(&rate.Limiter{}),
		rcmgr.WithLimitPerSubnet([]rcmgr.ConnLimitPerSubnet{{PrefixLength: 32, ConnCount: 1 << 20}}, []rcmgr.ConnLimitPerSubnet{{PrefixLength: 56, ConnCount: 1 << 20}}))
	if err != nil {
		res.inconclusive = fmt.Sprintf("resource manager: %v", err)
		return
	}
	defer real.Close()
	crm := &tcprRM{ResourceManager: real, refuseEvery: sc.RefuseEvery}
	gt := &tcprGater{every: sc.GateEvery}
	up, err := upgrader.New(nil, nil, nil, crm, gt)
	if err != nil {
		res.inconclusive = fmt.Sprintf("upgrader: %v", err)
		return
	}
	cm := tcpreuse.NewConnMgr(sc.Reuseport, up)

	// listeners, one after the other (registration is not part of the race)
	var dls []transport.GatedMaListener
	closeAll := func() {
		for _, dl := range dls {
			dl.Close()
		}
	}
	var bound ma.Multiaddr
	for i, lp := range sc.Listeners {
		addr := ma.StringCast("/ip4/127.0.0.1/tcp/0")
		if i > 0 && !lp.Port0 {
			addr = bound
		}
		dl, err := cm.DemultiplexedListen(addr, lp.Type)
		if err != nil {
			closeAll()
			res.inconclusive = fmt.Sprintf("listen %s on %s: %v", lp.Type, addr, err)
			return
		}
		dls = append(dls, dl)
		if i == 0 {
			bound = dl.Multiaddr()
		} else if !dl.Multiaddr().Equal(bound) {
			closeAll()
			res.inconclusive = fmt.Sprintf("listener %d was bound to %s, the first one to %s: not the world that was asked for", i, dl.Multiaddr(), bound)
			return
		}
	}
	target := dls[0].Addr().String()

	t0 := time.Now()
	closing := make(chan struct{}) // closed when the first Close is about to be issued

	// consumers
	type owned struct {
		c manet.Conn
		s network.ConnManagementScope
	}
	var (
		ownMu     sync.Mutex
		kept      []owned
		inAccept  atomic.Int32
		accWG     sync.WaitGroup
		accDone   = make(chan struct{})
		handedCnt atomic.Int32
	)
	dispose := func(o owned) {
		o.c.Close()
		o.s.Done()
	}
	for i, lp := range sc.Listeners {
		if lp.Budget == 0 {
			continue
		}
		accWG.Add(1)
		go func() {
			defer accWG.Done()
			if lp.Anchor == "close" {
				<-closing
				time.Sleep(ms(lp.AcceptAtMs))
			} else {
				time.Sleep(time.Until(t0.Add(ms(lp.AcceptAtMs))))
			}
			for n := 0; n < lp.Budget; n++ {
				inAccept.Add(1)
				c, s, err := dls[i].Accept()
				inAccept.Add(-1)
				if err != nil {
					return
				}
				if ts, ok := s.(*tcprScope); ok {
					ts.handed.Store(true)
				}
				handedCnt.Add(1)
				if lp.DisposeLate {
					ownMu.Lock()
					kept = append(kept, owned{c, s})
					ownMu.Unlock()
				} else {
					dispose(owned{c, s})
				}
			}
		}()
	}
	go func() { accWG.Wait(); close(accDone) }()

	// clients
	states := make([]*tcprClientState, len(sc.Clients))
	var dialled, clientsDone sync.WaitGroup
	var dialOK atomic.Int32
	for i, cp := range sc.Clients {
		st := &tcprClientState{}
		states[i] = st
		dialled.Add(1)
		clientsDone.Add(1)
		go func() {
			defer clientsDone.Done()
			time.Sleep(time.Until(t0.Add(ms(cp.StartMs))))
			c, err := net.DialTimeout("tcp4", target, 3*time.Second)
			if err == nil {
				st.mu.Lock()
				st.conn = c
				if a, err := manet.FromNetAddr(c.LocalAddr()); err == nil {
					st.local = a.String()
				}
				st.mu.Unlock()
				dialOK.Add(1)
			}
			dialled.Done()
			if err != nil {
				return
			}
			hangup := func() {
				st.mu.Lock()
				st.gone = true
				st.mu.Unlock()
				c.Close()
			}
			p := []byte(cp.Prefix)
			cut := 1 + (i+len(p))%2 // 1 or 2 bytes: less than the three the listener samples
			c.SetWriteDeadline(time.Now().Add(3 * time.Second))
			switch cp.Mode {
			case "prompt":
				c.Write(p)
			case "late":
				time.Sleep(ms(cp.DelayMs))
				c.Write(p)
			case "split":
				c.Write(p[:cut])
				time.Sleep(ms(cp.DelayMs))
				c.Write(p[cut:])
			case "hangupSilent":
				time.Sleep(ms(cp.DelayMs))
				hangup()
				return
			case "hangupPartial":
				c.Write(p[:cut])
				time.Sleep(ms(cp.DelayMs))
				hangup()
				return
			case "silent":
				return
			case "partialSilent":
				c.Write(p[:cut])
				return
			}
			if cp.GoneMs >= 0 {
				time.Sleep(ms(cp.GoneMs))
				hangup()
			}
		}()
	}

	// close base
	dialled.Wait()
	if sc.WaitAdmitted {
		deadline := time.Now().Add(2 * time.Second)
		for int(gt.calls.Load()) < int(dialOK.Load()) && time.Now().Before(deadline) {
			time.Sleep(200 * time.Microsecond)
		}
		time.Sleep(ms(sc.SettleMs))
	} else {
		time.Sleep(time.Until(t0.Add(ms(sc.SettleMs))))
	}
	res.pending = crm.pending()
	res.racingAccept = inAccept.Load() > 0
	for _, lp := range sc.Listeners {
		if lp.Budget > 0 && lp.Anchor == "close" {
			res.racingAccept = true
		}
	}
	close(closing)
	tc := time.Now()

	// Close of every listener at its offset, concurrently
	var closeWG sync.WaitGroup
	closed := make(chan struct{})
	for i, lp := range sc.Listeners {
		closeWG.Add(1)
		go func() {
			defer closeWG.Done()
			time.Sleep(time.Until(tc.Add(ms(lp.CloseAtMs))))
			dls[i].Close()
		}()
	}
	go func() { closeWG.Wait(); close(closed) }()

	describe := func(endpoint string) string {
		for i, st := range states {
			st.mu.Lock()
			l, gone := st.local, st.gone
			st.mu.Unlock()
			if l == endpoint {
				return fmt.Sprintf("client %d %+v (peer hung up: %v)", i, sc.Clients[i], gone)
			}
		}
		return "unknown client " + endpoint
	}

	if sc.MidAuditMs > 0 {
		// the accept timeout has passed for these: released although (some) listeners are still open
		time.Sleep(time.Until(tc.Add(ms(sc.MidAuditMs))))
		scopes, _ := crm.snapshot()
		for _, ci := range sc.MidReleased {
			st := states[ci]
			st.mu.Lock()
			c, local := st.conn, st.local
			st.mu.Unlock()
			if c == nil {
				continue
			}
			for _, s := range scopes {
				if s.endpoint == local && !s.handed.Load() && s.done.Load() == 0 {
					res.failure = fmt.Sprintf("%d ms after it was admitted (accept timeout 30 s) and never taken by Accept, the connection scope of %s is still open", sc.MidAuditMs, describe(local))
				}
			}
			if res.failure == "" && !tcprAwaitClosed(c, 2*time.Second) {
				// only a violation if the listener still owns it (not handed to the consumer)
				own := false
				for _, s := range scopes {
					if s.endpoint == local && s.handed.Load() {
						own = true
					}
				}
				if !own {
					res.failure = fmt.Sprintf("%d ms after it was admitted (accept timeout 30 s) and never taken by Accept, the raw connection of %s is still open", sc.MidAuditMs, describe(local))
				}
			}
		}
	}

	select {
	case <-closed:
	case <-time.After(tcprCloseBudget):
		res.inconclusive = fmt.Sprintf("Close of the listeners did not return within %v", tcprCloseBudget)
		return
	}
	select {
	case <-accDone:
	case <-time.After(10 * time.Second):
		if res.failure == "" {
			res.failure = "Accept did not return although Close of its listener had returned 10 s before"
		}
		return
	}
	clientsDone.Wait()
	ownMu.Lock()
	for _, o := range kept {
		dispose(o)
	}
	kept = nil
	ownMu.Unlock()
	res.handed = int(handedCnt.Load())
	res.gated = int(gt.rejected.Load())
	for _, st := range states {
		if st.conn == nil {
			res.dialFailed++
		}
	}
	if res.failure != "" {
		for _, st := range states {
			if st.conn != nil {
				st.conn.Close()
			}
		}
		return
	}

	// ---- audit: every Close has returned, the consumers have disposed of what they were given
	scopes, refused := crm.snapshot()
	res.admitted, res.refused = len(scopes), refused
	for _, s := range scopes {
		if s.done.Load() == 0 {
			res.failure = fmt.Sprintf("after every listener of the port was closed the connection scope opened for %s was never Done (taken by Accept: %v)", describe(s.endpoint), s.handed.Load())
			break
		}
	}
	if res.failure == "" {
		st := real.(rcmgr.ResourceManagerState).Stat()
		zero := network.ScopeStat{}
		if st.System != zero || st.Transient != zero {
			res.failure = fmt.Sprintf("after every listener of the port was closed the resource manager still charges system=%+v transient=%+v", st.System, st.Transient)
		}
	}
	if res.failure == "" {
		var wg sync.WaitGroup
		open := make([]bool, len(states))
		for i, st := range states {
			if st.conn == nil || st.gone {
				continue
			}
			wg.Add(1)
			go func() {
				defer wg.Done()
				open[i] = !tcprAwaitClosed(st.conn, tcprRemoteBudget)
			}()
		}
		wg.Wait()
		for i, o := range open {
			if o {
				res.failure = fmt.Sprintf("%v after every listener of the port was closed the raw connection of %s is still open (its remote end got neither EOF nor a reset)", tcprRemoteBudget, describe(states[i].local))
				break
			}
		}
	}
	for _, st := range states {
		if st.conn != nil {
			st.conn.Close()
		}
	}
	return
}

// ---------------------------------------------------------------------------

func tcprGoroutines() (n int, dump string) {
	buf := make([]byte, 8<<20)
	buf = buf[:runtime.Stack(buf, true)]
	var b strings.Builder
	for _, g := range strings.Split(string(buf), "\n\n") {
		if strings.Contains(g, "go-libp2p/p2p/transport/tcpreuse.") {
			n++
			b.WriteString(g)
			b.WriteString("\n\n")
		}
	}
	return n, b.String()
}

func tcprRecord(sc *tcprScenario, res tcprResult, class string) {
	labels := []string{"tcpreuse:class=" + class, fmt.Sprintf("tcpreuse:listeners=%d", len(sc.Listeners))}
	switch {
	case res.inconclusive != "":
		labels = append(labels, "tcpreuse:inconclusive")
	case res.pending == 0:
		labels = append(labels, "tcpreuse:pending-at-close=0")
	case res.pending == 1:
		labels = append(labels, "tcpreuse:pending-at-close=1")
	default:
		labels = append(labels, "tcpreuse:pending-at-close=2+")
	}
	if res.pending > 64 {
		labels = append(labels, "tcpreuse:conn-waiting-for-identification-slot-at-close")
	}
	if res.racingAccept {
		labels = append(labels, "tcpreuse:accept-racing-close")
	}
	if res.handed > 0 {
		labels = append(labels, "tcpreuse:some-taken-by-accept")
	}
	if res.refused > 0 {
		labels = append(labels, "tcpreuse:rcmgr-refused-some")
	}
	if res.gated > 0 {
		labels = append(labels, "tcpreuse:gater-rejected-some")
	}
	if res.dialFailed > 0 {
		labels = append(labels, "tcpreuse:dial-after-close")
	}
	if sc.Reuseport {
		labels = append(labels, "tcpreuse:reuseport")
	}
	staggered, never := false, true
	for _, l := range sc.Listeners {
		if l.CloseAtMs != sc.Listeners[0].CloseAtMs {
			staggered = true
		}
		if l.Budget > 0 {
			never = false
		}
	}
	if staggered {
		labels = append(labels, "tcpreuse:closes-staggered")
	}
	if never {
		labels = append(labels, "tcpreuse:nobody-accepts")
	}
	seen := map[string]bool{}
	registered := map[string]bool{}
	for _, l := range sc.Listeners {
		registered[tcprKindOf[l.Type]] = true
	}
	for _, c := range sc.Clients {
		for _, l := range []string{"tcpreuse:conn-kind=" + c.Kind, "tcpreuse:conn-mode=" + c.Mode} {
			if !seen[l] {
				seen[l] = true
				labels = append(labels, l)
			}
		}
		if !registered[c.Kind] && !seen["x"] && (c.Mode == "prompt" || c.Mode == "late" || c.Mode == "split") {
			seen["x"] = true
			labels = append(labels, "tcpreuse:conn-for-unregistered-kind")
		}
		if c.GoneMs >= 0 && !seen["g"] && (c.Mode == "prompt" || c.Mode == "late" || c.Mode == "split") {
			seen["g"] = true
			labels = append(labels, "tcpreuse:peer-gone-after-first-bytes")
		}
	}
	nontrivial := res.inconclusive == "" && res.pending > 0
	if class == "generated" {
		stats.Case(tcprStatsName, sc.String(), nontrivial, labels...)
	} else {
		stats.CaseEnumerated(tcprStatsName, nontrivial, labels...)
	}
	if stats.WantSample(tcprStatsName) {
		stats.Sample(tcprStatsName, map[string]any{"world": sc.String(), "pendingAtFirstClose": res.pending, "admitted": res.admitted, "takenByAccept": res.handed,
			"refused": res.refused, "gated": res.gated})
	}
}

// TestSharedTCPListener: generated worlds of the shared TCP listener plus the enumerated slow
// classes (running beside them, so that their seconds are not added up).
func TestSharedTCPListener(t *testing.T) {
	before, _ := tcprGoroutines()

	type slowResult struct {
		sc  *tcprScenario
		res tcprResult
	}
	var inconclusive atomic.Bool
	var slowWG sync.WaitGroup
	var slowMu sync.Mutex
	var slow []slowResult
	if os.Getenv("VERIF_REPLAY") == "" {
		for k, sc := range tcprSlowScenarios() {
			if !hx.Mine(k) {
				continue
			}
			slowWG.Add(1)
			go func() {
				defer slowWG.Done()
				res := runTCPRWorld(sc)
				slowMu.Lock()
				slow = append(slow, slowResult{sc, res})
				slowMu.Unlock()
			}()
		}
	}
	finish := func() {
		slowWG.Wait()
		for _, s := range slow {
			tcprRecord(s.sc, s.res, s.sc.Class)
			if s.res.inconclusive != "" {
				inconclusive.Store(true)
				t.Logf("HARNESS-INCONCLUSIVE (not a violation): %s\nworld: %s", s.res.inconclusive, s.sc)
			}
			if s.res.failure != "" {
				t.Errorf("%s\nworld: %s", s.res.failure, s.sc)
			}
		}
		slow = nil
		if t.Failed() || inconclusive.Load() {
			return // goroutines of an abandoned world may still be there
		}
		// no goroutine of the shared listener outlives its worlds
		deadline := time.Now().Add(5 * time.Second)
		for {
			n, dump := tcprGoroutines()
			if n <= before {
				break
			}
			if time.Now().After(deadline) {
				t.Errorf("%d goroutine(s) of the shared TCP listener are still running after every listener was closed:\n%s", n-before, dump)
				break
			}
			time.Sleep(20 * time.Millisecond)
		}
	}
	defer finish()

	hx.Check(t, 120, 4800, 0, func(rt *rapid.T) {
		sc := drawTCPRScenario(rt)
		res := runTCPRWorld(sc)
		tcprRecord(sc, res, "generated")
		if res.inconclusive != "" {
			inconclusive.Store(true)
			rt.Logf("HARNESS-INCONCLUSIVE (not a violation): %s\nworld: %s", res.inconclusive, sc)
			return
		}
		if res.failure != "" {
			rt.Fatalf("%s\nworld: %s", res.failure, sc)
		}
	})
}
