package c04

import (
	"testing"

	"verif/internal/hx"
	"verif/internal/kf"
)

// A peer that hangs up between the end of the upgrade and the listener's Accept: the
// queued connection used to be skipped without Close and its connection scope leaked
// (system conns-in 1 / fd 1 for good). Repaired in /repo.
func TestWitness_HangupInAcceptQueue(t *testing.T) {
	hx.Shard0(t)
	for _, cfg := range allConfigs[:2] {
		kf.Witness(t, "C04-accept-skips-closed-conn", func() (bool, string) {
			o := run(t, cfg, []fault{{Class: "hangupInQueue"}})
			return o.failure != "", o.failure
		})
	}
}
