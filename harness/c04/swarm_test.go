package c04

import (
	"context"
	"fmt"
	rcmgr "github.com/libp2p/go-libp2p/p2p/host/resource-manager"
	"net"
	"sort"
	"strings"
	"sync"
	"sync/atomic"
	"testing"
	"testing/synctest"
	"time"

	"github.com/libp2p/go-libp2p/core/network"
	"github.com/libp2p/go-libp2p/p2p/host/eventbus"
	"github.com/libp2p/go-libp2p/p2p/host/peerstore/pstoremem"
	"github.com/libp2p/go-libp2p/p2p/net/swarm"
	ma "github.com/multiformats/go-multiaddr"
	"pgregory.net/rapid"

	"verif/internal/faultconn"
	"verif/internal/hx"
	"verif/internal/memtpt"
	"verif/internal/stats"
)

// Layer (c): two real swarms over the in-memory transport with real resource managers.
// A generated scenario dials, opens streams (attaching them to protocol / service scopes
// and reserving memory like a host would), injects one raw I/O fault and resource-manager
// refusals, and closes connections, peers and swarms at generated instants. After both
// swarms are closed every scope of both managers must read zero, every raw connection must
// have been closed by both sides, no connection / listener may be listed any more and the
// bubble must be able to exit.

type swarmScenario struct {
	cfg      config
	ioSide   string
	ioK      int
	ioKind   faultconn.Kind
	refSide  string
	refHook  string
	refN     int
	refKill  bool // instead of refusing that call: close the node's connections while it is in progress
	// dialGiveUp k > 0: the caller of DialPeer gives up after k/2 ms (0: after a generous 20 s)
	dialGiveUp int
	nStreams int
	// closeNotReset: the dialling side finishes a stream that failed with Close() only (the usual
	// deferred Close) instead of Reset(); serverResetEvery k>0: the echo handler resets every
	// k-th stream instead of answering (so that the remote reset comes first)
	closeNotReset    bool
	serverResetEvery int
	actions          []swarmAction
	closeAt          [2]int // ms; when each swarm is closed
	// swarm-level gaters: InterceptUpgraded takes this long (ms) and may reject
	upgDelay  [2]int
	upgReject [2]bool
}

type swarmAction struct {
	at   int    // ms
	kind string // closeConn | closePeer | openStream | resetStream | serverClosePeer
}

func drawSwarmScenario(rt *rapid.T) *swarmScenario {
	sc := &swarmScenario{cfg: allConfigs[rapid.IntRange(0, len(allConfigs)-1).Draw(rt, "cfg")]}
	if rapid.Bool().Draw(rt, "io?") {
		sc.ioSide = rapid.SampledFrom([]string{"client", "server"}).Draw(rt, "ioSide")
		sc.ioK = rapid.IntRange(0, 45).Draw(rt, "ioK")
		sc.ioKind = faultconn.Kinds[rapid.IntRange(0, len(faultconn.Kinds)-1).Draw(rt, "ioKind")]
	}
	if rapid.Bool().Draw(rt, "ref?") {
		sc.refSide = rapid.SampledFrom([]string{"client", "server"}).Draw(rt, "refSide")
		sc.refHook = rapid.SampledFrom([]string{"OpenConnection", "SetPeer", "BeginSpan", "ReserveMemory", "OpenStream", "SetProtocol", "SetService"}).Draw(rt, "refHook")
		sc.refN = rapid.IntRange(0, 3).Draw(rt, "refN")
		sc.refKill = rapid.IntRange(0, 1).Draw(rt, "refKill") == 0
		if sc.refKill {
			// not from inside the muxer's own receive loop (ReserveMemory / BeginSpan of an incoming
			// stream): closing the session there would wait for the very goroutine that is calling
			sc.refHook = rapid.SampledFrom([]string{"OpenStream", "OpenStream", "SetProtocol", "SetService", "SetPeer", "OpenConnection"}).Draw(rt, "killHook")
		}
	}
	sc.nStreams = rapid.IntRange(0, 4).Draw(rt, "nStreams")
	sc.closeNotReset = rapid.Bool().Draw(rt, "closeNotReset")
	sc.serverResetEvery = rapid.SampledFrom([]int{0, 0, 1, 2}).Draw(rt, "serverResetEvery")
	na := rapid.IntRange(0, 4).Draw(rt, "nactions")
	for i := 0; i < na; i++ {
		sc.actions = append(sc.actions, swarmAction{
			at:   rapid.SampledFrom([]int{0, 1, 3, 6, 10, 20, 40, 80}).Draw(rt, "at"),
			kind: rapid.SampledFrom([]string{"closeConn", "closePeer", "openStream", "resetStream", "serverClosePeer", "serverCloseWithError", "clientHangup"}).Draw(rt, "kind"),
		})
	}
	if rapid.IntRange(0, 2).Draw(rt, "dialGiveUp?") == 0 {
		// the only caller of DialPeer gives up after k half-milliseconds (the link's one-way latency is
		// 1 ms, so some of these instants are the very instant the handshake or the upgrade completes)
		sc.dialGiveUp = rapid.IntRange(1, 30).Draw(rt, "dialGiveUp")
	}
	keepOpen := rapid.IntRange(0, 2).Draw(rt, "keepOpen") == 0 // no scheduled Swarm.Close: connections live until the final audit
	for i := 0; i < 2; i++ {
		if keepOpen {
			sc.closeAt[i] = -1
			continue
		}
		if rapid.Bool().Draw(rt, "fineClose") {
			sc.closeAt[i] = rapid.IntRange(0, 70).Draw(rt, "closeFine") // around the end of the handshake
		} else {
			sc.closeAt[i] = rapid.SampledFrom([]int{2, 5, 12, 30, 100, 400}).Draw(rt, "close")
		}
		if rapid.IntRange(0, 2).Draw(rt, "gater?") == 0 {
			sc.upgDelay[i] = rapid.SampledFrom([]int{0, 3, 10, 30}).Draw(rt, "upgDelay")
			sc.upgReject[i] = rapid.IntRange(0, 2).Draw(rt, "upgReject") == 0
		}
	}
	return sc
}

func (sc *swarmScenario) String() string {
	var as []string
	for _, a := range sc.actions {
		as = append(as, fmt.Sprintf("%s@%d", a.kind, a.at))
	}
	return fmt.Sprintf("giveUp=%d/2ms ", sc.dialGiveUp) + fmt.Sprintf("%s io=%s/op%d/%s ref=%s/%s#%d(kill=%v) streams=%d(closeNotReset=%v serverResetEvery=%d) actions=[%s] close=%v upgradedGater(delay=%v reject=%v)", sc.cfg, sc.ioSide, sc.ioK, sc.ioKind, sc.refSide, sc.refHook, sc.refN, sc.refKill, sc.nStreams, sc.closeNotReset, sc.serverResetEvery,
		strings.Join(as, " "), sc.closeAt, sc.upgDelay, sc.upgReject)
}

func TestSwarmPair(t *testing.T) {
	name := t.Name()
	hx.Check(t, 10000, 800000, 0, func(rt *rapid.T) {
		sc := drawSwarmScenario(rt)
		var fired, established, killFired, gaveUp bool
		hx.Bubble(t, rt, func() {
			nw := memtpt.NewNetwork()
			nw.Latency = time.Millisecond
			var planC, planS *faultconn.Plan
			if sc.ioSide == "client" {
				planC = &faultconn.Plan{At: sc.ioK, Kind: sc.ioKind}
			} else if sc.ioSide == "server" {
				planS = &faultconn.Plan{At: sc.ioK, Kind: sc.ioKind}
			}
			nw.PlanDial = func(n int) *faultconn.Plan {
				if n == 0 {
					return planC
				}
				return nil
			}
			nw.PlanAccept = func(n int) *faultconn.Plan {
				if n == 0 {
					return planS
				}
				return nil
			}
			var refC, refS *refusal
			if sc.refSide == "client" {
				refC = &refusal{kind: sc.refHook, n: sc.refN}
			} else if sc.refSide == "server" {
				refS = &refusal{kind: sc.refHook, n: sc.refN}
			}
			client, err := newNode(0, sc.cfg, nw, refC, nil, net.IPv4(10, 0, 0, 1))
			if err != nil {
				rt.Fatalf("client: %v", err)
			}
			defer client.real.Close()
			server, err := newNode(1, sc.cfg, nw, refS, nil, net.IPv4(10, 0, 0, 2))
			if err != nil {
				rt.Fatalf("server: %v", err)
			}
			defer server.real.Close()
			var sws [2]*swarm.Swarm
			for i, n := range []*node{client, server} {
				ps, err := pstoremem.NewPeerstore()
				if err != nil {
					rt.Fatalf("peerstore: %v", err)
				}
				defer ps.Close()
				opts := []swarm.Option{swarm.WithResourceManager(n.rm), swarm.WithUDPBlackHoleSuccessCounter(nil), swarm.WithIPv6BlackHoleSuccessCounter(nil)}
				if sc.upgDelay[i] > 0 || sc.upgReject[i] {
					g := &gater{upgradedDelay: time.Duration(sc.upgDelay[i]) * time.Millisecond}
					if sc.upgReject[i] {
						g.hook = "InterceptUpgraded"
					}
					opts = append(opts, swarm.WithConnectionGater(g))
				}
				sw, err := swarm.NewSwarm(n.id.ID, ps, eventbus.NewBus(), opts...)
				if err != nil {
					rt.Fatalf("swarm: %v", err)
				}
				if err := sw.AddTransport(n.tpt); err != nil {
					rt.Fatalf("transport: %v", err)
				}
				sws[i] = sw
			}
			if sc.refKill {
				for i, r := range []*refusal{refC, refS} {
					if r != nil {
						r.act = func() {
							for _, c := range sws[i].Conns() {
								c.Close()
							}
						}
					}
				}
			}
			if err := sws[1].Listen(laddr); err != nil {
				rt.Fatalf("listen: %v", err)
			}
			// the server echoes on every stream after attaching it to a protocol and a service
			var served atomic.Int64
			sws[1].SetStreamHandler(func(s network.Stream) {
				if k := sc.serverResetEvery; k > 0 && served.Add(1)%int64(k) == 0 {
					s.Reset()
					return
				}
				defer s.Close()
				if err := s.Scope().SetService("echo-svc"); err == nil {
					_ = err
				}
				if sm, ok := s.Scope().(network.StreamManagementScope); ok {
					sm.SetProtocol("/echo/1")
					sm.SetService("echo-svc")
				}
				if err := s.Scope().ReserveMemory(1024, network.ReservationPriorityAlways); err == nil {
					defer s.Scope().ReleaseMemory(1024)
				}
				buf := make([]byte, 4)
				s.SetDeadline(time.Now().Add(5 * time.Second))
				if _, err := readFull(s, buf); err != nil {
					s.Reset()
					return
				}
				s.Write(buf)
			})
			sws[0].Peerstore().AddAddr(server.id.ID, laddr, time.Hour)

			var mu sync.Mutex
			var streams []network.Stream
			openStream := func() {
				ctx, cancel := context.WithTimeout(context.Background(), 5*time.Second)
				defer cancel()
				s, err := sws[0].NewStream(ctx, server.id.ID)
				if err != nil {
					return
				}
				mu.Lock()
				streams = append(streams, s)
				mu.Unlock()
				giveUp := func() {
					if sc.closeNotReset {
						s.Close()
					} else {
						s.Reset()
					}
				}
				if sm, ok := s.Scope().(network.StreamManagementScope); ok {
					if err := sm.SetProtocol("/echo/1"); err != nil {
						giveUp()
						return
					}
					if err := sm.SetService("echo-svc"); err != nil {
						giveUp()
						return
					}
				}
				if err := s.Scope().ReserveMemory(2048, network.ReservationPriorityAlways); err != nil {
					giveUp()
					return
				}
				defer s.Scope().ReleaseMemory(2048)
				s.SetDeadline(time.Now().Add(5 * time.Second))
				if _, err := s.Write([]byte("ping")); err != nil {
					giveUp()
					return
				}
				buf := make([]byte, 4)
				if _, err := readFull(s, buf); err != nil {
					giveUp()
					return
				}
				s.Close()
			}
			var wg sync.WaitGroup
			at := func(ms int, f func()) {
				wg.Add(1)
				go func() { defer wg.Done(); time.Sleep(time.Duration(ms) * time.Millisecond); f() }()
			}
			at(0, func() {
				d := 20 * time.Second
				if sc.dialGiveUp > 0 {
					d = time.Duration(sc.dialGiveUp) * 500 * time.Microsecond
				}
				ctx, cancel := context.WithTimeout(context.Background(), d)
				defer cancel()
				c, err := sws[0].DialPeer(ctx, server.id.ID)
				if err != nil && sc.dialGiveUp > 0 {
					gaveUp = true
				}
				if err == nil && c != nil {
					established = true
					for i := 0; i < sc.nStreams; i++ {
						at(i, openStream)
					}
				}
			})
			for _, a := range sc.actions {
				switch a.kind {
				case "closeConn":
					at(a.at, func() {
						for _, c := range sws[0].ConnsToPeer(server.id.ID) {
							c.Close()
						}
					})
				case "closePeer":
					at(a.at, func() { sws[0].ClosePeer(server.id.ID) })
				case "serverClosePeer":
					at(a.at, func() { sws[1].ClosePeer(client.id.ID) })
				case "serverCloseWithError": // what a connection-manager trim does
					at(a.at, func() {
						for _, c := range sws[1].ConnsToPeer(client.id.ID) {
							c.CloseWithError(network.ConnGarbageCollected)
						}
					})
				case "clientHangup": // the raw connection dies under the client
					at(a.at, func() {
						for _, p := range nw.Pairs() {
							if p.Client != nil {
								p.Client.Close()
							}
						}
					})
				case "openStream":
					at(a.at, openStream)
				case "resetStream":
					at(a.at, func() {
						mu.Lock()
						ss := append([]network.Stream(nil), streams...)
						mu.Unlock()
						for _, s := range ss {
							s.Reset()
						}
					})
				}
			}
			for i := range sws {
				if sc.closeAt[i] >= 0 {
					at(sc.closeAt[i], func() { sws[i].Close() })
				}
			}
			// Long after every stream has been finished by its opener and its handler, while
			// connections may still be up: nothing may be charged for streams any more.
			var midFail atomic.Pointer[string]
			at(100_000, func() {
				synctest.Wait()
				for i, n := range []*node{client, server} {
					side := []string{"dialling", "listening"}[i]
					st := n.real.(rcmgr.ResourceManagerState).Stat().System
					if st.NumStreamsInbound != 0 || st.NumStreamsOutbound != 0 {
						m := fmt.Sprintf("100 s after the last stream was finished the %s side's resource manager still charges streams: %+v", side, st)
						midFail.CompareAndSwap(nil, &m)
					}
					for _, c := range sws[i].Conns() {
						if ss := c.GetStreams(); len(ss) != 0 || c.Stat().NumStreams != 0 {
							m := fmt.Sprintf("100 s after the last stream was finished the %s side's connection %s still lists %d streams (NumStreams=%d)", side, c.ID(), len(ss), c.Stat().NumStreams)
							midFail.CompareAndSwap(nil, &m)
						}
					}
				}
			})
			time.Sleep(120 * time.Second)
			synctest.Wait()
			wg.Wait()
			synctest.Wait()
			if m := midFail.Load(); m != nil {
				rt.Fatalf("%s\nscenario: %s", *m, sc)
			}
			for _, sw := range sws {
				sw.Close() // idempotent
			}
			time.Sleep(65 * time.Second) // the managers' scope GC
			synctest.Wait()

			for _, p := range []*faultconn.Plan{planC, planS} {
				if p != nil && p.Fired.Load() {
					fired = true
				}
			}
			for _, r := range []*refusal{refC, refS} {
				if r != nil && r.fired.Load() {
					fired = true
					killFired = killFired || r.act != nil
				}
			}
			for i, n := range []*node{client, server} {
				side := []string{"dialling", "listening"}[i]
				if u := n.usage(); u != "" {
					rt.Fatalf("after both swarms were closed the %s side's resource manager still charges%s\nscenario: %s", side, u, sc)
				}
				if c := sws[i].Conns(); len(c) != 0 {
					rt.Fatalf("after Close the %s swarm still lists %d connections\nscenario: %s", side, len(c), sc)
				}
				if l := sws[i].ListenAddresses(); len(l) != 0 {
					rt.Fatalf("after Close the %s swarm still lists listen addresses %v\nscenario: %s", side, l, sc)
				}
			}
			for i, p := range nw.Pairs() {
				if p.Client == nil {
					continue
				}
				if !p.Client.Closed() {
					rt.Fatalf("raw connection %d was never closed by the dialling side\nscenario: %s", i, sc)
				}
				if !p.Server.Closed() {
					rt.Fatalf("raw connection %d was never closed by the listening side\nscenario: %s", i, sc)
				}
			}
		})
		labels := []string{"cfg=" + sc.cfg.String()}
		if fired {
			labels = append(labels, "fault-fired")
		}
		if established {
			labels = append(labels, "established")
		}
		if killFired {
			labels = append(labels, "connections-closed-during-rcmgr-call:"+sc.refSide+"/"+sc.refHook)
		}
		if sc.dialGiveUp > 0 {
			labels = append(labels, "dial-caller-gives-up-early")
			if gaveUp {
				labels = append(labels, "dial-caller-gave-up-before-the-connection-was-handed-out")
			}
		}
		var kinds []string
		for _, a := range sc.actions {
			kinds = append(kinds, a.kind)
		}
		sort.Strings(kinds)
		stats.Case(name, sc.String(), fired || len(sc.actions) > 0, labels...)
		if stats.WantSample(name) {
			stats.Sample(name, sc.String())
		}
	})
}

var _ ma.Multiaddr
