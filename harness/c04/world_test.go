package c04

import (
	"context"
	"errors"
	"fmt"
	"net"
	"sync"
	"sync/atomic"
	"time"

	"github.com/libp2p/go-libp2p/core/control"
	"github.com/libp2p/go-libp2p/core/network"
	"github.com/libp2p/go-libp2p/core/peer"
	"github.com/libp2p/go-libp2p/core/protocol"
	"github.com/libp2p/go-libp2p/core/sec"
	"github.com/libp2p/go-libp2p/core/transport"
	rcmgr "github.com/libp2p/go-libp2p/p2p/host/resource-manager"
	"github.com/libp2p/go-libp2p/p2p/muxer/yamux"
	"github.com/libp2p/go-libp2p/p2p/net/upgrader"
	"github.com/libp2p/go-libp2p/p2p/security/noise"
	libp2ptls "github.com/libp2p/go-libp2p/p2p/security/tls"
	"github.com/libp2p/go-libp2p/x/rate"
	ma "github.com/multiformats/go-multiaddr"

	"verif/internal/keys"
	"verif/internal/memtpt"
)

// ---------------------------------------------------------------------------
// resource-manager wrapper that refuses the n-th call of one kind before delegating

type refusal struct {
	kind  string // "", "OpenConnection", "SetPeer", "BeginSpan", "ReserveMemory", "OpenStream", "SetProtocol", "SetService"
	n     int
	mu    sync.Mutex
	count map[string]int
	fired atomic.Bool
	off   atomic.Bool
	// act != nil: the n-th call of that kind is not refused; act runs while the call is in
	// progress (e.g. the connection is closed under it) and the call then goes ahead
	act func()
}

var errRefused = fmt.Errorf("harness refusal: %w", network.ErrResourceLimitExceeded)

func (r *refusal) hit(kind string) bool {
	if r == nil || r.off.Load() {
		return false
	}
	r.mu.Lock()
	defer r.mu.Unlock()
	if r.count == nil {
		r.count = map[string]int{}
	}
	k := r.count[kind]
	r.count[kind] = k + 1
	if r.kind == kind && r.n == k {
		r.fired.Store(true)
		if r.act != nil {
			act := r.act
			r.mu.Unlock()
			act()
			r.mu.Lock()
			return false
		}
		return true
	}
	return false
}

type rm struct {
	network.ResourceManager
	r *refusal
}

func (m *rm) OpenConnection(dir network.Direction, usefd bool, endpoint ma.Multiaddr) (network.ConnManagementScope, error) {
	if m.r.hit("OpenConnection") {
		return nil, errRefused
	}
	s, err := m.ResourceManager.OpenConnection(dir, usefd, endpoint)
	if err != nil {
		return nil, err
	}
	return &connScope{ConnManagementScope: s, r: m.r}, nil
}

func (m *rm) OpenStream(p peer.ID, dir network.Direction) (network.StreamManagementScope, error) {
	if m.r.hit("OpenStream") {
		return nil, errRefused
	}
	s, err := m.ResourceManager.OpenStream(p, dir)
	if err != nil {
		return nil, err
	}
	return &streamScope{StreamManagementScope: s, r: m.r}, nil
}

type connScope struct {
	network.ConnManagementScope
	r *refusal
}

func (c *connScope) SetPeer(p peer.ID) error {
	if c.r.hit("SetPeer") {
		return errRefused
	}
	return c.ConnManagementScope.SetPeer(p)
}

func (c *connScope) PeerScope() network.PeerScope {
	ps := c.ConnManagementScope.PeerScope()
	if ps == nil {
		return nil
	}
	return &peerScope{PeerScope: ps, r: c.r}
}

func (c *connScope) BeginSpan() (network.ResourceScopeSpan, error) {
	if c.r.hit("BeginSpan") {
		return nil, errRefused
	}
	s, err := c.ConnManagementScope.BeginSpan()
	if err != nil {
		return nil, err
	}
	return &span{ResourceScopeSpan: s, r: c.r}, nil
}

func (c *connScope) ReserveMemory(size int, prio uint8) error {
	if c.r.hit("ReserveMemory") {
		return errRefused
	}
	return c.ConnManagementScope.ReserveMemory(size, prio)
}

type peerScope struct {
	network.PeerScope
	r *refusal
}

func (p *peerScope) BeginSpan() (network.ResourceScopeSpan, error) {
	if p.r.hit("BeginSpan") {
		return nil, errRefused
	}
	s, err := p.PeerScope.BeginSpan()
	if err != nil {
		return nil, err
	}
	return &span{ResourceScopeSpan: s, r: p.r}, nil
}

type span struct {
	network.ResourceScopeSpan
	r *refusal
}

func (s *span) ReserveMemory(size int, prio uint8) error {
	if s.r.hit("ReserveMemory") {
		return errRefused
	}
	return s.ResourceScopeSpan.ReserveMemory(size, prio)
}

func (s *span) BeginSpan() (network.ResourceScopeSpan, error) {
	if s.r.hit("BeginSpan") {
		return nil, errRefused
	}
	x, err := s.ResourceScopeSpan.BeginSpan()
	if err != nil {
		return nil, err
	}
	return &span{ResourceScopeSpan: x, r: s.r}, nil
}

type streamScope struct {
	network.StreamManagementScope
	r *refusal
}

func (s *streamScope) SetProtocol(p protocol.ID) error {
	if s.r.hit("SetProtocol") {
		return errRefused
	}
	return s.StreamManagementScope.SetProtocol(p)
}

func (s *streamScope) SetService(svc string) error {
	if s.r.hit("SetService") {
		return errRefused
	}
	return s.StreamManagementScope.SetService(svc)
}

func (s *streamScope) ReserveMemory(size int, prio uint8) error {
	if s.r.hit("ReserveMemory") {
		return errRefused
	}
	return s.StreamManagementScope.ReserveMemory(size, prio)
}

// ---------------------------------------------------------------------------
// gater that rejects at one hook

type gater struct {
	hook  string // "", "InterceptAccept", "InterceptSecured", "InterceptPeerDial", "InterceptAddrDial", "InterceptUpgraded"
	fired atomic.Bool
	// upgradedDelay makes InterceptUpgraded take (virtual) time: it widens the window between a
	// connection being accepted / dialled and its registration in the swarm
	upgradedDelay time.Duration
}

func (g *gater) rej(h string) bool {
	if g.hook == h {
		g.fired.Store(true)
		return false
	}
	return true
}
func (g *gater) InterceptPeerDial(peer.ID) bool               { return g.rej("InterceptPeerDial") }
func (g *gater) InterceptAddrDial(peer.ID, ma.Multiaddr) bool { return g.rej("InterceptAddrDial") }
func (g *gater) InterceptAccept(network.ConnMultiaddrs) bool  { return g.rej("InterceptAccept") }
func (g *gater) InterceptSecured(network.Direction, peer.ID, network.ConnMultiaddrs) bool {
	return g.rej("InterceptSecured")
}
func (g *gater) InterceptUpgraded(network.Conn) (bool, control.DisconnectReason) {
	if g.upgradedDelay > 0 {
		time.Sleep(g.upgradedDelay)
	}
	return g.rej("InterceptUpgraded"), 0
}

// ---------------------------------------------------------------------------
// one node: identity, real resource manager (+wrapper), upgrader, transport

type config struct {
	Sec string // "noise" | "tls"
	PSK bool
}

func (c config) String() string { return fmt.Sprintf("%s/psk=%v", c.Sec, c.PSK) }

var allConfigs = []config{{"noise", false}, {"tls", false}, {"noise", true}, {"tls", true}}

var psk = func() []byte {
	b := make([]byte, 32)
	for i := range b {
		b[i] = byte(i*7 + 1)
	}
	return b
}()

type node struct {
	id    *keys.Identity
	real  network.ResourceManager
	rm    *rm
	gater *gater
	up    transport.Upgrader
	tpt   *memtpt.Transport
	ip    net.IP
}

func newNode(idx int, cfg config, nw *memtpt.Network, ref *refusal, g *gater, ip net.IP) (*node, error) {
	n := &node{id: keys.Ed(80 + idx), gater: g, ip: ip}
	real, err := rcmgr.NewResourceManager(rcmgr.NewFixedLimiter(rcmgr.InfiniteLimits), rcmgr.WithMetricsDisabled(), rcmgr.WithConnRateLimiters(&rate.Limiter{}),
		rcmgr.WithLimitPerSubnet([]rcmgr.ConnLimitPerSubnet{{PrefixLength: 32, ConnCount: 1 << 20}}, []rcmgr.ConnLimitPerSubnet{{PrefixLength: 56, ConnCount: 1 << 20}}))
	if err != nil {
		return nil, err
	}
	n.real = real
	n.rm = &rm{ResourceManager: real, r: ref}
	muxers := []upgrader.StreamMuxer{{ID: yamux.ID, Muxer: yamux.DefaultTransport}}
	var st sec.SecureTransport
	if cfg.Sec == "noise" {
		st, err = noise.New(noise.ID, n.id.Priv, muxers)
	} else {
		st, err = libp2ptls.New(libp2ptls.ID, n.id.Priv, muxers)
	}
	if err != nil {
		return nil, err
	}
	var k []byte
	if cfg.PSK {
		k = psk
	}
	var cg interface {
		InterceptAccept(network.ConnMultiaddrs) bool
	}
	_ = cg
	if g != nil {
		n.up, err = upgrader.New([]sec.SecureTransport{st}, muxers, k, n.rm, g)
	} else {
		n.up, err = upgrader.New([]sec.SecureTransport{st}, muxers, k, n.rm, nil)
	}
	if err != nil {
		return nil, err
	}
	n.tpt, err = nw.NewTransport(n.up, n.rm, ip)
	return n, err
}

// usage returns a description of any non-zero usage in the node's real manager.
func (n *node) usage() string {
	st := n.real.(rcmgr.ResourceManagerState).Stat()
	zero := network.ScopeStat{}
	var out string
	if st.System != zero {
		out += fmt.Sprintf(" system=%+v", st.System)
	}
	if st.Transient != zero {
		out += fmt.Sprintf(" transient=%+v", st.Transient)
	}
	for p, s := range st.Peers {
		if s != zero {
			out += fmt.Sprintf(" peer:%s=%+v", p.ShortString(), s)
		}
	}
	for p, s := range st.Protocols {
		if s != zero {
			out += fmt.Sprintf(" proto:%s=%+v", p, s)
		}
	}
	for p, s := range st.Services {
		if s != zero {
			out += fmt.Sprintf(" svc:%s=%+v", p, s)
		}
	}
	return out
}

// acceptLoop collects upgraded inbound connections.
type acceptLoop struct {
	mu    sync.Mutex
	conns []transport.CapableConn
	done  chan struct{}
	err   error
}

func startAccept(l transport.Listener, delay time.Duration) *acceptLoop {
	a := &acceptLoop{done: make(chan struct{})}
	go func() {
		defer close(a.done)
		if delay > 0 {
			time.Sleep(delay)
		}
		for {
			c, err := l.Accept()
			if err != nil {
				a.err = err
				return
			}
			a.mu.Lock()
			a.conns = append(a.conns, c)
			a.mu.Unlock()
		}
	}()
	return a
}

func (a *acceptLoop) take() []transport.CapableConn {
	a.mu.Lock()
	defer a.mu.Unlock()
	out := a.conns
	a.conns = nil
	return out
}

var errTimeout = errors.New("timeout")

// echo opens a stream client->server, sends a nonce and expects it back.
func echo(client, server transport.CapableConn) error {
	ctx, cancel := context.WithTimeout(context.Background(), 10*time.Second)
	defer cancel()
	errc := make(chan error, 1)
	go func() {
		s, err := server.AcceptStream()
		if err != nil {
			errc <- fmt.Errorf("accept stream: %w", err)
			return
		}
		defer s.Close()
		buf := make([]byte, 4)
		if _, err := readFull(s, buf); err != nil {
			errc <- fmt.Errorf("server read: %w", err)
			return
		}
		_, err = s.Write(buf)
		errc <- err
	}()
	s, err := client.OpenStream(ctx)
	if err != nil {
		return fmt.Errorf("open stream: %w", err)
	}
	defer s.Close()
	if _, err := s.Write([]byte("ping")); err != nil {
		return fmt.Errorf("client write: %w", err)
	}
	buf := make([]byte, 4)
	s.SetReadDeadline(time.Now().Add(10 * time.Second))
	if _, err := readFull(s, buf); err != nil {
		return fmt.Errorf("client read: %w", err)
	}
	if string(buf) != "ping" {
		return fmt.Errorf("echo mismatch %q", buf)
	}
	select {
	case err := <-errc:
		return err
	case <-ctx.Done():
		return errTimeout
	}
}

func readFull(r interface{ Read([]byte) (int, error) }, b []byte) (int, error) {
	n := 0
	for n < len(b) {
		k, err := r.Read(b[n:])
		n += k
		if err != nil {
			return n, err
		}
	}
	return n, nil
}
