package c04

import (
	"context"
	"fmt"
	"net"
	"strings"
	"sync/atomic"
	"testing"
	"testing/synctest"
	"time"

	p2pconfig "github.com/libp2p/go-libp2p/config"
	"github.com/libp2p/go-libp2p/core/connmgr"
	"github.com/libp2p/go-libp2p/core/control"
	"github.com/libp2p/go-libp2p/core/network"
	"github.com/libp2p/go-libp2p/core/peer"
	"github.com/libp2p/go-libp2p/core/transport"
	rcmgr "github.com/libp2p/go-libp2p/p2p/host/resource-manager"
	libp2pquic "github.com/libp2p/go-libp2p/p2p/transport/quic"
	"github.com/libp2p/go-libp2p/p2p/transport/quicreuse"
	"github.com/libp2p/go-libp2p/x/rate"
	"github.com/marcopolo/simnet"
	ma "github.com/multiformats/go-multiaddr"
	"pgregory.net/rapid"

	"verif/internal/hx"
	"verif/internal/keys"
	"verif/internal/stats"
)

// Layer (g): the QUIC transport's own listener and dialer, real transport over the repository's
// in-memory UDP substrate (simnet) in virtual time. QUIC connections are secured and multiplexed by
// the transport itself, so its listener does its own gating (InterceptAccept / InterceptSecured
// after the QUIC handshake) and its own resource accounting (a connection scope per accepted
// connection). A generated world is a listener with a gater that rejects at one of the two hooks for
// the k-th connection (or never), a resource manager that refuses the k-th OpenConnection / SetPeer
// (or never), a consumer that accepts some of the connections and closes them at once or late, and
// 1-4 dialling nodes that connect at generated instants, open a stream or not, and hang up or stay.
// After the listener and both transports are closed: every connection scope either side opened is
// gone (the real managers read zero everywhere).

// quicRule is appended to the package's stats.Describe text (see TestMain).
const quicRule = " QUIC listener layer (TestQUICListenerLayer, real QUIC transport over simnet in virtual time): a listener whose gater rejects every k-th InterceptAccept / InterceptSecured call (after the QUIC handshake), " +
	"whose resource manager refuses the k-th OpenConnection / SetPeer, a consumer that accepts 0 / 1 / 8 connections and closes them at once or at the end, 1-4 dialling transports that connect at generated instants, " +
	"open a stream or not and hang up or stay, listener Close at a generated instant; after listener, connections and transports are closed both sides' real managers must read zero everywhere. Non-trivial there = a connection was gated or a refusal was configured."

type quicSide struct {
	real network.ResourceManager
	rm   *rm
	cm   *quicreuse.ConnManager
	tr   transport.Transport
}

type countingGater struct {
	hook  string // "", InterceptAccept, InterceptSecured
	every int    // reject every k-th call of that hook (1: all)
	n     atomic.Int32
	fired atomic.Int32
}

func (g *countingGater) rej(h string) bool {
	if g.hook != h {
		return true
	}
	if k := int(g.n.Add(1)); g.every > 0 && k%g.every == 0 {
		g.fired.Add(1)
		return false
	}
	return true
}
func (g *countingGater) InterceptPeerDial(peer.ID) bool               { return true }
func (g *countingGater) InterceptAddrDial(peer.ID, ma.Multiaddr) bool { return true }
func (g *countingGater) InterceptAccept(network.ConnMultiaddrs) bool  { return g.rej("InterceptAccept") }
func (g *countingGater) InterceptUpgraded(network.Conn) (bool, control.DisconnectReason) {
	return true, 0
}
func (g *countingGater) InterceptSecured(network.Direction, peer.ID, network.ConnMultiaddrs) bool {
	return g.rej("InterceptSecured")
}

var quicLayerLink = simnet.NodeBiDiLinkSettings{
	Downlink: simnet.LinkSettings{BitsPerSecond: 100_000_000},
	Uplink:   simnet.LinkSettings{BitsPerSecond: 100_000_000},
}

func newQUICSide(sim *simnet.Simnet, id *keys.Identity, ref *refusal, g connmgr.ConnectionGater) (*quicSide, error) {
	real, err := rcmgr.NewResourceManager(rcmgr.NewFixedLimiter(rcmgr.InfiniteLimits), rcmgr.WithMetricsDisabled(), rcmgr.WithConnRateLimiters(&rate.Limiter{}))
	if err != nil {
		return nil, err
	}
	s := &quicSide{real: real, rm: &rm{ResourceManager: real, r: ref}}
	srk, err := p2pconfig.PrivKeyToStatelessResetKey(id.Priv)
	if err != nil {
		return nil, err
	}
	tgk, err := p2pconfig.PrivKeyToTokenGeneratorKey(id.Priv)
	if err != nil {
		return nil, err
	}
	s.cm, err = quicreuse.NewConnManager(srk, tgk, quicreuse.OverrideListenUDP(func(_ string, a *net.UDPAddr) (net.PacketConn, error) {
		return sim.NewEndpoint(a, quicLayerLink), nil
	}))
	if err != nil {
		return nil, err
	}
	s.tr, err = libp2pquic.NewTransport(id.Priv, s.cm, nil, g, s.rm)
	return s, err
}

func (s *quicSide) usage() string {
	st := s.real.(rcmgr.ResourceManagerState).Stat()
	zero := network.ScopeStat{}
	var out []string
	if st.System != zero {
		out = append(out, fmt.Sprintf("system=%+v", st.System))
	}
	if st.Transient != zero {
		out = append(out, fmt.Sprintf("transient=%+v", st.Transient))
	}
	for p, u := range st.Peers {
		if u != zero {
			out = append(out, fmt.Sprintf("peer:%s=%+v", p.ShortString(), u))
		}
	}
	return strings.Join(out, " ")
}

type quicDialer struct {
	At       int // ms
	Stream   bool
	HangupMs int // >= 0: the dialler closes its connection that long after it came up; -1: it stays until the end
}

func TestQUICListenerLayer(t *testing.T) {
	name := t.Name()
	hx.Check(t, 160, 12000, 0, func(rt *rapid.T) {
		hook := rapid.SampledFrom([]string{"", "InterceptAccept", "InterceptSecured", "InterceptSecured"}).Draw(rt, "gateHook")
		every := rapid.IntRange(1, 3).Draw(rt, "gateEvery")
		var ref *refusal
		refHook := rapid.SampledFrom([]string{"", "", "OpenConnection", "SetPeer"}).Draw(rt, "refuse")
		refN := rapid.IntRange(0, 2).Draw(rt, "refuseN")
		if refHook != "" {
			ref = &refusal{kind: refHook, n: refN}
		}
		budget := rapid.SampledFrom([]int{0, 1, 8}).Draw(rt, "acceptBudget")
		disposeLate := rapid.Bool().Draw(rt, "disposeLate")
		nd := rapid.IntRange(1, 4).Draw(rt, "ndialers")
		ds := make([]quicDialer, nd)
		for i := range ds {
			ds[i] = quicDialer{At: rapid.SampledFrom([]int{0, 0, 5, 40, 300}).Draw(rt, "at"), Stream: rapid.Bool().Draw(rt, "stream"),
				HangupMs: rapid.SampledFrom([]int{-1, -1, 0, 30, 500}).Draw(rt, "hangup")}
		}
		closeAt := rapid.SampledFrom([]int{20, 100, 1000, 3000}).Draw(rt, "closeListenerAt")
		var gatedN, acceptedN, establishedN int32
		hx.Bubble(t, rt, func() {
			sim := &simnet.Simnet{LatencyFunc: simnet.StaticLatency(2 * time.Millisecond)}
			g := &countingGater{hook: hook, every: every}
			srv, err := newQUICSide(sim, keys.Ed(0), ref, g)
			if err != nil {
				rt.Fatalf("server side: %v", err)
			}
			l, err := srv.tr.Listen(ma.StringCast("/ip4/198.51.100.1/udp/8000/quic-v1"))
			if err != nil {
				rt.Fatalf("listen: %v", err)
			}
			sim.Start()
			var accepted []transport.CapableConn
			accDone := make(chan struct{})
			go func() {
				defer close(accDone)
				for n := 0; ; n++ {
					c, err := l.Accept()
					if err != nil {
						return
					}
					atomic.AddInt32(&acceptedN, 1)
					if n >= budget || !disposeLate {
						c.Close()
						continue
					}
					accepted = append(accepted, c)
				}
			}()
			var clis []*quicSide
			kept := make(chan transport.CapableConn, nd)
			done := make(chan struct{}, nd)
			for i, d := range ds {
				cli, err := newQUICSide(sim, keys.Ed(20+i), nil, nil)
				if err != nil {
					rt.Fatalf("client side: %v", err)
				}
				clis = append(clis, cli)
				go func() {
					defer func() { done <- struct{}{} }()
					time.Sleep(time.Duration(d.At) * time.Millisecond)
					ctx, cancel := context.WithTimeout(context.Background(), 5*time.Second)
					defer cancel()
					c, err := cli.tr.Dial(ctx, l.Multiaddr(), keys.Ed(0).ID)
					if err != nil {
						return
					}
					atomic.AddInt32(&establishedN, 1)
					if d.Stream {
						sctx, scancel := context.WithTimeout(context.Background(), time.Second)
						if s, err := c.OpenStream(sctx); err == nil {
							s.Write([]byte("x"))
							s.Close()
						}
						scancel()
					}
					if d.HangupMs >= 0 {
						time.Sleep(time.Duration(d.HangupMs) * time.Millisecond)
						c.Close()
					} else {
						kept <- c // the application keeps it; it disposes of it at the end
					}
				}()
			}
			time.Sleep(time.Duration(closeAt) * time.Millisecond)
			l.Close()
			for range ds {
				<-done
			}
			<-accDone
			for _, c := range accepted {
				c.Close()
			}
			close(kept)
			for c := range kept {
				c.Close()
			}
			time.Sleep(6 * time.Second)
			synctest.Wait()
			for _, cli := range clis {
				cli.tr.(interface{ Close() error }).Close()
				cli.cm.Close()
			}
			srv.tr.(interface{ Close() error }).Close()
			srv.cm.Close()
			time.Sleep(35 * time.Second) // QUIC's own idle / drain timers
			synctest.Wait()
			gatedN = g.fired.Load()
			what := fmt.Sprintf("gate=%s every %d (rejected %d) refuse=%s#%d accept budget=%d disposeLate=%v dialers=%+v listener closed at %dms; accepted=%d established=%d",
				hook, every, gatedN, refHook, refN, budget, disposeLate, ds, closeAt, acceptedN, establishedN)
			if u := srv.usage(); u != "" {
				rt.Fatalf("after the QUIC listener and transport were closed the listening side's resource manager still charges: %s\n%s", u, what)
			}
			for i, cli := range clis {
				if u := cli.usage(); u != "" {
					rt.Fatalf("after everything was closed dialler %d's resource manager still charges: %s\n%s", i, u, what)
				}
			}
			sim.Close()
			srv.real.Close()
			for _, cli := range clis {
				cli.real.Close()
			}
			time.Sleep(time.Second)
			synctest.Wait()
		})
		labels := []string{"gate:" + hook, "refuse:" + refHook}
		if gatedN > 0 {
			labels = append(labels, "inbound-connection-gated-after-the-quic-handshake")
		}
		if acceptedN > 0 {
			labels = append(labels, "connection-accepted")
		}
		stats.Case(name, fmt.Sprintf("%s/%d/%s/%d/%d/%v/%v/%d", hook, every, refHook, refN, budget, disposeLate, ds, closeAt), gatedN > 0 || refHook != "", labels...)
	})
}
