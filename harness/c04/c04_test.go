// Package c04 checks property C04: every failed or finished connection/stream releases
// all it acquired.
package c04

import (
	"context"
	"fmt"
	"net"
	"sort"
	"strings"
	"testing"
	"testing/synctest"
	"time"

	"github.com/libp2p/go-libp2p/core/transport"
	ma "github.com/multiformats/go-multiaddr"
	"pgregory.net/rapid"

	"verif/internal/faultconn"
	"verif/internal/hx"
	"verif/internal/memtpt"
	"verif/internal/stats"
)

func TestMain(m *testing.M) {
	stats.Describe("fault_enumeration",
		"For each configuration {Noise,TLS} x {PSK,none} a fault-free dry run of one connection attempt (real tcp.TcpTransport dial path + real upgrader listener over in-memory connections, "+
			"real resource managers on both sides) counts the raw I/O operations of each end and their virtual timestamps (1 ms per write). Then every single fault is enumerated: for every "+
			"operation index k on either end a read/write error, EOF, peer close, stall-until-deadline and a concurrent Close of the raw connection; context cancellation and listener Close "+
			"between every two operations; each gater hook rejecting; the resource manager refusing the n-th OpenConnection/SetPeer/BeginSpan/ReserveMemory on either side; nobody calling Accept "+
			"until the accept timeout; the peer hanging up while its connection waits in the accept queue. rapid adds random pairs of faults and the two-swarm layer (stream open / protocol scope "+
			"refusals, ClosePeer and Swarm.Close racing). After quiescence (all timeouts and the manager's GC tick passed, on virtual time) every scope of both real managers must read zero, both raw "+
			"ends must have seen Close, a subsequent clean attempt must succeed with a working stream, and the bubble must be able to exit (no goroutine left). "+
			"Non-trivial = the injected fault actually fired; distinct = (configuration, class, side, k, kind)."+tcprRule+wsRule+quicRule,
		tcprAssumption,
		wsAssumption,
		"QUIC, WebTransport and WebRTC call sites and the outbound WebSocket dial are not driven (their raw I/O is inside third-party stacks on real sockets)",
		"file-descriptor leaks are observed as 'raw connection not closed', not through the OS",
	)
	hx.Main(m)
}

type fault struct {
	Class string // none | io | cancel | listenerClose | gater | rcmgr | noAccept | hangupInQueue | closeAfter
	Side  string // client | server
	K     int
	Kind  faultconn.Kind
	At    time.Duration
	Hook  string
	N     int
}

func (f fault) String() string {
	switch f.Class {
	case "io":
		return fmt.Sprintf("io/%s/op%d/%s", f.Side, f.K, f.Kind)
	case "cancel", "listenerClose", "closeAfter":
		return fmt.Sprintf("%s/%s@%v", f.Class, f.Side, f.At)
	case "gater":
		return fmt.Sprintf("gater/%s/%s", f.Side, f.Hook)
	case "rcmgr":
		return fmt.Sprintf("rcmgr/%s/%s#%d", f.Side, f.Hook, f.N)
	}
	return f.Class
}

type outcome struct {
	fired             bool
	clientOps, srvOps int
	clientT, srvT     []time.Duration
	dialErr, echoErr  error
	established       bool
	frozen            bool
	failure           string
}

var laddr = ma.StringCast("/ip4/10.0.0.2/tcp/4001")

// attempt runs one connection attempt under the given faults inside the current bubble.
func attempt(cfg config, faults []fault) (o outcome) {
	fail := func(format string, args ...any) outcome {
		o.failure = fmt.Sprintf("%s [%v]: ", cfg, faults) + fmt.Sprintf(format, args...)
		return o
	}
	nw := memtpt.NewNetwork()
	nw.Latency = time.Millisecond
	var (
		planC, planS *faultconn.Plan
		refC, refS   *refusal
		gC, gS       *gater
		cancelAt     time.Duration = -1
		lcloseAt     time.Duration = -1
		acceptDelay  time.Duration
		hangup       bool
		closeAfter   = map[string]time.Duration{}
	)
	for _, f := range faults {
		switch f.Class {
		case "io":
			p := &faultconn.Plan{At: f.K, Kind: f.Kind}
			if f.Side == "client" {
				planC = p
			} else {
				planS = p
			}
		case "cancel":
			cancelAt = f.At
		case "listenerClose":
			lcloseAt = f.At
		case "gater":
			g := &gater{hook: f.Hook}
			if f.Side == "client" {
				gC = g
			} else {
				gS = g
			}
		case "rcmgr":
			r := &refusal{kind: f.Hook, n: f.N}
			if f.Side == "client" {
				refC = r
			} else {
				refS = r
			}
		case "noAccept":
			acceptDelay = 20 * time.Second
		case "hangupInQueue":
			acceptDelay = 5 * time.Second
			hangup = true
		case "hangupNoAccept": // the peer hangs up while queued and nobody accepts until the accept timeout
			acceptDelay = 20 * time.Second
			hangup = true
		case "closeAfter":
			closeAfter[f.Side] = f.At
		}
	}
	armed := true
	nw.PlanDial = func(n int) *faultconn.Plan {
		if n == 0 && armed {
			return planC
		}
		return nil
	}
	nw.PlanAccept = func(n int) *faultconn.Plan {
		if n == 0 && armed {
			return planS
		}
		return nil
	}
	client, err := newNode(0, cfg, nw, refC, gC, net.IPv4(10, 0, 0, 1))
	if err != nil {
		return fail("client: %v", err)
	}
	defer client.real.Close()
	server, err := newNode(1, cfg, nw, refS, gS, net.IPv4(10, 0, 0, 2))
	if err != nil {
		return fail("server: %v", err)
	}
	defer server.real.Close()
	l, err := server.tpt.Listen(laddr)
	if err != nil {
		return fail("listen: %v", err)
	}
	acc := startAccept(l, acceptDelay)
	listenerClosed := false
	if lcloseAt >= 0 {
		listenerClosed = true
		go func() { time.Sleep(lcloseAt); l.Close() }()
	}
	ctx, cancel := context.WithTimeout(context.Background(), 30*time.Second)
	defer cancel()
	if cancelAt >= 0 {
		tm := time.AfterFunc(cancelAt, cancel)
		defer tm.Stop()
	}
	t0 := time.Now()
	cc, derr := client.tpt.Dial(ctx, laddr, server.id.ID)
	o.dialErr = derr
	if cc != nil && hangup {
		cc.Close()
	}
	if cc != nil {
		if _, ok := closeAfter["client"]; ok {
			o.fired = true
		}
		if d, ok := closeAfter["client"]; ok {
			go func() { time.Sleep(time.Until(t0.Add(d))); cc.Close() }()
		}
	}
	// the attempt includes one stream round trip, so that faults at later operations and
	// span / memory refusals hit stream opening and data transfer too (errors are allowed)
	var early []transport.CapableConn
	if cc != nil && !hangup && acceptDelay == 0 {
		time.Sleep(50 * time.Millisecond)
		synctest.Wait()
		early = acc.take()
		if len(early) == 1 {
			o.echoErr = echo(cc, early[0])
		}
	}
	// quiescence: every timeout (accept 15 s, negotiate 60 s, dial 30 s) and the managers' GC tick pass
	time.Sleep(100 * time.Second)
	synctest.Wait()

	pairs := nw.Pairs()
	if len(pairs) > 0 && pairs[0].FClient != nil {
		o.clientOps, o.srvOps = pairs[0].FClient.Ops(), pairs[0].FServer.Ops()
		for _, x := range pairs[0].FClient.Times {
			o.clientT = append(o.clientT, x.Sub(t0))
		}
		for _, x := range pairs[0].FServer.Times {
			o.srvT = append(o.srvT, x.Sub(t0))
		}
	}
	for _, p := range []*faultconn.Plan{planC, planS} {
		if p != nil && p.Fired.Load() {
			o.fired = true
		}
	}
	for _, r := range []*refusal{refC, refS} {
		if r != nil && r.fired.Load() {
			o.fired = true
		}
	}
	for _, g := range []*gater{gC, gS} {
		if g != nil && g.fired.Load() {
			o.fired = true
		}
	}
	if derr != nil && (cancelAt >= 0 || lcloseAt >= 0) {
		o.fired = true
	}
	srvConns := append(early, acc.take()...)
	o.established = cc != nil && len(srvConns) > 0
	if acceptDelay > 0 {
		o.fired = true
	}
	if cc == nil && derr == nil {
		return fail("Dial returned neither a connection nor an error")
	}
	// close whatever was established
	if cc != nil {
		cc.Close()
	}
	for _, c := range srvConns {
		c.Close()
	}
	time.Sleep(5 * time.Second)
	synctest.Wait()

	audit := func(when string) string {
		if u := client.usage(); u != "" {
			return fmt.Sprintf("%s: dialling side still charges%s", when, u)
		}
		if u := server.usage(); u != "" {
			return fmt.Sprintf("%s: listening side still charges%s", when, u)
		}
		for i, p := range nw.Pairs() {
			if p.Client == nil {
				continue
			}
			if !p.Client.Closed() {
				return fmt.Sprintf("%s: raw connection %d was never closed by the dialling side", when, i)
			}
			if !p.Server.Closed() {
				return fmt.Sprintf("%s: raw connection %d was never closed by the listening side", when, i)
			}
		}
		return ""
	}
	if msg := audit("after the attempt"); msg != "" {
		return fail("%s (dial error: %v, established=%v)", msg, derr, o.established)
	}

	// the listener still works: a clean attempt succeeds end to end
	if !listenerClosed {
		if gS != nil {
			gS.hook = ""
		}
		if gC != nil {
			gC.hook = ""
		}
		for _, r := range []*refusal{refC, refS} {
			if r != nil {
				r.off.Store(true)
			}
		}
		armed = false
		ctx2, cancel2 := context.WithTimeout(context.Background(), 30*time.Second)
		cc2, err := client.tpt.Dial(ctx2, laddr, server.id.ID)
		cancel2()
		if err != nil {
			return fail("a clean attempt after the faulty one failed: %v", err)
		}
		time.Sleep(time.Second)
		synctest.Wait()
		got := acc.take()
		if len(got) != 1 {
			cc2.Close()
			return fail("a clean attempt after the faulty one was not accepted by the listener (%d conns)", len(got))
		}
		if err := echo(cc2, got[0]); err != nil {
			return fail("stream echo over the clean connection failed: %v", err)
		}
		if u := server.usage(); !strings.Contains(u, "NumConnsInbound:1") {
			return fail("while a connection is open the listening side charges %q (expected one inbound connection)", u)
		}
		cc2.Close()
		got[0].Close()
		time.Sleep(5 * time.Second)
		synctest.Wait()
	}
	l.Close()
	time.Sleep(time.Second)
	synctest.Wait()
	select {
	case <-acc.done:
	default:
		return fail("Accept did not return after the listener was closed")
	}
	if msg := audit("after closing the listener"); msg != "" {
		return fail("%s", msg)
	}
	return o
}

func run(t *testing.T, cfg config, faults []fault) outcome {
	var o outcome
	var res outcome
	msg := hx.RunBubble(t, func() { res = attempt(cfg, faults) })
	if strings.HasPrefix(msg, hx.Frozen) {
		// res may still be written by the abandoned bubble: do not touch it
		return outcome{frozen: true}
	}
	o = res
	if msg != "" && o.failure == "" {
		o.failure = fmt.Sprintf("%s [%v]: %s", cfg, faults, msg)
	}
	return o
}

// enumerate lists every single fault of one configuration from its dry run.
func enumerate(dry outcome) []fault {
	var fs []fault
	for _, side := range []string{"client", "server"} {
		n := dry.clientOps
		if side == "server" {
			n = dry.srvOps
		}
		for k := 0; k < n+2; k++ {
			for _, kind := range faultconn.Kinds {
				fs = append(fs, fault{Class: "io", Side: side, K: k, Kind: kind})
			}
		}
	}
	// cancellation / listener close between every two operations of either side
	seen := map[time.Duration]bool{}
	var ts []time.Duration
	for _, x := range append(append([]time.Duration{}, dry.clientT...), dry.srvT...) {
		if !seen[x] {
			seen[x] = true
			ts = append(ts, x)
		}
	}
	sort.Slice(ts, func(i, j int) bool { return ts[i] < ts[j] })
	// only the instants of the attempt itself (later ones belong to yamux keep-alives)
	for len(ts) > 1 && ts[len(ts)-1] > time.Second {
		ts = ts[:len(ts)-1]
	}
	ts = append(ts, ts[len(ts)-1]+3*time.Millisecond)
	for _, x := range ts {
		fs = append(fs, fault{Class: "cancel", Side: "client", At: x + 500*time.Microsecond})
		fs = append(fs, fault{Class: "cancel", Side: "client", At: x})
		fs = append(fs, fault{Class: "listenerClose", Side: "server", At: x + 500*time.Microsecond})
		fs = append(fs, fault{Class: "closeAfter", Side: "client", At: x + 500*time.Microsecond})
	}
	fs = append(fs,
		fault{Class: "gater", Side: "client", Hook: "InterceptSecured"},
		fault{Class: "gater", Side: "server", Hook: "InterceptSecured"},
		fault{Class: "gater", Side: "server", Hook: "InterceptAccept"},
		fault{Class: "noAccept"}, fault{Class: "hangupInQueue"}, fault{Class: "hangupNoAccept"},
	)
	for _, side := range []string{"client", "server"} {
		for _, h := range []string{"OpenConnection", "SetPeer", "BeginSpan"} {
			fs = append(fs, fault{Class: "rcmgr", Side: side, Hook: h, N: 0})
		}
		for n := 0; n < 4; n++ {
			fs = append(fs, fault{Class: "rcmgr", Side: side, Hook: "ReserveMemory", N: n})
		}
	}
	return fs
}

func recordCase(name string, cfg config, fs []fault, o outcome) {
	labels := []string{"cfg=" + cfg.String()}
	for _, f := range fs {
		labels = append(labels, "class="+f.Class)
	}
	if o.fired {
		labels = append(labels, "fault-fired")
		for _, f := range fs {
			labels = append(labels, "fired:"+f.Class)
		}
	}
	if o.established {
		labels = append(labels, "established")
	}
	if o.frozen {
		labels = append(labels, "inconclusive:frozen-bubble")
	}
	stats.CaseEnumerated(name, o.fired, labels...)
	if o.fired && stats.WantSample(name) {
		stats.Sample(name, map[string]any{"config": cfg.String(), "faults": fmt.Sprint(fs), "dialError": fmt.Sprint(o.dialErr), "established": o.established,
			"clientOps": o.clientOps, "serverOps": o.srvOps})
	}
}

// TestSingleFaultEnumeration: every single fault of every configuration (quick: two
// configurations completely, every third fault of the others).
func TestSingleFaultEnumeration(t *testing.T) {
	name := t.Name()
	idx := 0
	for ci, cfg := range allConfigs {
		dry := run(t, cfg, nil)
		if dry.failure != "" {
			t.Fatalf("fault-free dry run failed: %s", dry.failure)
		}
		if !dry.established || dry.clientOps == 0 || dry.srvOps == 0 {
			t.Fatalf("%s: dry run did not establish a connection (%+v)", cfg, dry)
		}
		full := hx.Thorough() || ci < 2
		for fi, f := range enumerate(dry) {
			idx++
			if !hx.Mine(idx) {
				continue
			}
			if !full && fi%3 != 0 {
				continue
			}
			o := run(t, cfg, []fault{f})
			recordCase(name, cfg, []fault{f}, o)
			if o.failure != "" {
				t.Fatalf("%s", o.failure)
			}
		}
	}
	if hx.Thorough() {
		stats.Exhaustive(name)
	}
}

// TestFaultPairs: random pairs of faults.
func TestFaultPairs(t *testing.T) {
	name := t.Name()
	dries := map[config]outcome{}
	for _, cfg := range allConfigs {
		dries[cfg] = run(t, cfg, nil)
		if dries[cfg].failure != "" {
			t.Fatalf("dry run: %s", dries[cfg].failure)
		}
	}
	hx.Check(t, 400, 150000, 0, func(rt *rapid.T) {
		cfg := allConfigs[rapid.IntRange(0, len(allConfigs)-1).Draw(rt, "cfg")]
		all := enumerate(dries[cfg])
		a := all[rapid.IntRange(0, len(all)-1).Draw(rt, "a")]
		b := all[rapid.IntRange(0, len(all)-1).Draw(rt, "b")]
		fs := []fault{a, b}
		o := run(t, cfg, fs)
		labels := []string{"cfg=" + cfg.String(), "class=" + a.Class + "+" + b.Class}
		stats.Case(name, cfg.String()+fmt.Sprint(fs), o.fired, labels...)
		if o.fired && stats.WantSample(name) {
			stats.Sample(name, map[string]any{"config": cfg.String(), "faults": fmt.Sprint(fs), "dialError": fmt.Sprint(o.dialErr), "established": o.established})
		}
		if o.failure != "" {
			rt.Fatalf("%s", o.failure)
		}
	})
}

var _ transport.CapableConn
