// Package c06 checks property C06: Connected/Disconnected notifications are exactly-once,
// ordered and truthful.
package c06

import (
	"context"
	"errors"
	"fmt"
	"os"
	"runtime"
	"sort"
	"strings"
	"sync"
	"sync/atomic"
	"testing"
	"testing/synctest"
	"time"

	"github.com/libp2p/go-libp2p/core/crypto"
	"github.com/libp2p/go-libp2p/core/event"
	"github.com/libp2p/go-libp2p/core/network"
	"github.com/libp2p/go-libp2p/core/peer"
	"github.com/libp2p/go-libp2p/p2p/host/eventbus"
	"github.com/libp2p/go-libp2p/p2p/host/peerstore/pstoremem"
	"github.com/libp2p/go-libp2p/p2p/net/swarm"
	ma "github.com/multiformats/go-multiaddr"
	"pgregory.net/rapid"

	"verif/internal/hx"
	"verif/internal/keys"
	"verif/internal/scripted"
	"verif/internal/stats"
)

func TestMain(m *testing.M) {
	stats.Describe("exploration",
		"rapid schedules for a real swarm in a synctest bubble: 1-5 connections (two peers, direct/limited, inbound through a scripted listener or outbound through a scripted dial) "+
			"admitted at generated virtual instants, each removed locally (Close/CloseWithError/ClosePeer), remotely (the transport connection dies) or never, before / at / inside / after the "+
			"window of its Connected callbacks; two recording notifiees whose callbacks return at once, block for a generated virtual time, close the connection from inside Connected or call "+
			"Close from inside Disconnected; inbound streams at generated instants; optional Swarm.Close at any instant. Events at one instant race for real. History invariants are checked at "+
			"quiescence and after Swarm.Close. Non-trivial = a removal overlaps the connection's Connected window, or two connections to one peer overlap, or Swarm.Close lands with callbacks "+
			"in flight; distinct = distinct abstract schedule.",
		"scripted transport connections stand in for real ones",
		"interleavings inside one virtual instant are sampled by repetition, not enumerated",
	)
	hx.Main(m)
}

type connSpec struct {
	peer                int
	limited             bool
	inbound             bool
	admitAt             int    // ms
	removal             string // "", "local", "localErr", "remote", "closePeer"
	removeAt            int    // ms
	block               [2]int // ms each notifiee blocks inside Connected
	dblock              [2]int // ms each notifiee blocks inside Disconnected
	closeInConnected    int    // -1 none, else notifiee index that closes the conn from inside Connected
	closeInDisconnected bool
	streams             []int // instants of inbound streams
	// closeErr: the transport connection's Close / CloseWithError report an error (the connection is
	// shut down all the same)
	closeErr bool
}

type scenario struct {
	conns   []connSpec
	closeAt int // -1: no Swarm.Close during the schedule
	// metrics: the swarm is built with a metrics tracer (connections are wrapped on admission)
	metrics bool
	// closeAgain >= 0: a second Swarm.Close call that many ms after the first (0: the same instant,
	// racing with it); every Close call, not only the first, returns only after the notifications
	closeAgain int
	// yields[point]: how many times a goroutine reaching that schedule point of the swarm gives
	// way to the other runnable goroutines (hook under build tag verif). Events scheduled at the
	// same virtual instant race for real; the yields make the less likely orders likely.
	yields map[string]int
	// transients: notifiees that sign up or sign off while the schedule runs (the two notifiees
	// the exactly-once rules are stated for stay registered throughout)
	transients []transientSpec
}

// transientSpec: pos is where the notifiee is registered relative to the two permanent ones
// (0: before both, 1: between, 2: after both).
type transientSpec struct {
	kind string // "oneshot-connected" | "oneshot-disconnected": signs off from inside its first callback; "late": signs up at instant at; "stop-at": signs off at instant at
	pos  int
	at   int // ms
}

var yieldPoints = []string{"addConn:registered", "addConn:announced", "close:conns-closing", "doClose:removed"}

// currentYields is the plan of the running case (read by the hook on the swarm's goroutines).
var currentYields atomic.Pointer[map[string]int]

func init() {
	swarm.VerifSetYield(func(point string) {
		if m := currentYields.Load(); m != nil {
			n := (*m)[point]
			if n < 0 {
				// virtual sleep (microseconds): everything else that is due in the meantime runs first.
				// Only drawn for points at which the goroutine holds no lock.
				time.Sleep(time.Duration(-n) * time.Microsecond)
				return
			}
			for ; n > 0; n-- {
				runtime.Gosched()
			}
		}
	})
}

var errTransportClose = errors.New("transport: close reported an error")

// nopTracer is a swarm metrics tracer that records nothing.
type nopTracer struct{}

func (nopTracer) OpenedConnection(network.Direction, crypto.PubKey, network.ConnectionState, ma.Multiaddr) {
}
func (nopTracer) ClosedConnection(network.Direction, time.Duration, network.ConnectionState, ma.Multiaddr) {
}
func (nopTracer) CompletedHandshake(time.Duration, network.ConnectionState, ma.Multiaddr) {}
func (nopTracer) FailedDialing(ma.Multiaddr, error, error)                                {}
func (nopTracer) DialCompleted(bool, int, time.Duration)                                  {}
func (nopTracer) DialRankingDelay(time.Duration)                                          {}
func (nopTracer) UpdatedBlackHoleSuccessCounter(string, swarm.BlackHoleState, int, float64) {
}

func drawScenario(rt *rapid.T) *scenario {
	sc := &scenario{closeAt: -1, closeAgain: -1}
	sc.metrics = rapid.IntRange(0, 2).Draw(rt, "metrics") == 0
	n := rapid.IntRange(1, 5).Draw(rt, "nconns")
	for i := 0; i < n; i++ {
		c := connSpec{
			peer:             rapid.IntRange(0, 1).Draw(rt, "peer"),
			limited:          rapid.IntRange(0, 3).Draw(rt, "limited") == 0,
			inbound:          rapid.IntRange(0, 3).Draw(rt, "inbound") != 0,
			admitAt:          rapid.SampledFrom([]int{0, 0, 1, 2, 5, 10}).Draw(rt, "admitAt"),
			closeInConnected: -1,
		}
		for k := 0; k < 2; k++ {
			c.block[k] = rapid.SampledFrom([]int{0, 0, 0, 1, 3, 8}).Draw(rt, "block")
			c.dblock[k] = rapid.SampledFrom([]int{0, 0, 0, 2, 6}).Draw(rt, "dblock")
		}
		c.removal = rapid.SampledFrom([]string{"", "local", "localErr", "remote", "remote", "closePeer"}).Draw(rt, "removal")
		if c.removal != "" {
			// relative to admission: before, same instant, inside the callback window, after
			c.removeAt = c.admitAt + rapid.SampledFrom([]int{-1, 0, 0, 1, 2, 4, 9, 20}).Draw(rt, "removeRel")
			if c.removeAt < 0 {
				c.removeAt = 0
			}
		}
		if rapid.IntRange(0, 5).Draw(rt, "closeInConnected") == 0 {
			c.closeInConnected = rapid.IntRange(0, 1).Draw(rt, "which")
		}
		c.closeInDisconnected = rapid.IntRange(0, 6).Draw(rt, "closeInDisconnected") == 0
		c.closeErr = rapid.IntRange(0, 3).Draw(rt, "closeErr") == 0
		ns := rapid.IntRange(0, 2).Draw(rt, "nstreams")
		for s := 0; s < ns; s++ {
			c.streams = append(c.streams, c.admitAt+rapid.SampledFrom([]int{0, 0, 1, 2, 5, 12}).Draw(rt, "streamRel"))
		}
		sc.conns = append(sc.conns, c)
	}
	if rapid.IntRange(0, 2).Draw(rt, "swarmClose") == 0 {
		sc.closeAt = rapid.SampledFrom([]int{0, 1, 2, 3, 5, 8, 12, 25}).Draw(rt, "closeAt")
		if rapid.IntRange(0, 2).Draw(rt, "closeAgain?") == 0 {
			sc.closeAgain = rapid.SampledFrom([]int{0, 0, 1, 2, 5}).Draw(rt, "closeAgain")
		}
	}
	for i, n := 0, rapid.SampledFrom([]int{0, 0, 0, 1, 2}).Draw(rt, "ntransients"); i < n; i++ {
		sc.transients = append(sc.transients, transientSpec{
			kind: rapid.SampledFrom([]string{"oneshot-connected", "oneshot-connected", "oneshot-disconnected", "late", "stop-at"}).Draw(rt, "transient"),
			pos:  rapid.IntRange(0, 2).Draw(rt, "pos"),
			at:   rapid.SampledFrom([]int{0, 1, 2, 5, 10, 20}).Draw(rt, "transientAt"),
		})
	}
	if rapid.Bool().Draw(rt, "yields?") {
		sc.yields = map[string]int{}
		for _, p := range yieldPoints {
			sc.yields[p] = rapid.SampledFrom([]int{0, 0, 1, 3, 10, 40}).Draw(rt, "yield")
			if strings.HasPrefix(p, "addConn:") && rapid.Bool().Draw(rt, "sleep?") {
				sc.yields[p] = -rapid.SampledFrom([]int{1, 1000, 1000, 5000}).Draw(rt, "sleepMicros")
				if len(sc.transients) > 0 || sc.closeAgain >= 0 {
					// somebody may wait for a lock meanwhile (not a durable wait): no virtual sleeps
					sc.yields[p] = 40
				}
			}
		}
	}
	return sc
}

func (sc *scenario) String() string {
	var b strings.Builder
	for i, c := range sc.conns {
		fmt.Fprintf(&b, "c%d{p%d lim=%v in=%v admit=%d rm=%s@%d block=%v dblock=%v cic=%d cid=%v streams=%v", i, c.peer, c.limited, c.inbound, c.admitAt, c.removal, c.removeAt,
			c.block, c.dblock, c.closeInConnected, c.closeInDisconnected, c.streams)
		if c.closeErr {
			b.WriteString(" closeErr")
		}
		b.WriteString("} ")
	}
	fmt.Fprintf(&b, "swarmClose=%d", sc.closeAt)
	if sc.metrics {
		b.WriteString(" metrics")
	}
	if sc.closeAgain >= 0 {
		fmt.Fprintf(&b, "(+again@%d)", sc.closeAt+sc.closeAgain)
	}
	for _, tr := range sc.transients {
		fmt.Fprintf(&b, " transient{%s pos=%d at=%d}", tr.kind, tr.pos, tr.at)
	}
	if sc.yields != nil {
		fmt.Fprintf(&b, " yields=")
		for _, p := range yieldPoints {
			fmt.Fprintf(&b, "%s:%d,", p, sc.yields[p])
		}
	}
	return b.String()
}

// ---------------------------------------------------------------------------
// recording

type cbRec struct {
	kind        string // "connected" | "disconnected" | "stream"
	notifiee    int
	conn        string // swarm connection ID = connection identity
	addr        string // remote multiaddr (identifies the generated spec)
	entry, exit int64
	at          time.Time
}

type recorder struct {
	seq  atomic.Int64
	mu   sync.Mutex
	recs []*cbRec
}

func (r *recorder) enter(kind string, n int, c network.Conn) *cbRec {
	rec := &cbRec{kind: kind, notifiee: n, conn: c.ID(), addr: c.RemoteMultiaddr().String(), entry: r.seq.Add(1), at: time.Now()}
	r.mu.Lock()
	r.recs = append(r.recs, rec)
	r.mu.Unlock()
	return rec
}

func (r *recorder) leave(rec *cbRec) {
	e := r.seq.Add(1)
	r.mu.Lock()
	rec.exit = e
	r.mu.Unlock()
}

func (r *recorder) snapshot() []cbRec {
	r.mu.Lock()
	defer r.mu.Unlock()
	out := make([]cbRec, len(r.recs))
	for i, x := range r.recs {
		out[i] = *x
	}
	return out
}

type notifiee struct {
	idx   int
	rec   *recorder
	specs map[string]*connSpec // by remote multiaddr
	conns *sync.Map            // remote multiaddr -> latest network.Conn (for removal events)
	byID  *sync.Map            // conn ID -> network.Conn
	// spin: linger by yielding instead of sleeping. Needed whenever somebody may wait for a lock
	// the swarm holds while it dispatches (Notify/StopNotify, a second Swarm.Close): such a
	// wait is not durable, so virtual time cannot advance while it lasts.
	spin bool
}

func (n *notifiee) linger(ms int) {
	if ms <= 0 {
		return
	}
	if n.spin {
		for i := 0; i < 25*ms; i++ {
			runtime.Gosched()
		}
		return
	}
	time.Sleep(time.Duration(ms) * time.Millisecond)
}

func (n *notifiee) Listen(network.Network, ma.Multiaddr)      {}
func (n *notifiee) ListenClose(network.Network, ma.Multiaddr) {}
func (n *notifiee) Connected(_ network.Network, c network.Conn) {
	id := c.RemoteMultiaddr().String()
	r := n.rec.enter("connected", n.idx, c)
	defer n.rec.leave(r)
	n.conns.Store(id, c)
	n.byID.Store(c.ID(), c)
	if sp := n.specs[id]; sp != nil {
		n.linger(sp.block[n.idx])
		if sp.closeInConnected == n.idx {
			c.Close()
		}
	}
}
func (n *notifiee) Disconnected(_ network.Network, c network.Conn) {
	id := c.RemoteMultiaddr().String()
	r := n.rec.enter("disconnected", n.idx, c)
	defer n.rec.leave(r)
	if sp := n.specs[id]; sp != nil {
		n.linger(sp.dblock[n.idx])
		if sp.closeInDisconnected {
			c.Close() // misuse the swarm promises to tolerate
		}
	}
}

// transient is a notifiee that signs off (or on) while events are being dispatched. Signing off
// from inside a callback must go through another goroutine (the swarm holds its registry lock
// while dispatching, so a synchronous call would deadlock); the callback then yields a few times
// so that the sign-off gets its chance while the dispatch is still in progress. (It must not
// sleep: the sign-off waits on that lock, which is not a durable wait, and virtual time
// would stand still.)
type transient struct {
	idx  int
	spec transientSpec
	rec  *recorder
	sw   *swarm.Swarm
	once sync.Once
}

func (n *transient) Listen(network.Network, ma.Multiaddr)      {}
func (n *transient) ListenClose(network.Network, ma.Multiaddr) {}
func (n *transient) signOff() {
	n.once.Do(func() {
		go n.sw.StopNotify(n)
		for i := 0; i < 30; i++ {
			runtime.Gosched()
		}
	})
}
func (n *transient) Connected(_ network.Network, c network.Conn) {
	r := n.rec.enter("connected", n.idx, c)
	defer n.rec.leave(r)
	if n.spec.kind == "oneshot-connected" {
		n.signOff()
	}
}
func (n *transient) Disconnected(_ network.Network, c network.Conn) {
	r := n.rec.enter("disconnected", n.idx, c)
	defer n.rec.leave(r)
	if n.spec.kind == "oneshot-disconnected" {
		n.signOff()
	}
}

func peerID(i int) peer.ID { return keys.Ed(70 + i).ID }

func connAddr(i int, sp *connSpec) ma.Multiaddr {
	if sp.limited {
		return ma.StringCast(fmt.Sprintf("/ip4/7.7.7.%d/tcp/%d/p2p/%s/p2p-circuit", i+1, 5000+i, keys.Ed(98).ID))
	}
	return ma.StringCast(fmt.Sprintf("/ip4/7.7.%d.%d/tcp/%d", sp.peer, i+1, 5000+i))
}

func runScenario(t *testing.T, rt *rapid.T, name string, sc *scenario) {
	var (
		nontrivial bool
		labels     = map[string]bool{}
	)
	for _, tr := range sc.transients {
		labels["notifiee-registry-changes-during-dispatch:"+tr.kind] = true
	}
	if sc.yields != nil {
		currentYields.Store(&sc.yields)
		labels["schedule-points-yielding"] = true
	} else {
		currentYields.Store(nil)
	}
	if sc.metrics {
		labels["swarm-with-metrics-tracer"] = true
		for _, c := range sc.conns {
			if c.limited {
				labels["limited-conn-under-metrics-tracer"] = true
			}
		}
	}
	for _, c := range sc.conns {
		if c.closeErr {
			labels["transport-close-reports-error"] = true
		}
	}
	defer currentYields.Store(nil)
	hx.Bubble(t, rt, func() {
		local := keys.Ed(0)
		ps, err := pstoremem.NewPeerstore()
		if err != nil {
			rt.Fatalf("peerstore: %v", err)
		}
		defer ps.Close()
		bus := eventbus.NewBus()
		sub, err := bus.Subscribe(new(event.EvtPeerConnectednessChanged), eventbus.BufSize(4096))
		if err != nil {
			rt.Fatalf("subscribe: %v", err)
		}
		defer sub.Close()

		rec := &recorder{}
		specs := map[string]*connSpec{}
		conns := &sync.Map{}
		byID := &sync.Map{}
		tconns := make([]*scripted.Conn, len(sc.conns))
		returned := &sync.Map{} // Conn.ID() -> remote address of every connection DialPeer returned
		w := scripted.NewWorld()
		var set *scripted.Set
		set = scripted.NewSet(w, local.ID, func(addr ma.Multiaddr, p peer.ID, n int) scripted.Script {
			sc := scripted.Script{Outcome: scripted.Succeed}
			if sp := specs[addr.String()]; sp != nil {
				lim := sp.limited
				sc.Limited = &lim
				if sp.closeErr {
					sc.CloseErr = errTransportClose
				}
			}
			return sc
		})
		swOpts := []swarm.Option{swarm.WithUDPBlackHoleSuccessCounter(nil), swarm.WithIPv6BlackHoleSuccessCounter(nil)}
		if sc.metrics {
			swOpts = append(swOpts, swarm.WithMetricsTracer(nopTracer{}))
		}
		sw, err := swarm.NewSwarm(local.ID, ps, bus, swOpts...)
		if err != nil {
			rt.Fatalf("swarm: %v", err)
		}
		for _, tr := range set.All() {
			if err := sw.AddTransport(tr); err != nil {
				rt.Fatalf("transport: %v", err)
			}
		}
		if err := sw.Listen(ma.StringCast("/ip4/127.0.0.1/tcp/4001")); err != nil {
			rt.Fatalf("listen: %v", err)
		}
		lis := set.TCP.Listeners()[0]
		for i := range sc.conns {
			sp := &sc.conns[i]
			specs[connAddr(i, sp).String()] = sp
		}
		spin := len(sc.transients) > 0 || sc.closeAgain >= 0
		n0 := &notifiee{idx: 0, rec: rec, specs: specs, conns: conns, byID: byID, spin: spin}
		n1 := &notifiee{idx: 1, rec: rec, specs: specs, conns: conns, byID: byID, spin: spin}
		var trs []*transient
		for i, ts := range sc.transients {
			trs = append(trs, &transient{idx: 10 + i, spec: ts, rec: rec, sw: sw})
		}
		signUp := func(pos int) {
			for _, tr := range trs {
				if tr.spec.pos == pos && tr.spec.kind != "late" {
					sw.Notify(tr)
				}
			}
		}
		signUp(0)
		sw.Notify(n0)
		signUp(1)
		sw.Notify(n1)
		signUp(2)
		sw.SetStreamHandler(func(s network.Stream) {
			r := rec.enter("stream", -1, s.Conn())
			rec.leave(r)
			s.Reset()
		})

		// outbound conns are created by the scripted transport when dialled; make them findable
		w.OnDial = nil
		var closeReturned atomic.Int64
		var closeStarted atomic.Int64
		var wg sync.WaitGroup
		at := func(ms int, f func()) {
			wg.Add(1)
			go func() {
				defer wg.Done()
				time.Sleep(time.Duration(ms) * time.Millisecond)
				f()
			}()
		}
		for _, tr := range trs {
			switch tr.spec.kind {
			case "late":
				at(tr.spec.at, func() { sw.Notify(tr) })
			case "stop-at":
				at(tr.spec.at, func() { sw.StopNotify(tr) })
			}
		}
		for i := range sc.conns {
			sp := &sc.conns[i]
			addr := connAddr(i, sp)
			if sp.inbound {
				tr := set.TCP
				if sp.limited {
					tr = set.Circuit
				}
				tc := tr.NewConn(peerID(sp.peer), addr, sp.limited)
				if sp.closeErr {
					tc.CloseErr = errTransportClose
				}
				tconns[i] = tc
				at(sp.admitAt, func() { lis.Inject(tc) })
			} else {
				at(sp.admitAt, func() {
					// a dial only creates a connection if none is usable yet; give the peer exactly this address
					ps.SetAddr(peerID(sp.peer), addr, time.Hour)
					ctx := context.Background()
					if sp.limited {
						ctx = network.WithAllowLimitedConn(ctx, "test")
					}
					ctx, cancel := context.WithTimeout(ctx, time.Second)
					defer cancel()
					// a connection the swarm hands to a caller is an admitted one (a new one or one it
					// already had): it must be announced like any other
					if c, err := sw.DialPeer(ctx, peerID(sp.peer)); err == nil && c != nil {
						returned.Store(c.ID(), c.RemoteMultiaddr().String())
					}
				})
			}
			if sp.removal != "" {
				at(sp.removeAt, func() {
					switch sp.removal {
					case "remote":
						if tc := tconns[i]; tc != nil {
							tc.RemoteClose()
						} else if c, ok := conns.Load(addr.String()); ok {
							c.(network.Conn).Close()
						}
					case "closePeer":
						sw.ClosePeer(peerID(sp.peer))
					default:
						if c, ok := conns.Load(addr.String()); ok {
							if sp.removal == "localErr" {
								c.(network.Conn).CloseWithError(42)
							} else {
								c.(network.Conn).Close()
							}
						} else if tc := tconns[i]; tc != nil {
							tc.RemoteClose()
						}
					}
				})
			}
			for _, st := range sp.streams {
				at(st, func() {
					if tc := tconns[i]; tc != nil {
						if remote, ok := tc.InjectStream(); ok {
							_ = remote
						}
					}
				})
			}
		}
		if sc.closeAt >= 0 {
			at(sc.closeAt, func() {
				closeStarted.Store(rec.seq.Add(1))
				sw.Close()
				closeReturned.CompareAndSwap(0, rec.seq.Add(1)) // the first Close call to return counts
			})
		}
		if sc.closeAt >= 0 && sc.closeAgain >= 0 {
			at(sc.closeAt+sc.closeAgain, func() {
				sw.Close()
				closeReturned.CompareAndSwap(0, rec.seq.Add(1))
			})
			labels["second-close-call"] = true
		}
		// every scheduled action has returned, every callback delay has elapsed, and nothing is
		// runnable any more (in this order: an action that returns late must not let the audit
		// start while the swarm's goroutines are still working)
		wg.Wait()
		time.Sleep(200 * time.Millisecond)
		synctest.Wait()

		// outbound transport conns (created by dials)
		for _, d := range w.Snapshot() {
			if d.Conn != nil {
				for i := range sc.conns {
					if connAddr(i, &sc.conns[i]).String() == d.Addr.String() {
						tconns[i] = d.Conn
					}
				}
			}
		}

		check := func(when string, final bool) {
			if os.Getenv("VERIF_DEBUG") != "" {
				println("DBG check", when, sw.Connectedness(peerID(0)).String(), sw.Connectedness(peerID(1)).String())
			}
			recs := rec.snapshot()
			fail := func(format string, args ...any) {
				var b strings.Builder
				for _, r := range recs {
					fmt.Fprintf(&b, "\n  [%d..%d] %s n%d %s %s", r.entry, r.exit, r.kind, r.notifiee, r.conn, r.addr)
				}
				b.WriteString("\nconnectedness events:")
				for _, e := range allEvents {
					fmt.Fprintf(&b, " %s=%s", e.Peer.ShortString(), e.Connectedness)
				}
				rt.Fatalf("%s: %s\nschedule: %s\nclose started/returned at seq %d/%d\ncallbacks:%s", when, fmt.Sprintf(format, args...), sc, closeStarted.Load(), closeReturned.Load(), b.String())
			}
			type key struct {
				kind string
				n    int
				conn string
			}
			count := map[key][]cbRec{}
			for _, r := range recs {
				if r.exit == 0 {
					fail("callback %s(n%d, %s) has not returned at quiescence", r.kind, r.notifiee, r.conn)
				}
				count[key{r.kind, r.notifiee, r.conn}] = append(count[key{r.kind, r.notifiee, r.conn}], r)
			}
			admitted := map[string]bool{}
			admittedAddr := map[string]bool{}
			addrOf := map[string]string{}
			for k, rs := range count {
				addrOf[k.conn] = rs[0].addr
				if k.kind == "connected" {
					admitted[k.conn] = true
					admittedAddr[rs[0].addr] = true
				}
			}
			swarmClosed := closeReturned.Load() != 0
			returned.Range(func(id, addr any) bool {
				if !admitted[id.(string)] {
					fail("DialPeer returned connection %s (%s) without error, but it was never announced with Connected", id, addr)
				}
				return true
			})
			for id := range admitted {
				var maxConnExit, minDiscEntry int64 = 0, 1 << 62
				for n := 0; n < 2; n++ {
					cs := count[key{"connected", n, id}]
					if len(cs) != 1 {
						fail("notifiee %d observed Connected %d times for %s", n, len(cs), id)
					}
					if cs[0].exit > maxConnExit {
						maxConnExit = cs[0].exit
					}
					ds := count[key{"disconnected", n, id}]
					if len(ds) > 1 {
						fail("notifiee %d observed Disconnected %d times for %s", n, len(ds), id)
					}
					if len(ds) == 1 && ds[0].entry < minDiscEntry {
						minDiscEntry = ds[0].entry
					}
				}
				nd := len(count[key{"disconnected", 0, id}]) + len(count[key{"disconnected", 1, id}])
				if nd == 1 {
					fail("only one of the two notifiees observed Disconnected for %s", id)
				}
				if nd == 2 && minDiscEntry < maxConnExit {
					fail("Disconnected for %s started (seq %d) before Connected had returned (seq %d)", id, minDiscEntry, maxConnExit)
				}
				// closed connections have their Disconnected by quiescence
				var closed bool
				if c, ok := byID.Load(id); ok {
					closed = c.(network.Conn).IsClosed()
				}
				if closed && nd != 2 {
					fail("connection %s is closed but Disconnected was not delivered", id)
				}
				if !closed && nd != 0 {
					fail("Disconnected was delivered for %s although the connection is still open", id)
				}
				if swarmClosed && nd != 2 {
					fail("Swarm.Close returned but Disconnected for the admitted connection %s was not delivered", id)
				}
				for _, s := range count[key{"stream", -1, id}] {
					if s.entry < maxConnExit {
						fail("an inbound stream of %s was delivered (seq %d) before Connected had returned (seq %d)", id, s.entry, maxConnExit)
					}
				}
				if swarmClosed {
					for _, r := range recs {
						// (stream handlers are deliberately not waited for by Swarm.Close)
						if r.kind != "stream" && r.conn == id && r.exit > closeReturned.Load() {
							fail("callback %s(n%d, %s) was still running (until seq %d) after Swarm.Close had returned (seq %d)", r.kind, r.notifiee, id, r.exit, closeReturned.Load())
						}
					}
				}
			}
			// notifiees that come and go: never more than once per connection and kind
			for k, rs := range count {
				if k.n >= 10 && len(rs) > 1 {
					fail("transient notifiee %d (%+v) observed %s %d times for %s", k.n, sc.transients[k.n-10], k.kind, len(rs), k.conn)
				}
			}
			// a stream delivered for a connection that never got Connected
			for k := range count {
				if k.kind == "stream" && !admitted[k.conn] {
					fail("an inbound stream was delivered for %s, which never got Connected", k.conn)
				}
				if k.kind == "disconnected" && !admitted[k.conn] {
					fail("Disconnected delivered for %s, which never got Connected", k.conn)
				}
			}
			// without a Swarm.Close in the schedule every connection handed to the swarm is admitted
			if sc.closeAt < 0 {
				for i := range sc.conns {
					sp := &sc.conns[i]
					if sp.inbound && !admittedAddr[connAddr(i, sp).String()] {
						fail("inbound connection %d was handed to the swarm but never announced with Connected", i)
					}
				}
			}
			// connectedness events
			var evs []event.EvtPeerConnectednessChanged
		drain:
			for {
				select {
				case e, ok := <-sub.Out():
					if !ok {
						break drain
					}
					evs = append(evs, e.(event.EvtPeerConnectednessChanged))
				default:
					break drain
				}
			}
			allEvents = append(allEvents, evs...)
			last := map[peer.ID]network.Connectedness{}
			seen := map[peer.ID]bool{}
			for _, e := range allEvents {
				if seen[e.Peer] && last[e.Peer] == e.Connectedness && e.Connectedness != network.NotConnected {
					fail("connectedness event %s repeated for peer %s", e.Connectedness, e.Peer.ShortString())
				}
				seen[e.Peer], last[e.Peer] = true, e.Connectedness
			}
			if !swarmClosed {
				for pi := 0; pi < 2; pi++ {
					p := peerID(pi)
					want := sw.Connectedness(p)
					got := network.NotConnected
					if seen[p] {
						got = last[p]
					}
					if got != want {
						fail("last connectedness event for peer %d is %s but Connectedness() is %s", pi, got, want)
					}
					// the listed connections are exactly the admitted, still open ones
					listed := map[string]bool{}
					for _, c := range sw.ConnsToPeer(p) {
						listed[c.ID()] = true
					}
					open := map[string]bool{}
					for id := range admitted {
						if c, ok := byID.Load(id); ok && c.(network.Conn).RemotePeer() == p && !c.(network.Conn).IsClosed() {
							open[id] = true
						}
					}
					for id := range listed {
						if !open[id] {
							fail("ConnsToPeer(peer %d) lists %s, which is not an admitted open connection", pi, id)
						}
					}
					for id := range open {
						if !listed[id] {
							fail("ConnsToPeer(peer %d) omits the admitted open connection %s", pi, id)
						}
					}
					// truthfulness of the state itself
					direct, limited := false, false
					for id := range open {
						// what the transport produced decides (the harness' own record), not what the swarm reports
						c, _ := byID.Load(id)
						sp := specs[c.(network.Conn).RemoteMultiaddr().String()]
						isLimited := c.(network.Conn).Stat().Limited
						if sp != nil {
							if sp.limited != isLimited {
								fail("connection %s to peer %d: the transport produced limited=%v, the swarm's connection reports Limited=%v", id, pi, sp.limited, isLimited)
							}
							isLimited = sp.limited
						}
						if isLimited {
							limited = true
						} else {
							direct = true
						}
					}
					model := network.NotConnected
					if direct {
						model = network.Connected
					} else if limited {
						model = network.Limited
					}
					if want != model {
						fail("Connectedness(peer %d) = %s but the open connections imply %s", pi, want, model)
					}
				}
			} else {
				for pi := 0; pi < 2; pi++ {
					p := peerID(pi)
					if seen[p] && last[p] != network.NotConnected {
						fail("after Swarm.Close the last connectedness event for peer %d is %s", pi, last[p])
					}
				}
			}
			// coverage classification
			if final {
				for i := range sc.conns {
					sp := &sc.conns[i]
					id := connAddr(i, sp).String()
					if !admittedAddr[id] {
						continue
					}
					window := time.Duration(max(sp.block[0], sp.block[1])) * time.Millisecond
					if sp.closeInConnected >= 0 || (sp.removal != "" && sp.removeAt >= sp.admitAt && time.Duration(sp.removeAt-sp.admitAt)*time.Millisecond <= window) {
						nontrivial = true
						labels["removal-overlaps-connected-window"] = true
					}
					for j := range sc.conns {
						if j != i && sc.conns[j].peer == sp.peer && admittedAddr[connAddr(j, &sc.conns[j]).String()] {
							nontrivial = true
							labels["several-conns-to-one-peer"] = true
						}
					}
				}
				if cs := closeStarted.Load(); cs != 0 {
					for _, r := range recs {
						if r.entry < cs && r.exit > cs {
							nontrivial = true
							labels["swarm-close-with-callbacks-in-flight"] = true
						}
					}
					labels["swarm-close"] = true
				}
				if len(admitted) == 0 {
					labels["nothing-admitted"] = true
				}
			}
		}
		check("at quiescence", false)
		if closeReturned.Load() == 0 {
			closeStarted.Store(rec.seq.Add(1))
			sw.Close()
			closeReturned.Store(rec.seq.Add(1))
		}
		synctest.Wait()
		check("after Swarm.Close", true)
		allEvents = nil
	})
	var ls []string
	for l := range labels {
		ls = append(ls, l)
	}
	sort.Strings(ls)
	stats.Case(name, sc.String(), nontrivial, ls...)
	if stats.WantSample(name) {
		stats.Sample(name, sc.String())
	}
}

// allEvents accumulates the connectedness events of the running case (reset per case).
var allEvents []event.EvtPeerConnectednessChanged

func TestNotificationSchedules(t *testing.T) {
	name := t.Name()
	hx.Check(t, 15000, 3000000, 0, func(rt *rapid.T) {
		sc := drawScenario(rt)
		allEvents = nil
		runScenario(t, rt, name, sc)
	})
}
