package c06

import (
	"context"
	"fmt"
	"net"
	"testing"
	"testing/synctest"
	"time"

	"github.com/libp2p/go-libp2p/core/event"
	"github.com/libp2p/go-libp2p/core/network"
	"github.com/libp2p/go-libp2p/core/peer"
	"github.com/libp2p/go-libp2p/core/sec"
	"github.com/libp2p/go-libp2p/core/transport"
	"github.com/libp2p/go-libp2p/p2p/host/eventbus"
	"github.com/libp2p/go-libp2p/p2p/host/peerstore/pstoremem"
	"github.com/libp2p/go-libp2p/p2p/muxer/yamux"
	"github.com/libp2p/go-libp2p/p2p/net/swarm"
	"github.com/libp2p/go-libp2p/p2p/net/upgrader"
	"github.com/libp2p/go-libp2p/p2p/security/noise"
	libp2ptls "github.com/libp2p/go-libp2p/p2p/security/tls"
	ma "github.com/multiformats/go-multiaddr"
	manet "github.com/multiformats/go-multiaddr/net"
	"pgregory.net/rapid"

	"verif/internal/hx"
	"verif/internal/keys"
	"verif/internal/memnet"
	"verif/internal/stats"
)

// The schedules above hand the swarm scripted transport connections. This property covers the
// stretch before that: what a transport builds with the repository's own upgrader (private-network
// wrapping on or off, Noise or TLS, yamux) out of a raw connection that says whether it is limited
// (as the relay client's connections do). What the swarm then reports for the peer - the
// connection's Stat().Limited, Connectedness, the published event - must be what the raw
// connection said, in every configuration of the upgrader.

type statConn struct {
	manet.Conn
	limited bool
}

func (c *statConn) Stat() network.ConnStats {
	return network.ConnStats{Stats: network.Stats{Limited: c.limited}}
}

type pipeTransport struct {
	me, remote *keys.Identity
	up, rup    transport.Upgrader
	limited    bool
	raddr      ma.Multiaddr
	served     chan transport.CapableConn
	raws       []*memnet.Conn
}

func (t *pipeTransport) Dial(ctx context.Context, raddr ma.Multiaddr, p peer.ID) (transport.CapableConn, error) {
	rna, _ := manet.ToNetAddr(raddr)
	ca, cb := memnet.Pipe(memnet.Options{LocalAddr: &net.TCPAddr{IP: net.IPv4(10, 9, 0, 1), Port: 5555}, RemoteAddr: rna})
	t.raws = append(t.raws, ca, cb)
	mca, err := manet.WrapNetConn(ca)
	if err != nil {
		return nil, err
	}
	mcb, err := manet.WrapNetConn(cb)
	if err != nil {
		return nil, err
	}
	go func() {
		// the accepting side has a life of its own (the dial's context ends when Dial returns)
		sctx, cancel := context.WithTimeout(context.Background(), 30*time.Second)
		defer cancel()
		c, err := t.rup.Upgrade(sctx, t, &statConn{mcb, t.limited}, network.DirInbound, "", &network.NullScope{})
		if err != nil {
			cb.Close()
			c = nil
		}
		t.served <- c
	}()
	c, err := t.up.Upgrade(ctx, t, &statConn{mca, t.limited}, network.DirOutbound, p, &network.NullScope{})
	if err != nil {
		ca.Close()
	}
	return c, err
}
func (t *pipeTransport) CanDial(a ma.Multiaddr) bool { return a.Equal(t.raddr) }
func (t *pipeTransport) Listen(ma.Multiaddr) (transport.Listener, error) {
	return nil, fmt.Errorf("pipeTransport: no listening")
}
func (t *pipeTransport) Protocols() []int { return []int{ma.P_TCP} }
func (t *pipeTransport) Proxy() bool      { return false }

var testPSK = func() []byte {
	k := make([]byte, 32)
	for i := range k {
		k[i] = byte(7*i + 1)
	}
	return k
}()

func mkUpgrader(id *keys.Identity, security string, psk bool) (transport.Upgrader, error) {
	muxers := []upgrader.StreamMuxer{{ID: yamux.ID, Muxer: yamux.DefaultTransport}}
	var st sec.SecureTransport
	var err error
	if security == "noise" {
		st, err = noise.New(noise.ID, id.Priv, muxers)
	} else {
		st, err = libp2ptls.New(libp2ptls.ID, id.Priv, muxers)
	}
	if err != nil {
		return nil, err
	}
	var k []byte
	if psk {
		k = testPSK
	}
	return upgrader.New([]sec.SecureTransport{st}, muxers, k, nil, nil)
}

func TestUpgradedConnKeepsLimitedFlag(t *testing.T) {
	name := t.Name()
	hx.Check(t, 120, 6000, 0, func(rt *rapid.T) {
		limited := rapid.Bool().Draw(rt, "limited")
		psk := rapid.Bool().Draw(rt, "psk")
		security := rapid.SampledFrom([]string{"noise", "tls"}).Draw(rt, "security")
		metrics := rapid.IntRange(0, 2).Draw(rt, "metrics") == 0
		allow := rapid.IntRange(0, 3).Draw(rt, "allowLimited") != 0
		hx.Bubble(t, rt, func() {
			A, B := keys.Ed(0), keys.Ed(1)
			ua, err := mkUpgrader(A, security, psk)
			if err != nil {
				rt.Fatalf("upgrader: %v", err)
			}
			ub, err := mkUpgrader(B, security, psk)
			if err != nil {
				rt.Fatalf("upgrader: %v", err)
			}
			raddr := ma.StringCast("/ip4/10.9.0.2/tcp/4001")
			pt := &pipeTransport{me: A, remote: B, up: ua, rup: ub, limited: limited, raddr: raddr, served: make(chan transport.CapableConn, 4)}
			ps, err := pstoremem.NewPeerstore()
			if err != nil {
				rt.Fatalf("peerstore: %v", err)
			}
			defer ps.Close()
			bus := eventbus.NewBus()
			sub, err := bus.Subscribe(new(event.EvtPeerConnectednessChanged), eventbus.BufSize(16))
			if err != nil {
				rt.Fatalf("subscribe: %v", err)
			}
			defer sub.Close()
			opts := []swarm.Option{swarm.WithUDPBlackHoleSuccessCounter(nil), swarm.WithIPv6BlackHoleSuccessCounter(nil)}
			if metrics {
				opts = append(opts, swarm.WithMetricsTracer(nopTracer{}))
			}
			sw, err := swarm.NewSwarm(A.ID, ps, bus, opts...)
			if err != nil {
				rt.Fatalf("swarm: %v", err)
			}
			if err := sw.AddTransport(pt); err != nil {
				rt.Fatalf("transport: %v", err)
			}
			ps.AddAddr(B.ID, raddr, time.Hour)
			ctx, cancel := context.WithTimeout(context.Background(), 30*time.Second)
			defer cancel()
			if allow {
				ctx = network.WithAllowLimitedConn(ctx, "c06")
			}
			cx := fmt.Sprintf("raw connection limited=%v, upgrader psk=%v security=%s, swarm metrics tracer=%v, caller allows limited=%v", limited, psk, security, metrics, allow)
			c, err := sw.DialPeer(ctx, B.ID)
			synctest.Wait()
			served := <-pt.served
			if served == nil {
				rt.Fatalf("%s: the remote side's upgrade failed (dial: %v)", cx, err)
			}
			if cs, ok := served.(network.ConnStat); !ok || cs.Stat().Limited != limited {
				rt.Fatalf("%s: the accepting side's upgraded connection reports Limited=%v", cx, ok && cs.Stat().Limited)
			}
			// (whether DialPeer hands a fresh limited connection to a caller that did not ask for one is not
			// this property's business; what the swarm SAYS about the connection is)
			if err == nil && c != nil && c.Stat().Limited != limited {
				rt.Fatalf("%s: the swarm's connection reports Limited=%v", cx, c.Stat().Limited)
			}
			if cs := sw.ConnsToPeer(B.ID); len(cs) != 1 || cs[0].Stat().Limited != limited {
				rt.Fatalf("%s: ConnsToPeer = %v (want one connection with Limited=%v)", cx, cs, limited)
			}
			want := network.Connected
			if limited {
				want = network.Limited
			}
			if got := sw.Connectedness(B.ID); got != want {
				rt.Fatalf("%s: Connectedness = %s, the only connection to the peer implies %s", cx, got, want)
			}
			var last *event.EvtPeerConnectednessChanged
			for done := false; !done; {
				select {
				case e := <-sub.Out():
					ev := e.(event.EvtPeerConnectednessChanged)
					last = &ev
				default:
					done = true
				}
			}
			if last == nil || last.Connectedness != want {
				rt.Fatalf("%s: last published connectedness event %+v, want %s", cx, last, want)
			}
			if _, err := sw.NewStream(context.Background(), B.ID); limited && err == nil {
				rt.Fatalf("%s: NewStream without WithAllowLimitedConn opened a stream over the limited connection", cx)
			}
			sw.Close()
			served.Close()
			for _, r := range pt.raws {
				r.Close()
			}
			time.Sleep(time.Second)
			synctest.Wait()
		})
		stats.Case(name, fmt.Sprintf("%v/%v/%s/%v/%v", limited, psk, security, metrics, allow), limited && (psk || metrics),
			fmt.Sprintf("limited=%v", limited), fmt.Sprintf("psk=%v", psk), "security="+security, fmt.Sprintf("metrics=%v", metrics))
	})
}
