// Package scripted provides a transport.Transport that moves no bytes over any
// network: Dial follows a per-address script (succeed / fail / hang, after a virtual
// delay, optionally reporting handshake progress first) and returns a fake
// CapableConn; inbound connections are injected through fake listeners. Every dial
// is recorded with its start/end instants and the concurrency high-water marks, so
// histories of what the swarm asked the transport to do can be audited.
package scripted

import (
	"context"
	"errors"
	"fmt"
	"net"
	"sync"
	"sync/atomic"
	"time"

	ic "github.com/libp2p/go-libp2p/core/crypto"
	"github.com/libp2p/go-libp2p/core/network"
	"github.com/libp2p/go-libp2p/core/peer"
	"github.com/libp2p/go-libp2p/core/transport"
	ma "github.com/multiformats/go-multiaddr"
	manet "github.com/multiformats/go-multiaddr/net"

	"verif/internal/memnet"
)

type Outcome int

const (
	Succeed Outcome = iota
	Fail
	Hang // until the context is cancelled
)

func (o Outcome) String() string { return [...]string{"succeed", "fail", "hang"}[o] }

// Script says how one Dial invocation behaves.
type Script struct {
	Outcome       Outcome
	Delay         time.Duration // before the outcome
	Progress      bool          // send UpdateKindHandshakeProgressed after ProgressDelay (DialWithUpdates only)
	ProgressDelay time.Duration
	AsPeer        peer.ID // if set, the returned conn is authenticated as this peer instead of the dialled one
	Limited       *bool   // overrides the transport's Limited flag for this conn
	// IgnoreCancel: a successful dial completes after Delay even if its context was cancelled
	// meanwhile (the handshake finished at or just after the cancel, as a real transport may)
	IgnoreCancel bool
	// CloseErr: what the produced connection's Close / CloseWithError return (the connection is
	// shut down all the same, as with a real transport whose close reports an error)
	CloseErr error
}

var ErrScriptedFailure = errors.New("scripted: dial failed")

var connSeq atomic.Int64

// DialRecord is one Dial invocation as seen by the transport.
type DialRecord struct {
	Seq        int
	Transport  string
	Addr       ma.Multiaddr
	Peer       peer.ID
	Start, End time.Time
	Done       bool
	Err        error
	CtxDone    bool // the dial ended because its context was done
	// CancelAt: when the context ended, for a dial that went on regardless (Script.IgnoreCancel)
	CancelAt  time.Time
	CancelErr error
	Conn      *Conn
	Script    Script
	FD        bool
}

// World is shared by all transports of one case; it numbers dials globally and keeps
// the global in-flight counters.
type World struct {
	mu          sync.Mutex
	seq         int
	Dials       []*DialRecord
	inflight    map[peer.ID]int
	inflightFD  int
	MaxPerPeer  map[peer.ID]int
	MaxFD       int
	MaxInflight int
	total       int
	OnDial      func(*DialRecord) // optional observer, called at dial start (outside locks)
}

func NewWorld() *World {
	return &World{inflight: map[peer.ID]int{}, MaxPerPeer: map[peer.ID]int{}}
}

// InFlight returns the number of Dial calls currently running.
func (w *World) InFlight() int {
	w.mu.Lock()
	defer w.mu.Unlock()
	return w.total
}

// Snapshot returns a copy of the dial records.
func (w *World) Snapshot() []DialRecord {
	w.mu.Lock()
	defer w.mu.Unlock()
	out := make([]DialRecord, len(w.Dials))
	for i, d := range w.Dials {
		out[i] = *d
	}
	return out
}

// Transport is the scripted transport.
type Transport struct {
	W       *World
	Name    string
	Local   peer.ID
	Protos  []int
	IsProxy bool
	Limited bool // connections report Stat().Limited
	FD      bool // counts as file-descriptor consuming in the records
	Match   func(ma.Multiaddr) bool
	// ScriptFor chooses the behaviour for the n-th (0-based) dial of addr.
	ScriptFor func(addr ma.Multiaddr, p peer.ID, n int) Script
	// NoUpdates hides DialWithUpdates (the swarm then calls Dial).
	mu        sync.Mutex
	perAddr   map[string]int
	listeners []*Listener
	Conns     []*Conn
}

// updater wraps Transport to expose DialWithUpdates only when wanted.
type Updater struct{ *Transport }

func (u Updater) DialWithUpdates(ctx context.Context, raddr ma.Multiaddr, p peer.ID, ch chan<- transport.DialUpdate) (transport.CapableConn, error) {
	return u.Transport.dial(ctx, raddr, p, ch)
}

func (t *Transport) Dial(ctx context.Context, raddr ma.Multiaddr, p peer.ID) (transport.CapableConn, error) {
	return t.dial(ctx, raddr, p, nil)
}

func (t *Transport) dial(ctx context.Context, raddr ma.Multiaddr, p peer.ID, ch chan<- transport.DialUpdate) (transport.CapableConn, error) {
	t.mu.Lock()
	if t.perAddr == nil {
		t.perAddr = map[string]int{}
	}
	key := string(p) + "|" + string(raddr.Bytes())
	n := t.perAddr[key]
	t.perAddr[key] = n + 1
	t.mu.Unlock()
	sc := Script{Outcome: Fail}
	if t.ScriptFor != nil {
		sc = t.ScriptFor(raddr, p, n)
	}

	w := t.W
	w.mu.Lock()
	rec := &DialRecord{Seq: w.seq, Transport: t.Name, Addr: raddr, Peer: p, Start: time.Now(), Script: sc, FD: t.FD}
	w.seq++
	w.Dials = append(w.Dials, rec)
	w.inflight[p]++
	w.total++
	if w.inflight[p] > w.MaxPerPeer[p] {
		w.MaxPerPeer[p] = w.inflight[p]
	}
	if w.total > w.MaxInflight {
		w.MaxInflight = w.total
	}
	if t.FD {
		w.inflightFD++
		if w.inflightFD > w.MaxFD {
			w.MaxFD = w.inflightFD
		}
	}
	obs := w.OnDial
	w.mu.Unlock()
	if obs != nil {
		obs(rec)
	}

	finish := func(c *Conn, err error, ctxDone bool) (transport.CapableConn, error) {
		w.mu.Lock()
		rec.End, rec.Done, rec.Err, rec.CtxDone, rec.Conn = time.Now(), true, err, ctxDone, c
		w.inflight[p]--
		w.total--
		if t.FD {
			w.inflightFD--
		}
		w.mu.Unlock()
		if err != nil {
			return nil, err
		}
		return c, nil
	}

	wait := func(d time.Duration) bool { // false if ctx ended first
		if d <= 0 {
			return ctx.Err() == nil
		}
		tm := time.NewTimer(d)
		defer tm.Stop()
		select {
		case <-tm.C:
			return true
		case <-ctx.Done():
			return false
		}
	}

	if sc.Progress && ch != nil {
		if !wait(sc.ProgressDelay) {
			return finish(nil, ctx.Err(), true)
		}
		select {
		case ch <- transport.DialUpdate{Kind: transport.UpdateKindHandshakeProgressed, Addr: raddr}:
		case <-ctx.Done():
			return finish(nil, ctx.Err(), true)
		}
	}
	switch sc.Outcome {
	case Hang:
		<-ctx.Done()
		return finish(nil, ctx.Err(), true)
	case Fail:
		if !wait(sc.Delay) {
			return finish(nil, ctx.Err(), true)
		}
		return finish(nil, fmt.Errorf("%w: %s", ErrScriptedFailure, raddr), false)
	default:
		if sc.IgnoreCancel {
			if !wait(sc.Delay) {
				w.mu.Lock()
				rec.CancelAt, rec.CancelErr = time.Now(), ctx.Err()
				w.mu.Unlock()
				if left := sc.Delay - time.Since(rec.Start); left > 0 {
					time.Sleep(left)
				}
			}
		} else if !wait(sc.Delay) {
			return finish(nil, ctx.Err(), true)
		}
		rp := p
		if sc.AsPeer != "" {
			rp = sc.AsPeer
		}
		limited := t.Limited
		if sc.Limited != nil {
			limited = *sc.Limited
		}
		c := t.NewConn(rp, raddr, limited)
		c.CloseErr = sc.CloseErr
		return finish(c, nil, ctx.Err() != nil) // CtxDone on a success: completed although cancelled meanwhile
	}
}

// NewConn makes a fake connection owned by this transport (also used for inbound).
func (t *Transport) NewConn(remote peer.ID, raddr ma.Multiaddr, limited bool) *Conn {
	c := &Conn{
		T: t, Local: t.Local, Remote: remote, RAddr: raddr, Limited: limited,
		// a local address of its own, so that a swarm connection can be traced back to it
		LAddr:    ma.StringCast(fmt.Sprintf("/ip4/127.0.0.1/tcp/%d", 1+connSeq.Add(1)%65000)),
		incoming: make(chan *Stream, 64),
		closedCh: make(chan struct{}),
	}
	t.mu.Lock()
	t.Conns = append(t.Conns, c)
	t.mu.Unlock()
	return c
}

func (t *Transport) CanDial(addr ma.Multiaddr) bool {
	if t.Match != nil {
		return t.Match(addr)
	}
	return true
}

func (t *Transport) Protocols() []int { return t.Protos }
func (t *Transport) Proxy() bool      { return t.IsProxy }
func (t *Transport) String() string   { return "scripted:" + t.Name }

func (t *Transport) Listen(laddr ma.Multiaddr) (transport.Listener, error) {
	l := &Listener{T: t, addr: laddr, ch: make(chan *Conn, 64), closed: make(chan struct{})}
	t.mu.Lock()
	t.listeners = append(t.listeners, l)
	t.mu.Unlock()
	return l, nil
}

// Listeners returns the listeners created so far.
func (t *Transport) Listeners() []*Listener {
	t.mu.Lock()
	defer t.mu.Unlock()
	return append([]*Listener(nil), t.listeners...)
}

// Listener is a fake transport.Listener; Inject hands it an inbound connection.
type Listener struct {
	T      *Transport
	addr   ma.Multiaddr
	ch     chan *Conn
	closed chan struct{}
	once   sync.Once
}

func (l *Listener) Accept() (transport.CapableConn, error) {
	select {
	case <-l.closed:
		return nil, transport.ErrListenerClosed
	default:
	}
	select {
	case c := <-l.ch:
		return c, nil
	case <-l.closed:
		return nil, transport.ErrListenerClosed
	}
}

// Inject queues an inbound connection; false if the listener is closed.
func (l *Listener) Inject(c *Conn) bool {
	select {
	case <-l.closed:
		return false
	default:
	}
	select {
	case l.ch <- c:
		return true
	case <-l.closed:
		return false
	}
}

func (l *Listener) Close() error {
	l.once.Do(func() { close(l.closed) })
	return nil
}

func (l *Listener) IsClosed() bool {
	select {
	case <-l.closed:
		return true
	default:
		return false
	}
}

func (l *Listener) Addr() net.Addr {
	a, err := manet.ToNetAddr(l.addr)
	if err != nil {
		return &net.TCPAddr{}
	}
	return a
}
func (l *Listener) Multiaddr() ma.Multiaddr { return l.addr }

// Conn is a fake transport.CapableConn.
type Conn struct {
	T             *Transport
	Local, Remote peer.ID
	LAddr, RAddr  ma.Multiaddr
	Limited       bool
	PubKey        ic.PubKey

	incoming  chan *Stream
	closedCh  chan struct{}
	closeOnce sync.Once
	CloseCode atomic.Int64 // last error code given to CloseWithError (-1: plain Close)
	// CloseErr is returned by Close and CloseWithError (set before the connection is handed out)
	CloseErr error
	Closes    atomic.Int32

	mu      sync.Mutex
	Streams []*Stream
	// OnOpenStream, when set, receives the remote end of every stream the local side opens.
	OnOpenStream func(remote *memnet.Conn)
	// FailOpenStream makes OpenStream fail.
	FailOpenStream error
}

func (c *Conn) Close() error {
	c.Closes.Add(1)
	c.closeOnce.Do(func() { c.CloseCode.Store(-1); close(c.closedCh); c.resetStreams() })
	return c.CloseErr
}

func (c *Conn) CloseWithError(code network.ConnErrorCode) error {
	c.Closes.Add(1)
	c.closeOnce.Do(func() { c.CloseCode.Store(int64(code)); close(c.closedCh); c.resetStreams() })
	return c.CloseErr
}

// RemoteClose simulates the remote side (or the network) killing the connection.
func (c *Conn) RemoteClose() {
	c.closeOnce.Do(func() { c.CloseCode.Store(-2); close(c.closedCh); c.resetStreams() })
}

func (c *Conn) resetStreams() {
	c.mu.Lock()
	ss := append([]*Stream(nil), c.Streams...)
	c.mu.Unlock()
	for _, s := range ss {
		s.local.Reset()
	}
}

func (c *Conn) IsClosed() bool {
	select {
	case <-c.closedCh:
		return true
	default:
		return false
	}
}

func (c *Conn) newStream() (*Stream, *memnet.Conn) {
	a, b := memnet.Pipe(memnet.Options{})
	s := &Stream{local: a, Remote: b, conn: c}
	c.mu.Lock()
	c.Streams = append(c.Streams, s)
	c.mu.Unlock()
	return s, b
}

func (c *Conn) OpenStream(ctx context.Context) (network.MuxedStream, error) {
	if c.IsClosed() {
		return nil, errors.New("scripted: conn closed")
	}
	if err := ctx.Err(); err != nil {
		return nil, err
	}
	if c.FailOpenStream != nil {
		return nil, c.FailOpenStream
	}
	s, remote := c.newStream()
	if c.OnOpenStream != nil {
		c.OnOpenStream(remote)
	}
	return s, nil
}

func (c *Conn) AcceptStream() (network.MuxedStream, error) {
	select {
	case <-c.closedCh:
		return nil, errors.New("scripted: conn closed")
	default:
	}
	select {
	case s := <-c.incoming:
		return s, nil
	case <-c.closedCh:
		return nil, errors.New("scripted: conn closed")
	}
}

// InjectStream delivers an inbound stream; it returns the remote end for the harness.
// ok is false when the connection is already closed.
func (c *Conn) InjectStream() (remote *memnet.Conn, ok bool) {
	if c.IsClosed() {
		return nil, false
	}
	s, remote := c.newStream()
	select {
	case c.incoming <- s:
		return remote, true
	case <-c.closedCh:
		return nil, false
	}
}

func (c *Conn) As(any) bool                { return false }
func (c *Conn) LocalPeer() peer.ID         { return c.Local }
func (c *Conn) RemotePeer() peer.ID        { return c.Remote }
func (c *Conn) RemotePublicKey() ic.PubKey { return c.PubKey }
func (c *Conn) ConnState() network.ConnectionState {
	return network.ConnectionState{Transport: c.T.Name}
}
func (c *Conn) LocalMultiaddr() ma.Multiaddr   { return c.LAddr }
func (c *Conn) RemoteMultiaddr() ma.Multiaddr  { return c.RAddr }
func (c *Conn) Scope() network.ConnScope       { return &network.NullScope{} }
func (c *Conn) Transport() transport.Transport { return c.T }
func (c *Conn) Stat() network.ConnStats {
	return network.ConnStats{Stats: network.Stats{Limited: c.Limited}}
}

var _ transport.CapableConn = (*Conn)(nil)
var _ network.ConnStat = (*Conn)(nil)

// Stream is a fake network.MuxedStream backed by a memnet pipe.
type Stream struct {
	local     *memnet.Conn
	Remote    *memnet.Conn
	conn      *Conn
	WasReset  atomic.Bool
	ResetCode atomic.Int64
}

func (s *Stream) Read(p []byte) (int, error)  { return s.local.Read(p) }
func (s *Stream) Write(p []byte) (int, error) { return s.local.Write(p) }
func (s *Stream) Close() error                { return s.local.Close() }
func (s *Stream) CloseWrite() error           { return s.local.CloseWrite() }
func (s *Stream) CloseRead() error            { return s.local.CloseRead() }
func (s *Stream) Reset() error                { s.WasReset.Store(true); s.local.Reset(); return nil }
func (s *Stream) ResetWithError(code network.StreamErrorCode) error {
	s.WasReset.Store(true)
	s.ResetCode.Store(int64(code))
	s.local.Reset()
	return nil
}
func (s *Stream) SetDeadline(t time.Time) error      { return s.local.SetDeadline(t) }
func (s *Stream) SetReadDeadline(t time.Time) error  { return s.local.SetReadDeadline(t) }
func (s *Stream) SetWriteDeadline(t time.Time) error { return s.local.SetWriteDeadline(t) }

var _ network.MuxedStream = (*Stream)(nil)
