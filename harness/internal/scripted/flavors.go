package scripted

import (
	"github.com/libp2p/go-libp2p/core/peer"
	ma "github.com/multiformats/go-multiaddr"
	mafmt "github.com/multiformats/go-multiaddr-fmt"
)

var (
	tcpMatcher  = mafmt.And(mafmt.IP, mafmt.Base(ma.P_TCP))
	quicMatcher = mafmt.And(mafmt.IP, mafmt.Base(ma.P_UDP), mafmt.Base(ma.P_QUIC_V1))
	wtMatcher   = mafmt.And(mafmt.Or(mafmt.IP, mafmt.DNS), mafmt.Base(ma.P_UDP), mafmt.Base(ma.P_QUIC_V1), mafmt.Base(ma.P_WEBTRANSPORT))
	wsMatcher   = mafmt.And(mafmt.Or(mafmt.IP, mafmt.DNS), mafmt.Base(ma.P_TCP), mafmt.Or(mafmt.Base(ma.P_WS), mafmt.Base(ma.P_WSS)))
)

// Set is the usual family of scripted transports of one node.
type Set struct {
	W                          *World
	TCP, QUIC, WT, WS, Circuit *Transport
}

// NewSet builds scripted stand-ins for the TCP, QUIC, WebTransport, WebSocket and
// circuit-relay transports with the real transports' dial matchers. script is shared.
func NewSet(w *World, local peer.ID, script func(addr ma.Multiaddr, p peer.ID, n int) Script) *Set {
	mkT := func(name string, protos []int, m func(ma.Multiaddr) bool, fd, proxy bool) *Transport {
		return &Transport{W: w, Name: name, Local: local, Protos: protos, Match: m, FD: fd, IsProxy: proxy, ScriptFor: script}
	}
	return &Set{
		W:       w,
		TCP:     mkT("tcp", []int{ma.P_TCP}, tcpMatcher.Matches, true, false),
		QUIC:    mkT("quic", []int{ma.P_QUIC_V1}, quicMatcher.Matches, false, false),
		WT:      mkT("webtransport", []int{ma.P_WEBTRANSPORT}, wtMatcher.Matches, false, false),
		WS:      mkT("ws", []int{ma.P_WS, ma.P_WSS}, wsMatcher.Matches, true, false),
		Circuit: mkT("circuit", []int{ma.P_CIRCUIT}, func(a ma.Multiaddr) bool { _, err := a.ValueForProtocol(ma.P_CIRCUIT); return err == nil }, false, true),
	}
}

// All returns the transports in a fixed order.
func (s *Set) All() []*Transport { return []*Transport{s.TCP, s.QUIC, s.WT, s.WS, s.Circuit} }
