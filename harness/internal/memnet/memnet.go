// Package memnet provides buffered, full-duplex, in-memory net.Conn pairs and
// listeners that are safe inside testing/synctest bubbles: every wait is a
// sync.Cond wait (durably blocking), deadlines are time.AfterFunc timers (virtual
// inside a bubble). Unlike net.Pipe both ends may write before anyone reads, which
// the multistream / Noise / TLS handshakes need.
package memnet

import (
	"errors"
	"io"
	"net"
	"os"
	"sync"
	"sync/atomic"
	"time"
)

// ErrReset is returned to the peer of a connection that was Reset.
var ErrReset = errors.New("memnet: connection reset by peer")

// half is one direction of a pipe.
type half struct {
	mu      sync.Mutex
	cond    *sync.Cond
	buf     []byte
	wclosed bool  // writer closed: reader sees EOF after draining
	rclosed bool  // reader closed: writer sees EPIPE
	err     error // reset
	cap     int   // 0 = unbounded; otherwise writers block while len(buf) >= cap

	// latency > 0: written data (and the writer's close) become visible to the reader
	// only after the latency has passed. Writes never sleep (a goroutine sleeping inside
	// Write while holding one of the caller's mutexes would stall a synctest bubble as
	// soon as another goroutine contends for that mutex).
	latency time.Duration
	pending []chunk
}

type chunk struct {
	data []byte
	eof  bool
	at   time.Time
}

// deliver moves every pending chunk that is due into the readable buffer. h.mu held.
func (h *half) deliver() {
	now := time.Now()
	for len(h.pending) > 0 && !h.pending[0].at.After(now) {
		c := h.pending[0]
		h.pending = h.pending[1:]
		if c.eof {
			h.wclosed = true
		} else if !h.rclosed {
			h.buf = append(h.buf, c.data...)
		}
	}
	h.cond.Broadcast()
}

func (h *half) enqueue(c chunk) {
	c.at = time.Now().Add(h.latency)
	h.pending = append(h.pending, c)
	time.AfterFunc(h.latency, func() {
		h.mu.Lock()
		h.deliver()
		h.mu.Unlock()
	})
}

func newHalf(capacity int) *half {
	h := &half{cap: capacity}
	h.cond = sync.NewCond(&h.mu)
	return h
}

// Conn is one end of an in-memory connection.
type Conn struct {
	r, w          *half
	local, remote net.Addr

	dmu          sync.Mutex
	rdl, wdl     time.Time
	rtimer       *time.Timer
	wtimer       *time.Timer
	closed       atomic.Bool
	closeCount   atomic.Int32
	BytesRead    atomic.Int64
	BytesWritten atomic.Int64
	Reads        atomic.Int64
	Writes       atomic.Int64
}

// Options for Pipe.
type Options struct {
	LocalAddr, RemoteAddr net.Addr      // as seen from the first conn returned
	Latency               time.Duration // each Write sleeps this long first (virtual in a bubble)
	Capacity              int           // per-direction buffer bound; 0 = unbounded
}

var defaultA = &net.TCPAddr{IP: net.IPv4(10, 0, 0, 1), Port: 1001}
var defaultB = &net.TCPAddr{IP: net.IPv4(10, 0, 0, 2), Port: 2002}

// Pipe returns the two ends (a dials b, conventionally).
func Pipe(o Options) (*Conn, *Conn) {
	if o.LocalAddr == nil {
		o.LocalAddr = defaultA
	}
	if o.RemoteAddr == nil {
		o.RemoteAddr = defaultB
	}
	ab, ba := newHalf(o.Capacity), newHalf(o.Capacity)
	ab.latency, ba.latency = o.Latency, o.Latency
	a := &Conn{r: ba, w: ab, local: o.LocalAddr, remote: o.RemoteAddr}
	b := &Conn{r: ab, w: ba, local: o.RemoteAddr, remote: o.LocalAddr}
	return a, b
}

func (c *Conn) Read(p []byte) (int, error) {
	c.Reads.Add(1)
	h := c.r
	h.mu.Lock()
	defer h.mu.Unlock()
	for {
		if c.closed.Load() {
			return 0, net.ErrClosed
		}
		if len(h.buf) > 0 {
			n := copy(p, h.buf)
			h.buf = h.buf[n:]
			if len(h.buf) == 0 {
				h.buf = nil
			}
			c.BytesRead.Add(int64(n))
			h.cond.Broadcast()
			return n, nil
		}
		if h.err != nil {
			return 0, h.err
		}
		if h.wclosed {
			return 0, io.EOF
		}
		if len(p) == 0 {
			return 0, nil
		}
		if c.deadlineExceeded(true) {
			return 0, os.ErrDeadlineExceeded
		}
		h.cond.Wait()
	}
}

func (c *Conn) Write(p []byte) (int, error) {
	c.Writes.Add(1)
	h := c.w
	h.mu.Lock()
	defer h.mu.Unlock()
	written := 0
	for {
		if c.closed.Load() {
			return written, net.ErrClosed
		}
		if h.err != nil {
			return written, h.err
		}
		if h.rclosed {
			return written, io.ErrClosedPipe
		}
		if c.deadlineExceeded(false) {
			return written, os.ErrDeadlineExceeded
		}
		if h.latency > 0 {
			h.enqueue(chunk{data: append([]byte(nil), p...)})
			written = len(p)
		} else if h.cap == 0 {
			h.buf = append(h.buf, p...)
			written = len(p)
		} else if room := h.cap - len(h.buf); room > 0 {
			n := min(room, len(p)-written)
			h.buf = append(h.buf, p[written:written+n]...)
			written += n
		}
		if written == len(p) {
			c.BytesWritten.Add(int64(len(p)))
			h.cond.Broadcast()
			return written, nil
		}
		h.cond.Broadcast()
		h.cond.Wait()
	}
}

func (c *Conn) deadlineExceeded(read bool) bool {
	c.dmu.Lock()
	defer c.dmu.Unlock()
	d := c.wdl
	if read {
		d = c.rdl
	}
	return !d.IsZero() && !time.Now().Before(d)
}

// Close closes this end: the peer reads EOF after draining what was written and gets
// an error on writes. Idempotent; every call is counted.
func (c *Conn) Close() error {
	c.closeCount.Add(1)
	if c.closed.Swap(true) {
		return nil
	}
	c.dmu.Lock()
	if c.rtimer != nil {
		c.rtimer.Stop()
	}
	if c.wtimer != nil {
		c.wtimer.Stop()
	}
	c.dmu.Unlock()
	c.w.mu.Lock()
	if c.w.latency > 0 {
		c.w.enqueue(chunk{eof: true})
	} else {
		c.w.wclosed = true
	}
	c.w.cond.Broadcast()
	c.w.mu.Unlock()
	c.r.mu.Lock()
	c.r.rclosed = true
	c.r.buf = nil
	c.r.cond.Broadcast()
	c.r.mu.Unlock()
	return nil
}

// CloseWrite half-closes: the peer reads EOF, this end can still read.
func (c *Conn) CloseWrite() error {
	c.w.mu.Lock()
	if c.w.latency > 0 {
		c.w.enqueue(chunk{eof: true})
	} else {
		c.w.wclosed = true
	}
	c.w.cond.Broadcast()
	c.w.mu.Unlock()
	return nil
}

// CloseRead discards incoming data; the peer's writes fail.
func (c *Conn) CloseRead() error {
	c.r.mu.Lock()
	c.r.rclosed = true
	c.r.buf = nil
	c.r.cond.Broadcast()
	c.r.mu.Unlock()
	return nil
}

// Reset aborts both directions; the peer sees ErrReset (buffered data is dropped).
func (c *Conn) Reset() {
	for _, h := range []*half{c.r, c.w} {
		h.mu.Lock()
		if h.err == nil {
			h.err = ErrReset
		}
		h.buf = nil
		h.cond.Broadcast()
		h.mu.Unlock()
	}
	c.Close()
}

// Closed reports whether Close was called on this end.
func (c *Conn) Closed() bool { return c.closed.Load() }

// CloseCalls is the number of Close calls seen.
func (c *Conn) CloseCalls() int { return int(c.closeCount.Load()) }

// AtEOF reports whether the next Read would return io.EOF: the peer closed its write side
// and everything it wrote has been read.
func (c *Conn) AtEOF() bool {
	c.r.mu.Lock()
	defer c.r.mu.Unlock()
	return len(c.r.buf) == 0 && c.r.wclosed && len(c.r.pending) == 0 && c.r.err == nil
}

// Pending is the number of bytes written by the peer and not yet read here.
func (c *Conn) Pending() int {
	c.r.mu.Lock()
	defer c.r.mu.Unlock()
	return len(c.r.buf)
}

func (c *Conn) LocalAddr() net.Addr  { return c.local }
func (c *Conn) RemoteAddr() net.Addr { return c.remote }

func (c *Conn) SetDeadline(t time.Time) error {
	c.SetReadDeadline(t)
	c.SetWriteDeadline(t)
	return nil
}

func (c *Conn) setDL(t time.Time, dl *time.Time, timer **time.Timer, h *half) {
	c.dmu.Lock()
	defer c.dmu.Unlock()
	*dl = t
	if *timer != nil {
		(*timer).Stop()
		*timer = nil
	}
	if t.IsZero() || c.closed.Load() {
		return
	}
	d := time.Until(t)
	if d <= 0 {
		go func() { h.mu.Lock(); h.cond.Broadcast(); h.mu.Unlock() }()
		return
	}
	*timer = time.AfterFunc(d, func() { h.mu.Lock(); h.cond.Broadcast(); h.mu.Unlock() })
}

func (c *Conn) SetReadDeadline(t time.Time) error {
	c.setDL(t, &c.rdl, &c.rtimer, c.r)
	return nil
}

func (c *Conn) SetWriteDeadline(t time.Time) error {
	c.setDL(t, &c.wdl, &c.wtimer, c.w)
	return nil
}

var _ net.Conn = (*Conn)(nil)

// Listener is an in-memory net.Listener fed by Dial / Inject.
type Listener struct {
	addr   net.Addr
	mu     sync.Mutex
	cond   *sync.Cond
	queue  []net.Conn
	closed bool
}

func NewListener(addr net.Addr) *Listener {
	l := &Listener{addr: addr}
	l.cond = sync.NewCond(&l.mu)
	return l
}

func (l *Listener) Accept() (net.Conn, error) {
	l.mu.Lock()
	defer l.mu.Unlock()
	for {
		if l.closed {
			return nil, net.ErrClosed
		}
		if len(l.queue) > 0 {
			c := l.queue[0]
			l.queue = l.queue[1:]
			return c, nil
		}
		l.cond.Wait()
	}
}

// Inject queues the server end of a connection for Accept. It returns false (and
// closes c) when the listener is closed.
func (l *Listener) Inject(c net.Conn) bool {
	l.mu.Lock()
	defer l.mu.Unlock()
	if l.closed {
		c.Close()
		return false
	}
	l.queue = append(l.queue, c)
	l.cond.Broadcast()
	return true
}

// Dial creates a pipe whose server end is queued on the listener; from is the
// client's address as the server will see it.
func (l *Listener) Dial(from net.Addr, o Options) (*Conn, *Conn, error) {
	o.LocalAddr, o.RemoteAddr = from, l.addr
	a, b := Pipe(o)
	if !l.Inject(b) {
		a.Close()
		return nil, nil, errors.New("memnet: connection refused")
	}
	return a, b, nil
}

func (l *Listener) Close() error {
	l.mu.Lock()
	defer l.mu.Unlock()
	if l.closed {
		return nil
	}
	l.closed = true
	for _, c := range l.queue {
		c.Close()
	}
	l.queue = nil
	l.cond.Broadcast()
	return nil
}

func (l *Listener) Addr() net.Addr { return l.addr }

// IsClosed reports whether Close was called.
func (l *Listener) IsClosed() bool {
	l.mu.Lock()
	defer l.mu.Unlock()
	return l.closed
}

var _ net.Listener = (*Listener)(nil)
