// Package memtpt is a transport.Transport whose bytes travel over internal/memnet but
// whose logic is the repository's: outbound connections go through the real
// tcp.TcpTransport (resource-manager bookkeeping, Upgrade) with an injected dialer,
// inbound ones through the real upgrader.UpgradeListener (gated listener, accept
// threshold, accept timeout) fed by an in-memory manet.Listener. Only the socket
// syscalls are replaced. Every raw connection can carry a faultconn plan on either end.
package memtpt

import (
	"context"
	"fmt"
	"net"
	"sync"
	"time"

	"github.com/libp2p/go-libp2p/core/network"
	"github.com/libp2p/go-libp2p/core/peer"
	"github.com/libp2p/go-libp2p/core/transport"
	"github.com/libp2p/go-libp2p/p2p/transport/tcp"
	ma "github.com/multiformats/go-multiaddr"
	manet "github.com/multiformats/go-multiaddr/net"

	"verif/internal/faultconn"
	"verif/internal/memnet"
)

// Pair is one raw connection: both memnet ends and their fault wrappers.
type Pair struct {
	Client, Server   *memnet.Conn
	FClient, FServer *faultconn.Conn
	Remote           string
}

// Network connects the transports of one case.
type Network struct {
	Latency time.Duration
	// PlanDial / PlanAccept choose the fault plan of the n-th raw connection (0-based, in
	// dial order) for the dialling and the accepting end. May be nil.
	PlanDial, PlanAccept func(n int) *faultconn.Plan
	// DialDelay / DialErr script the raw dial itself.
	DialErr   func(n int, raddr string) error
	DialDelay func(n int) time.Duration

	mu        sync.Mutex
	listeners map[string]*listenerEntry
	pairs     []*Pair
	nextPort  int
}

type listenerEntry struct {
	l *memnet.Listener
}

func NewNetwork() *Network {
	return &Network{listeners: map[string]*listenerEntry{}, nextPort: 40000}
}

// Pairs returns the raw connections created so far.
func (n *Network) Pairs() []*Pair {
	n.mu.Lock()
	defer n.mu.Unlock()
	return append([]*Pair(nil), n.pairs...)
}

// Transport is one node's transport.
type Transport struct {
	*tcp.TcpTransport
	net *Network
	up  transport.Upgrader
	ip  net.IP

	mu        sync.Mutex
	listeners []transport.Listener
}

type dialer struct{ t *Transport }

func (d dialer) DialContext(ctx context.Context, _, address string) (net.Conn, error) {
	n := d.t.net
	n.mu.Lock()
	idx := len(n.pairs)
	le := n.listeners[address]
	n.nextPort++
	port := n.nextPort
	// reserve the slot so that concurrent dials get distinct indices
	p := &Pair{Remote: address}
	n.pairs = append(n.pairs, p)
	n.mu.Unlock()
	if n.DialDelay != nil {
		if dl := n.DialDelay(idx); dl > 0 {
			tm := time.NewTimer(dl)
			select {
			case <-tm.C:
			case <-ctx.Done():
				tm.Stop()
				return nil, ctx.Err()
			}
		}
	}
	if n.DialErr != nil {
		if err := n.DialErr(idx, address); err != nil {
			return nil, err
		}
	}
	if err := ctx.Err(); err != nil {
		return nil, err
	}
	if le == nil {
		return nil, fmt.Errorf("memtpt: connection refused: %s", address)
	}
	a, b := memnet.Pipe(memnet.Options{LocalAddr: &net.TCPAddr{IP: d.t.ip, Port: port}, RemoteAddr: le.l.Addr(), Latency: n.Latency})
	var pd, pa *faultconn.Plan
	if n.PlanDial != nil {
		pd = n.PlanDial(idx)
	}
	if n.PlanAccept != nil {
		pa = n.PlanAccept(idx)
	}
	if pd != nil && pd.Peer == nil {
		pd.Peer = b
	}
	if pa != nil && pa.Peer == nil {
		pa.Peer = a
	}
	fa, fb := faultconn.Wrap(a, pd), faultconn.Wrap(b, pa)
	n.mu.Lock()
	p.Client, p.Server, p.FClient, p.FServer = a, b, fa, fb
	n.mu.Unlock()
	if !le.l.Inject(fb) {
		a.Close()
		return nil, fmt.Errorf("memtpt: connection refused (listener closed): %s", address)
	}
	return fa, nil
}

// NewTransport builds a node's transport. ip is the address its dials come from.
func (n *Network) NewTransport(up transport.Upgrader, rm network.ResourceManager, ip net.IP, opts ...tcp.Option) (*Transport, error) {
	t := &Transport{net: n, up: up, ip: ip}
	opts = append(opts, tcp.WithDialerForAddr(func(ma.Multiaddr) (tcp.ContextDialer, error) { return dialer{t}, nil }))
	tt, err := tcp.NewTCPTransport(up, rm, nil, opts...)
	if err != nil {
		return nil, err
	}
	t.TcpTransport = tt
	return t, nil
}

func (t *Transport) Dial(ctx context.Context, raddr ma.Multiaddr, p peer.ID) (transport.CapableConn, error) {
	return t.TcpTransport.Dial(ctx, raddr, p)
}

// Listen registers an in-memory listener under laddr's ip:port and upgrades it.
func (t *Transport) Listen(laddr ma.Multiaddr) (transport.Listener, error) {
	na, err := manet.ToNetAddr(laddr)
	if err != nil {
		return nil, err
	}
	ta, ok := na.(*net.TCPAddr)
	if !ok {
		return nil, fmt.Errorf("memtpt: not a tcp address: %s", laddr)
	}
	t.net.mu.Lock()
	if _, dup := t.net.listeners[ta.String()]; dup {
		t.net.mu.Unlock()
		return nil, fmt.Errorf("memtpt: address in use: %s", ta)
	}
	ml := memnet.NewListener(ta)
	t.net.listeners[ta.String()] = &listenerEntry{l: ml}
	t.net.mu.Unlock()
	mal, err := manet.WrapNetListener(&unregister{Listener: ml, n: t.net, key: ta.String()})
	if err != nil {
		return nil, err
	}
	l := t.up.UpgradeListener(t, mal)
	t.mu.Lock()
	t.listeners = append(t.listeners, l)
	t.mu.Unlock()
	return l, nil
}

type unregister struct {
	*memnet.Listener
	n   *Network
	key string
}

func (u *unregister) Close() error {
	u.n.mu.Lock()
	if e := u.n.listeners[u.key]; e != nil && e.l == u.Listener {
		delete(u.n.listeners, u.key)
	}
	u.n.mu.Unlock()
	return u.Listener.Close()
}

var _ transport.Transport = (*Transport)(nil)
