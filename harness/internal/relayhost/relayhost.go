// Package relayhost provides host.Host / network.Network / network.Conn /
// network.Stream doubles for protocol services that are handed a host.Host (circuit
// relay v2 service, client.Reserve). The doubles capture SetStreamHandler
// registrations and Network().Notify registrations, and use the REAL peerstore
// (pstoremem), event bus, resource manager (rcmgr with infinite limits; every fake
// stream owns a real StreamManagementScope obtained from OpenStream, released by the
// first Close/Reset exactly as the swarm does) and BasicConnMgr (fed with the same
// Connected/Disconnected notifications the swarm would deliver). Streams are memnet
// pipes whose remote end the harness plays byte for byte. host.NewStream is scripted
// by the harness. Resource refusals can be injected before the call reaches the real
// manager (stream scope: SetService / ReserveMemory; service-level spans: BeginSpan /
// ReserveMemory), which leaves the real manager consistent for the residual audit.
//
// Everything must be created and closed inside the synctest bubble that uses it.
package relayhost

import (
	"context"
	"errors"
	"fmt"
	"io"
	"sync"
	"time"

	"github.com/libp2p/go-libp2p/core/connmgr"
	ic "github.com/libp2p/go-libp2p/core/crypto"
	"github.com/libp2p/go-libp2p/core/event"
	"github.com/libp2p/go-libp2p/core/network"
	"github.com/libp2p/go-libp2p/core/peer"
	"github.com/libp2p/go-libp2p/core/peerstore"
	"github.com/libp2p/go-libp2p/core/protocol"
	"github.com/libp2p/go-libp2p/p2p/host/eventbus"
	"github.com/libp2p/go-libp2p/p2p/host/peerstore/pstoremem"
	rcmgr "github.com/libp2p/go-libp2p/p2p/host/resource-manager"
	bcm "github.com/libp2p/go-libp2p/p2p/net/connmgr"
	ma "github.com/multiformats/go-multiaddr"
	msmux "github.com/multiformats/go-multistream"

	"verif/internal/memnet"
)

// ErrInjected is the error of an injected resource refusal; it wraps
// network.ErrResourceLimitExceeded like a genuine limit refusal does.
var ErrInjected = fmt.Errorf("relayhost: injected refusal: %w", network.ErrResourceLimitExceeded)

// Faults holds one-shot refusals for the service-level spans (consumed by the next
// call of that kind, before it reaches the real manager).
type Faults struct {
	mu          sync.Mutex
	spanBegin   int
	spanReserve int
	// counters of calls seen (for coverage labels)
	SpanBegins, SpanReserves int
}

// RefuseNextSpanBegin makes the next n BeginSpan calls on a service-level span fail.
func (f *Faults) RefuseNextSpanBegin(n int) { f.mu.Lock(); f.spanBegin = n; f.mu.Unlock() }

// RefuseNextSpanReserve makes the next n ReserveMemory calls on a nested service span fail.
func (f *Faults) RefuseNextSpanReserve(n int) { f.mu.Lock(); f.spanReserve = n; f.mu.Unlock() }

// Pending reports refusals armed but not consumed.
func (f *Faults) Pending() (begin, reserve int) {
	f.mu.Lock()
	defer f.mu.Unlock()
	return f.spanBegin, f.spanReserve
}

// Clear disarms everything.
func (f *Faults) Clear() { f.mu.Lock(); f.spanBegin, f.spanReserve = 0, 0; f.mu.Unlock() }

type faultRM struct {
	network.ResourceManager
	f *Faults
}

func (r *faultRM) ViewService(name string, fn func(network.ServiceScope) error) error {
	return r.ResourceManager.ViewService(name, func(s network.ServiceScope) error {
		return fn(&svcScope{ServiceScope: s, f: r.f})
	})
}

type svcScope struct {
	network.ServiceScope
	f *Faults
}

func (s *svcScope) BeginSpan() (network.ResourceScopeSpan, error) {
	sp, err := s.ServiceScope.BeginSpan()
	if err != nil {
		return nil, err
	}
	return &span{ResourceScopeSpan: sp, f: s.f, depth: 1}, nil
}

// span wraps a span below the service scope: depth 1 is the long-lived span of the
// service object, depth 2 the per-transaction spans begun from it.
type span struct {
	network.ResourceScopeSpan
	f     *Faults
	depth int
}

func (s *span) BeginSpan() (network.ResourceScopeSpan, error) {
	s.f.mu.Lock()
	s.f.SpanBegins++
	if s.f.spanBegin > 0 {
		s.f.spanBegin--
		s.f.mu.Unlock()
		return nil, ErrInjected
	}
	s.f.mu.Unlock()
	sp, err := s.ResourceScopeSpan.BeginSpan()
	if err != nil {
		return nil, err
	}
	return &span{ResourceScopeSpan: sp, f: s.f, depth: s.depth + 1}, nil
}

func (s *span) ReserveMemory(size int, prio uint8) error {
	if s.depth >= 2 {
		s.f.mu.Lock()
		s.f.SpanReserves++
		if s.f.spanReserve > 0 {
			s.f.spanReserve--
			s.f.mu.Unlock()
			return ErrInjected
		}
		s.f.mu.Unlock()
	}
	return s.ResourceScopeSpan.ReserveMemory(size, prio)
}

// Host is the host.Host double.
type Host struct {
	Priv   ic.PrivKey
	Self   peer.ID
	PS     peerstore.Peerstore
	Bus    event.Bus
	RealRM network.ResourceManager // for audits (never refuses: infinite limits)
	RM     network.ResourceManager // what the service under test sees (fault wrapper)
	CM     *bcm.BasicConnMgr
	Net    *Network
	Faults *Faults
	mux    *msmux.MultistreamMuxer[protocol.ID]

	// ListenAddrs is returned by Addrs().
	ListenAddrs []ma.Multiaddr
	// OnNewStream scripts host.NewStream; nil = network.ErrNoConn.
	OnNewStream func(ctx context.Context, p peer.ID, pids []protocol.ID) (network.Stream, error)

	mu       sync.Mutex
	handlers map[protocol.ID]network.StreamHandler
	// Registrations / removals seen (for audits).
	HandlerSets, HandlerRemovals []protocol.ID
	closed                       bool
}

// New builds a host double for the identity (priv, id). listen are the addresses
// returned by Addrs().
func New(priv ic.PrivKey, id peer.ID, listen ...ma.Multiaddr) (*Host, error) {
	ps, err := pstoremem.NewPeerstore()
	if err != nil {
		return nil, err
	}
	if err := ps.AddPrivKey(id, priv); err != nil {
		return nil, err
	}
	if err := ps.AddPubKey(id, priv.GetPublic()); err != nil {
		return nil, err
	}
	rm, err := rcmgr.NewResourceManager(rcmgr.NewFixedLimiter(rcmgr.InfiniteLimits), rcmgr.WithMetricsDisabled())
	if err != nil {
		ps.Close()
		return nil, err
	}
	cm, err := bcm.NewConnManager(10000, 20000, bcm.WithGracePeriod(time.Hour))
	if err != nil {
		rm.Close()
		ps.Close()
		return nil, err
	}
	f := &Faults{}
	h := &Host{
		Priv: priv, Self: id, PS: ps, Bus: eventbus.NewBus(), RealRM: rm, RM: &faultRM{ResourceManager: rm, f: f},
		CM: cm, Faults: f, mux: msmux.NewMultistreamMuxer[protocol.ID](),
		ListenAddrs: listen, handlers: map[protocol.ID]network.StreamHandler{},
	}
	h.Net = &Network{h: h, conns: map[peer.ID][]*Conn{}}
	// the basic host registers the connection manager's notifiee on the network
	h.Net.Notify(cm.Notifee())
	return h, nil
}

func (h *Host) ID() peer.ID                      { return h.Self }
func (h *Host) Peerstore() peerstore.Peerstore   { return h.PS }
func (h *Host) Addrs() []ma.Multiaddr            { return append([]ma.Multiaddr(nil), h.ListenAddrs...) }
func (h *Host) Network() network.Network         { return h.Net }
func (h *Host) Mux() protocol.Switch             { return h.mux }
func (h *Host) ConnManager() connmgr.ConnManager { return h.CM }
func (h *Host) EventBus() event.Bus              { return h.Bus }

func (h *Host) Connect(ctx context.Context, pi peer.AddrInfo) error {
	if h.Net.Connectedness(pi.ID) == network.Connected {
		return nil
	}
	return network.ErrNoConn
}

func (h *Host) SetStreamHandler(pid protocol.ID, handler network.StreamHandler) {
	h.mu.Lock()
	h.handlers[pid] = handler
	h.HandlerSets = append(h.HandlerSets, pid)
	h.mu.Unlock()
	h.mux.AddHandler(pid, func(_ protocol.ID, rwc io.ReadWriteCloser) error {
		handler(rwc.(network.Stream))
		return nil
	})
}

func (h *Host) SetStreamHandlerMatch(pid protocol.ID, m func(protocol.ID) bool, handler network.StreamHandler) {
	h.SetStreamHandler(pid, handler)
}

func (h *Host) RemoveStreamHandler(pid protocol.ID) {
	h.mu.Lock()
	delete(h.handlers, pid)
	h.HandlerRemovals = append(h.HandlerRemovals, pid)
	h.mu.Unlock()
	h.mux.RemoveHandler(pid)
}

// Handler returns the handler registered for pid (nil if none).
func (h *Host) Handler(pid protocol.ID) network.StreamHandler {
	h.mu.Lock()
	defer h.mu.Unlock()
	return h.handlers[pid]
}

func (h *Host) NewStream(ctx context.Context, p peer.ID, pids ...protocol.ID) (network.Stream, error) {
	if f := h.OnNewStream; f != nil {
		return f(ctx, p, pids)
	}
	return nil, network.ErrNoConn
}

// Close releases the real components. Connections still open are closed first
// (without notifications).
func (h *Host) Close() error {
	h.mu.Lock()
	if h.closed {
		h.mu.Unlock()
		return nil
	}
	h.closed = true
	h.mu.Unlock()
	for _, c := range h.Net.Conns() {
		c.(*Conn).shutdown(false)
	}
	h.CM.Close()
	h.RealRM.Close()
	h.PS.Close()
	return nil
}

// Inject delivers an inbound stream for protocol pid on conn c to the registered
// handler, the way the swarm + basic host would after a successful multistream
// negotiation: the stream owns a real inbound stream scope with the protocol set.
// prep (optional) may arm faults on the stream before the handler sees it. The
// handler runs on its own goroutine. The returned stream's Remote end belongs to
// the harness.
func (h *Host) Inject(c *Conn, pid protocol.ID, prep func(*Stream)) (*Stream, error) {
	handler := h.Handler(pid)
	if handler == nil {
		return nil, fmt.Errorf("relayhost: no handler for %s", pid)
	}
	s, err := h.newStream(c, pid, network.DirInbound)
	if err != nil {
		return nil, err
	}
	if prep != nil {
		prep(s)
	}
	go handler(s)
	return s, nil
}

// OpenOutbound makes an outbound stream on conn c (to be returned from OnNewStream).
func (h *Host) OpenOutbound(c *Conn, pid protocol.ID) (*Stream, error) {
	return h.newStream(c, pid, network.DirOutbound)
}

func (h *Host) newStream(c *Conn, pid protocol.ID, dir network.Direction) (*Stream, error) {
	if c.IsClosed() {
		return nil, errors.New("relayhost: connection closed")
	}
	scope, err := h.RealRM.OpenStream(c.remote, dir)
	if err != nil {
		return nil, err
	}
	if pid != "" {
		if err := scope.SetProtocol(pid); err != nil {
			scope.Done()
			return nil, err
		}
	}
	a, b := memnet.Pipe(memnet.Options{})
	s := &Stream{conn: c, local: a, Remote: b, scope: scope, proto: pid, dir: dir, opened: time.Now()}
	c.mu.Lock()
	if c.closed {
		c.mu.Unlock()
		scope.Done()
		return nil, errors.New("relayhost: connection closed")
	}
	c.nextStream++
	s.id = fmt.Sprintf("%s-%d", c.id, c.nextStream)
	c.streams = append(c.streams, s)
	c.mu.Unlock()
	return s, nil
}

// ---------------------------------------------------------------------------

// Network is the network.Network double.
type Network struct {
	h         *Host
	mu        sync.Mutex
	conns     map[peer.ID][]*Conn
	order     []*Conn
	notifiees []network.Notifiee
	nextConn  int
	// NotifySeen / StopNotifySeen count registrations (audits).
	NotifySeen, StopNotifySeen int
}

func (n *Network) Peerstore() peerstore.Peerstore { return n.h.PS }
func (n *Network) LocalPeer() peer.ID             { return n.h.Self }
func (n *Network) DialPeer(context.Context, peer.ID) (network.Conn, error) {
	return nil, network.ErrNoConn
}
func (n *Network) ClosePeer(p peer.ID) error {
	for _, c := range n.ConnsToPeer(p) {
		c.Close()
	}
	return nil
}

// Connectedness follows the swarm: Connected with at least one open connection that is
// not limited, Limited with only limited ones, NotConnected otherwise.
func (n *Network) Connectedness(p peer.ID) network.Connectedness {
	n.mu.Lock()
	defer n.mu.Unlock()
	limited := false
	for _, c := range n.conns[p] {
		if c.IsClosed() {
			continue
		}
		if c.limited {
			limited = true
		} else {
			return network.Connected
		}
	}
	if limited {
		return network.Limited
	}
	return network.NotConnected
}

func (n *Network) Peers() []peer.ID {
	n.mu.Lock()
	defer n.mu.Unlock()
	var out []peer.ID
	seen := map[peer.ID]bool{}
	for _, c := range n.order {
		if !seen[c.remote] {
			seen[c.remote] = true
			out = append(out, c.remote)
		}
	}
	return out
}

func (n *Network) Conns() []network.Conn {
	n.mu.Lock()
	defer n.mu.Unlock()
	out := make([]network.Conn, 0, len(n.order))
	for _, c := range n.order {
		out = append(out, c)
	}
	return out
}

func (n *Network) ConnsToPeer(p peer.ID) []network.Conn {
	n.mu.Lock()
	defer n.mu.Unlock()
	out := make([]network.Conn, 0, len(n.conns[p]))
	for _, c := range n.conns[p] {
		out = append(out, c)
	}
	return out
}

func (n *Network) Notify(f network.Notifiee) {
	n.mu.Lock()
	n.notifiees = append(n.notifiees, f)
	n.NotifySeen++
	n.mu.Unlock()
}

func (n *Network) StopNotify(f network.Notifiee) {
	n.mu.Lock()
	for i, g := range n.notifiees {
		if g == f {
			n.notifiees = append(n.notifiees[:i:i], n.notifiees[i+1:]...)
			break
		}
	}
	n.StopNotifySeen++
	n.mu.Unlock()
}

func (n *Network) CanDial(peer.ID, ma.Multiaddr) bool       { return false }
func (n *Network) Close() error                             { return nil }
func (n *Network) SetStreamHandler(network.StreamHandler)   {}
func (n *Network) Listen(...ma.Multiaddr) error             { return nil }
func (n *Network) ListenAddresses() []ma.Multiaddr          { return n.h.Addrs() }
func (n *Network) ResourceManager() network.ResourceManager { return n.h.RM }
func (n *Network) InterfaceListenAddresses() ([]ma.Multiaddr, error) {
	return n.h.Addrs(), nil
}
func (n *Network) NewStream(ctx context.Context, p peer.ID) (network.Stream, error) {
	return n.h.NewStream(ctx, p)
}

func (n *Network) snapshotNotifiees() []network.Notifiee {
	n.mu.Lock()
	defer n.mu.Unlock()
	return append([]network.Notifiee(nil), n.notifiees...)
}

// AddConn registers a connection from peer p whose remote multiaddr is raddr and
// delivers the Connected notification synchronously (as the swarm does).
func (n *Network) AddConn(p peer.ID, raddr ma.Multiaddr, limited bool, dir network.Direction) *Conn {
	n.mu.Lock()
	n.nextConn++
	c := &Conn{n: n, id: fmt.Sprintf("c%d", n.nextConn), remote: p, raddr: raddr, limited: limited, dir: dir, opened: time.Now()}
	n.conns[p] = append(n.conns[p], c)
	n.order = append(n.order, c)
	n.mu.Unlock()
	for _, f := range n.snapshotNotifiees() {
		f.Connected(n, c)
	}
	return c
}

func (n *Network) remove(c *Conn) {
	n.mu.Lock()
	defer n.mu.Unlock()
	cs := n.conns[c.remote]
	for i, x := range cs {
		if x == c {
			cs = append(cs[:i:i], cs[i+1:]...)
			break
		}
	}
	if len(cs) == 0 {
		delete(n.conns, c.remote)
	} else {
		n.conns[c.remote] = cs
	}
	for i, x := range n.order {
		if x == c {
			n.order = append(n.order[:i:i], n.order[i+1:]...)
			break
		}
	}
}

// ---------------------------------------------------------------------------

// Conn is the network.Conn double.
type Conn struct {
	n       *Network
	id      string
	remote  peer.ID
	raddr   ma.Multiaddr
	limited bool
	dir     network.Direction
	opened  time.Time

	mu         sync.Mutex
	closed     bool
	streams    []*Stream
	nextStream int
}

// Close drops the connection the way the swarm does: it is removed from the network
// (Connectedness changes at once), every open stream is reset, then the
// Disconnected notification is delivered on a separate goroutine.
func (c *Conn) Close() error { c.shutdown(true); return nil }

func (c *Conn) CloseWithError(network.ConnErrorCode) error { return c.Close() }

func (c *Conn) shutdown(notify bool) {
	c.mu.Lock()
	if c.closed {
		c.mu.Unlock()
		return
	}
	c.closed = true
	ss := c.streams
	c.streams = nil
	c.mu.Unlock()
	c.n.remove(c)
	for _, s := range ss {
		s.Reset()
	}
	if notify {
		go func() {
			for _, f := range c.n.snapshotNotifiees() {
				f.Disconnected(c.n, c)
			}
		}()
	}
}

func (c *Conn) removeStream(s *Stream) {
	c.mu.Lock()
	defer c.mu.Unlock()
	for i, x := range c.streams {
		if x == s {
			c.streams = append(c.streams[:i:i], c.streams[i+1:]...)
			return
		}
	}
}

func (c *Conn) ID() string { return c.id }
func (c *Conn) NewStream(ctx context.Context) (network.Stream, error) {
	return c.n.h.OpenOutbound(c, "")
}
func (c *Conn) GetStreams() []network.Stream {
	c.mu.Lock()
	defer c.mu.Unlock()
	out := make([]network.Stream, 0, len(c.streams))
	for _, s := range c.streams {
		out = append(out, s)
	}
	return out
}
func (c *Conn) IsClosed() bool {
	c.mu.Lock()
	defer c.mu.Unlock()
	return c.closed
}
func (c *Conn) As(any) bool                        { return false }
func (c *Conn) LocalPeer() peer.ID                 { return c.n.h.Self }
func (c *Conn) RemotePeer() peer.ID                { return c.remote }
func (c *Conn) RemotePublicKey() ic.PubKey         { return c.n.h.PS.PubKey(c.remote) }
func (c *Conn) ConnState() network.ConnectionState { return network.ConnectionState{Transport: "fake"} }
func (c *Conn) LocalMultiaddr() ma.Multiaddr {
	if len(c.n.h.ListenAddrs) > 0 {
		return c.n.h.ListenAddrs[0]
	}
	return ma.StringCast("/ip4/127.0.0.1/tcp/1")
}
func (c *Conn) RemoteMultiaddr() ma.Multiaddr { return c.raddr }
func (c *Conn) Stat() network.ConnStats {
	return network.ConnStats{Stats: network.Stats{Direction: c.dir, Opened: c.opened, Limited: c.limited}, NumStreams: len(c.GetStreams())}
}
func (c *Conn) Scope() network.ConnScope { return &network.NullScope{} }

// Limited reports the Limited flag.
func (c *Conn) Limited() bool { return c.limited }

var _ network.Conn = (*Conn)(nil)

// ---------------------------------------------------------------------------

// Stream is the network.Stream double: the local end of a memnet pipe plus a real
// stream scope.
type Stream struct {
	id     string
	conn   *Conn
	local  *memnet.Conn
	Remote *memnet.Conn // the harness' end
	scope  network.StreamManagementScope
	dir    network.Direction
	opened time.Time

	// Injected refusals (set before the stream is handed to the code under test).
	FailSetService    error
	FailReserveMemory error

	mu        sync.Mutex
	proto     protocol.ID
	finished  bool // Close or Reset was called by the local side
	wasReset  bool
	wasClosed bool
	services  []string
}

func (s *Stream) Read(p []byte) (int, error)  { return s.local.Read(p) }
func (s *Stream) Write(p []byte) (int, error) { return s.local.Write(p) }

func (s *Stream) finish(reset bool) {
	s.mu.Lock()
	if reset {
		s.wasReset = true
	} else {
		s.wasClosed = true
	}
	if s.finished {
		s.mu.Unlock()
		return
	}
	s.finished = true
	s.mu.Unlock()
	s.scope.Done()
	s.conn.removeStream(s)
}

func (s *Stream) Close() error {
	err := s.local.Close()
	s.finish(false)
	return err
}

func (s *Stream) Reset() error {
	s.local.Reset()
	s.finish(true)
	return nil
}

func (s *Stream) ResetWithError(network.StreamErrorCode) error { return s.Reset() }
func (s *Stream) CloseWrite() error                            { return s.local.CloseWrite() }
func (s *Stream) CloseRead() error                             { return s.local.CloseRead() }
func (s *Stream) SetDeadline(t time.Time) error                { return s.local.SetDeadline(t) }
func (s *Stream) SetReadDeadline(t time.Time) error            { return s.local.SetReadDeadline(t) }
func (s *Stream) SetWriteDeadline(t time.Time) error           { return s.local.SetWriteDeadline(t) }
func (s *Stream) ID() string                                   { return s.id }
func (s *Stream) Conn() network.Conn                           { return s.conn }

func (s *Stream) Protocol() protocol.ID {
	s.mu.Lock()
	defer s.mu.Unlock()
	return s.proto
}

func (s *Stream) SetProtocol(id protocol.ID) error {
	if err := s.scope.SetProtocol(id); err != nil {
		return err
	}
	s.mu.Lock()
	s.proto = id
	s.mu.Unlock()
	return nil
}

func (s *Stream) Stat() network.Stats {
	return network.Stats{Direction: s.dir, Opened: s.opened, Limited: s.conn.limited}
}

func (s *Stream) Scope() network.StreamScope { return &streamScope{s} }

// Finished reports whether the local side (the code under test) called Close or
// Reset, i.e. released the stream.
func (s *Stream) Finished() bool {
	s.mu.Lock()
	defer s.mu.Unlock()
	return s.finished
}

// WasReset reports whether the local side called Reset.
func (s *Stream) WasReset() bool {
	s.mu.Lock()
	defer s.mu.Unlock()
	return s.wasReset
}

// Services lists the services the stream was attached to.
func (s *Stream) Services() []string {
	s.mu.Lock()
	defer s.mu.Unlock()
	return append([]string(nil), s.services...)
}

type streamScope struct{ s *Stream }

func (w *streamScope) ReserveMemory(size int, prio uint8) error {
	if err := w.s.FailReserveMemory; err != nil {
		return err
	}
	return w.s.scope.ReserveMemory(size, prio)
}
func (w *streamScope) ReleaseMemory(size int)                        { w.s.scope.ReleaseMemory(size) }
func (w *streamScope) Stat() network.ScopeStat                       { return w.s.scope.Stat() }
func (w *streamScope) BeginSpan() (network.ResourceScopeSpan, error) { return w.s.scope.BeginSpan() }
func (w *streamScope) SetService(srv string) error {
	if err := w.s.FailSetService; err != nil {
		return err
	}
	if err := w.s.scope.SetService(srv); err != nil {
		return err
	}
	w.s.mu.Lock()
	w.s.services = append(w.s.services, srv)
	w.s.mu.Unlock()
	return nil
}

var _ network.Stream = (*Stream)(nil)
