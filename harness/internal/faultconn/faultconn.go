// Package faultconn wraps a net.Conn, numbers its Read/Write calls in order of
// occurrence and injects one fault at a chosen operation index: an error, an EOF, the
// peer hanging up, a stall until the deadline (or Close), or a concurrent Close of the
// connection itself. It also timestamps every operation so that cancellations can be
// scheduled between two operations.
package faultconn

import (
	"errors"
	"io"
	"net"
	"os"
	"sync"
	"sync/atomic"
	"time"
)

type Kind int

const (
	None      Kind = iota
	Err            // the operation returns an error
	EOF            // a Read returns io.EOF, a Write io.ErrClosedPipe
	PeerClose      // the other end of the raw connection is closed, then the operation proceeds
	Stall          // the operation blocks until the deadline passes or the connection is closed
	SelfClose      // the connection is closed from another goroutine while the operation runs
	nKinds
)

var KindNames = [...]string{"none", "err", "eof", "peer-close", "stall", "self-close"}

func (k Kind) String() string { return KindNames[k] }

// Kinds lists the injectable fault kinds.
var Kinds = []Kind{Err, EOF, PeerClose, Stall, SelfClose}

var ErrInjected = errors.New("faultconn: injected I/O error")

// Plan is shared by the wrapper and the harness.
type Plan struct {
	At   int  // operation index (0-based); -1: no fault
	Kind Kind // what happens there
	Peer io.Closer

	Fired atomic.Bool
}

// Conn is the wrapper.
type Conn struct {
	net.Conn
	plan *Plan

	mu       sync.Mutex
	ops      int
	Times    []time.Time // start instant of every operation
	IsRead   []bool
	rdl, wdl time.Time
	closed   chan struct{}
	once     sync.Once
	// dlChanged wakes a stalled operation when a deadline is (re)set
	dlChanged chan struct{}
}

func (c *Conn) poke() {
	select {
	case c.dlChanged <- struct{}{}:
	default:
	}
}

func Wrap(c net.Conn, plan *Plan) *Conn {
	if plan == nil {
		plan = &Plan{At: -1}
	}
	return &Conn{Conn: c, plan: plan, closed: make(chan struct{}), dlChanged: make(chan struct{}, 1)}
}

// Ops is the number of Read/Write calls seen so far.
func (c *Conn) Ops() int {
	c.mu.Lock()
	defer c.mu.Unlock()
	return c.ops
}

func (c *Conn) next(isRead bool) int {
	c.mu.Lock()
	defer c.mu.Unlock()
	k := c.ops
	c.ops++
	c.Times = append(c.Times, time.Now())
	c.IsRead = append(c.IsRead, isRead)
	return k
}

func (c *Conn) deadline(isRead bool) time.Time {
	c.mu.Lock()
	defer c.mu.Unlock()
	if isRead {
		return c.rdl
	}
	return c.wdl
}

// inject returns (handled, n, err): handled means the operation must not reach the real conn.
func (c *Conn) inject(k int, isRead bool) (bool, error) {
	if c.plan.At != k || c.plan.Kind == None {
		return false, nil
	}
	c.plan.Fired.Store(true)
	switch c.plan.Kind {
	case Err:
		return true, ErrInjected
	case EOF:
		if isRead {
			return true, io.EOF
		}
		return true, io.ErrClosedPipe
	case PeerClose:
		if c.plan.Peer != nil {
			c.plan.Peer.Close()
		}
		return false, nil
	case SelfClose:
		c.Close()
		return false, nil
	case Stall:
		// The operation never completes: it ends with a timeout as soon as a deadline is in
		// force (reported at once -- the caller sees exactly the error it would see after
		// waiting; not consuming virtual time avoids freezing a bubble in which another
		// goroutine waits on a mutex held by our caller) or when the connection is closed.
		for {
			if d := c.deadline(isRead); !d.IsZero() {
				return true, os.ErrDeadlineExceeded
			}
			select {
			case <-c.closed:
				return true, net.ErrClosed
			case <-c.dlChanged:
			}
		}
	}
	return false, nil
}

func (c *Conn) Read(p []byte) (int, error) {
	k := c.next(true)
	if handled, err := c.inject(k, true); handled {
		return 0, err
	}
	return c.Conn.Read(p)
}

func (c *Conn) Write(p []byte) (int, error) {
	k := c.next(false)
	if handled, err := c.inject(k, false); handled {
		return 0, err
	}
	return c.Conn.Write(p)
}

func (c *Conn) Close() error {
	c.once.Do(func() { close(c.closed) })
	return c.Conn.Close()
}

func (c *Conn) SetDeadline(t time.Time) error {
	c.mu.Lock()
	c.rdl, c.wdl = t, t
	c.mu.Unlock()
	c.poke()
	return c.Conn.SetDeadline(t)
}

func (c *Conn) SetReadDeadline(t time.Time) error {
	c.mu.Lock()
	c.rdl = t
	c.mu.Unlock()
	c.poke()
	return c.Conn.SetReadDeadline(t)
}

func (c *Conn) SetWriteDeadline(t time.Time) error {
	c.mu.Lock()
	c.wdl = t
	c.mu.Unlock()
	c.poke()
	return c.Conn.SetWriteDeadline(t)
}

// Listener wraps every accepted connection with the plan returned by PlanFor.
type Listener struct {
	net.Listener
	PlanFor func(n int, raw net.Conn) *Plan
	mu      sync.Mutex
	n       int
	Conns   []*Conn
}

func (l *Listener) Accept() (net.Conn, error) {
	c, err := l.Listener.Accept()
	if err != nil {
		return nil, err
	}
	l.mu.Lock()
	n := l.n
	l.n++
	l.mu.Unlock()
	var p *Plan
	if l.PlanFor != nil {
		p = l.PlanFor(n, c)
	}
	fc := Wrap(c, p)
	l.mu.Lock()
	l.Conns = append(l.Conns, fc)
	l.mu.Unlock()
	return fc, nil
}

// Accepted returns the wrapped connections accepted so far.
func (l *Listener) Accepted() []*Conn {
	l.mu.Lock()
	defer l.mu.Unlock()
	return append([]*Conn(nil), l.Conns...)
}
