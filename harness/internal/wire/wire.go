// Package wire is a frame-aware man in the middle between two in-memory connections.
// It understands the framing of the two libp2p security handshakes -- Noise: 2-byte
// big-endian length prefix; TLS: 5-byte record header (type, version, 2-byte length) --
// reads whole frames from either side, lets an Editor decide what is forwarded instead,
// and records the original frames of both directions so that another session can replay
// them. All waits are memnet waits or channel operations, so it is safe inside
// testing/synctest bubbles.
package wire

import (
	"encoding/binary"
	"fmt"
	"io"
	"net"
	"sync"
)

// Framing selects how the byte stream is cut into frames.
type Framing int

const (
	Noise Framing = iota // 2-byte big-endian length, then that many bytes
	TLS                  // 5-byte record header: type, version(2), length(2)
)

func (f Framing) String() string { return [...]string{"noise", "tls"}[f] }

// HeaderLen is the size of the frame header.
func (f Framing) HeaderLen() int {
	if f == TLS {
		return 5
	}
	return 2
}

// PayloadLen decodes the payload length from a header.
func (f Framing) PayloadLen(hdr []byte) int {
	if f == TLS {
		return int(binary.BigEndian.Uint16(hdr[3:5]))
	}
	return int(binary.BigEndian.Uint16(hdr[0:2]))
}

// SetPayloadLen rewrites the length field of a header in place.
func (f Framing) SetPayloadLen(hdr []byte, n int) {
	if f == TLS {
		binary.BigEndian.PutUint16(hdr[3:5], uint16(n))
		return
	}
	binary.BigEndian.PutUint16(hdr[0:2], uint16(n))
}

// Dir is the direction of a frame: AtoB = written by the side attached to the first
// connection given to Splice (by convention the initiator / client).
type Dir int

const (
	AtoB Dir = 0
	BtoA Dir = 1
)

func (d Dir) String() string { return [...]string{"a>b", "b>a"}[d] }

// Frame is one complete frame as read from the wire (header included).
type Frame struct {
	Dir   Dir
	Index int // 0-based, per direction
	Raw   []byte
}

// Editor is asked once per frame what to forward. Returning [][]byte{fr.Raw} passes the
// frame on unchanged, nil drops it. It is called from one goroutine per direction.
type Editor func(fr Frame) [][]byte

// ReadFrame reads one frame. On error the bytes read so far are returned as well.
func ReadFrame(r io.Reader, f Framing) ([]byte, error) {
	hl := f.HeaderLen()
	buf := make([]byte, hl, 256)
	n, err := io.ReadFull(r, buf)
	if err != nil {
		return buf[:n], err
	}
	pl := f.PayloadLen(buf)
	buf = append(buf, make([]byte, pl)...)
	n, err = io.ReadFull(r, buf[hl:])
	if err != nil {
		return buf[:hl+n], err
	}
	return buf, nil
}

type halfCloser interface {
	CloseWrite() error
	CloseRead() error
}

// Mitm relays frames between two connections.
type Mitm struct {
	F    Framing
	a, b net.Conn
	ed   Editor
	wg   sync.WaitGroup

	mu     sync.Mutex
	frames [2][][]byte // original frames, per direction
}

// Splice starts relaying: toA is the middle's connection to side A, toB the one to side
// B. ed may be nil (pure recorder).
func Splice(f Framing, toA, toB net.Conn, ed Editor) *Mitm {
	m := &Mitm{F: f, a: toA, b: toB, ed: ed}
	m.wg.Add(2)
	go m.pump(AtoB, toA, toB)
	go m.pump(BtoA, toB, toA)
	return m
}

func (m *Mitm) pump(d Dir, src, dst net.Conn) {
	defer m.wg.Done()
	for idx := 0; ; idx++ {
		raw, err := ReadFrame(src, m.F)
		if err != nil {
			// a partial frame is passed on as it is: the sender really wrote it
			if len(raw) > 0 {
				dst.Write(raw)
			}
			if hc, ok := dst.(halfCloser); ok {
				hc.CloseWrite()
			} else {
				dst.Close()
			}
			return
		}
		m.mu.Lock()
		m.frames[d] = append(m.frames[d], raw)
		m.mu.Unlock()
		out := [][]byte{raw}
		if m.ed != nil {
			out = m.ed(Frame{Dir: d, Index: idx, Raw: raw})
		}
		for _, chunk := range out {
			if len(chunk) == 0 {
				continue
			}
			if _, err := dst.Write(chunk); err != nil {
				if hc, ok := src.(halfCloser); ok {
					hc.CloseRead()
				} else {
					src.Close()
				}
				return
			}
		}
	}
}

// Close closes both of the middle's connections (unblocks the pumps).
func (m *Mitm) Close() {
	m.a.Close()
	m.b.Close()
}

// Wait waits for both pumps to end.
func (m *Mitm) Wait() { m.wg.Wait() }

// Frames returns a copy of the original frames seen so far in one direction.
func (m *Mitm) Frames(d Dir) [][]byte {
	m.mu.Lock()
	defer m.mu.Unlock()
	out := make([][]byte, len(m.frames[d]))
	for i, f := range m.frames[d] {
		out[i] = append([]byte(nil), f...)
	}
	return out
}

// Op is an edit operator on one frame.
type Op int

const (
	Pass     Op = iota
	Flip        // XOR Mask into byte Pos of the raw frame (header included)
	Truncate    // keep only the first N payload bytes; FixLen rewrites the length field
	Extend      // append N filler bytes to the payload; FixLen rewrites the length field
	Drop        // forward nothing
	Dup         // forward the frame twice
	Replace     // forward Data (a raw frame taken from elsewhere) instead
)

func (o Op) String() string {
	return [...]string{"pass", "flip", "truncate", "extend", "drop", "dup", "replace"}[o]
}

// Edit is one edit aimed at frame (Dir, Index).
type Edit struct {
	Dir    Dir
	Index  int
	Op     Op
	Pos    int  // Flip: position; negative or beyond the frame = interpreted modulo the frame length when Wrap is set
	Wrap   bool // Flip/Truncate: reduce Pos / N modulo the actual frame (payload) length instead of not applying
	Mask   byte
	N      int // Truncate: new payload length; Extend: number of filler bytes
	FixLen bool
	Data   []byte // Replace: the raw frame to send; Extend: filler pattern (repeated), default 0xA5
}

func (e Edit) String() string {
	s := fmt.Sprintf("%s[%d] %s", e.Dir, e.Index, e.Op)
	switch e.Op {
	case Flip:
		s += fmt.Sprintf(" pos=%d mask=%02x", e.Pos, e.Mask)
	case Truncate, Extend:
		s += fmt.Sprintf(" n=%d fix=%v", e.N, e.FixLen)
	}
	return s
}

// Applied describes what an Edit did to the frame it was aimed at.
type Applied struct {
	Hit     bool   // the target frame was seen
	Changed bool   // the forwarded bytes differ from the original frame
	Orig    []byte // original raw frame
	Pos, N  int    // effective position / length after wrapping
}

// Apply computes the forwarded chunks for raw under e.
func (e Edit) Apply(f Framing, raw []byte) (out [][]byte, ap Applied) {
	ap = Applied{Hit: true, Orig: raw}
	hl := f.HeaderLen()
	pl := len(raw) - hl
	switch e.Op {
	case Flip:
		pos := e.Pos
		if e.Wrap && len(raw) > 0 {
			pos = ((pos % len(raw)) + len(raw)) % len(raw)
		}
		if pos < 0 || pos >= len(raw) || e.Mask == 0 {
			return [][]byte{raw}, ap
		}
		c := append([]byte(nil), raw...)
		c[pos] ^= e.Mask
		ap.Changed, ap.Pos = true, pos
		return [][]byte{c}, ap
	case Truncate:
		n := e.N
		if e.Wrap && pl > 0 {
			n = ((n % pl) + pl) % pl
		}
		if n < 0 || n >= pl {
			return [][]byte{raw}, ap
		}
		c := append([]byte(nil), raw[:hl+n]...)
		if e.FixLen {
			f.SetPayloadLen(c[:hl], n)
		}
		ap.Changed, ap.N = true, n
		return [][]byte{c}, ap
	case Extend:
		if e.N <= 0 {
			return [][]byte{raw}, ap
		}
		c := append([]byte(nil), raw...)
		for i := 0; i < e.N; i++ {
			b := byte(0xA5)
			if len(e.Data) > 0 {
				b = e.Data[i%len(e.Data)]
			}
			c = append(c, b)
		}
		if e.FixLen {
			f.SetPayloadLen(c[:hl], pl+e.N)
		}
		ap.Changed, ap.N = true, e.N
		return [][]byte{c}, ap
	case Drop:
		ap.Changed = true
		return nil, ap
	case Dup:
		ap.Changed = true
		return [][]byte{raw, raw}, ap
	case Replace:
		ap.Changed = string(e.Data) != string(raw)
		return [][]byte{e.Data}, ap
	}
	return [][]byte{raw}, ap
}

// Single returns an Editor applying e to its target frame and passing everything else,
// plus a function reporting what happened (call it after the session ended).
func Single(f Framing, e Edit) (Editor, func() Applied) {
	var mu sync.Mutex
	var ap Applied
	ed := func(fr Frame) [][]byte {
		if fr.Dir != e.Dir || fr.Index != e.Index {
			return [][]byte{fr.Raw}
		}
		out, a := e.Apply(f, fr.Raw)
		mu.Lock()
		ap = a
		mu.Unlock()
		return out
	}
	return ed, func() Applied { mu.Lock(); defer mu.Unlock(); return ap }
}
