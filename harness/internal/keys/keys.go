// Package keys provides per-process pools of identity keys. Ed25519 keys are a
// deterministic function of their index; ECDSA / RSA / Secp256k1 keys are generated
// once per process (Go randomises them on purpose) -- no verdict depends on key bytes.
package keys

import (
	"crypto/rand"
	"crypto/sha256"
	"encoding/binary"
	"fmt"
	"io"
	"sync"

	ic "github.com/libp2p/go-libp2p/core/crypto"
	"github.com/libp2p/go-libp2p/core/peer"
)

type detReader struct {
	seed [32]byte
	ctr  uint64
	buf  []byte
}

func (r *detReader) Read(p []byte) (int, error) {
	n := 0
	for n < len(p) {
		if len(r.buf) == 0 {
			var b [40]byte
			copy(b[:], r.seed[:])
			binary.LittleEndian.PutUint64(b[32:], r.ctr)
			r.ctr++
			h := sha256.Sum256(b[:])
			r.buf = h[:]
		}
		k := copy(p[n:], r.buf)
		r.buf = r.buf[k:]
		n += k
	}
	return n, nil
}

// Reader returns a deterministic byte stream for the given label.
func Reader(label string) io.Reader {
	return &detReader{seed: sha256.Sum256([]byte(label))}
}

type Identity struct {
	Priv ic.PrivKey
	Pub  ic.PubKey
	ID   peer.ID
	Type string
}

var (
	mu   sync.Mutex
	pool = map[string]*Identity{}
)

func mk(typ string, i int) *Identity {
	var (
		priv ic.PrivKey
		pub  ic.PubKey
		err  error
	)
	switch typ {
	case "ed25519":
		priv, pub, err = ic.GenerateEd25519Key(Reader(fmt.Sprintf("ed/%d", i)))
	case "ecdsa":
		priv, pub, err = ic.GenerateECDSAKeyPair(rand.Reader)
	case "secp256k1":
		priv, pub, err = ic.GenerateSecp256k1Key(rand.Reader)
	case "rsa":
		priv, pub, err = ic.GenerateRSAKeyPair(2048, rand.Reader)
	default:
		panic("keys: unknown type " + typ)
	}
	if err != nil {
		panic(err)
	}
	id, err := peer.IDFromPublicKey(pub)
	if err != nil {
		panic(err)
	}
	return &Identity{Priv: priv, Pub: pub, ID: id, Type: typ}
}

// Types lists the four identity key types.
var Types = []string{"ed25519", "ecdsa", "secp256k1", "rsa"}

// Get returns the i-th identity of the given type (created on first use).
func Get(typ string, i int) *Identity {
	k := fmt.Sprintf("%s/%d", typ, i)
	mu.Lock()
	defer mu.Unlock()
	if id, ok := pool[k]; ok {
		return id
	}
	id := mk(typ, i)
	pool[k] = id
	return id
}

// Ed returns the i-th deterministic Ed25519 identity.
func Ed(i int) *Identity { return Get("ed25519", i) }
