// Package kf reads /verif/known_findings.json (never written at run time). A finding
// with status "known" is a genuine defect of the code under test that is recorded
// rather than repaired: its witness prints a KNOWN-FINDING line instead of failing
// and its exclusion predicate is active in the generators. A finding with status
// "fixed" (or no entry at all) suppresses nothing: the witness is an ordinary
// regression test.
package kf

import (
	"encoding/json"
	"fmt"
	"os"
	"path/filepath"
	"sync"
	"testing"
)

type Finding struct {
	ID       string `json:"id"`
	Property string `json:"property"`
	Status   string `json:"status"` // "known" | "fixed"
	Commit   string `json:"commit,omitempty"`
	What     string `json:"what"`
	Witness  string `json:"witness,omitempty"`
}

var (
	once     sync.Once
	findings map[string]Finding
)

func load() {
	findings = map[string]Finding{}
	root := os.Getenv("VERIF_ROOT")
	if root == "" {
		root = "/verif"
	}
	b, err := os.ReadFile(filepath.Join(root, "known_findings.json"))
	if err != nil {
		return
	}
	var f struct {
		Findings []Finding `json:"findings"`
	}
	if json.Unmarshal(b, &f) != nil {
		return
	}
	for _, x := range f.Findings {
		findings[x.ID] = x
	}
}

// Known reports whether finding id is listed with status "known" (exclusion active).
func Known(id string) bool {
	once.Do(load)
	return findings[id].Status == "known"
}

// Witness runs the minimal failing input of a finding. run returns whether the
// property is violated and a description.
func Witness(t *testing.T, id string, run func() (violated bool, detail string)) {
	t.Helper()
	once.Do(load)
	violated, detail := run()
	f, listed := findings[id]
	if !violated {
		return
	}
	if listed && f.Status == "known" {
		fmt.Printf("KNOWN-FINDING: property=%s %s [%s]\n", f.Property, f.What, id)
		return
	}
	t.Fatalf("witness %s violates the property: %s", id, detail)
}
