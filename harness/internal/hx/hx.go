// Package hx holds the glue every check package uses: tier / seed / shard handling,
// the rapid.Check wrapper that sizes a property per tier, and Bubble, which runs one
// generated case inside a testing/synctest bubble (virtual time, quiescence points,
// goroutine-leak detection) and carries failures back to rapid.
package hx

import (
	"flag"
	"fmt"
	"hash/fnv"
	"os"
	"runtime"
	"runtime/debug"
	"strconv"
	"strings"
	"testing"
	"testing/synctest"
	"time"

	"verif/internal/stats"

	"pgregory.net/rapid"
)

// Thorough reports whether the thorough tier was requested.
func Thorough() bool { return os.Getenv("VERIF_TIER") == "thorough" }

// Seed is VERIF_SEED (default 1).
func Seed() uint64 {
	if v, err := strconv.ParseUint(os.Getenv("VERIF_SEED"), 10, 64); err == nil {
		return v
	}
	return 1
}

// Shard returns this process' shard index and the number of shards.
func Shard() (int, int) {
	i, _ := strconv.Atoi(os.Getenv("VERIF_SHARD"))
	n, _ := strconv.Atoi(os.Getenv("VERIF_SHARDS"))
	if n <= 0 {
		n = 1
	}
	return i, n
}

// Shard0 skips the test unless this is shard 0 (for deterministic, unsharded tests).
func Shard0(t *testing.T) {
	if i, _ := Shard(); i != 0 {
		t.Skip("runs in shard 0 only")
	}
}

// Mine reports whether item k of a deterministic enumeration belongs to this shard.
func Mine(k int) bool {
	i, n := Shard()
	return k%n == i
}

// Pick returns the quick or thorough value.
func Pick[T any](quick, thorough T) T {
	if Thorough() {
		return thorough
	}
	return quick
}

func rapidSeed(name string) uint64 {
	i, _ := Shard()
	h := fnv.New64a()
	fmt.Fprintf(h, "%d/%d/%s", Seed(), i, name)
	s := h.Sum64()
	if s == 0 {
		s = 1
	}
	return s
}

// Check runs prop under rapid with a per-tier total case count (split over the
// shards), a seed derived from (VERIF_SEED, shard, test name) and an optional
// average step count for t.Repeat state machines. With VERIF_REPLAY set, only the
// given fail file is replayed.
func Check(t *testing.T, quick, thorough, steps int, prop func(*rapid.T)) {
	t.Helper()
	_, n := Shard()
	total := Pick(quick, thorough)
	if v := os.Getenv("VERIF_CHECKS_SCALE"); v != "" {
		if f, err := strconv.ParseFloat(v, 64); err == nil {
			total = int(float64(total) * f)
		}
	}
	per := (total + n - 1) / n
	if per < 1 {
		per = 1
	}
	must(flag.Set("rapid.checks", strconv.Itoa(per)))
	must(flag.Set("rapid.seed", strconv.FormatUint(rapidSeed(t.Name()), 10)))
	if steps > 0 {
		must(flag.Set("rapid.steps", strconv.Itoa(steps)))
	} else {
		must(flag.Set("rapid.steps", "30"))
	}
	if os.Getenv("VERIF_SHRINKTIME") != "" {
		must(flag.Set("rapid.shrinktime", os.Getenv("VERIF_SHRINKTIME")))
	}
	if rp := os.Getenv("VERIF_REPLAY"); rp != "" {
		must(flag.Set("rapid.failfile", rp))
		must(flag.Set("rapid.checks", "1"))
	}
	rapid.Check(t, prop)
}

func must(err error) {
	if err != nil {
		panic(err)
	}
}

// bubbleWatchdog is the real-time budget for a single bubble; a bubble that does not
// finish (a ticker goroutine that survives cleanup keeps virtual time advancing for
// ever) is reported with a full goroutine dump and ends the process with status 3,
// which the driver maps to "inconclusive" unless the package opted into LeakIsFailure.
var bubbleWatchdog = 120 * time.Second

// Bubble runs f inside a fresh synctest bubble. A failure raised inside (rt.Fatalf,
// invalid-data panics from draws, ordinary panics) is re-raised on the calling
// goroutine so that rapid sees it. A goroutine that is still blocked when f returns
// makes synctest panic ("deadlock: ..."): this is turned into a failure carrying a
// dump of the bubble's goroutines.
func Bubble(t *testing.T, rt *rapid.T, f func()) {
	var (
		panicked bool
		val      any
		stack    []byte
		site     string
	)
	done := make(chan struct{})
	go func() {
		select {
		case <-done:
		case <-time.After(bubbleWatchdog):
			buf := make([]byte, 8<<20)
			buf = buf[:runtime.Stack(buf, true)]
			fmt.Fprintf(os.Stderr, "HARNESS-HANG: bubble did not finish within %v\n%s\n", bubbleWatchdog, buf)
			stats.Flush()
			os.Exit(3)
		}
	}()
	defer close(done)

	var outer any
	var outerStack []byte
	func() {
		defer func() {
			if r := recover(); r != nil {
				outer = r
				buf := make([]byte, 4<<20)
				outerStack = buf[:runtime.Stack(buf, true)]
			}
		}()
		synctest.Test(t, func(*testing.T) {
			defer func() {
				if r := recover(); r != nil {
					panicked, val, stack = true, r, debug.Stack()
					site = failureSite()
				}
			}()
			f()
		})
	}()
	if panicked {
		if isRapidControl(val) {
			if fmt.Sprintf("%T", val) == "rapid.invalidData" {
				repanicInvalid(val)
			}
			// rapid's shrinker decides "same failure" by the traceback alone; re-raise at a
			// stack depth derived from the original failure site so that different failures
			// (and invalid-data unwinds) stay distinguishable.
			repanicAt(1+int(hashSite(site)%61), val)
		}
		rt.Fatalf("panic inside bubble: %v\n%s", val, stack)
	}
	if outer != nil {
		rt.Fatalf("bubble did not shut down cleanly: %v\n%s", outer, filterBubble(outerStack))
	}
}

//go:noinline
func repanicInvalid(v any) { panic(v) }

//go:noinline
func repanicAt(depth int, v any) {
	if depth <= 0 {
		panic(v)
	}
	repanicAt(depth-1, v)
}

func hashSite(s string) uint64 {
	h := fnv.New64a()
	h.Write([]byte(s))
	return h.Sum64()
}

// failureSite returns file:line of the innermost frame of the panicking stack that is
// neither runtime, rapid nor this package (i.e. the test code that called Fatalf).
func failureSite() string {
	pcs := make([]uintptr, 64)
	pcs = pcs[:runtime.Callers(2, pcs)]
	frames := runtime.CallersFrames(pcs)
	for {
		f, more := frames.Next()
		if f.Function != "" && !strings.HasPrefix(f.Function, "runtime.") && !strings.HasPrefix(f.Function, "pgregory.net/rapid.") &&
			!strings.HasPrefix(f.Function, "verif/internal/hx.") {
			return fmt.Sprintf("%s:%d", f.File, f.Line)
		}
		if !more {
			return "unknown"
		}
	}
}

// isRapidControl recognises rapid's own unwinding values (stop-test and invalid-data),
// which must reach rapid unchanged.
func isRapidControl(v any) bool {
	s := fmt.Sprintf("%T", v)
	return strings.HasPrefix(s, "rapid.")
}

// filterBubble keeps only goroutines that belong to a synctest bubble.
func filterBubble(dump []byte) string {
	var b strings.Builder
	for _, g := range strings.Split(string(dump), "\n\n") {
		first, _, _ := strings.Cut(g, "\n")
		if strings.Contains(first, "synctest bubble") || strings.Contains(first, "synctest") {
			b.WriteString(g)
			b.WriteString("\n\n")
		}
	}
	if b.Len() == 0 {
		return string(dump)
	}
	return b.String()
}

// Main is the common TestMain body: run, flush statistics, exit.
func Main(m *testing.M) {
	code := m.Run()
	stats.Flush()
	os.Exit(code)
}

// RunBubble runs f inside a synctest bubble for deterministic (non-rapid) tests. It
// returns a non-empty description if f panicked or if the bubble could not shut down
// (goroutines still blocked when f returned: a leak).
func RunBubble(t *testing.T, f func()) (failure string) {
	res := make(chan string, 1)
	go func() {
		var inner, outer string
		func() {
			defer func() {
				if r := recover(); r != nil {
					buf := make([]byte, 4<<20)
					outer = fmt.Sprintf("bubble did not shut down cleanly: %v\n%s", r, filterBubble(buf[:runtime.Stack(buf, true)]))
				}
			}()
			synctest.Test(t, func(*testing.T) {
				defer func() {
					if r := recover(); r != nil {
						inner = fmt.Sprintf("panic inside bubble: %v\n%s", r, debug.Stack())
					}
				}()
				f()
			})
		}()
		if inner != "" {
			res <- inner
			return
		}
		res <- outer
	}()
	select {
	case r := <-res:
		return r
	case <-time.After(FrozenAfter):
		// Virtual time cannot advance while a goroutine of the bubble is blocked on a mutex
		// (not a durable wait). If the holder of that mutex waits for virtual time the
		// bubble freezes: a limitation of the substrate, not a finding. The bubble is
		// abandoned (its goroutines stay parked) and the case reported as frozen.
		buf := make([]byte, 4<<20)
		return Frozen + "\n" + filterBubble(buf[:runtime.Stack(buf, true)])
	}
}

// Frozen prefixes the result of RunBubble for a bubble that made no progress in real time.
const Frozen = "FROZEN-BUBBLE"

// FrozenAfter is the real-time budget of one RunBubble case.
var FrozenAfter = 30 * time.Second
