// Package stats collects, per test process, what the generated checks actually
// covered: number of evaluated cases, the set of distinct non-trivial case
// fingerprints, a label histogram and a few samples written out in full. It is
// flushed as JSON to $VERIF_STATS by Flush (called from TestMain); the python driver
// merges the per-shard files into /verif/evidence/<id>.json.
package stats

import (
	"encoding/json"
	"fmt"
	"hash/fnv"
	"os"
	"sort"
	"sync"
)

const (
	maxSamples     = 6
	maxFingerprint = 4_000_000
)

type testStats struct {
	Evaluations int64            `json:"evaluations"`
	Nontrivial  int64            `json:"nontrivial"`
	Labels      map[string]int64 `json:"labels"`
	Samples     []any            `json:"samples"`
	fps         map[uint64]struct{}
	Exhaustive  bool  `json:"exhaustive,omitempty"`
	Excluded    int64 `json:"excluded,omitempty"`
	// DistinctCounted counts non-trivial cases known to be distinct by construction
	// (enumerations), which therefore need no fingerprint.
	DistinctCounted int64 `json:"distinct_counted,omitempty"`
}

var (
	mu    sync.Mutex
	tests = map[string]*testStats{}
	meta  = struct {
		Rule        string   `json:"rule"`
		Assumptions []string `json:"assumptions"`
		Level       string   `json:"level"`
	}{Level: "exploration"}
)

// Describe records the generation / non-triviality rule and the assumptions of the
// check; written into the evidence file verbatim.
func Describe(level, rule string, assumptions ...string) {
	mu.Lock()
	defer mu.Unlock()
	meta.Level = level
	meta.Rule = rule
	meta.Assumptions = assumptions
}

func get(test string) *testStats {
	ts := tests[test]
	if ts == nil {
		ts = &testStats{Labels: map[string]int64{}, fps: map[uint64]struct{}{}}
		tests[test] = ts
	}
	return ts
}

func hash(s string) uint64 {
	h := fnv.New64a()
	h.Write([]byte(s))
	return h.Sum64()
}

// Case records one evaluated case of the named test. fingerprint identifies the
// structured scenario (not rapid's bitstream); nontrivial is the per-property rule.
func Case(test, fingerprint string, nontrivial bool, labels ...string) {
	mu.Lock()
	defer mu.Unlock()
	ts := get(test)
	ts.Evaluations++
	for _, l := range labels {
		ts.Labels[l]++
	}
	if nontrivial {
		ts.Nontrivial++
		if len(ts.fps) < maxFingerprint {
			ts.fps[hash(test+"\x00"+fingerprint)] = struct{}{}
		}
	}
}

// CaseEnumerated records a case of an enumeration: distinct by construction, so no
// fingerprint is stored.
func CaseEnumerated(test string, nontrivial bool, labels ...string) {
	mu.Lock()
	defer mu.Unlock()
	ts := get(test)
	ts.Evaluations++
	for _, l := range labels {
		ts.Labels[l]++
	}
	if nontrivial {
		ts.Nontrivial++
		ts.DistinctCounted++
	}
}

// Label bumps a label counter without counting a case.
func Label(test string, labels ...string) {
	mu.Lock()
	defer mu.Unlock()
	ts := get(test)
	for _, l := range labels {
		ts.Labels[l]++
	}
}

// Excluded counts a generated case that was removed by a known-finding exclusion.
func Excluded(test string) {
	mu.Lock()
	defer mu.Unlock()
	get(test).Excluded++
}

// Exhaustive marks the named test as having enumerated its finite domain completely.
func Exhaustive(test string) {
	mu.Lock()
	defer mu.Unlock()
	get(test).Exhaustive = true
}

// Sample stores a written-out case (first few, then every 2^k-th so that late,
// typically larger cases are represented too).
func Sample(test string, v any) {
	mu.Lock()
	defer mu.Unlock()
	ts := get(test)
	if len(ts.Samples) < maxSamples {
		ts.Samples = append(ts.Samples, v)
		return
	}
	n := ts.Evaluations
	if n > 0 && n&(n-1) == 0 { // power of two
		ts.Samples[int(n)%maxSamples] = v
	}
}

// WantSample reports whether Sample would keep a value now (lets callers avoid
// building expensive descriptions).
func WantSample(test string) bool {
	mu.Lock()
	defer mu.Unlock()
	ts := get(test)
	n := ts.Evaluations
	return len(ts.Samples) < maxSamples || (n > 0 && n&(n-1) == 0)
}

// Flush writes the collected statistics to $VERIF_STATS (no-op when unset).
func Flush() {
	path := os.Getenv("VERIF_STATS")
	if path == "" {
		return
	}
	mu.Lock()
	defer mu.Unlock()
	type outTest struct {
		*testStats
		Fingerprints []string `json:"fingerprints"`
	}
	out := struct {
		Rule        string              `json:"rule"`
		Assumptions []string            `json:"assumptions"`
		Level       string              `json:"level"`
		Tests       map[string]*outTest `json:"tests"`
	}{meta.Rule, meta.Assumptions, meta.Level, map[string]*outTest{}}
	for name, ts := range tests {
		ot := &outTest{testStats: ts}
		for fp := range ts.fps {
			ot.Fingerprints = append(ot.Fingerprints, fmt.Sprintf("%016x", fp))
		}
		sort.Strings(ot.Fingerprints)
		out.Tests[name] = ot
	}
	b, err := json.Marshal(out)
	if err != nil {
		fmt.Fprintln(os.Stderr, "stats: marshal:", err)
		return
	}
	if err := os.WriteFile(path, b, 0o644); err != nil {
		fmt.Fprintln(os.Stderr, "stats: write:", err)
	}
}
