package c13

// Address streams: what other components of a host do with the peerstore while identify
// runs. Peerstore().AddrStream(ctx, peer) is how the routing, relay and dial-back parts of
// a host hear about new addresses of a peer; the book feeds every subscriber from inside
// the very writes identify makes. The property's "every connection's identify-wait is
// eventually released" (and the fall-back of the addresses to the finite lifetime, which
// the Disconnected handling performs behind the same lock) quantifies over histories: the
// operations of such a component are part of the history, at any instant, with any
// consumer behaviour:
//
//   - subscribe, on the remote peer p or (one in six) on a bystander, at any point: before the
//     first connection, while connected, while p's addresses are on their finite lifetime
//     after the last close, when that lifetime has just run out (all of p's addresses have
//     expired; the address book collects them at its next one-minute tick, so the entry is
//     mostly still there), after the collection; the generator steers towards the end of
//     the lifetime (sleeps of RecentlyConnectedAddrTTL -1ms / +1ms / +1s once the last
//     connection is closed) and towards a new connection afterwards;
//   - the consumer is idle (does not read: busy elsewhere, or for good), eager (reads
//     everything at once) or reads up to 1 / 3 / 20 / 200 / 1000 addresses at generated steps,
//     while responses and pushes bring up to 500 new addresses each;
//   - cancel.
//
// Oracle. Nothing new is demanded of identify: the waits must be released by their
// deadlines whatever the subscribers do (rule 8 of check, evaluated first and, when
// identify is found parked inside the address book at a quiescent point, straight at the
// deadline without touching the book), every later rule applies unchanged, and a case
// that freezes because identify or the book waits for a lock that can never be released is
// a failure (watch_test.go). What a stream delivers is attributed like everything else: a
// stream on p carries only addresses some message offered in a usable list on a connection
// of the right class (the set rule 3 uses), a stream on a bystander only what the store held
// for it before identify ran.

import (
	"context"
	"fmt"
	"sync"
	"testing/synctest"
	"time"

	"github.com/libp2p/go-libp2p/core/peer"
	"github.com/libp2p/go-libp2p/core/peerstore"
	ma "github.com/multiformats/go-multiaddr"
)

const (
	smIdle     = iota // the consumer does not read
	smEager           // reads everything as it comes
	smStepwise        // reads a few addresses at generated steps
)

var subModeNames = []string{"idle", "eager", "reads-at-steps"}

type addrSub struct {
	q         peer.ID
	onP       bool
	mode      int
	at        time.Duration
	ch        <-chan ma.Multiaddr
	cancel    context.CancelFunc
	cancelled bool
	stale     bool // taken when every address of p had expired and no collection had come by

	mu      sync.Mutex
	got     []ma.Multiaddr
	closed  bool
	checked int // got[:checked] has been judged

	base map[string]struct{} // bystander: what the store held for it at subscription time
	seen map[string]struct{} // p: what the store held for it at subscription time and at every quiescent point since
}

func (s *addrSub) received() ([]ma.Multiaddr, bool) {
	s.mu.Lock()
	defer s.mu.Unlock()
	return s.got, s.closed
}

func (r *runner) doSubscribe(st *step) {
	p := r.w.p.ID
	s := &addrSub{q: p, onP: st.subPeer < 0, mode: st.subMode, at: r.now(), base: map[string]struct{}{}, seen: map[string]struct{}{}}
	if !s.onP {
		s.q = r.w.others[st.subPeer].ID
		r.label("addr-stream:on-a-bystander")
	} else {
		r.label("addr-stream:on-the-remote-peer")
	}
	r.label("addr-stream:consumer-" + subModeNames[s.mode])
	cur := r.ps.Addrs(s.q)
	for _, a := range cur {
		s.base[string(a.Bytes())] = struct{}{}
		s.seen[string(a.Bytes())] = struct{}{}
	}
	if s.onP {
		// where in the life of p's addresses the subscription falls
		r.reconcile()
		r.emu.Lock()
		pend := r.pendingNote
		r.emu.Unlock()
		switch {
		case len(r.conns) == 0:
			r.label("addr-stream:subscribed:before-the-first-connection")
		case r.openCount() > 0 || pend > 0:
			r.label("addr-stream:subscribed:while-connected")
		case len(cur) > 0:
			r.label("addr-stream:subscribed:no-connection:addresses-on-their-finite-lifetime")
		default:
			lw, ok := r.ps.lastAddrWrite(p)
			if !ok {
				r.label("addr-stream:subscribed:no-connection:no-address-ever-written")
				break
			}
			// the lifetimes written last (by the Disconnected handling, or by a message handled later) end here
			end := lw.Sub(r.t0) + peerstore.RecentlyConnectedAddrTTL
			now := r.now()
			switch {
			case now < end:
				r.label("addr-stream:subscribed:no-connection:no-valid-address")
			case now/time.Minute == end/time.Minute:
				// the address book collects expired entries every minute, counted from its creation (t0)
				r.label("addr-stream:subscribed:no-connection:lifetime-of-all-addresses-ran-out:no-collection-since")
				s.stale = true
			default:
				r.label("addr-stream:subscribed:no-connection:lifetime-of-all-addresses-ran-out:collected-since")
			}
		}
	}
	ctx, cancel := context.WithCancel(context.Background())
	s.cancel = cancel
	s.ch = r.ps.AddrStream(ctx, s.q)
	if s.mode == smEager {
		r.wg.Add(1)
		go func() {
			defer r.wg.Done()
			for a := range s.ch {
				s.mu.Lock()
				s.got = append(s.got, a)
				s.mu.Unlock()
			}
			s.mu.Lock()
			s.closed = true
			s.mu.Unlock()
		}()
	}
	r.subs = append(r.subs, s)
}

// doDrain lets the consumer of a subscription take up to k addresses, as far as they are there.
func (r *runner) doDrain(st *step) {
	s := r.subs[st.sub]
	n := 0
	for n < st.k {
		synctest.Wait() // the stream offers its next address
		var a ma.Multiaddr
		ok, some := true, false
		select {
		case a, ok = <-s.ch:
			some = true
		default:
		}
		if !some {
			break
		}
		if !ok {
			s.mu.Lock()
			s.closed = true
			s.mu.Unlock()
			break
		}
		s.mu.Lock()
		s.got = append(s.got, a)
		s.mu.Unlock()
		n++
	}
	switch {
	case n == 0:
		r.label("addr-stream:read-step:nothing-there")
	case n < st.k:
		r.label("addr-stream:read-step:took-all-there-was")
	default:
		r.label("addr-stream:read-step:took-some")
	}
}

func (r *runner) doCancelSub(st *step) {
	s := r.subs[st.sub]
	s.cancel()
	s.cancelled = true
	r.label("addr-stream:cancelled")
}

func (r *runner) cancelSubs() {
	for _, s := range r.subs {
		s.cancel()
	}
}

// checkStreams judges what the streams have delivered so far and keeps the coverage facts. It reads
// the store (quiescent points only).
func (r *runner) checkStreams(where string, pAddrs []ma.Multiaddr) {
	for i, s := range r.subs {
		got, _ := s.received()
		for _, a := range got[s.checked:] {
			k := string(a.Bytes())
			if s.onP {
				if _, ok := r.allowed[k]; !ok {
					r.rt.Fatalf("%s: the address stream of the remote peer (subscriber %d) delivered %s, which no message on a connection of that class offered in a usable list "+
						"(listen addresses or a record that validates, is signed by and names the peer; no foreign /p2p)", where, i, a)
				}
			} else if _, ok := s.base[k]; !ok {
				r.rt.Fatalf("%s: the address stream of bystander %s (subscriber %d) delivered %s, which the store did not hold for it before identify ran: "+
					"something the remote peer %s sent was attributed to another peer", where, s.q, i, a, r.w.p.ID)
			}
		}
		s.checked = len(got)
		if !s.onP || s.cancelled {
			continue
		}
		for _, a := range pAddrs {
			s.seen[string(a.Bytes())] = struct{}{}
		}
		if s.mode != smEager {
			// addresses the store has held for p since the subscription that the consumer has not taken
			switch unread := len(s.seen) - len(got); {
			case unread > 128:
				r.label("addr-stream:consumer-not-reading:more-than-128-addresses-unread")
				r.streamRace = true
			case unread > 0:
				r.label("addr-stream:consumer-not-reading:1..128-addresses-unread")
				r.streamRace = true
			}
		}
	}
}

// streamFacts records, at the end of a case, which subscriptions saw identify at work.
func (r *runner) streamFacts() {
	evs := r.snapshotEvents()
	for _, s := range r.subs {
		if !s.onP {
			continue
		}
		for _, e := range evs {
			if e.kind == "completed" && e.t >= s.at {
				r.label("addr-stream:message-consumed-after-subscription")
				if s.stale {
					r.label("addr-stream:message-consumed-after-subscription-taken-when-all-addresses-had-expired")
					r.streamRace = true
				}
				break
			}
		}
		if got, _ := s.received(); len(got) > 0 {
			r.label(fmt.Sprintf("addr-stream:consumer-%s:received-addresses", subModeNames[s.mode]))
		}
	}
}
