package c13

// A synctest bubble that is watched from outside.
//
// Why. The clause "every connection's identify-wait is eventually released" can be broken
// in two ways. Either identify waits for something durable (a channel of another
// component, e.g. the consumer of an address stream that is not reading): then virtual
// time passes and the oracle sees the unreleased wait at its deadline. Or identify (or the
// address book under it) waits for a sync.Mutex / sync.RWMutex that nobody who can run
// holds: a goroutine parked on a mutex is not "durably blocked" for testing/synctest, so
// virtual time stops for good, synctest.Wait never returns and the case can neither be
// judged nor torn down from inside. hx.Bubble reports that as a hang after two minutes of
// real time (inconclusive). Here the state is recognised for what it is, by what it IS
// and not by how long it lasts:
//
//	FROZEN  :=  every goroutine of the bubble is parked, each either durably (channel,
//	            select, sleep, synctest.Wait, WaitGroup, Cond inside the bubble) or on a
//	            sync.Mutex / sync.RWMutex, and at least one of them on such a lock.
//
// FROZEN is absorbing: no goroutine of the bubble can run, virtual time cannot advance
// (that needs all of them durably blocked), and no goroutine outside the bubble touches
// its objects (rapid runs one case at a time; the watcher only reads goroutine states). So
// the verdict does not depend on when the watcher looks: a case that freezes is seen
// frozen at some poll and ever after, a case that does not is never seen frozen (the
// snapshot is taken with the world stopped; two consecutive identical snapshots are
// required on top). The polling period only decides how soon the verdict is known.
//
// What FROZEN means for the property. The harness never waits for virtual time while it
// holds, or inside a callback made under, a lock of identify or of the peerstore, and the
// consumers of address streams it plays hold no locks at all. Hence in a frozen bubble the
// lock some goroutine waits for is held by a goroutine that waits for another such lock or
// for a component that is idle (which a component may be for ever), or by nobody: the
// waiting never ends. Whatever identify goroutine is among them (message handling, which
// releases the wait; Disconnected handling, which moves addresses to the finite lifetime)
// never finishes, and every later one queues up behind it.
//
// A frozen bubble cannot be shut down; it is abandoned (its goroutines stay parked, its
// memory stays referenced) and the case fails.

import (
	"bytes"
	"fmt"
	"hash/fnv"
	"os"
	"regexp"
	"runtime"
	"runtime/debug"
	"sort"
	"strings"
	"testing"
	"testing/synctest"
	"time"

	"pgregory.net/rapid"

	"verif/internal/stats"
)

// real-time budget of one case that is neither finished nor frozen (a livelock, a ticker that
// survives cleanup): reported as a hang like hx.Bubble does (inconclusive), never as a violation
var watchBudget = 120 * time.Second

// how often the watcher looks (latency of the verdict only)
const (
	watchFirst = 20 * time.Millisecond
	watchEvery = 15 * time.Millisecond
)

type gstate struct {
	id     string
	state  string // first element of the bracket, e.g. "select (durable)", "sync.RWMutex.Lock"
	bubble string // "synctest bubble 7" or ""
	text   string // the whole record
}

var gheader = regexp.MustCompile(`^goroutine (\d+) \[([^\]]*)\]:`)

func parseDump(dump []byte) []gstate {
	var out []gstate
	for _, rec := range strings.Split(string(dump), "\n\n") {
		m := gheader.FindStringSubmatch(rec)
		if m == nil {
			continue
		}
		g := gstate{id: m[1], text: rec}
		parts := strings.Split(m[2], ", ")
		g.state = parts[0]
		for _, p := range parts[1:] {
			if strings.HasPrefix(p, "synctest bubble ") {
				g.bubble = p
			}
		}
		out = append(out, g)
	}
	return out
}

func lockWait(state string) bool {
	switch state {
	case "sync.Mutex.Lock", "sync.RWMutex.Lock", "sync.RWMutex.RLock":
		return true
	}
	return false
}

// frozenBubble looks at the bubble whose root goroutine (the caller of synctest.Test) is rootID.
// It returns a canonical signature of the parked goroutines if the bubble is FROZEN, "" otherwise,
// and the records of the goroutines that wait for a lock.
func frozenBubble(rootID string) (sig string, onLock []gstate, all []gstate) {
	buf := make([]byte, 1<<20)
	for {
		n := runtime.Stack(buf, true)
		if n < len(buf) {
			buf = buf[:n]
			break
		}
		buf = make([]byte, 2*len(buf))
	}
	gs := parseDump(buf)
	bubble := ""
	for _, g := range gs {
		if g.id == rootID {
			bubble = g.bubble
		}
	}
	if bubble == "" {
		return "", nil, nil // not inside synctest.Test (yet, or any more)
	}
	var ids []string
	for _, g := range gs {
		if g.bubble != bubble {
			continue
		}
		all = append(all, g)
		switch {
		case lockWait(g.state):
			onLock = append(onLock, g)
		case strings.HasSuffix(g.state, "(durable)"):
		default:
			return "", nil, nil // running, runnable, in a syscall, waiting for something outside the bubble, ...
		}
		ids = append(ids, g.id+":"+g.state)
	}
	if len(onLock) == 0 {
		return "", nil, nil // all durably blocked: synctest advances the clock or reports a deadlock itself
	}
	sort.Strings(ids)
	return strings.Join(ids, " "), onLock, all
}

// frames returns the function names of a goroutine record, innermost first.
func frames(rec string) []string {
	var out []string
	for _, l := range strings.Split(rec, "\n")[1:] {
		if l == "" || l[0] == '\t' || strings.HasPrefix(l, "created by ") {
			continue
		}
		if i := strings.LastIndex(l, "("); i > 0 {
			l = l[:i]
		}
		out = append(out, l)
	}
	return out
}

func describeFrozen(onLock, all []gstate) string {
	var b strings.Builder
	short := func(g gstate) string {
		fs := frames(g.text)
		var keep []string
		for _, f := range fs {
			if strings.HasPrefix(f, "sync.") || strings.HasPrefix(f, "runtime.") || strings.HasPrefix(f, "internal/") {
				continue
			}
			f = strings.TrimPrefix(f, "github.com/libp2p/go-libp2p/")
			keep = append(keep, f)
			if len(keep) == 6 {
				break
			}
		}
		return fmt.Sprintf("  [%s] %s", g.state, strings.Join(keep, " <- "))
	}
	identifyStuck := false
	b.WriteString("goroutines that wait for a lock nobody able to run holds:\n")
	for _, g := range onLock {
		b.WriteString(short(g) + "\n")
	}
	b.WriteString("goroutines parked inside the address book, waiting for another component:\n")
	for _, g := range all {
		inIdentify, inBook := strings.Contains(g.text, "p2p/protocol/identify."), strings.Contains(g.text, "peerstore/pstoremem.(*memoryAddrBook).")
		if inIdentify && (lockWait(g.state) || inBook) {
			identifyStuck = true
		}
		// (not the collector of the address book between two ticks, not identify reading from a stream)
		if inBook && !lockWait(g.state) && !strings.Contains(frames(g.text)[0], ".background") {
			b.WriteString(short(g) + "\n")
		}
	}
	if identifyStuck {
		b.WriteString("identify is among them: the handling of a message (which releases the connection's identify-wait) or of a Disconnected notification never finishes\n")
	} else {
		b.WriteString("the address book no longer accepts a write: identify's next address update or Disconnected handling queues up behind these and never finishes\n")
	}
	return b.String()
}

func selfID() string {
	buf := make([]byte, 64)
	buf = buf[:runtime.Stack(buf, false)]
	buf = bytes.TrimPrefix(buf, []byte("goroutine "))
	if i := bytes.IndexByte(buf, ' '); i > 0 {
		return string(buf[:i])
	}
	return ""
}

// frozenCases counts the bubbles this process has abandoned (coverage / diagnostics).
var frozenCases int

type outcome struct {
	panicked   bool
	val        any
	stack      []byte
	site       string
	outer      any
	outerStack []byte
}

// runWatched runs f inside a fresh synctest bubble on a goroutine of its own and watches it.
// frozen is non-empty if the bubble froze (it has been abandoned then).
func runWatched(t *testing.T, f func()) (o outcome, frozen string) {
	res := make(chan outcome, 1)
	root := make(chan string, 1)
	go func() {
		var o outcome
		root <- selfID()
		func() {
			defer func() {
				if r := recover(); r != nil {
					o.outer = r
					buf := make([]byte, 4<<20)
					o.outerStack = buf[:runtime.Stack(buf, true)]
				}
			}()
			synctest.Test(t, func(*testing.T) {
				defer func() {
					if r := recover(); r != nil {
						o.panicked, o.val, o.stack = true, r, debug.Stack()
						o.site = failureSite()
					}
				}()
				f()
			})
		}()
		res <- o
	}()
	rootID := <-root

	start := time.Now()
	wait := watchFirst
	prev := ""
	for {
		tm := time.NewTimer(wait)
		select {
		case o = <-res:
			tm.Stop()
			return o, ""
		case <-tm.C:
		}
		wait = watchEvery
		sig, onLock, all := frozenBubble(rootID)
		if sig != "" && sig == prev {
			frozenCases++
			return o, fmt.Sprintf("the case is frozen: every goroutine of it is parked, %d of them on a sync.Mutex / sync.RWMutex whose holder cannot run; "+
				"nothing inside can ever resume (virtual time included), so what these goroutines were doing is never finished\n%s",
				len(onLock), describeFrozen(onLock, all))
		}
		prev = sig
		if time.Since(start) > watchBudget {
			buf := make([]byte, 8<<20)
			buf = buf[:runtime.Stack(buf, true)]
			fmt.Fprintf(os.Stderr, "HARNESS-HANG: bubble neither finished nor froze within %v\n%s\n", watchBudget, buf)
			stats.Flush()
			os.Exit(3)
		}
	}
}

// watchedBubble runs f inside a fresh synctest bubble like hx.Bubble (failures raised inside
// are re-raised on the calling goroutine so that rapid sees them; goroutines left behind are
// a failure), but on a goroutine of its own, and fails the case if the bubble freezes.
func watchedBubble(t *testing.T, rt *rapid.T, f func()) {
	o, frozen := runWatched(t, f)
	if frozen != "" {
		rt.Fatalf("%s", frozen)
	}
	if o.panicked {
		if isRapidControl(o.val) {
			if fmt.Sprintf("%T", o.val) == "rapid.invalidData" {
				repanicInvalid(o.val)
			}
			// rapid's shrinker decides "same failure" by the traceback alone (see hx.Bubble)
			repanicAt(1+int(hashSite(o.site)%61), o.val)
		}
		rt.Fatalf("panic inside bubble: %v\n%s", o.val, o.stack)
	}
	if o.outer != nil {
		rt.Fatalf("bubble did not shut down cleanly: %v\n%s", o.outer, filterBubbleDump(o.outerStack))
	}
}

//go:noinline
func repanicInvalid(v any) { panic(v) }

//go:noinline
func repanicAt(depth int, v any) {
	if depth <= 0 {
		panic(v)
	}
	repanicAt(depth-1, v)
}

func hashSite(s string) uint64 {
	h := fnv.New64a()
	h.Write([]byte(s))
	return h.Sum64()
}

// failureSite returns file:line of the innermost frame of the panicking stack that is
// neither runtime nor rapid (i.e. the test code that called Fatalf).
func failureSite() string {
	pcs := make([]uintptr, 64)
	pcs = pcs[:runtime.Callers(2, pcs)]
	fr := runtime.CallersFrames(pcs)
	for {
		f, more := fr.Next()
		if f.Function != "" && !strings.HasPrefix(f.Function, "runtime.") && !strings.HasPrefix(f.Function, "pgregory.net/rapid.") &&
			!strings.Contains(f.Function, "watchedBubble") && !strings.HasSuffix(f.Function, ".failureSite") {
			return fmt.Sprintf("%s:%d", f.File, f.Line)
		}
		if !more {
			return "unknown"
		}
	}
}

func isRapidControl(v any) bool {
	return strings.HasPrefix(fmt.Sprintf("%T", v), "rapid.")
}

func filterBubbleDump(dump []byte) string {
	var b strings.Builder
	for _, g := range strings.Split(string(dump), "\n\n") {
		first, _, _ := strings.Cut(g, "\n")
		if strings.Contains(first, "synctest") {
			b.WriteString(g)
			b.WriteString("\n\n")
		}
	}
	if b.Len() == 0 {
		return string(dump)
	}
	return b.String()
}
