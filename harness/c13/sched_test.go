package c13

// The view of the host that the identify service under test gets: the same fake
// network and the same peerstore wrapper the harness looks at, but every call the
// service makes about a peer (Network().Connectedness, any peerstore method keyed by a
// peer ID) is a scheduling point OWNED BY THE HARNESS. A scenario can arm one fault
// "right after the k-th such call about the remote peer (or the k-th Connectedness
// answer) a given connection closes and its Disconnected notification is delivered":
// the property quantifies over messages "racing with disconnect of that or of the last
// connection", and between two calls into the host is exactly where a real swarm can
// squeeze a disconnect. The harness' own reads of the store do not go through this view
// and therefore never count.

import (
	"sync"
	"sync/atomic"
	"time"

	ic "github.com/libp2p/go-libp2p/core/crypto"
	"github.com/libp2p/go-libp2p/core/network"
	"github.com/libp2p/go-libp2p/core/peer"
	"github.com/libp2p/go-libp2p/core/protocol"
	"github.com/libp2p/go-libp2p/core/record"
	ma "github.com/multiformats/go-multiaddr"
)

const (
	pcAnyCall       = iota // every call about the peer counts
	pcConnectedness        // only Connectedness answers count
)

type callSched struct {
	// calls of the service into the address book that have not returned yet. At a quiescent point
	// (synctest.Wait has returned) a positive number means that identify is parked inside the
	// address book, waiting for something that is not a lock: another component.
	inBook atomic.Int32

	mu    sync.Mutex
	peer  peer.ID
	class int
	left  int
	f     func(call string)
}

// arm schedules f to run once, in the calling goroutine of the service, right after
// the k-th (k >= 1) call of the given class about p has returned its real result.
func (s *callSched) arm(p peer.ID, class, k int, f func(call string)) {
	s.mu.Lock()
	s.peer, s.class, s.left, s.f = p, class, k, f
	s.mu.Unlock()
}

func (s *callSched) disarm() {
	s.mu.Lock()
	s.f = nil
	s.mu.Unlock()
}

func (s *callSched) after(p peer.ID, call string) {
	s.mu.Lock()
	if s.f == nil || p != s.peer || (s.class == pcConnectedness && call != "Connectedness") {
		s.mu.Unlock()
		return
	}
	s.left--
	if s.left > 0 {
		s.mu.Unlock()
		return
	}
	f := s.f
	s.f = nil
	s.mu.Unlock()
	f(call)
}

// ---------------------------------------------------------------------------

type idNetwork struct {
	*fakeNet
	s *callSched
}

func (n *idNetwork) Connectedness(p peer.ID) network.Connectedness {
	res := n.fakeNet.Connectedness(p) // the answer is determined first
	n.s.after(p, "Connectedness")
	return res
}

// idPeerstore embeds the harness' wrapper (which keeps its own bookkeeping and the
// certified address book methods) and adds the scheduling point after every call that
// names a peer.
type idPeerstore struct {
	*psWrap
	s *callSched
}

func (w *idPeerstore) AddAddr(p peer.ID, a ma.Multiaddr, ttl time.Duration) {
	w.s.inBook.Add(1)
	w.psWrap.AddAddr(p, a, ttl)
	w.s.inBook.Add(-1)
	w.s.after(p, "AddAddr")
}
func (w *idPeerstore) AddAddrs(p peer.ID, a []ma.Multiaddr, ttl time.Duration) {
	w.s.inBook.Add(1)
	w.psWrap.AddAddrs(p, a, ttl)
	w.s.inBook.Add(-1)
	w.s.after(p, "AddAddrs")
}
func (w *idPeerstore) SetAddr(p peer.ID, a ma.Multiaddr, ttl time.Duration) {
	w.s.inBook.Add(1)
	w.psWrap.SetAddr(p, a, ttl)
	w.s.inBook.Add(-1)
	w.s.after(p, "SetAddr")
}
func (w *idPeerstore) SetAddrs(p peer.ID, a []ma.Multiaddr, ttl time.Duration) {
	w.s.inBook.Add(1)
	w.psWrap.SetAddrs(p, a, ttl)
	w.s.inBook.Add(-1)
	w.s.after(p, "SetAddrs")
}
func (w *idPeerstore) UpdateAddrs(p peer.ID, o, n time.Duration) {
	w.s.inBook.Add(1)
	w.psWrap.UpdateAddrs(p, o, n)
	w.s.inBook.Add(-1)
	w.s.after(p, "UpdateAddrs")
}
func (w *idPeerstore) Addrs(p peer.ID) []ma.Multiaddr {
	w.s.inBook.Add(1)
	res := w.psWrap.Addrs(p)
	w.s.inBook.Add(-1)
	w.s.after(p, "Addrs")
	return res
}
func (w *idPeerstore) ClearAddrs(p peer.ID) {
	w.s.inBook.Add(1)
	w.psWrap.ClearAddrs(p)
	w.s.inBook.Add(-1)
	w.s.after(p, "ClearAddrs")
}
func (w *idPeerstore) PeerInfo(p peer.ID) peer.AddrInfo {
	w.s.inBook.Add(1)
	res := w.psWrap.PeerInfo(p)
	w.s.inBook.Add(-1)
	w.s.after(p, "PeerInfo")
	return res
}
func (w *idPeerstore) Get(p peer.ID, k string) (any, error) {
	v, err := w.psWrap.Get(p, k)
	w.s.after(p, "Get")
	return v, err
}
func (w *idPeerstore) Put(p peer.ID, k string, v any) error {
	err := w.psWrap.Put(p, k, v)
	w.s.after(p, "Put")
	return err
}
func (w *idPeerstore) GetProtocols(p peer.ID) ([]protocol.ID, error) {
	res, err := w.psWrap.GetProtocols(p)
	w.s.after(p, "GetProtocols")
	return res, err
}
func (w *idPeerstore) AddProtocols(p peer.ID, ps ...protocol.ID) error {
	err := w.psWrap.AddProtocols(p, ps...)
	w.s.after(p, "AddProtocols")
	return err
}
func (w *idPeerstore) SetProtocols(p peer.ID, ps ...protocol.ID) error {
	err := w.psWrap.SetProtocols(p, ps...)
	w.s.after(p, "SetProtocols")
	return err
}
func (w *idPeerstore) RemoveProtocols(p peer.ID, ps ...protocol.ID) error {
	err := w.psWrap.RemoveProtocols(p, ps...)
	w.s.after(p, "RemoveProtocols")
	return err
}
func (w *idPeerstore) SupportsProtocols(p peer.ID, ps ...protocol.ID) ([]protocol.ID, error) {
	res, err := w.psWrap.SupportsProtocols(p, ps...)
	w.s.after(p, "SupportsProtocols")
	return res, err
}
func (w *idPeerstore) FirstSupportedProtocol(p peer.ID, ps ...protocol.ID) (protocol.ID, error) {
	res, err := w.psWrap.FirstSupportedProtocol(p, ps...)
	w.s.after(p, "FirstSupportedProtocol")
	return res, err
}
func (w *idPeerstore) PubKey(p peer.ID) ic.PubKey {
	res := w.psWrap.PubKey(p)
	w.s.after(p, "PubKey")
	return res
}
func (w *idPeerstore) AddPubKey(p peer.ID, k ic.PubKey) error {
	err := w.psWrap.AddPubKey(p, k)
	w.s.after(p, "AddPubKey")
	return err
}
func (w *idPeerstore) ConsumePeerRecord(e *record.Envelope, ttl time.Duration) (bool, error) {
	w.s.inBook.Add(1)
	ok, err := w.psWrap.ConsumePeerRecord(e, ttl)
	w.s.inBook.Add(-1)
	if r, rerr := e.Record(); rerr == nil {
		if pr, isPR := r.(*peer.PeerRecord); isPR {
			w.s.after(pr.PeerID, "ConsumePeerRecord")
		}
	}
	return ok, err
}
func (w *idPeerstore) GetPeerRecord(p peer.ID) *record.Envelope {
	res := w.psWrap.GetPeerRecord(p)
	w.s.after(p, "GetPeerRecord")
	return res
}
