package c13

// Generators for identify messages and the reference model of what a message may
// legitimately leave in the peerstore. Everything the oracle needs (which addresses
// are loopback / private / public, which record is valid for whom, which key belongs
// to whom) is known BY CONSTRUCTION here; the model never asks the code under test.

import (
	"crypto/ecdsa"
	"crypto/elliptic"
	"crypto/sha256"
	"fmt"
	"math/big"
	"sort"
	"strings"
	"sync"

	ic "github.com/libp2p/go-libp2p/core/crypto"
	"github.com/libp2p/go-libp2p/core/peer"
	"github.com/libp2p/go-libp2p/core/record"
	"github.com/libp2p/go-libp2p/p2p/protocol/identify/pb"
	ma "github.com/multiformats/go-multiaddr"
	"github.com/multiformats/go-varint"
	"google.golang.org/protobuf/proto"
	"pgregory.net/rapid"

	"verif/internal/keys"
)

// ---------------------------------------------------------------------------
// identities

type world struct {
	local  *keys.Identity
	p      *keys.Identity   // the authenticated remote peer
	others []*keys.Identity // static bystanders whose material appears in messages
}

// foreign returns the identity used as "another peer" number k (the local peer is
// one of them).
func (w *world) foreign(k int) *keys.Identity {
	all := append([]*keys.Identity{w.local}, w.others...)
	return all[k%len(all)]
}

// detECDSA builds an ECDSA P-256 identity from a fixed scalar (crypto/ecdsa's own
// generator is randomised on purpose), so that fuzz workers agree on it.
func detECDSA(label string) *keys.Identity {
	h := sha256.Sum256([]byte("c13/" + label))
	d := new(big.Int).SetBytes(h[:])
	curve := elliptic.P256()
	n := new(big.Int).Sub(curve.Params().N, big.NewInt(1))
	d.Mod(d, n).Add(d, big.NewInt(1))
	priv := &ecdsa.PrivateKey{D: d}
	priv.PublicKey.Curve = curve
	priv.PublicKey.X, priv.PublicKey.Y = curve.ScalarBaseMult(d.Bytes())
	sk, pk, err := ic.ECDSAKeyPairFromKey(priv)
	if err != nil {
		panic(err)
	}
	id, err := peer.IDFromPublicKey(pk)
	if err != nil {
		panic(err)
	}
	return &keys.Identity{Priv: sk, Pub: pk, ID: id, Type: "ecdsa"}
}

var remoteKinds = []string{"ed25519", "ecdsa", "rsa", "secp256k1", "ecdsa", "rsa"}

func drawWorld(rt *rapid.T) *world {
	k := rapid.IntRange(0, len(remoteKinds)-1).Draw(rt, "remoteKeyType")
	w := &world{local: keys.Ed(0), p: keys.Get(remoteKinds[k], 1)}
	w.others = []*keys.Identity{keys.Ed(10), keys.Get("rsa", 2), keys.Get("ecdsa", 2), keys.Ed(11)}
	return w
}

// ---------------------------------------------------------------------------
// addresses

type aclass int

const (
	clsLoop  aclass = iota // loopback
	clsPriv                // private, not loopback
	clsPub                 // public
	clsOther               // neither (unroutable range, no IP at all)
	clsBad                 // does not parse
)

func (c aclass) String() string { return [...]string{"loop", "priv", "pub", "other", "bad"}[c] }

type tmpl struct {
	name string
	cls  aclass
	mk   func(src, i int) string
}

// Every template embeds the source number src (one per advertised list) so that the
// lists of different messages / records are disjoint: an address retained from a list
// that must not be used cannot be excused by another list.
var tmpls = []tmpl{
	{"pub4", clsPub, func(s, i int) string { return fmt.Sprintf("/ip4/8.%d.%d.%d/tcp/4001", s&255, (i>>8)&255, i&255) }},
	{"pub4q", clsPub, func(s, i int) string {
		return fmt.Sprintf("/ip4/45.%d.%d.%d/udp/4001/quic-v1", s&255, (i>>8)&255, i&255)
	}},
	{"pub6", clsPub, func(s, i int) string { return fmt.Sprintf("/ip6/2600:%x::%x/tcp/4001", s+1, i+1) }},
	{"pubdns", clsPub, func(s, i int) string { return fmt.Sprintf("/dns4/h%d.s%d.example.com/tcp/443/tls/ws", i, s) }},
	{"priv4", clsPriv, func(s, i int) string { return fmt.Sprintf("/ip4/10.%d.%d.%d/tcp/4001", s&255, (i>>8)&255, i&255) }},
	{"priv4q", clsPriv, func(s, i int) string {
		return fmt.Sprintf("/ip4/192.168.%d.%d/udp/%d/quic-v1", (i>>8)&255, i&255, 1000+s)
	}},
	{"priv6", clsPriv, func(s, i int) string { return fmt.Sprintf("/ip6/fd00:%x::%x/tcp/4001", s+1, i+1) }},
	{"privdns", clsPriv, func(s, i int) string { return fmt.Sprintf("/dns4/h%d.s%d.localhost/tcp/443", i, s) }},
	{"loop4", clsLoop, func(s, i int) string { return fmt.Sprintf("/ip4/127.%d.%d.%d/tcp/4001", s&255, (i>>8)&255, 1+i&127) }},
	{"loop6", clsLoop, func(s, i int) string { return fmt.Sprintf("/ip6/::1/tcp/%d", 1024+(s*1531+i)%60000) }},
	{"unroutable4", clsOther, func(s, i int) string { return fmt.Sprintf("/ip4/198.18.%d.%d/tcp/%d", (i>>8)&255, i&255, 1000+s) }},
	{"relay", clsPub, nil}, // filled in per world (needs a relay peer ID)
}

const (
	tRelay = 11
)

var mixes = map[string][]int{
	"all":     {0, 1, 2, 3, 4, 5, 6, 7, 8, 9, 10, 11},
	"pub":     {0, 1, 2, 3, 11},
	"pub4":    {0},
	"priv":    {4, 5, 6, 7},
	"loop":    {8, 9},
	"pubpriv": {0, 4, 2, 6},
	"nonpub":  {4, 8, 10, 9},
}
var mixNames = []string{"all", "pub", "pub4", "priv", "loop", "pubpriv", "nonpub", "all", "pub4", "pub"}

// gaddr is one advertised address with what the model knows about it.
type gaddr struct {
	raw   []byte
	cls   aclass // class of the address as advertised
	store string // bytes of the form that may be stored under p ("" = none: foreign /p2p, nothing left, unparsable)
	tag   string
}

const (
	sfxNone = iota
	sfxOwn
	sfxForeign
	sfxDouble // .../p2p/<other>/p2p/<p>: trailing component names p
	sfxRelayOwn
	sfxRelayForeign
)

func (w *world) mkAddr(src, i, t, sfx, fk int) gaddr {
	var s string
	if t == tRelay {
		s = fmt.Sprintf("/ip4/8.%d.%d.%d/tcp/4002/p2p/%s/p2p-circuit", src&255, (i>>8)&255, i&255, w.others[0].ID)
	} else {
		s = tmpls[t].mk(src, i)
	}
	base := ma.StringCast(s)
	g := gaddr{cls: tmpls[t].cls, tag: tmpls[t].name}
	full := base
	switch sfx {
	case sfxNone:
		g.store = string(base.Bytes())
	case sfxOwn:
		full = ma.StringCast(s + "/p2p/" + w.p.ID.String())
		g.store = string(base.Bytes())
		g.tag += "+own"
	case sfxForeign:
		full = ma.StringCast(s + "/p2p/" + w.foreign(fk).ID.String())
		g.store = ""
		g.tag += "+foreign"
	case sfxDouble:
		mid := ma.StringCast(s + "/p2p/" + w.foreign(fk).ID.String())
		full = ma.StringCast(mid.String() + "/p2p/" + w.p.ID.String())
		g.store = string(mid.Bytes()) // the trailing component names p; what precedes it is p's business
		g.tag += "+double"
	}
	g.raw = full.Bytes()
	return g
}

type addrList struct {
	src   int
	addrs []gaddr
	n     int // parsable addresses with a storable form
	mix   string
	tags  map[string]int
}

// rapid favours small indices: the plain classes come first
var countClasses = [][2]int{{1, 6}, {1, 6}, {1, 6}, {7, 70}, {1, 6}, {0, 0}, {7, 70}, {480, 500}, {501, 530}, {531, 700}, {1000, 1500}}

// drawAddrList draws one advertised address list. maxN bounds the size (records must
// fit one 8 KiB chunk unless oversized on purpose).
func (w *world) drawAddrList(rt *rapid.T, src int, maxN int, label string) *addrList {
	cc := countClasses[rapid.IntRange(0, len(countClasses)-1).Draw(rt, label+"-countClass")]
	n := cc[0]
	if cc[1] > cc[0] {
		n = rapid.IntRange(cc[0], cc[1]).Draw(rt, label+"-count")
	}
	if n > maxN {
		n = maxN
	}
	mixName := mixNames[rapid.IntRange(0, len(mixNames)-1).Draw(rt, label+"-mix")]
	if n > 700 && (mixName == "all" || mixName == "pub") {
		mixName = "pub4" // long lists of long addresses would not fit nine chunks
	}
	mix := mixes[mixName]
	off := rapid.IntRange(0, 50).Draw(rt, label+"-off")
	al := &addrList{src: src, mix: mixName, tags: map[string]int{}}
	for i := 0; i < n; i++ {
		al.addrs = append(al.addrs, w.mkAddr(src, i, mix[(i+off)%len(mix)], sfxNone, 0))
	}
	// specials at drawn positions
	ns := rapid.IntRange(0, 4).Draw(rt, label+"-nspecial")
	for k := 0; k < ns; k++ {
		kind := rapid.IntRange(0, 9).Draw(rt, label+"-special")
		t := mix[rapid.IntRange(0, len(mix)-1).Draw(rt, label+"-st")]
		fk := rapid.IntRange(0, 4).Draw(rt, label+"-sf")
		idx := 5000 + k
		var g gaddr
		switch kind {
		case 0, 1:
			g = w.mkAddr(src, idx, t, sfxForeign, fk)
		case 2:
			g = w.mkAddr(src, idx, t, sfxOwn, fk)
		case 3:
			g = w.mkAddr(src, idx, t, sfxDouble, fk)
		case 4: // garbage bytes
			g = gaddr{raw: []byte{0xff, 0xff, 0xff, byte(k)}, cls: clsBad, tag: "garbage"}
		case 5: // truncated valid address
			v := w.mkAddr(src, idx, t, sfxNone, 0)
			g = gaddr{raw: v.raw[:len(v.raw)-1], cls: clsBad, tag: "truncated"}
		case 6: // empty
			g = gaddr{raw: []byte{}, cls: clsBad, tag: "empty"}
		case 7: // bare /p2p/<p>: nothing is left once the peer ID is split off
			g = gaddr{raw: ma.StringCast("/p2p/" + w.p.ID.String()).Bytes(), cls: clsOther, tag: "bare-own"}
		case 8: // bare /p2p/<other>
			g = gaddr{raw: ma.StringCast("/p2p/" + w.foreign(fk).ID.String()).Bytes(), cls: clsOther, tag: "bare-foreign"}
		case 9: // duplicate of an earlier entry
			if len(al.addrs) == 0 {
				continue
			}
			g = al.addrs[rapid.IntRange(0, len(al.addrs)-1).Draw(rt, label+"-dup")]
			g.tag = "dup"
		}
		pos := rapid.IntRange(0, len(al.addrs)).Draw(rt, label+"-spos")
		al.addrs = append(al.addrs, gaddr{})
		copy(al.addrs[pos+1:], al.addrs[pos:])
		al.addrs[pos] = g
	}
	for _, g := range al.addrs {
		if g.store != "" {
			al.n++
		}
		al.tags[g.tag]++
	}
	return al
}

func (al *addrList) hasForeign() bool {
	for t, n := range al.tags {
		if n > 0 && (strings.HasSuffix(t, "+foreign") || t == "bare-foreign" || strings.HasSuffix(t, "+double")) {
			return true
		}
	}
	return false
}

// ---------------------------------------------------------------------------
// signed records

type recKind int

const (
	recValid        recKind = iota // signed by p, names p
	recOtherSelf                   // signed by another peer, names that peer (a perfectly valid record, of somebody else)
	recPSignedOther                // signed by p, names another peer
	recOtherSignedP                // signed by another peer, names p
	recWrongDomain                 // signed by p for p under another envelope domain
	recWrongType                   // signed by p, payload type is not a peer record
	recCorrupted                   // valid record with one byte flipped
	recGarbage                     // not an envelope at all
	recOversized                   // valid, but does not fit an identify chunk
	recValidBig                    // valid, > 500 addresses, fits a chunk
	nRecKinds
)

var recKindNames = []string{"valid", "other-self", "p-signed-names-other", "other-signed-names-p", "wrong-domain", "wrong-type", "corrupted", "garbage", "oversized", "valid-big"}

func (k recKind) String() string { return recKindNames[k] }

// usable says whether identify may use the record's addresses for p.
func (k recKind) usable() bool { return k == recValid || k == recOversized || k == recValidBig }

// altRecord wraps a PeerRecord with another envelope domain / payload type.
type altRecord struct {
	*peer.PeerRecord
	domain string
	codec  []byte
}

func (a *altRecord) Domain() string { return a.domain }
func (a *altRecord) Codec() []byte  { return a.codec }

type recSpec struct {
	kind  recKind
	list  *addrList
	bytes []byte
}

var sealCache sync.Map // (signer, payload hash) -> envelope bytes; RSA signing is slow

func seal(rec record.Record, signer *keys.Identity) []byte {
	payload, err := rec.MarshalRecord()
	if err != nil {
		panic(err)
	}
	h := sha256.Sum256(append([]byte(rec.Domain()+"|"+string(rec.Codec())+"|"+string(signer.ID)+"|"), payload...))
	if v, ok := sealCache.Load(h); ok {
		return v.([]byte)
	}
	env, err := record.Seal(rec, signer.Priv)
	if err != nil {
		panic(err)
	}
	b, err := env.Marshal()
	if err != nil {
		panic(err)
	}
	sealCache.Store(h, b)
	return b
}

func (w *world) drawRecord(rt *rapid.T, src int, label string) *recSpec {
	kind := recKind(rapid.IntRange(0, int(nRecKinds)-1).Draw(rt, label+"-kind"))
	if rapid.IntRange(0, 3).Draw(rt, label+"-plain") == 0 {
		kind = recValid
	}
	maxN := 520 // ip4/tcp entries of 12 bytes: stays below 8 KiB also with an RSA key and signature
	switch kind {
	case recOversized:
		maxN = 1500
	}
	rs := &recSpec{kind: kind}
	fk := rapid.IntRange(0, 4).Draw(rt, label+"-who")
	other := w.foreign(fk)
	switch kind {
	case recValidBig:
		// > 500 public addresses in one chunk
		n := rapid.IntRange(501, 540).Draw(rt, label+"-big")
		al := &addrList{src: src, mix: "pub4", tags: map[string]int{}}
		for i := 0; i < n; i++ {
			al.addrs = append(al.addrs, w.mkAddr(src, i, 0, sfxNone, 0))
		}
		al.n = n
		al.tags["pub4"] = n
		rs.list = al
	case recOversized:
		n := rapid.IntRange(800, 1200).Draw(rt, label+"-huge")
		al := &addrList{src: src, mix: "pub4", tags: map[string]int{}}
		for i := 0; i < n; i++ {
			al.addrs = append(al.addrs, w.mkAddr(src, i, 0, sfxNone, 0))
		}
		al.n = n
		al.tags["pub4"] = n
		rs.list = al
	default:
		rs.list = w.drawAddrList(rt, src, maxN, label)
		// keep the record inside one chunk: 8 KiB minus key, signature and framing
		size := 0
		for i, g := range rs.list.addrs {
			size += len(g.raw) + 4
			if size > 6600 {
				rs.list.addrs = rs.list.addrs[:i]
				break
			}
		}
		rs.list.n = 0
		rs.list.tags = map[string]int{}
		for _, g := range rs.list.addrs {
			if g.store != "" {
				rs.list.n++
			}
			rs.list.tags[g.tag]++
		}
	}
	// a PeerRecord can only carry parsable addresses
	var addrs []ma.Multiaddr
	for _, g := range rs.list.addrs {
		if g.cls == clsBad {
			continue
		}
		a, err := ma.NewMultiaddrBytes(g.raw)
		if err != nil {
			panic(err)
		}
		addrs = append(addrs, a)
	}
	seq := uint64(rapid.IntRange(0, 5).Draw(rt, label+"-seq"))
	switch kind {
	case recValid, recOversized, recValidBig:
		rs.bytes = seal(&peer.PeerRecord{PeerID: w.p.ID, Addrs: addrs, Seq: seq}, w.p)
	case recOtherSelf:
		rs.bytes = seal(&peer.PeerRecord{PeerID: other.ID, Addrs: addrs, Seq: seq}, other)
	case recPSignedOther:
		rs.bytes = seal(&peer.PeerRecord{PeerID: other.ID, Addrs: addrs, Seq: seq}, w.p)
	case recOtherSignedP:
		rs.bytes = seal(&peer.PeerRecord{PeerID: w.p.ID, Addrs: addrs, Seq: seq}, other)
	case recWrongDomain:
		rs.bytes = seal(&altRecord{&peer.PeerRecord{PeerID: w.p.ID, Addrs: addrs, Seq: seq}, "libp2p-peer-recorD", peer.PeerRecordEnvelopePayloadType}, w.p)
	case recWrongType:
		rs.bytes = seal(&altRecord{&peer.PeerRecord{PeerID: w.p.ID, Addrs: addrs, Seq: seq}, peer.PeerRecordEnvelopeDomain, []byte{0x03, 0x02}}, w.p)
	case recCorrupted:
		b := append([]byte(nil), seal(&peer.PeerRecord{PeerID: w.p.ID, Addrs: addrs, Seq: seq}, w.p)...)
		// flip one bit inside the signature, which is the last field of the envelope
		pos := len(b) - 1 - rapid.IntRange(0, 31).Draw(rt, label+"-flip")
		b[pos] ^= 1 << uint(rapid.IntRange(0, 7).Draw(rt, label+"-bit"))
		rs.bytes = b
	case recGarbage:
		rs.bytes = []byte("this is not a signed envelope")
	}
	return rs
}

// ---------------------------------------------------------------------------
// messages

type keyKind int

const (
	keyOwn keyKind = iota
	keyOther
	keyGarbage
	keyEmpty
	nKeyKinds
)

var keyKindNames = []string{"own", "other", "garbage", "empty"}

type msgSpec struct {
	wire   []byte // what the remote writes after protocol negotiation
	chunks int

	// reference model
	allowed   map[string]aclass   // store form -> class, over every list identify may use
	protos    map[string]struct{} // every protocol name in the message
	usableRec []string            // envelopes identify may use (valid, signed by and naming p)
	nProtos   int
	foreign   bool // carries material of another peer
	overCap   bool // more protocols / addresses than the caps
	malformed bool // cannot be consumed by a conforming reader (too many parts, oversized or garbage chunk, truncated)
	labels    []string
	desc      map[string]any
}

type item struct {
	set  func(m *pb.Identify)
	size int
}

var protoCountClasses = [][2]int{{1, 10}, {1, 10}, {1, 10}, {11, 200}, {1, 10}, {0, 0}, {1, 10}, {1000, 1023}, {1024, 1024}, {1025, 1025}, {1026, 1100}, {2000, 3000}}

var chunkTargets = []int{1, 1, 1, 1, 1, 1, 1, 1, 2, 2, 2, 2, 2, 3, 3, 3, 4, 5, 6, 7, 8, 9, 9, 9, 10, 10, 11, 12}

const chunkLimit = 7600 // bytes of payload put into one chunk before a new one is started

func (w *world) drawMsg(rt *rapid.T, src int, label string) *msgSpec {
	m := &msgSpec{allowed: map[string]aclass{}, protos: map[string]struct{}{}, desc: map[string]any{}}
	var repeated []item // protocols and listen addresses, in order
	type scalar struct {
		set func(*pb.Identify)
		sz  int
	}
	var scalars []scalar

	// protocols
	pc := protoCountClasses[rapid.IntRange(0, len(protoCountClasses)-1).Draw(rt, label+"-protoClass")]
	np := pc[0]
	if pc[1] > pc[0] {
		np = rapid.IntRange(pc[0], pc[1]).Draw(rt, label+"-nproto")
	}
	withPush := rapid.Bool().Draw(rt, label+"-push")
	dupProto := np > 3 && rapid.IntRange(0, 9).Draw(rt, label+"-dupProto") == 0
	for i := 0; i < np; i++ {
		name := fmt.Sprintf("/q%d/%d", src, i)
		if i == 0 && withPush {
			name = "/ipfs/id/push/1.0.0"
		}
		if dupProto && i%3 == 2 {
			name = fmt.Sprintf("/q%d/%d", src, i-1)
		}
		m.protos[name] = struct{}{}
		n := name
		repeated = append(repeated, item{func(x *pb.Identify) { x.Protocols = append(x.Protocols, n) }, len(n) + 2})
	}
	m.nProtos = np
	m.desc["protocols"] = np

	// listen addresses
	la := w.drawAddrList(rt, src*4, 1500, label+"-listen")
	for _, g := range la.addrs {
		raw := g.raw
		repeated = append(repeated, item{func(x *pb.Identify) { x.ListenAddrs = append(x.ListenAddrs, raw) }, len(raw) + 2})
	}
	m.desc["listen"] = fmt.Sprintf("%d %s %v", len(la.addrs), la.mix, la.tags)
	usable := []*addrList{la}
	if la.hasForeign() {
		m.foreign = true
	}

	// interleave the two repeated fields?
	if rapid.Bool().Draw(rt, label+"-addrsFirst") {
		repeated = append(repeated[np:], repeated[:np]...)
	}

	// scalar fields, possibly several times with different values
	nk := []int{0, 1, 1, 1, 2, 3}[rapid.IntRange(0, 5).Draw(rt, label+"-nkeys")]
	var kdesc []string
	for i := 0; i < nk; i++ {
		kk := keyKind(rapid.IntRange(0, int(nKeyKinds)-1).Draw(rt, label+"-keyKind"))
		var kb []byte
		switch kk {
		case keyOwn:
			kb, _ = ic.MarshalPublicKey(w.p.Pub)
		case keyOther:
			kb, _ = ic.MarshalPublicKey(w.foreign(rapid.IntRange(0, 4).Draw(rt, label+"-keyWho")).Pub)
			m.foreign = true
		case keyGarbage:
			kb = []byte{0x08, 0x01, 0x12, 0x03, 1, 2, 3}
		case keyEmpty:
			kb = []byte{}
		}
		kdesc = append(kdesc, keyKindNames[kk])
		scalars = append(scalars, scalar{func(x *pb.Identify) { x.PublicKey = kb }, len(kb) + 3})
	}
	m.desc["keys"] = kdesc
	nr := []int{0, 0, 1, 1, 1, 2, 3}[rapid.IntRange(0, 6).Draw(rt, label+"-nrecs")]
	var rdesc []string
	for i := 0; i < nr; i++ {
		rs := w.drawRecord(rt, src*4+1+i, fmt.Sprintf("%s-rec%d", label, i))
		rb := rs.bytes
		scalars = append(scalars, scalar{func(x *pb.Identify) { x.SignedPeerRecord = rb }, len(rb) + 4})
		rdesc = append(rdesc, fmt.Sprintf("%s(%d %s %v)", rs.kind, len(rs.list.addrs), rs.list.mix, rs.list.tags))
		if rs.kind.usable() {
			m.usableRec = append(m.usableRec, string(rs.bytes))
			usable = append(usable, rs.list)
			if rs.list.hasForeign() {
				m.foreign = true
			}
		}
		switch rs.kind {
		case recOtherSelf, recPSignedOther, recOtherSignedP:
			m.foreign = true
		}
		m.labels = append(m.labels, "rec:"+rs.kind.String())
	}
	m.desc["records"] = rdesc
	if rapid.Bool().Draw(rt, label+"-agent") {
		av, pv := fmt.Sprintf("agent-%d", src), fmt.Sprintf("pv-%d", src)
		scalars = append(scalars, scalar{func(x *pb.Identify) { x.AgentVersion = &av; x.ProtocolVersion = &pv }, 24})
	}
	switch rapid.IntRange(0, 3).Draw(rt, label+"-observed") {
	case 0:
		ob := ma.StringCast("/ip4/9.9.9.9/tcp/1234").Bytes()
		scalars = append(scalars, scalar{func(x *pb.Identify) { x.ObservedAddr = ob }, 12})
	case 1:
		scalars = append(scalars, scalar{func(x *pb.Identify) { x.ObservedAddr = []byte{0xff, 0xfe} }, 5})
	}

	// reference model of the addresses
	for _, l := range usable {
		for _, g := range l.addrs {
			if g.store != "" {
				m.allowed[g.store] = g.cls
			}
		}
	}
	if np > 1024 {
		m.overCap = true
		m.labels = append(m.labels, "protocols>1024")
	}
	for _, l := range usable {
		if l.n > 500 {
			m.overCap = true
			m.labels = append(m.labels, "addrs>500")
			break
		}
	}

	// layout: the repeated items are cut into runs over `target` chunks (a chunk that
	// would exceed chunkLimit is continued in a fresh one), scalar fields go to drawn chunks.
	target := chunkTargets[rapid.IntRange(0, len(chunkTargets)-1).Draw(rt, label+"-chunks")]
	oversizeOK := rapid.IntRange(0, 14).Draw(rt, label+"-oversize") == 11
	chunks := make([]*pb.Identify, 0, target)
	sizes := []int{}
	newChunk := func() { chunks = append(chunks, &pb.Identify{}); sizes = append(sizes, 0) }
	newChunk()
	per := (len(repeated) + target - 1) / target
	if per == 0 {
		per = 1
	}
	inRun := 0
	for _, it := range repeated {
		cur := len(chunks) - 1
		if (inRun >= per && len(chunks) < target) || (!oversizeOK && sizes[cur]+it.size > chunkLimit) {
			newChunk()
			cur++
			inRun = 0
		}
		it.set(chunks[cur])
		sizes[cur] += it.size
		inRun++
	}
	for len(chunks) < target {
		newChunk()
	}
	for i, sc := range scalars {
		ci := rapid.IntRange(0, len(chunks)-1).Draw(rt, fmt.Sprintf("%s-scalar%d-chunk", label, i))
		if !oversizeOK && sizes[ci]+sc.sz > 8100 {
			// give it a chunk of its own, right after
			chunks = append(chunks, nil)
			sizes = append(sizes, 0)
			copy(chunks[ci+2:], chunks[ci+1:])
			copy(sizes[ci+2:], sizes[ci+1:])
			chunks[ci+1] = &pb.Identify{}
			sizes[ci+1] = 0
			ci++
		}
		sc.set(chunks[ci])
		sizes[ci] += sc.sz
	}

	// wire format
	fault := rapid.IntRange(0, 39).Draw(rt, label+"-fault")
	var wire []byte
	for i, c := range chunks {
		b, err := proto.Marshal(c)
		if err != nil {
			panic(err)
		}
		if fault == 38 && i == len(chunks)/2 {
			b = []byte{0x0a, 0xff, 0xff, 0xff, 0xff, 0x0f, 1, 2, 3} // garbage chunk: field 1 claims 4 GiB
			m.malformed = true
			m.labels = append(m.labels, "fault:garbage-chunk")
		}
		if len(b) > 8*1024 {
			m.malformed = true
			m.labels = append(m.labels, "fault:oversized-chunk")
		}
		wire = append(wire, varint.ToUvarint(uint64(len(b)))...)
		wire = append(wire, b...)
	}
	if fault == 39 && len(wire) > 1 {
		cut := rapid.IntRange(1, len(wire)-1).Draw(rt, label+"-cut")
		wire = wire[:cut]
		m.malformed = true // almost always; a cut on a chunk boundary leaves a shorter well-formed message
		m.labels = append(m.labels, "fault:truncated")
	}
	if len(chunks) > 9 {
		m.malformed = true
		m.labels = append(m.labels, "chunks>9")
	}
	m.wire = wire
	m.chunks = len(chunks)
	m.desc["chunks"] = len(chunks)
	m.desc["bytes"] = len(wire)
	if m.foreign {
		m.labels = append(m.labels, "foreign-material")
	}
	for _, k := range kdesc {
		m.labels = append(m.labels, "key:"+k)
	}
	switch {
	case len(chunks) == 1:
		m.labels = append(m.labels, "chunks=1")
	case len(chunks) <= 9:
		m.labels = append(m.labels, "chunks=2..9")
	}
	for t, n := range la.tags {
		if n > 0 && (strings.Contains(t, "+") || strings.HasPrefix(t, "bare") || t == "garbage" || t == "truncated" || t == "empty" || t == "dup") {
			m.labels = append(m.labels, "listen:"+t[strings.LastIndexAny(t, "+")+1:])
		}
	}
	sort.Strings(m.labels)
	return m
}

// fingerprint of the structured message (not of key bytes, which are random per process).
func (m *msgSpec) fingerprint() string {
	return fmt.Sprintf("%v", m.desc)
}
