package c13

import (
	"strings"
	"sync"
	"testing"
	"testing/synctest"
	"time"

	"github.com/libp2p/go-libp2p/core/peer"
	ma "github.com/multiformats/go-multiaddr"
	manet "github.com/multiformats/go-multiaddr/net"

	"verif/internal/hx"
	"verif/internal/keys"
)

// TestAddressTemplates is a self-check of the harness, not of the property: the class
// every address template carries by construction must agree with the multiaddr
// library's classification (which the code under test uses for filtering), templates
// must be injective in (source, index), and the storable form must be what is left when
// a trailing /p2p/<p> is split off.
func TestAddressTemplates(t *testing.T) {
	hx.Shard0(t)
	w := &world{local: keys.Ed(0), p: keys.Ed(1), others: []*keys.Identity{keys.Ed(10), keys.Ed(11)}}
	seen := map[string]string{}
	for ti := range tmpls {
		for _, src := range []int{0, 1, 7, 55} {
			for _, i := range []int{0, 1, 255, 256, 1499, 5003} {
				for sfx := sfxNone; sfx <= sfxDouble; sfx++ {
					g := w.mkAddr(src, i, ti, sfx, 1)
					a, err := ma.NewMultiaddrBytes(g.raw)
					if err != nil {
						t.Fatalf("template %s does not parse: %v", tmpls[ti].name, err)
					}
					var got aclass
					switch {
					case manet.IsIPLoopback(a):
						got = clsLoop
					case manet.IsPrivateAddr(a):
						got = clsPriv
					case manet.IsPublicAddr(a):
						got = clsPub
					default:
						got = clsOther
					}
					if got != g.cls {
						t.Fatalf("%s: class by construction %s, manet says %s", a, g.cls, got)
					}
					rest, id := peer.SplitAddr(a)
					switch sfx {
					case sfxNone:
						if id != "" || string(rest.Bytes()) != g.store {
							t.Fatalf("%s: unexpected split", a)
						}
					case sfxOwn, sfxDouble:
						if id != w.p.ID || string(rest.Bytes()) != g.store {
							t.Fatalf("%s: storable form is not the address without the trailing /p2p/<p>", a)
						}
					case sfxForeign:
						if id == w.p.ID || id == "" || g.store != "" {
							t.Fatalf("%s: foreign suffix not recognised", a)
						}
					}
					key := string(g.raw)
					if prev, dup := seen[key]; dup {
						t.Fatalf("templates collide: %s and %s/%d/%d/%d", prev, tmpls[ti].name, src, i, sfx)
					}
					seen[key] = a.String()
				}
			}
		}
	}
}

// TestWatcherSelfCheck is a self-check of the harness, not of the property: the watcher that
// recognises a frozen bubble by the states of its goroutines (watch_test.go) depends on the
// format of the runtime's goroutine dump. A bubble with a goroutine parked on a lock nobody
// will release must be recognised; bubbles that finish, or that only wait for virtual time
// and channels, must not.
func TestWatcherSelfCheck(t *testing.T) {
	hx.Shard0(t)
	o, frozen := runWatched(t, func() {
		var mu sync.RWMutex
		ch := make(chan struct{})
		go func() {
			mu.Lock()
			<-ch // holds the lock for a while (durably blocked, resumes)
			mu.Unlock()
		}()
		go func() {
			time.Sleep(time.Hour)
			close(ch)
		}()
		synctest.Wait()
		time.Sleep(2 * time.Hour)
		mu.RLock() // free again
		mu.RUnlock()
	})
	if frozen != "" || o.panicked || o.outer != nil {
		t.Fatalf("a bubble that finishes was not run to its end: frozen=%q outcome=%+v", frozen, o)
	}
	_, frozen = runWatched(t, func() {
		var mu sync.RWMutex
		mu.RLock() // never released
		go func() {
			mu.Lock()
			mu.Unlock()
		}()
		time.Sleep(time.Minute)
		t.Errorf("virtual time passed although a goroutine of the bubble waits for a lock")
	})
	if frozen == "" || !strings.Contains(frozen, "sync.RWMutex.Lock") {
		t.Fatalf("a bubble in which a goroutine waits for a lock that is never released was not recognised as frozen: %q", frozen)
	}
}
