package c13

// Native fuzz target: arbitrary bytes as the remote's identify stream (response to an
// identify request, or push). No bubble is needed: the stream content is complete
// before the service reads it, so nothing ever waits.

import (
	"bytes"
	"context"
	"fmt"
	"io"
	"os"
	"sync"
	"testing"
	"time"

	ic "github.com/libp2p/go-libp2p/core/crypto"
	"github.com/libp2p/go-libp2p/core/event"
	"github.com/libp2p/go-libp2p/core/network"
	"github.com/libp2p/go-libp2p/core/peer"
	"github.com/libp2p/go-libp2p/core/peerstore"
	"github.com/libp2p/go-libp2p/core/record"
	"github.com/libp2p/go-libp2p/p2p/host/eventbus"
	"github.com/libp2p/go-libp2p/p2p/host/peerstore/pstoremem"
	"github.com/libp2p/go-libp2p/p2p/protocol/identify"
	ma "github.com/multiformats/go-multiaddr"
	"pgregory.net/rapid"

	"verif/internal/hx"
	"verif/internal/keys"
	"verif/internal/memnet"
	"verif/internal/stats"
)

var (
	fuzzWorldOnce sync.Once
	fuzzW         *world
)

// fuzzWorld is identical in every fuzz worker process: the remote peer has an ECDSA
// key (its ID does not embed the key, so "which key is stored for it" is observable),
// the bystanders are Ed25519 and ECDSA identities.
func fuzzWorld() *world {
	fuzzWorldOnce.Do(func() {
		fuzzW = &world{local: keys.Ed(0), p: detECDSA("remote"), others: []*keys.Identity{keys.Ed(10), detECDSA("bystander"), keys.Ed(11), keys.Ed(12)}}
	})
	return fuzzW
}

func FuzzIdentifyStream(f *testing.F) {
	fuzzing := os.Getenv("VERIF_FUZZING") != ""
	if i, _ := hx.Shard(); i != 0 && !fuzzing {
		f.Skip("seed corpus runs in shard 0 only")
	}
	w := fuzzWorld()
	// seeds: generated structured messages (small ones), in both roles and on all connection classes
	added := 0
	var late [][]byte // messages also played in the late mode (fuzzLate): those with many addresses first
	for seed := 0; added < 48 && seed < 400; seed++ {
		s := seed
		msg := rapid.Custom(func(rt *rapid.T) *msgSpec { return w.drawMsg(rt, s%60, "m") }).Example(seed)
		if len(msg.wire) > 6000 && added%8 != 0 {
			continue
		}
		f.Add(msg.wire, byte(added))
		if !msg.malformed && len(msg.allowed) > unconnectedCap {
			late = append([][]byte{msg.wire}, late...)
		} else if added%4 == 1 {
			late = append(late, msg.wire)
		}
		added++
	}
	f.Add([]byte{}, byte(0))
	f.Add([]byte{0x00}, byte(1))
	f.Add([]byte{0xff, 0xff, 0xff, 0xff, 0xff, 0xff, 0xff, 0xff, 0xff, 0x01}, byte(2))
	for i, wire := range late[:min(len(late), 24)] {
		// every message as push and as response, behind every class of remote address in turn
		f.Add(wire, fuzzLate|byte(i))
		f.Add(wire, fuzzLate|byte(i+1))
	}
	name := "FuzzIdentifyStream"
	f.Fuzz(func(t *testing.T, data []byte, mode byte) {
		if len(data) > 128<<10 {
			return
		}
		consumed, kept, failure := fuzzOne(w, data, mode)
		if !fuzzing {
			var labels []string
			if consumed && mode&fuzzLate != 0 {
				labels = append(labels, "consumed-after-the-only-connection-was-gone")
				if kept == unconnectedCap {
					labels = append(labels, "consumed-after-the-only-connection-was-gone:cap-reached")
				}
			}
			stats.Case(name, fmt.Sprintf("%x/%d", data[:min(len(data), 64)], mode), consumed, labels...)
		}
		if failure != "" {
			t.Fatal(failure)
		}
	})
}

// fuzzLate (a bit of the mode byte) selects the late schedule: the connection, the only
// one to the peer, goes away (Disconnected handled completely) after the stream with the
// message exists and before identify handles what it reads from it. Then nothing vouches for
// the peer, and what is retained must stay within the bound for unconnected peers.
const fuzzLate = 0x80

// fuzzOne plays data as the remote's stream and applies the attribution oracle.
func fuzzOne(w *world, data []byte, mode byte) (consumed bool, kept int, failure string) {
	late := mode&fuzzLate != 0
	mode &^= fuzzLate
	clk := &fakeClock{t: time.Now()}
	base, err := pstoremem.NewPeerstore(pstoremem.WithMaxProtocols(1<<20), pstoremem.WithClock(clk))
	if err != nil {
		return false, 0, "peerstore: " + err.Error()
	}
	defer base.Close()
	ps := newPSWrap(base, mode&2 != 0)
	bus := eventbus.NewBus()
	h := newFakeHost(w.local.ID, ps, bus, []ma.Multiaddr{ma.StringCast("/ip4/44.99.0.1/tcp/4001")})
	permanent := time.Duration(peerstore.PermanentAddrTTL)
	base.AddPrivKey(w.local.ID, w.local.Priv)
	base.AddPubKey(w.local.ID, w.local.Pub)
	base.AddAddrs(w.local.ID, h.addrs, permanent)
	for i, o := range w.others {
		switch i {
		case 0: // fully known bystander
			base.AddAddrs(o.ID, []ma.Multiaddr{ma.StringCast("/ip4/7.7.0.1/tcp/1")}, permanent)
			base.SetProtocols(o.ID, "/bystander/1")
			base.Put(o.ID, "AgentVersion", "bystander")
		case 1: // known by a signed record only
			rec := &peer.PeerRecord{PeerID: o.ID, Seq: 3, Addrs: []ma.Multiaddr{ma.StringCast("/ip4/7.8.0.1/tcp/1")}}
			if env, _, err := record.ConsumeEnvelope(seal(rec, o), peer.PeerRecordEnvelopeDomain); err == nil {
				ps.cab.ConsumePeerRecord(env, permanent)
			}
		}
	}
	before := map[peer.ID]string{}
	known := []peer.ID{w.local.ID}
	for _, o := range w.others {
		known = append(known, o.ID)
	}
	for _, q := range ps.universe(known...) {
		before[q] = ps.digest(q)
	}
	empty := ps.digest(keys.Ed(999).ID)

	sub, err := bus.Subscribe(new(event.EvtPeerIdentificationCompleted), eventbus.BufSize(16))
	if err != nil {
		return false, 0, "subscribe: " + err.Error()
	}
	defer sub.Close()
	ids, err := identify.NewIDService(h, identify.WithTimeout(30*time.Second))
	if err != nil {
		return false, 0, "NewIDService: " + err.Error()
	}
	ids.Start()
	defer ids.Close()

	class := int(mode>>2) % 3
	var raddr ma.Multiaddr
	switch class {
	case rcPublic:
		raddr = ma.StringCast("/ip4/44.1.7.9/tcp/4000")
	case rcPrivate:
		raddr = ma.StringCast("/ip4/10.200.1.9/tcp/4000")
	default:
		raddr = ma.StringCast("/ip4/198.19.1.9/tcp/4000")
	}
	fc := &fakeConn{net: h.net, idx: 0, local: w.local.ID, remote: w.p.ID, remoteKey: w.p.Pub,
		laddr: ma.StringCast("/ip4/44.99.0.1/tcp/4001"), raddr: raddr, dir: network.DirInbound}
	push := mode&1 == 0
	remoteCh := make(chan *memnet.Conn, 1)
	fc.open = func(ctx context.Context, c *fakeConn) (network.Stream, error) {
		s, remote := c.pipe(network.DirOutbound)
		if push { // the identify request goes unanswered; only the push carries the data
			remote.Close()
			return s, nil
		}
		remote.Write(append(append(msLine("/multistream/1.0.0"), msLine(identify.ID)...), data...))
		remote.CloseWrite()
		if late {
			h.net.shut(c, false)
			h.net.notifyDisconnected(c)
		}
		remoteCh <- remote
		return s, nil
	}
	h.net.add(fc)
	h.net.notifyConnected(fc)
	if push {
		s, remote := fc.pipe(network.DirInbound)
		s.SetProtocol(identify.IDPush)
		remote.Write(data)
		remote.CloseWrite()
		if late {
			h.net.shut(fc, false)
			h.net.notifyDisconnected(fc)
		}
		h.handler(identify.IDPush)(s)
	} else {
		// identify is done with the message when it closes or resets its end of the stream
		// (no clock involved: the content was complete before it started reading)
		io.Copy(io.Discard, <-remoteCh)
	}
	select {
	case <-sub.Out():
		consumed = true
	default:
	}

	p := w.p.ID
	ownSuffix := ma.StringCast("/p2p/" + p.String()).Bytes()
	for _, q := range ps.universe() {
		if q == p {
			continue
		}
		want, ok := before[q]
		if !ok {
			want = empty
		}
		if got := ps.digest(q); got != want {
			return consumed, kept, fmt.Sprintf("the peerstore entry of a peer other than the authenticated remote changed\npeer   %s (remote is %s)\nbefore %s\nafter  %s", q, p, want, got)
		}
	}
	if k := ps.PubKey(p); k != nil {
		want, _ := ic.MarshalPublicKey(w.p.Pub)
		if b, err := ic.MarshalPublicKey(k); err != nil || !bytes.Equal(b, want) {
			return consumed, kept, fmt.Sprintf("a public key that does not hash to the remote peer's ID is stored for it (%x)", b)
		}
	}
	addrs := ps.Addrs(p)
	kept = len(addrs)
	if len(addrs) > 500 {
		return consumed, kept, fmt.Sprintf("%d addresses retained for the remote peer (cap 500)", len(addrs))
	}
	for _, a := range addrs {
		if _, id := peer.SplitAddr(a); id != "" && id != p {
			// only legitimate as the remainder of an advertised ".../p2p/<other>/p2p/<p>": the
			// trailing component named p, what precedes it is p's own business
			if !bytes.Contains(data, append(append([]byte(nil), a.Bytes()...), ownSuffix...)) {
				return consumed, kept, fmt.Sprintf("address %s with a foreign /p2p suffix stored for the remote peer", a)
			}
		}
		if !bytes.Contains(data, a.Bytes()) {
			return consumed, kept, fmt.Sprintf("address %s stored for the remote peer does not occur in the message", a)
		}
	}
	if protos, _ := ps.GetProtocols(p); len(protos) > 1024 {
		return consumed, kept, fmt.Sprintf("%d protocols retained for the remote peer (cap 1024)", len(protos))
	}
	if e := ps.GetPeerRecord(p); e != nil { // this version keeps none; one that is kept must be p's own
		want, _ := ic.MarshalPublicKey(w.p.Pub)
		kb, _ := ic.MarshalPublicKey(e.PublicKey)
		rec, err := e.Record()
		pr, _ := rec.(*peer.PeerRecord)
		if err != nil || pr == nil || pr.PeerID != p || !bytes.Equal(kb, want) {
			return consumed, kept, "a signed peer record that the peer did not sign for itself is kept for it in the certified address book"
		}
	}
	if late {
		// nothing was known about p and the message was handled for a peer without connection
		if len(addrs) > unconnectedCap {
			return consumed, kept, fmt.Sprintf("%d addresses retained from a message handled after the only connection to the peer was gone (at most %d are kept for a peer without connection)", len(addrs), unconnectedCap)
		}
	} else {
		// the connection goes away: what is left must be on a finite lifetime (the address
		// book runs on a clock of its own here, everything else on real time)
		h.net.shut(fc, true)
		h.net.notifyDisconnected(fc)
		if n := len(ps.Addrs(p)); n > 20 {
			return consumed, kept, fmt.Sprintf("%d addresses kept right after the last connection closed (at most 20 are kept for recently connected peers)", n)
		}
	}
	clk.advance(peerstore.RecentlyConnectedAddrTTL + time.Second)
	if left := ps.Addrs(p); len(left) > 0 {
		return consumed, kept, fmt.Sprintf("%d addresses of the remote peer survive RecentlyConnectedAddrTTL after the last connection closed: %v", len(left), left[:min(3, len(left))])
	}
	return consumed, kept, ""
}

type fakeClock struct {
	mu sync.Mutex
	t  time.Time
}

func (c *fakeClock) Now() time.Time {
	c.mu.Lock()
	defer c.mu.Unlock()
	return c.t
}

func (c *fakeClock) advance(d time.Duration) {
	c.mu.Lock()
	c.t = c.t.Add(d)
	c.mu.Unlock()
}
