// Package c13 checks property C13: identify attributes what it learns only to the
// authenticated remote peer of the connection a message arrived on, within bounds.
package c13

import (
	"bytes"
	"context"
	"errors"
	"fmt"
	"log/slog"
	"runtime"
	"sort"
	"strings"
	"sync"
	"testing"
	"testing/synctest"
	"time"

	ic "github.com/libp2p/go-libp2p/core/crypto"
	"github.com/libp2p/go-libp2p/core/event"
	"github.com/libp2p/go-libp2p/core/network"
	"github.com/libp2p/go-libp2p/core/peer"
	"github.com/libp2p/go-libp2p/core/peerstore"
	"github.com/libp2p/go-libp2p/core/record"
	logging "github.com/libp2p/go-libp2p/gologshim"
	"github.com/libp2p/go-libp2p/p2p/host/eventbus"
	"github.com/libp2p/go-libp2p/p2p/host/peerstore/pstoremem"
	"github.com/libp2p/go-libp2p/p2p/protocol/identify"
	ma "github.com/multiformats/go-multiaddr"
	"github.com/multiformats/go-varint"
	"pgregory.net/rapid"

	"verif/internal/hx"
	"verif/internal/keys"
	"verif/internal/memnet"
	"verif/internal/stats"
)

func TestMain(m *testing.M) {
	// identify logs every rejected key / record at error level; keep the shard logs readable
	logging.SetDefaultHandler(slog.DiscardHandler)
	stats.Describe("exploration",
		"A real identify service (identify.NewIDService) runs on a fake host with a real pstoremem peerstore and event bus inside a synctest bubble; "+
			"the harness is the remote peer p on up to four fake connections (own non-loopback /24 each; public, private or unroutable remote address) and plays "+
			"a generated history of open / push / close (Disconnected delivered at once or later, streams reset or left alive) / sleep / IdentifyWait / close-service steps. "+
			"Service lifecycle is an operation of the history: at one generated point (before the first connection, while connected, between a close and its notification, ...) the identify "+
			"service is closed (IDService.Close, as a host does before it closes its network) while network, connections and peerstore live on; the rest of the history, the final closes "+
			"and every bound and lifetime are unchanged, because they are about what the peerstore holds. "+
			"Address-book capacity is a dimension: in two cases of five the in-memory address book has a small GLOBAL limit of addresses no connection vouches for "+
			"(pstoremem.WithMaxAddresses 4 / 16 / 64, next to the per-peer cap) and holds that many long-lived addresses of a silent bystander, or 1..30 fewer, so that the limit is reached "+
			"from the start or while the addresses of p move to a finite lifetime (last close, consumption); the book may then drop or refuse addresses, which every rule of the oracle accepts, "+
			"but may not leave them on the connected lifetime. "+
			"The schedule of a disconnect relative to a message being handled is owned by the harness: the service sees its host through a view in which every call about a peer "+
			"(Network().Connectedness, any peerstore method) is a scheduling point, and an armed-close step makes one connection (often the last one) close, with Disconnected delivered at once "+
			"and given the chance to be handled completely, inside the next address update made with the connected lifetime, right after the k-th Connectedness answer (k<=3) or right after "+
			"the k-th call of any kind (k<=16) about the peer; the armed connection keeps receiving pushes until then. "+
			"A push (one in four) or response (one in sixteen) can be HELD: the remote writes the whole message while the connection is alive, the end of the stream reaches identify "+
			"0 / 1ms / 1s / timeout/2 after that connection is gone (closed with its streams left alive, which the generator then schedules with preference), so the message is read from the "+
			"connection and handled when Connectedness is already NotConnected if it was the last one. Every handled Disconnected notification that leaves the peer without connection, and "+
			"every quiescent point without connection, is an observation point: until a connection is opened again the number of addresses retained may not rise above the bound for "+
			"unconnected peers (the address book's documented per-peer cap of 64), nor above what was there at the previous observation if that was more. "+
			"Other components of the host are part of the history as well: up to two subscribers of the peerstore's address streams (Peerstore().AddrStream(ctx, peer), on p or, one in six, on a bystander) "+
			"subscribe at any point (before the first connection, while connected, while p's addresses are on their finite lifetime, when that lifetime has just run out and the address book has not "+
			"collected the entry yet, after the collection: once the last connection is closed the generator prefers sleeps of RecentlyConnectedAddrTTL -1ms / +1ms / +1s, then a subscription, then a new "+
			"connection), with a consumer that does not read, reads everything at once, or takes up to 1 / 3 / 20 / 200 / 1000 addresses at generated steps, and cancel (at most four such operations per case, "+
			"in addition to the drawn length). Nothing more is demanded of identify because of them: the identify-waits keep their deadlines (checked first at every quiescent point; if identify is found "+
			"parked inside a call into the address book there, the time up to the last deadline passes without the store being read), all other rules apply as before, a stream on p may deliver only "+
			"addresses rule 3 would accept in the store and a stream on a bystander only what the store held for it beforehand. A case whose goroutines are all parked, one of them on a sync.Mutex / "+
			"sync.RWMutex (identify's address lock, the address book's lock), can never resume inside a synctest bubble and is recognised by that state from outside (watch_test.go: decided by the "+
			"goroutine states, not by elapsed time); it fails: the lock is held by nobody who can run, so the message or Disconnected handling waiting for it, and every later one on this host, "+
			"never finishes and the waits behind it are never released. "+
			"Messages are structured: 0..3000 protocols, 0..1500 listen addresses of every class (loopback, private, public, dns, relay, unroutable, own / foreign / double /p2p suffix, "+
			"unparsable), public key of p / of another peer / garbage / empty, signed records of ten kinds (valid, somebody else's, signed by p naming another peer, signed by another peer "+
			"naming p, wrong domain, wrong payload type, corrupted, garbage, oversized, >500 addresses), every field present, absent or repeated over 1..12 chunks, plus garbage, oversized "+
			"and truncated chunks; replies may be delayed around the identify timeout, dribbled, stalled, reset, or fail protocol negotiation. "+
			"Oracle: the reference model is built by construction from the generator (address classes, record validity, key ownership); see the test comments. "+
			"NON-TRIVIAL = a consumed message carried material of another peer (key, record, /p2p suffix) or exceeded a cap, or a delivery ended at or after the close of its "+
			"connection, or an armed close fired (a connection was closed at a harness-chosen call of identify into its host), or a held message was released by the close of its connection, "+
			"or the last connection closed with addresses in the store after the service had been closed, or on an address book without room for them under its global limit, "+
			"or identify stored addresses for p while the consumer of an address stream on p had not read what was there, or handled a message after a subscription taken when all addresses of p had expired "+
			"and were not collected yet. DISTINCT = distinct (step kinds, connection, delays, "+
			"message structure) history. FuzzIdentifyStream (seed corpus in the quick tier, coverage-guided campaign in the thorough tier): non-trivial = the bytes were consumed as a message; "+
			"one bit of its mode byte selects the late schedule (the only connection is gone, Disconnected handled, before identify handles the stream's content; at most 64 addresses may be retained).",
		"multiaddr parsing is trusted to be injective on the generated templates; address classes are assigned by construction and cross-checked against manet in TestAddressTemplates",
		"the peerstore is pstoremem (optionally with a key book that trusts its caller, which the KeyBook interface permits, and with a protocol book large enough not to mask identify's own cap); "+
			"its address book runs with its default, documented per-peer cap of 64 addresses for peers no live connection vouches for, which is the bound asserted for a peer without connection; "+
			"with a small global limit the oracle demands nothing about addresses being KEPT beyond 'what was stored while surely connected does not expire while the connection stays open'",
			"after IDService.Close the harness keeps using the service's IdentifyWait and installed stream handlers as a host's other components may; the unchanged service handles them as before",
		"same-instant events race under the Go scheduler; the oracle accepts every order of them",
		"the harness never waits for virtual time while it holds, or runs inside a callback made under, a lock of identify or of the peerstore, and its stream consumers hold no lock: a frozen case "+
			"(every goroutine parked, one on a mutex) is therefore a stall of the code under test that no passing of time ends; such a case is abandoned (cannot be torn down) and reported as a failure. "+
			"TestWatcherSelfCheck guards the dependence of that recognition on the runtime's goroutine dump format; if it stopped recognising, a frozen case would end as a hang (inconclusive), not as a pass",
		"one authenticated remote peer per case; the other peers are bystanders that never speak",
	)
	hx.Main(m)
}

// ---------------------------------------------------------------------------
// scenario

type stepKind int

const (
	stOpen stepKind = iota
	stPush
	stClose
	stSleep
	stWait
	stArmClose // the connection closes at a generated point of identify's next calls into its host (see armPoint)
	// the identify service is closed (IDService.Close, the first thing BasicHost.Close does) while the
	// network, its connections and the peerstore live on: connections that close afterwards still leave
	// the peer's addresses on a finite lifetime
	stCloseService
	// another component of the host uses the peerstore's address streams while identify runs
	// (streams_test.go): subscribe (AddrStream(ctx, peer)), read a few addresses, cancel
	stSubscribe
	stDrain
	stCancelSub
)

// armPoint says where, relative to what identify does with the host it was given, an
// armed connection closes and its Disconnected notification is delivered. The schedule
// belongs to the harness: a connection may die between any two calls identify makes.
const (
	ptConnectedAdd  = iota // in the middle of the next address update made with the connected lifetime
	ptConnectedness        // right after the k-th answer to "is p connected?" (the answer is stale at once)
	ptHostCall             // right after the k-th call of any kind about p (Connectedness or a peerstore method)
)

var pointNames = []string{"inside-connected-address-update", "after-connectedness-answer", "after-host-call"}

// a consumption makes about a dozen calls about p, the handling of a disconnect five
const maxHostCallK = 16

var stepNames = []string{"open", "push", "close", "sleep", "wait", "close-inside-next-consumption", "close-service",
	"addr-stream-subscribe", "addr-stream-read", "addr-stream-cancel"}

const (
	negoOK = iota
	negoNA
	negoGarbage
	negoNone
	negoWrongEcho
)

const (
	endCloseWrite = iota
	endStall
	endReset
	endClose
)

const (
	nsOK = iota
	nsError
	nsBlock
	nsDelay
)

const (
	rcPublic = iota
	rcPrivate
	rcUnroutable
)

var remoteClassNames = []string{"public", "private", "unroutable"}

type delivery struct {
	msg      *msgSpec
	push     bool
	preDelay time.Duration
	nego     int
	pieces   int
	gap      time.Duration
	end      int
	// held: the remote writes the whole message while the connection is alive, but the end
	// of the stream reaches identify only afterClose after the connection is gone (streams
	// left alive): the message is read from the connection and consumed when it no longer
	// exists. Without a close within the identify timeout the exchange simply times out.
	held       bool
	afterClose time.Duration
}

// span is the virtual time from the start of the remote's script to its last action.
func (d *delivery) span() time.Duration {
	if !d.push && d.nego != negoOK {
		return d.preDelay
	}
	return d.preDelay + time.Duration(d.pieces-1)*d.gap
}

type step struct {
	kind   stepKind
	conn   int
	dl     *delivery
	settle bool
	// open
	newStream     int
	nsDelay       time.Duration
	lateConnected bool
	remoteClass   int
	limited       bool
	// close
	notifyDelay  time.Duration
	resetStreams bool
	// close-inside (armed close)
	point int
	k     int
	// sleep
	d time.Duration
	// address stream: which subscriber, on whom (-1: the remote peer p, else a bystander), how its consumer
	// behaves; for a read step k is the number of addresses the consumer takes if they are there
	sub, subPeer, subMode int
}

type scenario struct {
	w            *world
	timeout      time.Duration
	trustingKeys bool
	bigProtoBook bool
	preKey       bool
	otherMask    []int // what each bystander has in the store beforehand
	// the address book's global limit of addresses no connection vouches for (pstoremem.WithMaxAddresses;
	// 0: the default of a million, never reached here) and how many such addresses of a bystander it
	// holds from the start (bookLimit-bookFill is the room left)
	bookLimit, bookFill int
	steps        []step
	longSleep    time.Duration
}

func drawDelay(rt *rapid.T, T time.Duration, label string) time.Duration {
	pal := []time.Duration{0, 0, 0, 0, 0, 0, time.Millisecond, time.Millisecond, time.Millisecond, 100 * time.Millisecond, 100 * time.Millisecond, time.Second, time.Second, T - time.Millisecond, T, T + time.Millisecond}
	return pal[rapid.IntRange(0, len(pal)-1).Draw(rt, label)]
}

func drawDelivery(rt *rapid.T, w *world, T time.Duration, src int, push bool, label string) *delivery {
	d := &delivery{push: push, msg: w.drawMsg(rt, src, label)}
	d.preDelay = drawDelay(rt, T, label+"-pre")
	if !push {
		d.nego = []int{negoOK, negoOK, negoOK, negoOK, negoOK, negoOK, negoOK, negoOK, negoOK, negoOK, negoOK, negoOK, negoOK, negoOK, negoOK, negoOK, negoNA, negoGarbage, negoNone, negoWrongEcho}[rapid.IntRange(0, 19).Draw(rt, label+"-nego")]
	}
	d.pieces = []int{1, 1, 1, 2, 3, 5}[rapid.IntRange(0, 5).Draw(rt, label+"-pieces")]
	if d.pieces > 1 {
		d.gap = []time.Duration{0, 0, time.Millisecond, T / 4, T / 2}[rapid.IntRange(0, 4).Draw(rt, label+"-gap")]
	}
	d.end = []int{endCloseWrite, endCloseWrite, endCloseWrite, endCloseWrite, endCloseWrite, endCloseWrite, endCloseWrite, endCloseWrite, endCloseWrite, endClose, endClose, endStall, endReset}[rapid.IntRange(0, 12).Draw(rt, label+"-end")]
	// one push in four and one response in sixteen is held back until its connection is gone
	if h := rapid.IntRange(0, 15).Draw(rt, label+"-held"); h == 3 || (push && (h == 5 || h == 9 || h == 12)) {
		d.held = true
		d.afterClose = []time.Duration{0, 0, time.Millisecond, time.Millisecond, time.Second, T / 2}[rapid.IntRange(0, 5).Draw(rt, label+"-afterClose")]
		if d.end == endStall || d.end == endReset {
			d.end = endCloseWrite
		}
	}
	return d
}

const maxConns = 4

// address streams per case and operations on them per case
const (
	maxSubs      = 2
	maxStreamOps = 4
)

func drawScenario(rt *rapid.T) *scenario {
	sc := &scenario{w: drawWorld(rt)}
	sc.timeout = []time.Duration{2 * time.Second, 5 * time.Second}[rapid.IntRange(0, 1).Draw(rt, "timeout")]
	sc.trustingKeys = rapid.Bool().Draw(rt, "trustingKeyBook")
	sc.bigProtoBook = rapid.IntRange(0, 3).Draw(rt, "bigProtoBook") > 0
	sc.preKey = rapid.Bool().Draw(rt, "remoteKeyKnown")
	for range sc.w.others {
		sc.otherMask = append(sc.otherMask, rapid.IntRange(0, 31).Draw(rt, "bystander"))
	}
	sc.longSleep = []time.Duration{16 * time.Minute, time.Hour, 48 * time.Hour}[rapid.IntRange(0, 2).Draw(rt, "longSleep")]
	// two cases in five run on an address book with a small global limit that is reached already (no room)
	// or is reached while the addresses of p move to a finite lifetime (room for 1..30 addresses)
	sc.bookLimit = []int{0, 0, 0, 4, 16, 64, 16, 0, 64, 0}[rapid.IntRange(0, 9).Draw(rt, "addrBookLimit")]
	if sc.bookLimit > 0 {
		room := []int{0, 0, 0, 1, 3, 10, 30, 0}[rapid.IntRange(0, 7).Draw(rt, "addrBookRoom")]
		sc.bookFill = max(0, sc.bookLimit-room)
	}
	T := sc.timeout
	n := rapid.IntRange(1, 10).Draw(rt, "nsteps")
	status := []int{} // 1 open, 2 closed (or closing at an instant the generator does not know)
	armed := false
	armedConn := -1 // armed and, as far as the generator knows, still open: it may carry further pushes
	pushes := map[int]int{}
	src := 0
	heldOn := -1 // connection with a held delivery that, as far as the generator knows, is still open
	svcClosed := false
	// address streams (streams_test.go): subscribers so far (live or cancelled), how their consumers behave, and
	// the number of stream operations (additional operations: the history keeps the length it was drawn with)
	var subLive []bool
	var subModes []int
	streamOps := 0
	// virtual time slept since the generator last saw a close leave p without an open connection
	// (<0: p has, or never had, a connection): the addresses of p are on their finite lifetime R
	away := time.Duration(-1)
	R := peerstore.RecentlyConnectedAddrTTL
	for i := 0; i < n; i++ {
		var open, all []int
		for c, s := range status {
			all = append(all, c)
			if s == 1 {
				open = append(open, c)
			}
		}
		if heldOn >= 0 && status[heldOn] != 1 {
			heldOn = -1
		}
		var choices []stepKind // rapid favours small indices: pushes first
		if heldOn >= 0 {
			// a held message waits for its connection to go away: closing comes next more often than not
			choices = append(choices, stClose, stClose, stClose, stClose, stClose, stClose)
		}
		if i > 0 {
			if len(open) > 0 {
				choices = append(choices, stPush, stPush, stClose, stPush, stPush, stClose)
			} else if armedConn >= 0 {
				choices = append(choices, stPush, stPush)
			}
			choices = append(choices, stSleep, stSleep)
		}
		if len(status) < maxConns {
			choices = append(choices, stOpen)
			if len(open) == 0 {
				choices = append(choices, stOpen, stOpen)
			}
		}
		if i > 0 && len(all) > 0 {
			choices = append(choices, stWait)
		}
		if len(open) > 0 && !armed {
			choices = append(choices, stArmClose)
			if i > 0 {
				choices = append(choices, stArmClose)
			}
		}
		if !svcClosed {
			// the service may be closed at any point of the history, more often while connected
			if i == 0 {
				// (one history in eight starts with a service that is closed before the first connection)
				choices = append(choices, stOpen, stOpen, stOpen, stOpen)
			}
			choices = append(choices, stCloseService)
			if len(open) > 0 {
				choices = append(choices, stCloseService)
			}
		}
		if away >= 0 && away < R-time.Millisecond {
			// without a connection the next thing that happens to p's addresses is the end of their lifetime
			choices = append(choices, stSleep, stSleep, stSleep)
		}
		if streamOps < maxStreamOps {
			if len(subLive) < maxSubs {
				choices = append(choices, stSubscribe)
				if away >= R-time.Millisecond {
					// the addresses of p have run out or are about to: when a component that wants to hear about p asks again
					choices = append(choices, stSubscribe, stSubscribe, stSubscribe, stSubscribe)
				}
			}
			anyLive, anyStepwise := false, false
			for j, live := range subLive {
				anyLive = anyLive || live
				anyStepwise = anyStepwise || (live && subModes[j] == smStepwise)
			}
			if anyStepwise {
				choices = append(choices, stDrain, stDrain)
			}
			if anyLive {
				choices = append(choices, stCancelSub)
			}
		}
		if len(choices) == 0 {
			break
		}
		k := choices[rapid.IntRange(0, len(choices)-1).Draw(rt, "step")]
		st := step{kind: k, settle: rapid.IntRange(0, 9).Draw(rt, "settle") < 7}
		label := fmt.Sprintf("s%d", i)
		switch k {
		case stOpen:
			st.conn = len(status)
			status = append(status, 1)
			away = -1
			st.remoteClass = []int{rcPublic, rcPublic, rcPrivate, rcPrivate, rcUnroutable}[rapid.IntRange(0, 4).Draw(rt, label+"-remoteClass")]
			st.limited = rapid.IntRange(0, 5).Draw(rt, label+"-limited") == 4
			st.lateConnected = rapid.IntRange(0, 7).Draw(rt, label+"-lateConnected") == 5
			st.newStream = []int{nsOK, nsOK, nsOK, nsOK, nsOK, nsOK, nsOK, nsOK, nsOK, nsOK, nsOK, nsOK, nsError, nsBlock, nsDelay, nsDelay}[rapid.IntRange(0, 15).Draw(rt, label+"-newStream")]
			if st.newStream == nsDelay {
				st.nsDelay = []time.Duration{time.Millisecond, T / 2, T - time.Millisecond}[rapid.IntRange(0, 2).Draw(rt, label+"-nsDelay")]
			}
			st.dl = drawDelivery(rt, sc.w, T, src, false, label)
			src++
			if st.dl.held && (st.newStream == nsOK || st.newStream == nsDelay) && st.dl.nego == negoOK {
				heldOn = st.conn
			}
		case stPush:
			// the armed connection is open until its close fires; the runner skips the push if it has fired
			cands := open
			if armedConn >= 0 {
				cands = append(append([]int(nil), open...), armedConn)
			}
			c := cands[rapid.IntRange(0, len(cands)-1).Draw(rt, label+"-conn")]
			if pushes[c] >= 8 { // identify's push handler sits behind a per-/24 limiter (burst 10)
				st.kind = stSleep
				st.d = time.Millisecond
				break
			}
			pushes[c]++
			st.conn = c
			st.dl = drawDelivery(rt, sc.w, T, src, true, label)
			src++
			if st.dl.held {
				heldOn = c
			}
		case stClose:
			cands := open
			if heldOn >= 0 { // mostly the connection a held message waits for
				cands = append([]int{heldOn, heldOn, heldOn}, open...)
			}
			c := cands[rapid.IntRange(0, len(cands)-1).Draw(rt, label+"-conn")]
			st.conn = c
			status[c] = 2
			st.notifyDelay = []time.Duration{0, 0, 0, time.Millisecond, time.Second, T}[rapid.IntRange(0, 5).Draw(rt, label+"-notifyDelay")]
			st.resetStreams = rapid.Bool().Draw(rt, label+"-resetStreams")
			if c == heldOn && rapid.IntRange(0, 7).Draw(rt, label+"-keepStreams") > 0 {
				st.resetStreams = false // the streams outlive the connection: what was read from it can still be handled
			}
		case stSleep:
			// (the instants around the end of the finite lifetime R are boundaries of the property)
			pal := []time.Duration{time.Millisecond, time.Second, T, T + time.Millisecond, 2 * time.Minute, 16 * time.Minute, R - time.Millisecond, R + time.Millisecond, R + time.Second}
			if away >= 0 {
				pal = []time.Duration{R + time.Millisecond, R + time.Second, R - time.Millisecond, R + time.Second, R + time.Millisecond, 16 * time.Minute, 2 * time.Minute, time.Millisecond, time.Second, T}
			}
			st.d = pal[rapid.IntRange(0, len(pal)-1).Draw(rt, label+"-d")]
		case stWait:
			st.conn = all[rapid.IntRange(0, len(all)-1).Draw(rt, label+"-conn")]
		case stArmClose:
			c := open[rapid.IntRange(0, len(open)-1).Draw(rt, label+"-conn")]
			st.conn = c
			status[c] = 2
			armed = true
			armedConn = c
			st.resetStreams = rapid.Bool().Draw(rt, label+"-resetStreams")
			st.point = []int{ptConnectedAdd, ptConnectedness, ptHostCall, ptConnectedness, ptHostCall, ptConnectedAdd, ptConnectedness, ptHostCall}[rapid.IntRange(0, 7).Draw(rt, label+"-point")]
			switch st.point {
			case ptConnectedness:
				st.k = []int{1, 1, 1, 2, 3}[rapid.IntRange(0, 4).Draw(rt, label+"-kth")]
			case ptHostCall:
				st.k = rapid.IntRange(1, maxHostCallK).Draw(rt, label+"-kth")
			}
		case stCloseService:
			svcClosed = true
			n++ // an additional operation: the history keeps the length it was drawn with
		case stSubscribe:
			st.sub = len(subLive)
			st.subPeer = -1
			if rapid.IntRange(0, 5).Draw(rt, label+"-subOn") == 4 {
				st.subPeer = rapid.IntRange(0, len(sc.w.others)-1).Draw(rt, label+"-subWho")
			}
			st.subMode = []int{smIdle, smStepwise, smEager, smIdle, smStepwise, smIdle, smEager}[rapid.IntRange(0, 6).Draw(rt, label+"-subMode")]
			subLive = append(subLive, true)
			subModes = append(subModes, st.subMode)
			streamOps++
			n++
		case stDrain:
			var cands []int
			for j, live := range subLive {
				if live && subModes[j] == smStepwise {
					cands = append(cands, j)
				}
			}
			st.sub = cands[rapid.IntRange(0, len(cands)-1).Draw(rt, label+"-sub")]
			st.k = []int{1, 3, 20, 200, 1000}[rapid.IntRange(0, 4).Draw(rt, label+"-reads")]
			streamOps++
			n++
		case stCancelSub:
			var cands []int
			for j, live := range subLive {
				if live {
					cands = append(cands, j)
				}
			}
			st.sub = cands[rapid.IntRange(0, len(cands)-1).Draw(rt, label+"-sub")]
			subLive[st.sub] = false
			streamOps++
			n++
		}
		switch st.kind {
		case stClose, stArmClose:
			left := 0
			for _, s := range status {
				if s == 1 {
					left++
				}
			}
			if left == 0 {
				away = 0
			}
		case stSleep:
			if away >= 0 {
				away += st.d
			}
		}
		sc.steps = append(sc.steps, st)
	}
	return sc
}

func (sc *scenario) fingerprint() string {
	var b strings.Builder
	fmt.Fprintf(&b, "%s/%v/%v/%v/%v/%v/%d/%d|", sc.w.p.Type, sc.timeout, sc.trustingKeys, sc.bigProtoBook, sc.preKey, sc.otherMask, sc.bookLimit, sc.bookFill)
	for _, st := range sc.steps {
		fmt.Fprintf(&b, "%s:%d:%v:", stepNames[st.kind], st.conn, st.settle)
		switch st.kind {
		case stOpen:
			fmt.Fprintf(&b, "%d/%v/%v/%d/%v", st.remoteClass, st.limited, st.lateConnected, st.newStream, st.nsDelay)
		case stClose:
			fmt.Fprintf(&b, "%v/%v", st.notifyDelay, st.resetStreams)
		case stArmClose:
			fmt.Fprintf(&b, "%v/%d/%d", st.resetStreams, st.point, st.k)
		case stSleep:
			fmt.Fprintf(&b, "%v", st.d)
		case stSubscribe:
			fmt.Fprintf(&b, "%d/%d/%d", st.sub, st.subPeer, st.subMode)
		case stDrain:
			fmt.Fprintf(&b, "%d/%d", st.sub, st.k)
		case stCancelSub:
			fmt.Fprintf(&b, "%d", st.sub)
		}
		if st.dl != nil {
			d := st.dl
			fmt.Fprintf(&b, "[%v %d %d %v %d %v/%v %s]", d.preDelay, d.nego, d.pieces, d.gap, d.end, d.held, d.afterClose, d.msg.fingerprint())
		}
		b.WriteByte(';')
	}
	return b.String()
}

func (sc *scenario) describe() map[string]any {
	var steps []string
	for _, st := range sc.steps {
		s := fmt.Sprintf("%s conn=%d settle=%v", stepNames[st.kind], st.conn, st.settle)
		switch st.kind {
		case stOpen:
			s += fmt.Sprintf(" remote=%s limited=%v lateConnected=%v newStream=%d/%v", remoteClassNames[st.remoteClass], st.limited, st.lateConnected, st.newStream, st.nsDelay)
		case stClose:
			s += fmt.Sprintf(" notifyDelay=%v resetStreams=%v", st.notifyDelay, st.resetStreams)
		case stArmClose:
			s += fmt.Sprintf(" resetStreams=%v point=%s k=%d", st.resetStreams, pointNames[st.point], st.k)
		case stSleep:
			s += fmt.Sprintf(" d=%v", st.d)
		case stSubscribe:
			on := "the-remote-peer"
			if st.subPeer >= 0 {
				on = fmt.Sprintf("bystander-%d", st.subPeer)
			}
			s = fmt.Sprintf("%s subscriber=%d on=%s consumer=%s settle=%v", stepNames[st.kind], st.sub, on, subModeNames[st.subMode], st.settle)
		case stDrain:
			s = fmt.Sprintf("%s subscriber=%d up-to=%d settle=%v", stepNames[st.kind], st.sub, st.k, st.settle)
		case stCancelSub:
			s = fmt.Sprintf("%s subscriber=%d settle=%v", stepNames[st.kind], st.sub, st.settle)
		}
		if st.dl != nil {
			d := st.dl
			held := ""
			if d.held {
				held = fmt.Sprintf(" end-held-until=%v-after-the-connection-is-gone", d.afterClose)
			}
			s += fmt.Sprintf(" delivery{pre=%v nego=%d pieces=%d gap=%v end=%d%s msg=%v}", d.preDelay, d.nego, d.pieces, d.gap, d.end, held, d.msg.desc)
		}
		steps = append(steps, s)
	}
	return map[string]any{"remoteKey": sc.w.p.Type, "timeout": sc.timeout.String(), "trustingKeyBook": sc.trustingKeys, "bigProtoBook": sc.bigProtoBook,
		"remoteKeyKnown": sc.preKey, "addrBookLimit": sc.bookLimit, "addrBookFilledWith": sc.bookFill, "steps": steps}
}

// ---------------------------------------------------------------------------
// runner

const eps = 10 * time.Millisecond

type evRec struct {
	t    time.Duration
	kind string // completed / failed / protocols
	peer peer.ID
	conn network.Conn
}

type connState struct {
	fc        *fakeConn
	class     int
	openedAt  time.Duration
	closedAt  time.Duration // <0 while open
	waitBound time.Duration // instant by which the identify-wait of this conn must be released
	held      []heldRec     // deliveries whose end waits for this connection to go away
}

// heldRec is a held delivery on a connection: if the connection goes away before
// `until` (the deadline identify gives the stream), its message is consumed afterClose later.
type heldRec struct {
	until      time.Duration
	written    time.Duration // when the remote has written everything
	afterClose time.Duration
}

// heldPending reports whether a held delivery on cs can still be consumed once cs closes.
func (r *runner) heldPending(cs *connState) bool {
	now := r.now()
	for _, h := range cs.held {
		if now <= h.until {
			return true
		}
	}
	return false
}

// released is called when cs has gone away at instant at: the held deliveries end later.
func (r *runner) released(cs *connState, at time.Duration) {
	for _, h := range cs.held {
		if at <= h.until {
			r.active(max(at, h.written) + h.afterClose)
			r.label("late:held-message-released-by-close")
			r.raced = true // a delivery that ends after the close of its connection
		}
	}
}

type waitRec struct {
	ch       <-chan struct{}
	deadline time.Duration
	what     string
}

type runner struct {
	t   *testing.T
	rt  *rapid.T
	sc  *scenario
	w   *world
	T   time.Duration
	ps  *psWrap
	h   *fakeHost
	ids identify.IDService
	t0  time.Time

	conns []*connState

	emu    sync.Mutex
	events []evRec

	rmu     sync.Mutex
	remotes []*memnet.Conn
	wg      sync.WaitGroup

	// reference model
	allowed     map[string]struct{} // store forms that some delivery so far may have put under p
	protos      map[string]struct{}
	usableRec   map[string]struct{}
	quietFrom   time.Duration // no harness-driven activity after this instant (as scheduled so far)
	armedConn   *connState    // connection that closes at the armed point
	armedKeeps  bool          // its streams are left alive when it closes
	firedAt     time.Duration // when that happened (<0: not yet); guarded by emu
	// coverage facts about the armed close; guarded by emu
	firedCall           string // the host call after (inside) which it fired
	firedInNotification bool   // it fired inside a Disconnected notification of another connection
	firedHandled        bool   // its own Disconnected notification was handled before the caller went on
	pendingNote int           // Disconnected notifications not delivered and handled yet
	asyncLabels map[string]struct{}
	waits       []waitRec
	// bound for a peer without connection (see observeUnconnected); guarded by emu
	unconnBase int // addresses of p at the latest observation point without any connection; <0: a connection was opened since
	unconnSet  map[string]struct{}
	before      map[peer.ID]string
	emptyDigest string
	pKeyBytes   []byte

	atRest bool // the previous step was followed by a quiescence point

	svcClosedAt time.Duration // when the identify service was closed (<0: it is running)
	// coverage: the last connection closed (with addresses in the store) after the service had been
	// closed / on an address book whose global limit left no room for all of them
	svcRace, limitHit bool

	// address streams other components hold (streams_test.go)
	subs []*addrSub
	// coverage: identify wrote addresses while a consumer was not reading, or handled a message after a
	// subscription taken when all addresses of the peer had expired
	streamRace bool
	// identify was found parked inside the address book at a quiescent point
	parkedInBook bool

	// coverage
	raced, failurePath, consumedInteresting bool
	labels                                  map[string]struct{}
}

func (r *runner) now() time.Duration { return time.Since(r.t0) }

func (r *runner) label(l string) { r.labels[l] = struct{}{} }

func (r *runner) openCount() int {
	n := 0
	for _, c := range r.conns {
		if c.closedAt < 0 {
			n++
		}
	}
	return n
}

func (r *runner) active(until time.Duration) {
	if until > r.quietFrom {
		r.quietFrom = until
	}
}

func msLine(s string) []byte {
	b := varint.ToUvarint(uint64(len(s) + 1))
	b = append(b, s...)
	return append(b, '\n')
}

// play runs the remote side of one stream.
func (r *runner) play(fc *fakeConn, remote *memnet.Conn, d *delivery) {
	r.rmu.Lock()
	r.remotes = append(r.remotes, remote)
	r.rmu.Unlock()
	r.wg.Add(1)
	go func() {
		defer r.wg.Done()
		time.Sleep(d.preDelay)
		var head []byte
		if !d.push {
			head = msLine("/multistream/1.0.0")
			switch d.nego {
			case negoOK:
				head = append(head, msLine(identify.ID)...)
			case negoNA:
				remote.Write(append(head, msLine("na")...))
				return
			case negoGarbage:
				remote.Write([]byte{0x05, 'x', 'y', 'z', 'w', '\n', 0xff, 0xff, 0xff, 0xff, 0xff, 0xff, 0xff, 0xff, 0xff, 0xff, 0xff})
				return
			case negoNone:
				return
			case negoWrongEcho:
				remote.Write(append(head, msLine("/ipfs/id/9.9.9")...))
				return
			}
		}
		body := append(head, d.msg.wire...)
		n := d.pieces
		if n > len(body) {
			n = max(1, len(body))
		}
		for i := 0; i < n; i++ {
			if i > 0 && d.gap > 0 {
				time.Sleep(d.gap)
			}
			lo, hi := len(body)*i/n, len(body)*(i+1)/n
			if hi > lo {
				remote.Write(body[lo:hi])
			}
		}
		if d.held {
			// everything was written while the connection was alive; the end of the stream
			// is seen only after the connection is gone
			<-fc.gone
			time.Sleep(d.afterClose)
		}
		switch d.end {
		case endCloseWrite:
			remote.CloseWrite()
		case endClose:
			remote.Close()
		case endReset:
			remote.Reset()
		case endStall:
		}
	}()
}

// noteDelivery updates the reference model when a delivery is scheduled: from now on
// the message may be consumed at any time, so what it may legitimately leave behind is
// admitted at once (the addresses of different messages are disjoint by construction).
func (r *runner) noteDelivery(cs *connState, d *delivery, startsAt time.Duration) {
	if d.push || d.nego == negoOK {
		for s, cls := range d.msg.allowed {
			ok := true
			switch cs.class {
			case rcPublic:
				ok = cls == clsPub
			case rcPrivate:
				ok = cls != clsLoop
			}
			if ok {
				r.allowed[s] = struct{}{}
			}
		}
		for p := range d.msg.protos {
			r.protos[p] = struct{}{}
		}
		for _, b := range d.msg.usableRec {
			r.usableRec[b] = struct{}{}
		}
	}
	r.active(startsAt + d.span())
	if d.held && (d.push || d.nego == negoOK) {
		// identify gives the stream its timeout, counted from when it has the stream
		cs.held = append(cs.held, heldRec{until: startsAt + r.T + eps, written: startsAt + d.span(), afterClose: d.afterClose})
		r.label("late:held-delivery")
	}
}

func (r *runner) remoteAddr(idx, class int) ma.Multiaddr {
	switch class {
	case rcPublic:
		return ma.StringCast(fmt.Sprintf("/ip4/44.%d.%d.9/tcp/%d", 1+idx, 7+idx, 4000+idx))
	case rcPrivate:
		return ma.StringCast(fmt.Sprintf("/ip4/10.200.%d.9/tcp/%d", 1+idx, 4000+idx))
	default:
		return ma.StringCast(fmt.Sprintf("/ip4/198.19.%d.9/tcp/%d", 1+idx, 4000+idx))
	}
}

func (r *runner) doOpen(st *step) {
	now := r.now()
	fc := &fakeConn{net: r.h.net, idx: st.conn, local: r.w.local.ID, remote: r.w.p.ID, remoteKey: r.w.p.Pub,
		laddr: ma.StringCast("/ip4/44.99.0.1/tcp/4001"), raddr: r.remoteAddr(st.conn, st.remoteClass), limited: st.limited, dir: network.DirOutbound,
		gone: make(chan struct{})}
	cs := &connState{fc: fc, class: st.remoteClass, openedAt: now, closedAt: -1}
	used := false
	var umu sync.Mutex
	dl := st.dl
	ns, nsd := st.newStream, st.nsDelay
	fc.open = func(ctx context.Context, c *fakeConn) (network.Stream, error) {
		umu.Lock()
		if used {
			umu.Unlock()
			return nil, errors.New("fakeconn: only one outbound stream is scripted")
		}
		used = true
		umu.Unlock()
		switch ns {
		case nsError:
			return nil, errors.New("fakeconn: stream refused")
		case nsBlock:
			<-ctx.Done()
			return nil, ctx.Err()
		case nsDelay:
			tm := time.NewTimer(nsd)
			defer tm.Stop()
			select {
			case <-tm.C:
			case <-ctx.Done():
				return nil, ctx.Err()
			}
		}
		if c.IsClosed() {
			return nil, errors.New("fakeconn: connection closed")
		}
		s, remote := c.pipe(network.DirOutbound)
		r.play(c, remote, dl)
		return s, nil
	}
	r.conns = append(r.conns, cs)
	// bound for the release of this connection's identify-wait
	extra := time.Duration(0)
	switch ns {
	case nsBlock:
		extra = r.T
		r.failurePath = true
	case nsDelay:
		extra = nsd
	case nsError:
		r.failurePath = true
	}
	cs.waitBound = now + extra + r.T + eps
	if ns == nsOK || ns == nsDelay {
		r.noteDelivery(cs, dl, now+extra)
		if dl.nego != negoOK || dl.end == endStall || dl.end == endReset || dl.msg.malformed || dl.span() >= r.T {
			r.failurePath = true
		}
	}
	// from here on p has a connection: what was observed while it had none no longer bounds anything
	r.emu.Lock()
	r.h.net.add(fc)
	r.unconnBase, r.unconnSet = -1, nil
	r.emu.Unlock()
	if st.lateConnected {
		// the service is asked about the connection before the Connected notification reaches it
		r.waits = append(r.waits, waitRec{r.ids.IdentifyWait(fc), cs.waitBound, fmt.Sprintf("IdentifyWait(conn %d) before Connected", st.conn)})
		r.label("late-connected")
	}
	r.h.net.notifyConnected(fc)
	r.waits = append(r.waits, waitRec{r.ids.IdentifyWait(fc), cs.waitBound, fmt.Sprintf("IdentifyWait(conn %d) at open", st.conn)})
	r.label("remote:" + remoteClassNames[st.remoteClass])
	if st.limited {
		r.label("conn:limited")
	}
}

func (r *runner) doPush(st *step) {
	cs := r.conns[st.conn]
	if cs.fc.IsClosed() {
		// only possible on the armed connection, whose close has fired meanwhile: a closed
		// connection carries no new streams
		r.label("push-skipped:armed-conn-already-closed")
		return
	}
	now := r.now()
	h := r.h.handler(identify.IDPush)
	if h == nil {
		r.rt.Fatalf("identify did not register a handler for %s", identify.IDPush)
	}
	s, remote := cs.fc.pipe(network.DirInbound)
	s.SetProtocol(identify.IDPush)
	r.noteDelivery(cs, st.dl, now)
	r.play(cs.fc, remote, st.dl)
	r.wg.Add(1)
	go func() {
		defer r.wg.Done()
		h(s)
	}()
}

func (r *runner) doClose(st *step) {
	cs := r.conns[st.conn]
	now := r.now()
	cs.closedAt = now
	r.noteLastClose(now)
	r.emu.Lock()
	r.pendingNote++ // from the close until its notification has been handled
	r.emu.Unlock()
	r.h.net.shut(cs.fc, st.resetStreams)
	r.active(now + st.notifyDelay)
	if !st.resetStreams {
		r.released(cs, now)
	}
	if st.notifyDelay == 0 {
		r.h.net.notifyDisconnected(cs.fc)
		r.notified("close")
		return
	}
	r.wg.Add(1)
	d := st.notifyDelay
	go func() {
		defer r.wg.Done()
		time.Sleep(d)
		r.h.net.notifyDisconnected(cs.fc)
		r.notified("close-notified-later")
	}()
}

// noteLastClose records coverage facts when a close (at instant at) leaves p without connection.
func (r *runner) noteLastClose(at time.Duration) {
	if r.openCount() != 0 {
		return
	}
	n := len(r.ps.Addrs(r.w.p.ID))
	if r.svcClosedAt >= 0 && at >= r.svcClosedAt {
		r.label("service-closed:last-connection-closed-afterwards")
		if n > 0 {
			r.label("service-closed:last-connection-closed-afterwards:addresses-in-store")
			r.svcRace = true
		}
	}
	if r.sc.bookLimit > 0 && n > 0 {
		if n >= r.sc.bookLimit-r.sc.bookFill {
			// (what p holds without a connection vouching for it counts as well: the room can only be smaller)
			r.label("addr-book:no-room-for-the-addresses-the-last-close-moves-to-a-finite-lifetime")
			r.limitHit = true
		} else {
			r.label("addr-book:room-for-the-addresses-the-last-close-moves-to-a-finite-lifetime")
		}
	}
}

// doCloseService closes the identify service in the middle of the history, as a host that shuts
// down does before it closes its network. Everything else lives on: the network keeps delivering
// notifications to whoever is registered, the stream handlers stay installed, the peerstore is
// the same. Nothing in the oracle changes: the property's bounds and lifetimes are about what the
// peerstore holds, and the peerstore outlives the service.
func (r *runner) doCloseService() {
	if err := r.ids.Close(); err != nil {
		r.rt.Fatalf("IDService.Close: %v", err)
	}
	r.svcClosedAt = r.now()
	r.label("service-closed")
	if r.openCount() > 0 {
		r.label("service-closed:while-connected")
	} else if len(r.conns) == 0 {
		r.label("service-closed:before-the-first-connection")
	}
}

// notified is called (on any goroutine) when a Disconnected notification has been handled
// completely. If p has no connection now and no other notification is outstanding, this
// is an observation point for the bound of a peer without connection (observeUnconnected):
// whatever is consumed from here on, until a connection is opened, is consumed for a peer
// nothing vouches for.
func (r *runner) notified(origin string) {
	r.emu.Lock()
	defer r.emu.Unlock()
	r.pendingNote--
	if r.pendingNote != 0 || r.h.net.Connectedness(r.w.p.ID) != network.NotConnected {
		return
	}
	set := map[string]struct{}{}
	for _, a := range r.ps.Addrs(r.w.p.ID) {
		set[string(a.Bytes())] = struct{}{}
	}
	// a later observation without a connection in between only tightens the bound
	if r.unconnBase < 0 || len(set) <= max(unconnectedCap, r.unconnBase) {
		r.unconnBase, r.unconnSet = len(set), set
	}
	r.asyncLabels["observed:no-connection-left:"+origin] = struct{}{}
}

func (r *runner) doWait(st *step) {
	cs := r.conns[st.conn]
	now := r.now()
	dl := cs.waitBound
	if now+eps > dl {
		dl = now + eps
	}
	r.waits = append(r.waits, waitRec{r.ids.IdentifyWait(cs.fc), dl, fmt.Sprintf("IdentifyWait(conn %d) at %v", st.conn, now)})
}

// lastZero is the last instant at which a close left p without any connection that was
// opened strictly earlier and closes strictly later (<0: never). Connections opened at
// that very instant do not count: their order relative to the close is not known here.
func (r *runner) lastZero() time.Duration {
	last := time.Duration(-1)
	for _, x := range r.conns {
		t := x.closedAt
		if t < 0 || t <= last {
			continue
		}
		spanning := false
		for _, c := range r.conns {
			if c.openedAt < t && (c.closedAt < 0 || c.closedAt > t) {
				spanning = true
				break
			}
		}
		if !spanning {
			last = t
		}
	}
	return last
}

// doArmClose makes the given connection close (Disconnected delivered at once, from
// another goroutine, as the swarm does) at a generated point of what identify does next
// with its host: inside the next address update made with the connected lifetime, right
// after the k-th Connectedness answer about p, or right after the k-th call of any kind
// about p. Every such interleaving is legal: a connection may die at any time, the
// swarm's answer may be stale the moment it is given, and the peerstore may be slow.
// The caller is then held until the notification has been handled completely, or until
// it is clear that it cannot be (it waits for a lock the caller holds).
func (r *runner) doArmClose(st *step) {
	cs := r.conns[st.conn]
	r.armedConn = cs
	r.armedKeeps = !st.resetStreams
	reset := st.resetStreams
	point := st.point
	fire := func(call string) {
		r.emu.Lock()
		r.firedAt = time.Since(r.t0)
		r.firedCall = call
		r.firedInNotification = calledFrom("notifyDisconnected")
		r.emu.Unlock()
		done := make(chan struct{})
		r.emu.Lock()
		r.pendingNote++
		r.emu.Unlock()
		origin := "armed-close-inside-message-handling"
		if calledFrom("notifyDisconnected") {
			origin = "armed-close-inside-disconnected-notification"
		}
		go func() {
			defer close(done)
			r.h.net.shut(cs.fc, reset)
			r.h.net.notifyDisconnected(cs.fc)
			// handled completely: if the caller was held meanwhile, it has not gone on yet
			r.notified(origin)
		}()
		// Let the notification run until it finishes or blocks behind one of identify's own
		// locks. A goroutine waiting for a sync.Mutex is not durably blocked, so virtual time
		// cannot pass here (a timer would freeze the bubble); the wait is bounded by a number
		// of scheduler yields instead. Both outcomes are legal schedules.
		for i := 0; i < armSpin; i++ {
			select {
			case <-done:
				r.emu.Lock()
				r.firedHandled = true
				r.emu.Unlock()
				return
			default:
				runtime.Gosched()
			}
		}
	}
	switch point {
	case ptConnectedAdd:
		r.ps.arm(func() { fire("AddAddrs(connected lifetime)") })
	case ptConnectedness:
		r.h.calls.arm(r.w.p.ID, pcConnectedness, st.k, fire)
	case ptHostCall:
		r.h.calls.arm(r.w.p.ID, pcAnyCall, st.k, fire)
	}
}

const armSpin = 3000

// fillerTTL is the lifetime of the addresses that fill the address book: finite (they count
// towards the global limit), longer than any case runs (ten steps, the long sleep, the tail).
const fillerTTL = 10000 * time.Hour

// calledFrom reports whether a function whose name ends in fn is on the stack of the
// calling goroutine (used for coverage labels only: did an armed close fire inside a
// Disconnected notification the harness was delivering, or inside message handling).
func calledFrom(fn string) bool {
	pcs := make([]uintptr, 64)
	n := runtime.Callers(2, pcs)
	frames := runtime.CallersFrames(pcs[:n])
	for {
		f, more := frames.Next()
		if strings.HasSuffix(f.Function, "."+fn) {
			return true
		}
		if !more {
			return false
		}
	}
}

// reconcile brings the model up to date with a close that happened inside a consumption.
func (r *runner) reconcile() {
	if r.armedConn == nil {
		return
	}
	r.emu.Lock()
	at := r.firedAt
	r.emu.Unlock()
	if at < 0 {
		return
	}
	r.armedConn.closedAt = at
	if r.svcClosedAt >= 0 && at >= r.svcClosedAt && r.openCount() == 0 {
		r.label("service-closed:last-connection-closed-afterwards")
	}
	if r.armedKeeps {
		r.released(r.armedConn, at)
	}
	r.armedConn = nil
	r.raced = true
	r.label("closed-inside-consumption")
	r.emu.Lock()
	call, inNote, handled := r.firedCall, r.firedInNotification, r.firedHandled
	r.emu.Unlock()
	r.label("armed-close-fired-after:" + call)
	if inNote {
		r.label("armed-close-fired-in:disconnected-notification")
	} else {
		r.label("armed-close-fired-in:message-handling")
	}
	last := r.openCount() == 0
	if last {
		r.label("armed-close:of-last-connection")
	}
	if handled {
		r.label("armed-close:disconnect-handled-before-caller-went-on")
	} else {
		r.label("armed-close:disconnect-held-back-by-caller")
	}
	if last && !inNote && call == "Connectedness" {
		// the class "the last connection went away between identify's connectedness check
		// and what it does with the answer"
		r.label("armed-close:last-connection-right-after-connectedness-answer-in-message-handling")
		if handled {
			r.label("armed-close:last-connection-right-after-connectedness-answer-in-message-handling+disconnect-handled-first")
		}
	}
}

func (r *runner) snapshotEvents() []evRec {
	r.emu.Lock()
	defer r.emu.Unlock()
	return append([]evRec(nil), r.events...)
}

func (r *runner) addrSet() map[string]ma.Multiaddr {
	out := map[string]ma.Multiaddr{}
	for _, a := range r.ps.Addrs(r.w.p.ID) {
		out[string(a.Bytes())] = a
	}
	return out
}

// surelyConnected reports whether the most recent message consumption(s)
// certainly happened while a connection to p existed, and p has not been without a
// connection since. Then every address stored for p was stored "while connected".
func (r *runner) surelyConnected() bool {
	r.reconcile()
	if r.openCount() == 0 || r.now() < r.quietFrom {
		return false
	}
	for _, c := range r.conns {
		if c.closedAt < 0 && r.heldPending(c) {
			return false // a message read from c is consumed when c goes away
		}
	}
	r.emu.Lock()
	pend := r.pendingNote
	r.emu.Unlock()
	if pend > 0 {
		return false
	}
	evs := r.snapshotEvents()
	tE := time.Duration(-1)
	for _, e := range evs {
		if e.kind == "completed" && e.t > tE {
			tE = e.t
		}
	}
	if tE < 0 || r.lastZero() > tE {
		return false
	}
	for _, e := range evs {
		if e.kind != "completed" || e.t != tE {
			continue
		}
		ok := false
		for _, c := range r.conns {
			if (network.Conn(c.fc) == e.conn || c.openedAt < tE) && (c.closedAt < 0 || c.closedAt > tE) {
				ok = true
				break
			}
		}
		if !ok {
			return false
		}
	}
	return true
}

// check evaluates the invariants at a quiescent point.
func (r *runner) check(where string) {
	r.reconcile()
	rt, p := r.rt, r.w.p.ID
	now := r.now()
	// 8. identify-waits are released (first: the rules below read the store, and a reader of a store that
	// identify is stuck in would be stuck with it)
	r.checkWaits(where, now)
	if r.h.calls.inBook.Load() > 0 {
		// Everything is at rest and a call identify made into the address book has not returned: identify is
		// parked in there, waiting for another component (on the unchanged tree the book hands addresses to
		// the goroutine of each stream, which always takes them; this is never seen). Nothing says how long a
		// component may take, but the waits have their deadlines: let the time pass, reading nothing.
		r.parkedInBook = true
		r.label("observed:identify-parked-inside-the-address-book-at-a-quiescent-point")
		last := now
		for _, w := range r.waits {
			if w.deadline > last {
				last = w.deadline
			}
		}
		if last > now {
			time.Sleep(last - now)
			synctest.Wait()
			r.checkWaits(where+", then at the last deadline of an identify-wait", r.now())
		}
		if r.h.calls.inBook.Load() > 0 {
			return // still in there: the store cannot be read
		}
		now = r.now()
	}
	// 1. nothing is attributed to another peer
	for _, q := range r.ps.universe() {
		if q == p {
			continue
		}
		want, known := r.before[q]
		if !known {
			want = r.emptyDigest
		}
		if got := r.ps.digest(q); got != want {
			rt.Fatalf("%s: the peerstore entry of a peer other than the authenticated remote changed\npeer   %s (remote is %s)\nbefore %s\nafter  %s", where, q, p, want, got)
		}
	}
	// 2. public key
	if k := r.ps.PubKey(p); k != nil {
		b, err := ic.MarshalPublicKey(k)
		if err != nil || !bytes.Equal(b, r.pKeyBytes) {
			rt.Fatalf("%s: a public key that does not hash to the remote peer's ID is stored for it (%x)", where, b)
		}
	}
	// 3. addresses: only from lists identify may use, filtered, capped
	addrs := r.ps.Addrs(p)
	if len(addrs) > 500 {
		rt.Fatalf("%s: %d addresses retained for the remote peer (cap 500)", where, len(addrs))
	}
	for _, a := range addrs {
		if _, ok := r.allowed[string(a.Bytes())]; !ok {
			rt.Fatalf("%s: address %s is stored for the remote peer, but no message on a connection of that class offered it in a usable list "+
				"(listen addresses or a record that validates, is signed by and names the peer; no foreign /p2p)", where, a)
		}
	}
	// 4. protocols
	protos, _ := r.ps.GetProtocols(p)
	if len(protos) > 1024 {
		rt.Fatalf("%s: %d protocols retained for the remote peer (cap 1024)", where, len(protos))
	}
	for _, pr := range protos {
		if _, ok := r.protos[string(pr)]; !ok {
			rt.Fatalf("%s: protocol %q stored for the remote peer was never advertised by it", where, pr)
		}
	}
	// 5. a signed record kept for p (this version keeps none) must be one that validates, is signed by and names p
	if e := r.ps.GetPeerRecord(p); e != nil {
		b, _ := e.Marshal()
		if _, ok := r.usableRec[string(b)]; !ok {
			rt.Fatalf("%s: a signed peer record that the peer did not validly sign for itself is kept for it in the certified address book", where)
		}
	}
	// 6. events name the authenticated peer
	for _, e := range r.snapshotEvents() {
		if e.peer != p {
			rt.Fatalf("%s: identify event %q names peer %s, the connection belongs to %s", where, e.kind, e.peer, p)
		}
	}
	// 7. after the last disconnect the addresses have a finite lifetime
	r.emu.Lock()
	pend := r.pendingNote
	r.emu.Unlock()
	if r.openCount() == 0 && pend == 0 && len(r.conns) > 0 && now >= r.quietFrom+peerstore.RecentlyConnectedAddrTTL+eps && len(addrs) > 0 {
		rt.Fatalf("%s: %d addresses of the remote peer are still valid %v after the last connection closed and the last message arrived (RecentlyConnectedAddrTTL=%v): %v",
			where, len(addrs), now-r.quietFrom, peerstore.RecentlyConnectedAddrTTL, addrs[:min(3, len(addrs))])
	}
	// 9. bounds for a peer without any connection
	if r.openCount() == 0 && pend == 0 && len(r.conns) > 0 {
		r.observeUnconnected(where, addrs)
	}
	// 10. what the address streams of other components delivered
	r.checkStreams(where, addrs)
}

// checkWaits: every identify-wait whose deadline has passed is released.
func (r *runner) checkWaits(where string, now time.Duration) {
	for _, w := range r.waits {
		if now >= w.deadline {
			select {
			case <-w.ch:
			default:
				r.rt.Fatalf("%s: %s still blocks at %v; it had to be released by %v (identify timeout %v)", where, w.what, now, w.deadline, r.T)
			}
		}
	}
}

// unconnectedCap is the number of addresses the in-memory address book keeps for a peer
// that no live connection vouches for (pstoremem.WithMaxAddressesPerPeer: "caps the
// unconnected addresses stored per peer. When the cap is full, adding a new addr evicts
// the unconnected entry with the nearest expiry ... Defaults to 64"). Identify itself keeps
// at most 20 of the addresses it held when the last connection closed.
const unconnectedCap = 64

// observeUnconnected is called at a point at which p has no connection and every
// Disconnected notification has been delivered and handled (a quiescent point, or the
// instant at which an armed close of the last connection has been handled while a message
// is still being worked on). From such a point until a connection is opened again nothing
// vouches for p's addresses, so whatever identify consumes meanwhile (a message read
// from the last connection, handled after it is gone) must stay within the bound for
// unconnected peers: the number of addresses retained never rises above the cap, nor
// above what was there already if that was more (what a closing connection leaves
// behind is bounded by identify's own limits, checked elsewhere). The lifetimes are
// covered by invariant 7: everything is gone RecentlyConnectedAddrTTL after the last
// consumption.
func (r *runner) observeUnconnected(where string, addrs []ma.Multiaddr) {
	cur := make(map[string]struct{}, len(addrs))
	for _, a := range addrs {
		cur[string(a.Bytes())] = struct{}{}
	}
	r.emu.Lock()
	base, baseSet := r.unconnBase, r.unconnSet
	r.unconnBase, r.unconnSet = len(cur), cur
	r.emu.Unlock()
	if len(cur) > unconnectedCap {
		// not demanded by this check: what the closing of the last connection (or a message
		// handled between that close and its Disconnected notification) left behind
		r.label("observed:more-than-64-addresses-without-connection")
		if base > unconnectedCap {
			r.label("observed:more-than-64-addresses-without-connection:at-two-observations")
		}
	}
	if base < 0 {
		return
	}
	r.label("checked:unconnected-bound")
	fresh := 0
	for k := range cur {
		if _, ok := baseSet[k]; !ok {
			fresh++
		}
	}
	if limit := max(unconnectedCap, base); len(cur) > limit {
		r.rt.Fatalf("%s: %d addresses are retained for the remote peer although it has had no connection since the store was last looked at, when it held %d "+
			"(%d of them are new: taken from a message handled after the last connection was gone). At most %d addresses are kept for a peer without connection.",
			where, len(cur), base, fresh, unconnectedCap)
	}
	if fresh > 0 {
		r.label("checked:unconnected-bound:message-consumed-without-connection")
		if len(cur) == unconnectedCap {
			r.label("checked:unconnected-bound:message-consumed-without-connection:cap-reached")
		}
	}
}

func (r *runner) sleepChecked(d time.Duration, where string) {
	var stable map[string]ma.Multiaddr
	if r.surelyConnected() {
		stable = r.addrSet()
		if len(stable) > 0 {
			r.label("checked:no-expiry-while-connected")
		}
	}
	time.Sleep(d)
	synctest.Wait()
	if stable != nil {
		got := r.addrSet()
		for k, a := range stable {
			if _, ok := got[k]; !ok {
				r.rt.Fatalf("%s: address %s stored while connected expired after %v although a connection to the peer is still open", where, a, d)
			}
		}
	}
}

func (r *runner) run() {
	rt, sc, w := r.rt, r.sc, r.w
	var psOpts []pstoremem.Option
	if sc.bigProtoBook {
		psOpts = append(psOpts, pstoremem.WithMaxProtocols(1<<20))
	}
	if sc.bookLimit > 0 {
		psOpts = append(psOpts, pstoremem.WithMaxAddresses(sc.bookLimit))
		r.label(fmt.Sprintf("addr-book:global-limit-%d", sc.bookLimit))
		if sc.bookFill == sc.bookLimit {
			r.label("addr-book:limit-reached-from-the-start")
		} else {
			r.label("addr-book:room-left-at-the-start")
		}
	} else {
		r.label("addr-book:default-global-limit")
	}
	base, err := pstoremem.NewPeerstore(psOpts...)
	if err != nil {
		rt.Fatalf("peerstore: %v", err)
	}
	r.ps = newPSWrap(base, sc.trustingKeys)
	defer base.Close()
	bus := eventbus.NewBus()
	r.h = newFakeHost(w.local.ID, r.ps, bus, []ma.Multiaddr{ma.StringCast("/ip4/44.99.0.1/tcp/4001"), ma.StringCast("/ip4/10.9.9.9/tcp/4001")})
	r.t0 = time.Now()
	r.pKeyBytes, _ = ic.MarshalPublicKey(w.p.Pub)

	// the store before identify runs
	permanent := time.Duration(peerstore.PermanentAddrTTL)
	base.AddPrivKey(w.local.ID, w.local.Priv)
	base.AddPubKey(w.local.ID, w.local.Pub)
	base.AddAddrs(w.local.ID, r.h.addrs, permanent)
	base.SetProtocols(w.local.ID, "/local/1")
	for i, o := range w.others {
		m := sc.otherMask[i]
		if m&1 != 0 {
			base.AddAddrs(o.ID, []ma.Multiaddr{ma.StringCast(fmt.Sprintf("/ip4/7.7.%d.1/tcp/1", i)), ma.StringCast(fmt.Sprintf("/ip4/10.7.%d.1/tcp/1", i))}, permanent)
		}
		if m&2 != 0 {
			base.SetProtocols(o.ID, "/bystander/1", identify.IDPush)
		}
		if m&4 != 0 {
			base.AddPubKey(o.ID, o.Pub)
		}
		if m&8 != 0 {
			base.Put(o.ID, "AgentVersion", fmt.Sprintf("bystander-%d", i))
		}
		if m&16 != 0 {
			rec := &peer.PeerRecord{PeerID: o.ID, Seq: 3, Addrs: []ma.Multiaddr{ma.StringCast(fmt.Sprintf("/ip4/7.8.%d.1/tcp/1", i))}}
			env, _, err := record.ConsumeEnvelope(seal(rec, o), peer.PeerRecordEnvelopeDomain)
			if err != nil {
				rt.Fatalf("bystander record: %v", err)
			}
			if _, err := r.ps.cab.ConsumePeerRecord(env, permanent); err != nil {
				rt.Fatalf("bystander record: %v", err)
			}
		}
	}
	if sc.preKey {
		base.AddPubKey(w.p.ID, w.p.Pub)
	}
	filler := keys.Ed(12)
	if sc.bookFill > 0 {
		// addresses of a silent bystander that no connection vouches for, learnt elsewhere (DHT, ...), on a
		// lifetime longer than any case: they take up the address book's global limit
		var fa []ma.Multiaddr
		for i := 0; i < sc.bookFill; i++ {
			fa = append(fa, ma.StringCast(fmt.Sprintf("/ip4/7.9.%d.1/tcp/1", i)))
		}
		base.AddAddrs(filler.ID, fa, fillerTTL)
		if n := len(base.Addrs(filler.ID)); n != sc.bookFill {
			panic(fmt.Sprintf("harness: the address book holds %d of the %d filler addresses", n, sc.bookFill))
		}
	}
	r.before = map[peer.ID]string{}
	known := []peer.ID{w.local.ID, filler.ID}
	for _, o := range w.others {
		known = append(known, o.ID)
	}
	for _, q := range r.ps.universe(known...) {
		r.before[q] = r.ps.digest(q)
	}
	r.emptyDigest = r.ps.digest(keys.Ed(999).ID)

	sub, err := bus.Subscribe([]any{new(event.EvtPeerIdentificationCompleted), new(event.EvtPeerIdentificationFailed), new(event.EvtPeerProtocolsUpdated)}, eventbus.BufSize(4096))
	if err != nil {
		rt.Fatalf("subscribe: %v", err)
	}
	r.wg.Add(1)
	go func() {
		defer r.wg.Done()
		for e := range sub.Out() {
			rec := evRec{t: time.Since(r.t0)}
			switch v := e.(type) {
			case event.EvtPeerIdentificationCompleted:
				rec.kind, rec.peer, rec.conn = "completed", v.Peer, v.Conn
			case event.EvtPeerIdentificationFailed:
				rec.kind, rec.peer = "failed", v.Peer
			case event.EvtPeerProtocolsUpdated:
				rec.kind, rec.peer = "protocols", v.Peer
			}
			r.emu.Lock()
			r.events = append(r.events, rec)
			r.emu.Unlock()
		}
	}()

	ids, err := identify.NewIDService(r.h, identify.WithTimeout(sc.timeout), identify.UserAgent("c13"))
	if err != nil {
		rt.Fatalf("NewIDService: %v", err)
	}
	r.ids = ids
	ids.Start()
	cleaned := false
	cleanup := func() {
		if cleaned {
			return
		}
		cleaned = true
		r.cancelSubs() // first: whoever waits for a consumer goes on
		r.rmu.Lock()
		rs := append([]*memnet.Conn(nil), r.remotes...)
		r.rmu.Unlock()
		for _, x := range rs {
			x.Reset()
		}
		for _, c := range r.conns {
			if c.closedAt < 0 {
				r.h.net.shut(c.fc, true)
			}
		}
		ids.Close()
		sub.Close()
		r.wg.Wait()
	}
	defer cleanup()

	r.atRest = true
	for i := range sc.steps {
		st := &sc.steps[i]
		where := fmt.Sprintf("after step %d (%s conn %d)", i, stepNames[st.kind], st.conn)
		r.reconcile()
		switch st.kind {
		case stArmClose:
			r.doArmClose(st)
		case stOpen:
			r.doOpen(st)
		case stPush:
			r.doPush(st)
		case stClose:
			// (surelyConnected: no message read from this connection is still to be handled)
			cleanBefore := r.atRest && st.notifyDelay == 0 && r.openCount() == 1 && r.surelyConnected()
			var stable map[string]ma.Multiaddr
			if cleanBefore {
				stable = r.addrSet()
			}
			r.doClose(st)
			if cleanBefore {
				// the documented number kept for a peer we are no longer connected to
				synctest.Wait()
				got := r.addrSet()
				if len(got) > 20 {
					rt.Fatalf("%s: %d addresses kept right after the last connection closed (at most 20 are kept for recently connected peers)", where, len(got))
				}
				for k, a := range got {
					if _, ok := stable[k]; !ok {
						rt.Fatalf("%s: address %s appeared when the last connection closed", where, a)
					}
				}
				if len(stable) > 20 {
					r.label("checked:recently-connected-cap")
				}
			}
		case stSleep:
			if st.settle {
				synctest.Wait()
				r.sleepChecked(st.d, where)
			} else {
				time.Sleep(st.d)
			}
		case stWait:
			r.doWait(st)
		case stCloseService:
			r.doCloseService()
		case stSubscribe:
			r.doSubscribe(st)
		case stDrain:
			r.doDrain(st)
		case stCancelSub:
			r.doCancelSub(st)
		}
		r.atRest = false
		if st.settle {
			synctest.Wait()
			r.check(where)
			r.atRest = true
		}
	}

	// final phase: let everything scheduled happen, then watch the lifetimes
	if d := r.quietFrom - r.now(); d > 0 {
		time.Sleep(d)
	}
	time.Sleep(eps)
	synctest.Wait()
	r.ps.arm(nil)
	r.h.calls.disarm()
	synctest.Wait()
	r.reconcile()
	r.armedConn = nil
	// an armed close that fired late may have released held messages
	if d := r.quietFrom - r.now(); d > 0 {
		time.Sleep(d + eps)
		synctest.Wait()
	}
	r.check("after the last scheduled event")
	if r.openCount() > 0 {
		r.sleepChecked(sc.longSleep, fmt.Sprintf("after %v with a connection open", sc.longSleep))
		r.check("after the long sleep")
		for i, c := range r.conns {
			if c.closedAt >= 0 {
				continue
			}
			st := step{kind: stClose, conn: i, resetStreams: true}
			clean := r.openCount() == 1 && r.surelyConnected()
			var stable map[string]ma.Multiaddr
			if clean {
				stable = r.addrSet()
			}
			r.doClose(&st)
			synctest.Wait()
			if clean {
				got := r.addrSet()
				if len(got) > 20 {
					rt.Fatalf("final close: %d addresses kept right after the last connection closed (at most 20 are kept for recently connected peers)", len(got))
				}
				for k, a := range got {
					if _, ok := stable[k]; !ok {
						rt.Fatalf("final close: address %s appeared when the last connection closed", a)
					}
				}
				if len(stable) > 20 {
					r.label("checked:recently-connected-cap")
				}
			}
			r.check(fmt.Sprintf("after the final close of conn %d", i))
		}
	}
	// abandon every stream still held by the remote; nothing can be consumed afterwards
	r.rmu.Lock()
	rs := append([]*memnet.Conn(nil), r.remotes...)
	r.rmu.Unlock()
	for _, x := range rs {
		x.Reset()
	}
	r.active(r.now())
	time.Sleep(2*r.T + 2*eps)
	synctest.Wait()
	r.check("after every stream was abandoned")
	for _, w := range r.waits {
		select {
		case <-w.ch:
		default:
			rt.Fatalf("%s was never released (now %v, identify timeout %v)", w.what, r.now(), r.T)
		}
	}
	if r.h.calls.inBook.Load() > 0 {
		// (no wait depends on it: a push handled after its connection's wait was released.) The lifetimes
		// cannot be watched while identify sits in the address book; the case ends here.
		r.label("ended-early:identify-parked-inside-the-address-book")
		r.streamFacts()
		cleanup()
		return
	}
	time.Sleep(peerstore.RecentlyConnectedAddrTTL + time.Second)
	synctest.Wait()
	r.check("RecentlyConnectedAddrTTL after the end")
	if n := len(r.ps.Addrs(w.p.ID)); n > 0 && len(r.conns) > 0 {
		rt.Fatalf("%d addresses of the remote peer survive RecentlyConnectedAddrTTL after the last connection closed", n)
	}

	// coverage facts
	evs := r.snapshotEvents()
	consumed := map[network.Conn]int{}
	for _, e := range evs {
		if e.kind == "completed" {
			consumed[e.conn]++
		}
	}
	nCompleted := 0
	for _, n := range consumed {
		nCompleted += n
	}
	if nCompleted > 0 {
		r.label("some-message-consumed")
	} else {
		r.label("no-message-consumed")
	}
	for _, st := range sc.steps {
		if st.dl == nil {
			continue
		}
		cs := r.conns[st.conn]
		if (st.dl.msg.foreign || st.dl.msg.overCap) && consumed[network.Conn(cs.fc)] > 0 && !st.dl.msg.malformed {
			r.consumedInteresting = true
		}
	}
	r.streamFacts()
	cleanup()
}

func TestIdentifyAttribution(t *testing.T) {
	name := t.Name()
	hx.Check(t, 4000, 200000, 0, func(rt *rapid.T) {
		sc := drawScenario(rt)
		r := &runner{t: t, rt: rt, sc: sc, w: sc.w, T: sc.timeout, allowed: map[string]struct{}{}, protos: map[string]struct{}{}, usableRec: map[string]struct{}{},
			firedAt: -1, unconnBase: -1, svcClosedAt: -1, labels: map[string]struct{}{}, asyncLabels: map[string]struct{}{}}
		watchedBubble(t, rt, r.run)

		// race position: a delivery that ends at or after the close of its connection
		closeAt := map[int]time.Duration{}
		var clock time.Duration
		type sched struct {
			conn     int
			from, to time.Duration
		}
		var ds []sched
		for _, st := range sc.steps {
			switch st.kind {
			case stOpen:
				if st.newStream == nsOK || st.newStream == nsDelay {
					ds = append(ds, sched{st.conn, clock + st.nsDelay, clock + st.nsDelay + st.dl.span()})
				}
			case stPush:
				ds = append(ds, sched{st.conn, clock, clock + st.dl.span()})
			case stClose:
				closeAt[st.conn] = clock
			case stSleep:
				clock += st.d
			}
		}
		for _, d := range ds {
			if c, ok := closeAt[d.conn]; ok && d.to >= c {
				r.raced = true
				r.label("delivery-ends-at-or-after-close")
				if d.to == c {
					r.label("delivery-and-close-same-instant")
				}
			}
		}
		labels := []string{"key:" + sc.w.p.Type}
		for l := range r.labels {
			labels = append(labels, l)
		}
		for l := range r.asyncLabels { // the bubble is over: nobody writes any more
			labels = append(labels, l)
		}
		seen := map[string]bool{}
		for _, st := range sc.steps {
			labels = append(labels, "step:"+stepNames[st.kind])
			if st.kind == stArmClose {
				labels = append(labels, "armed-point:"+pointNames[st.point])
			}
			if st.dl != nil {
				for _, l := range st.dl.msg.labels {
					if !seen[l] {
						seen[l] = true
						labels = append(labels, "msg:"+l)
					}
				}
			}
		}
		if r.consumedInteresting {
			labels = append(labels, "consumed-foreign-or-overcap")
		}
		if r.failurePath {
			labels = append(labels, "wait-released-by-failure")
		}
		sort.Strings(labels)
		nontrivial := r.consumedInteresting || r.raced || r.svcRace || r.limitHit || r.streamRace
		stats.Case(name, sc.fingerprint(), nontrivial, labels...)
		if stats.WantSample(name) {
			stats.Sample(name, sc.describe())
		}
	})
}
