package c13

import (
	"fmt"
	"testing"

	ma "github.com/multiformats/go-multiaddr"
	manet "github.com/multiformats/go-multiaddr/net"
	"verif/internal/keys"
	"github.com/libp2p/go-libp2p/core/peer"
	ic "github.com/libp2p/go-libp2p/core/crypto"
)

func TestScratch(t *testing.T) {
	a, err := ma.NewMultiaddrBytes(nil)
	fmt.Println("empty:", a, err, a == nil, len(a))
	a, err = ma.NewMultiaddrBytes([]byte{})
	fmt.Println("empty2:", a, err)
	p := keys.Ed(1).ID
	o := keys.Ed(2).ID
	for _, s := range []string{
		"/ip4/8.8.8.8/tcp/1/p2p/" + o.String() + "/p2p/" + p.String(),
		"/p2p/" + p.String(),
		"/ip4/8.8.8.8/tcp/1/p2p/" + o.String() + "/p2p-circuit/p2p/" + p.String(),
		"/dns4/a.localhost/tcp/1", "/dns4/a.example.com/tcp/443/tls/ws", "/ip4/198.18.3.1/tcp/1", "/ip6/fd00:1::5/tcp/1", "/ip6/2600:1::5/tcp/1", "/ip4/192.168.1.1/udp/1/quic-v1",
		"/ip6/::1/tcp/4", "/ip4/127.3.2.1/tcp/4",
	} {
		m, err := ma.NewMultiaddr(s)
		if err != nil {
			fmt.Println(s, "ERR", err)
			continue
		}
		tr, id := peer.SplitAddr(m)
		fmt.Println(s, "->", tr, id, "pub", manet.IsPublicAddr(m), "priv", manet.IsPrivateAddr(m), "loop", manet.IsIPLoopback(m), len(m.Bytes()))
	}
	for _, typ := range keys.Types {
		k := keys.Get(typ, 1)
		b, _ := ic.MarshalPublicKey(k.Pub)
		_, err := k.ID.ExtractPublicKey()
		fmt.Println(typ, len(b), len(k.ID), err)
	}
}
