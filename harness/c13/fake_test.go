package c13

// Test doubles for the pieces identify.NewIDService takes from a host.Host. The
// peerstore and the event bus are the real ones (pstoremem, eventbus.NewBus); the
// network, its connections and their streams are fakes whose remote end the harness
// plays byte for byte over memnet pipes.

import (
	"context"
	"errors"
	"fmt"
	"sort"
	"sync"
	"sync/atomic"
	"time"

	"github.com/libp2p/go-libp2p/core/connmgr"
	ic "github.com/libp2p/go-libp2p/core/crypto"
	"github.com/libp2p/go-libp2p/core/event"
	"github.com/libp2p/go-libp2p/core/network"
	"github.com/libp2p/go-libp2p/core/peer"
	"github.com/libp2p/go-libp2p/core/peerstore"
	"github.com/libp2p/go-libp2p/core/protocol"
	"github.com/libp2p/go-libp2p/core/record"
	ma "github.com/multiformats/go-multiaddr"
	msmux "github.com/multiformats/go-multistream"

	"verif/internal/memnet"
)

// ---------------------------------------------------------------------------
// peerstore wrapper: real pstoremem underneath; records which peers were written to
// and which metadata keys were used; optionally replaces the key book's AddPubKey by
// one that trusts its caller (the KeyBook interface does not promise validation, so
// identify's own check is what the property relies on).

type psWrap struct {
	peerstore.Peerstore
	cab      peerstore.CertifiedAddrBook
	trusting bool

	mu      sync.Mutex
	keys    map[peer.ID]ic.PubKey
	touched map[peer.ID]struct{}
	metaKey map[string]struct{}

	// onConnectedAdd, when armed, runs once inside the next AddAddrs with a connected
	// lifetime, i.e. in the middle of identify's address update: a scheduling point the
	// harness uses to let a disconnect happen exactly there.
	onConnectedAdd func()

	// when the lifetimes of a peer's addresses were last written (coverage: has the lifetime run out,
	// has a collection of the address book come by since)
	addrWrite map[peer.ID]time.Time
}

func (w *psWrap) noteAddrWrite(p peer.ID) {
	w.mu.Lock()
	if w.addrWrite == nil {
		w.addrWrite = map[peer.ID]time.Time{}
	}
	w.addrWrite[p] = time.Now()
	w.touched[p] = struct{}{}
	w.mu.Unlock()
}

func (w *psWrap) lastAddrWrite(p peer.ID) (time.Time, bool) {
	w.mu.Lock()
	defer w.mu.Unlock()
	t, ok := w.addrWrite[p]
	return t, ok
}

func (w *psWrap) arm(f func()) {
	w.mu.Lock()
	w.onConnectedAdd = f
	w.mu.Unlock()
}

func newPSWrap(ps peerstore.Peerstore, trusting bool) *psWrap {
	cab, _ := peerstore.GetCertifiedAddrBook(ps)
	return &psWrap{Peerstore: ps, cab: cab, trusting: trusting, keys: map[peer.ID]ic.PubKey{},
		touched: map[peer.ID]struct{}{}, metaKey: map[string]struct{}{"AgentVersion": {}, "ProtocolVersion": {}}}
}

func (w *psWrap) touch(p peer.ID) {
	w.mu.Lock()
	w.touched[p] = struct{}{}
	w.mu.Unlock()
}

func (w *psWrap) AddAddr(p peer.ID, a ma.Multiaddr, ttl time.Duration) {
	w.noteAddrWrite(p)
	w.Peerstore.AddAddr(p, a, ttl)
}
func (w *psWrap) AddAddrs(p peer.ID, a []ma.Multiaddr, ttl time.Duration) {
	w.noteAddrWrite(p)
	if ttl >= peerstore.ConnectedAddrTTL {
		w.mu.Lock()
		f := w.onConnectedAdd
		w.onConnectedAdd = nil
		w.mu.Unlock()
		if f != nil {
			f()
		}
	}
	w.Peerstore.AddAddrs(p, a, ttl)
}
func (w *psWrap) SetAddr(p peer.ID, a ma.Multiaddr, ttl time.Duration) {
	w.noteAddrWrite(p)
	w.Peerstore.SetAddr(p, a, ttl)
}
func (w *psWrap) SetAddrs(p peer.ID, a []ma.Multiaddr, ttl time.Duration) {
	w.noteAddrWrite(p)
	w.Peerstore.SetAddrs(p, a, ttl)
}
func (w *psWrap) UpdateAddrs(p peer.ID, o, n time.Duration) {
	w.noteAddrWrite(p)
	w.Peerstore.UpdateAddrs(p, o, n)
}
func (w *psWrap) ClearAddrs(p peer.ID) { w.touch(p); w.Peerstore.ClearAddrs(p) }
func (w *psWrap) RemovePeer(p peer.ID) { w.touch(p); w.Peerstore.RemovePeer(p) }
func (w *psWrap) Put(p peer.ID, k string, v any) error {
	w.mu.Lock()
	w.touched[p] = struct{}{}
	w.metaKey[k] = struct{}{}
	w.mu.Unlock()
	return w.Peerstore.Put(p, k, v)
}
func (w *psWrap) AddProtocols(p peer.ID, ps ...protocol.ID) error {
	w.touch(p)
	return w.Peerstore.AddProtocols(p, ps...)
}
func (w *psWrap) SetProtocols(p peer.ID, ps ...protocol.ID) error {
	w.touch(p)
	return w.Peerstore.SetProtocols(p, ps...)
}
func (w *psWrap) RemoveProtocols(p peer.ID, ps ...protocol.ID) error {
	w.touch(p)
	return w.Peerstore.RemoveProtocols(p, ps...)
}
func (w *psWrap) AddPrivKey(p peer.ID, k ic.PrivKey) error {
	w.touch(p)
	return w.Peerstore.AddPrivKey(p, k)
}
func (w *psWrap) AddPubKey(p peer.ID, k ic.PubKey) error {
	w.touch(p)
	if w.trusting {
		w.mu.Lock()
		w.keys[p] = k
		w.mu.Unlock()
		return nil
	}
	return w.Peerstore.AddPubKey(p, k)
}
func (w *psWrap) PubKey(p peer.ID) ic.PubKey {
	if w.trusting {
		w.mu.Lock()
		k, ok := w.keys[p]
		w.mu.Unlock()
		if ok {
			return k
		}
	}
	return w.Peerstore.PubKey(p)
}
func (w *psWrap) ConsumePeerRecord(e *record.Envelope, ttl time.Duration) (bool, error) {
	if r, err := e.Record(); err == nil {
		if pr, ok := r.(*peer.PeerRecord); ok {
			w.touch(pr.PeerID)
		}
	}
	return w.cab.ConsumePeerRecord(e, ttl)
}
func (w *psWrap) GetPeerRecord(p peer.ID) *record.Envelope { return w.cab.GetPeerRecord(p) }

// universe returns every peer the store knows or was ever asked to write to.
func (w *psWrap) universe(extra ...peer.ID) []peer.ID {
	set := map[peer.ID]struct{}{}
	for _, p := range extra {
		set[p] = struct{}{}
	}
	for _, p := range w.Peerstore.Peers() {
		set[p] = struct{}{}
	}
	w.mu.Lock()
	for p := range w.touched {
		set[p] = struct{}{}
	}
	for p := range w.keys {
		set[p] = struct{}{}
	}
	w.mu.Unlock()
	out := make([]peer.ID, 0, len(set))
	for p := range set {
		out = append(out, p)
	}
	sort.Slice(out, func(i, j int) bool { return out[i] < out[j] })
	return out
}

func (w *psWrap) metaKeys() []string {
	w.mu.Lock()
	defer w.mu.Unlock()
	out := make([]string, 0, len(w.metaKey))
	for k := range w.metaKey {
		out = append(out, k)
	}
	sort.Strings(out)
	return out
}

// digest renders everything the store holds for q (addresses, protocols, keys,
// metadata, signed record) as a canonical string.
func (w *psWrap) digest(q peer.ID) string {
	var addrs []string
	for _, a := range w.Peerstore.Addrs(q) {
		addrs = append(addrs, a.String())
	}
	sort.Strings(addrs)
	protos, _ := w.Peerstore.GetProtocols(q)
	ps := make([]string, len(protos))
	for i, p := range protos {
		ps[i] = string(p)
	}
	sort.Strings(ps)
	key := "-"
	if k := w.PubKey(q); k != nil {
		if b, err := ic.MarshalPublicKey(k); err == nil {
			key = fmt.Sprintf("%x", b)
		} else {
			key = "unmarshalable"
		}
	}
	priv := w.Peerstore.PrivKey(q) != nil
	var meta []string
	for _, k := range w.metaKeys() {
		if v, err := w.Peerstore.Get(q, k); err == nil {
			meta = append(meta, fmt.Sprintf("%s=%v", k, v))
		}
	}
	rec := "-"
	if e := w.cab.GetPeerRecord(q); e != nil {
		if b, err := e.Marshal(); err == nil {
			rec = fmt.Sprintf("%x", b)
		}
	}
	return fmt.Sprintf("addrs=%v protos=%v key=%s priv=%v meta=%v rec=%s", addrs, ps, key, priv, meta, rec)
}

// ---------------------------------------------------------------------------
// host

type fakeHost struct {
	id       peer.ID
	ps       *psWrap
	bus      event.Bus
	net      *fakeNet
	mux      *msmux.MultistreamMuxer[protocol.ID]
	addrs    []ma.Multiaddr
	hmu      sync.Mutex
	handlers map[protocol.ID]network.StreamHandler

	// what the service under test sees: the same store and network, with a harness-owned
	// scheduling point after every call about a peer (sched_test.go)
	calls *callSched
	idps  *idPeerstore
	idnet *idNetwork
}

func newFakeHost(id peer.ID, ps *psWrap, bus event.Bus, addrs []ma.Multiaddr) *fakeHost {
	h := &fakeHost{id: id, ps: ps, bus: bus, mux: msmux.NewMultistreamMuxer[protocol.ID](), addrs: addrs,
		handlers: map[protocol.ID]network.StreamHandler{}}
	h.net = &fakeNet{local: id, ps: ps}
	h.calls = &callSched{}
	h.idps = &idPeerstore{psWrap: ps, s: h.calls}
	h.idnet = &idNetwork{fakeNet: h.net, s: h.calls}
	return h
}

func (h *fakeHost) ID() peer.ID                    { return h.id }
func (h *fakeHost) Peerstore() peerstore.Peerstore { return h.idps }
func (h *fakeHost) Addrs() []ma.Multiaddr          { return append([]ma.Multiaddr(nil), h.addrs...) }
func (h *fakeHost) Network() network.Network       { return h.idnet }
func (h *fakeHost) Mux() protocol.Switch           { return h.mux }
func (h *fakeHost) Connect(context.Context, peer.AddrInfo) error {
	return errors.New("fakehost: Connect not supported")
}
func (h *fakeHost) SetStreamHandler(pid protocol.ID, handler network.StreamHandler) {
	h.hmu.Lock()
	h.handlers[pid] = handler
	h.hmu.Unlock()
	h.mux.AddHandler(pid, nil)
}
func (h *fakeHost) SetStreamHandlerMatch(pid protocol.ID, _ func(protocol.ID) bool, handler network.StreamHandler) {
	h.SetStreamHandler(pid, handler)
}
func (h *fakeHost) RemoveStreamHandler(pid protocol.ID) {
	h.hmu.Lock()
	delete(h.handlers, pid)
	h.hmu.Unlock()
	h.mux.RemoveHandler(pid)
}
func (h *fakeHost) NewStream(context.Context, peer.ID, ...protocol.ID) (network.Stream, error) {
	return nil, errors.New("fakehost: NewStream not supported")
}
func (h *fakeHost) Close() error                     { return nil }
func (h *fakeHost) ConnManager() connmgr.ConnManager { return connmgr.NullConnMgr{} }
func (h *fakeHost) EventBus() event.Bus              { return h.bus }

func (h *fakeHost) handler(pid protocol.ID) network.StreamHandler {
	h.hmu.Lock()
	defer h.hmu.Unlock()
	return h.handlers[pid]
}

// ---------------------------------------------------------------------------
// network

type fakeNet struct {
	local peer.ID
	ps    peerstore.Peerstore

	mu        sync.Mutex
	conns     []*fakeConn // open connections, in opening order
	notifiees []network.Notifiee
}

func (n *fakeNet) Peerstore() peerstore.Peerstore { return n.ps }
func (n *fakeNet) LocalPeer() peer.ID             { return n.local }
func (n *fakeNet) DialPeer(context.Context, peer.ID) (network.Conn, error) {
	return nil, errors.New("fakenet: no dialing")
}
func (n *fakeNet) ClosePeer(peer.ID) error { return nil }

// Connectedness follows the swarm: Connected if an open unlimited connection exists,
// Limited if only limited ones do, NotConnected otherwise.
func (n *fakeNet) Connectedness(p peer.ID) network.Connectedness {
	n.mu.Lock()
	defer n.mu.Unlock()
	limited := false
	for _, c := range n.conns {
		if c.remote != p || c.IsClosed() {
			continue
		}
		if c.limited {
			limited = true
		} else {
			return network.Connected
		}
	}
	if limited {
		return network.Limited
	}
	return network.NotConnected
}
func (n *fakeNet) Peers() []peer.ID {
	n.mu.Lock()
	defer n.mu.Unlock()
	seen := map[peer.ID]bool{}
	var out []peer.ID
	for _, c := range n.conns {
		if !seen[c.remote] {
			seen[c.remote] = true
			out = append(out, c.remote)
		}
	}
	return out
}
func (n *fakeNet) Conns() []network.Conn {
	n.mu.Lock()
	defer n.mu.Unlock()
	out := make([]network.Conn, 0, len(n.conns))
	for _, c := range n.conns {
		out = append(out, c)
	}
	return out
}
func (n *fakeNet) ConnsToPeer(p peer.ID) []network.Conn {
	n.mu.Lock()
	defer n.mu.Unlock()
	var out []network.Conn
	for _, c := range n.conns {
		if c.remote == p {
			out = append(out, c)
		}
	}
	return out
}
func (n *fakeNet) Notify(f network.Notifiee) {
	n.mu.Lock()
	n.notifiees = append(n.notifiees, f)
	n.mu.Unlock()
}
func (n *fakeNet) StopNotify(f network.Notifiee) {
	n.mu.Lock()
	defer n.mu.Unlock()
	for i, x := range n.notifiees {
		if x == f {
			n.notifiees = append(n.notifiees[:i], n.notifiees[i+1:]...)
			return
		}
	}
}
func (n *fakeNet) CanDial(peer.ID, ma.Multiaddr) bool       { return false }
func (n *fakeNet) Close() error                             { return nil }
func (n *fakeNet) SetStreamHandler(network.StreamHandler)   {}
func (n *fakeNet) Listen(...ma.Multiaddr) error             { return nil }
func (n *fakeNet) ListenAddresses() []ma.Multiaddr          { return nil }
func (n *fakeNet) ResourceManager() network.ResourceManager { return &network.NullResourceManager{} }
func (n *fakeNet) InterfaceListenAddresses() ([]ma.Multiaddr, error) {
	return nil, nil
}
func (n *fakeNet) NewStream(context.Context, peer.ID) (network.Stream, error) {
	return nil, errors.New("fakenet: NewStream not supported")
}

func (n *fakeNet) listeners() []network.Notifiee {
	n.mu.Lock()
	defer n.mu.Unlock()
	return append([]network.Notifiee(nil), n.notifiees...)
}

// add registers an open connection (Connectedness changes now). The Connected
// notification is delivered separately with notifyConnected, as the swarm does
// synchronously before the connection carries streams.
func (n *fakeNet) add(c *fakeConn) {
	n.mu.Lock()
	n.conns = append(n.conns, c)
	n.mu.Unlock()
}

func (n *fakeNet) notifyConnected(c *fakeConn) {
	for _, f := range n.listeners() {
		f.Connected(n, c)
	}
}

// shut marks c closed and removes it from the network (Connectedness changes now);
// like the swarm, the Disconnected notification follows separately.
func (n *fakeNet) shut(c *fakeConn, resetStreams bool) {
	c.closed.Store(true)
	n.mu.Lock()
	for i, x := range n.conns {
		if x == c {
			n.conns = append(n.conns[:i], n.conns[i+1:]...)
			break
		}
	}
	n.mu.Unlock()
	if c.gone != nil {
		c.goneOnce.Do(func() { close(c.gone) })
	}
	if resetStreams {
		c.mu.Lock()
		ss := append([]*fakeStream(nil), c.streams...)
		c.mu.Unlock()
		for _, s := range ss {
			s.pipe.Reset()
		}
	}
}

func (n *fakeNet) notifyDisconnected(c *fakeConn) {
	for _, f := range n.listeners() {
		f.Disconnected(n, c)
	}
}

// ---------------------------------------------------------------------------
// connection

type fakeConn struct {
	net           *fakeNet
	idx           int
	local, remote peer.ID
	remoteKey     ic.PubKey
	laddr, raddr  ma.Multiaddr
	limited       bool
	dir           network.Direction
	closed        atomic.Bool
	// gone (optional; created by whoever builds the connection) is closed when the
	// connection is shut: the remote side of a stream can wait for "the connection is gone".
	gone     chan struct{}
	goneOnce sync.Once

	mu      sync.Mutex
	streams []*fakeStream
	nextID  int

	// open is the harness hook behind NewStream.
	open func(ctx context.Context, c *fakeConn) (network.Stream, error)
}

func (c *fakeConn) Close() error                               { c.net.shut(c, true); return nil }
func (c *fakeConn) CloseWithError(network.ConnErrorCode) error { return c.Close() }
func (c *fakeConn) LocalPeer() peer.ID                         { return c.local }
func (c *fakeConn) RemotePeer() peer.ID                        { return c.remote }
func (c *fakeConn) RemotePublicKey() ic.PubKey                 { return c.remoteKey }
func (c *fakeConn) ConnState() network.ConnectionState {
	return network.ConnectionState{StreamMultiplexer: "/yamux/1.0.0", Security: "/noise", Transport: "tcp"}
}
func (c *fakeConn) LocalMultiaddr() ma.Multiaddr  { return c.laddr }
func (c *fakeConn) RemoteMultiaddr() ma.Multiaddr { return c.raddr }
func (c *fakeConn) Stat() network.ConnStats {
	return network.ConnStats{Stats: network.Stats{Direction: c.dir, Limited: c.limited}}
}
func (c *fakeConn) Scope() network.ConnScope { return &network.NullScope{} }
func (c *fakeConn) ID() string               { return fmt.Sprintf("fake-%d", c.idx) }
func (c *fakeConn) IsClosed() bool           { return c.closed.Load() }
func (c *fakeConn) As(any) bool              { return false }
func (c *fakeConn) GetStreams() []network.Stream {
	c.mu.Lock()
	defer c.mu.Unlock()
	out := make([]network.Stream, 0, len(c.streams))
	for _, s := range c.streams {
		out = append(out, s)
	}
	return out
}
func (c *fakeConn) NewStream(ctx context.Context) (network.Stream, error) {
	if c.IsClosed() {
		return nil, errors.New("fakeconn: connection closed")
	}
	if c.open == nil {
		return nil, errors.New("fakeconn: no stream plan")
	}
	return c.open(ctx, c)
}

// pipe creates a stream on c; the returned memnet end is the remote side.
func (c *fakeConn) pipe(dir network.Direction) (*fakeStream, *memnet.Conn) {
	l, r := memnet.Pipe(memnet.Options{})
	c.mu.Lock()
	c.nextID++
	s := &fakeStream{pipe: l, conn: c, id: fmt.Sprintf("%s/%d", c.ID(), c.nextID), dir: dir}
	c.streams = append(c.streams, s)
	c.mu.Unlock()
	return s, r
}

// ---------------------------------------------------------------------------
// stream

type fakeStream struct {
	pipe  *memnet.Conn
	conn  *fakeConn
	id    string
	dir   network.Direction
	proto atomic.Value
}

func (s *fakeStream) Read(p []byte) (int, error)  { return s.pipe.Read(p) }
func (s *fakeStream) Write(p []byte) (int, error) { return s.pipe.Write(p) }
func (s *fakeStream) Close() error                { return s.pipe.Close() }
func (s *fakeStream) CloseWrite() error           { return s.pipe.CloseWrite() }
func (s *fakeStream) CloseRead() error            { return s.pipe.CloseRead() }
func (s *fakeStream) Reset() error                { s.pipe.Reset(); return nil }
func (s *fakeStream) ResetWithError(network.StreamErrorCode) error {
	s.pipe.Reset()
	return nil
}
func (s *fakeStream) SetDeadline(t time.Time) error      { return s.pipe.SetDeadline(t) }
func (s *fakeStream) SetReadDeadline(t time.Time) error  { return s.pipe.SetReadDeadline(t) }
func (s *fakeStream) SetWriteDeadline(t time.Time) error { return s.pipe.SetWriteDeadline(t) }
func (s *fakeStream) ID() string                         { return s.id }
func (s *fakeStream) Protocol() protocol.ID {
	if v, ok := s.proto.Load().(protocol.ID); ok {
		return v
	}
	return ""
}
func (s *fakeStream) SetProtocol(id protocol.ID) error { s.proto.Store(id); return nil }
func (s *fakeStream) Stat() network.Stats {
	return network.Stats{Direction: s.dir, Limited: s.conn.limited}
}
func (s *fakeStream) Conn() network.Conn         { return s.conn }
func (s *fakeStream) Scope() network.StreamScope { return &network.NullScope{} }

var (
	_ network.Conn    = (*fakeConn)(nil)
	_ network.Stream  = (*fakeStream)(nil)
	_ network.Network = (*fakeNet)(nil)
)
