package c07

// Resource-scope histories.
//
// The statement ends with "the stream is charged to the negotiated protocol's resource scope on
// both sides", and quantifies over configurations and histories. The other tests of this package
// audit the protocol scopes of ONE host pair whose resource managers are never touched and never
// collect anything (no virtual time passes). Here the resource manager itself is part of the
// history: 2..4 real BasicHosts, streams that stay open across steps, and between the opens
//
//   - run-time limit changes: the application sets the limit of a protocol, peer or service scope
//     (rm.View<Scope>(..., s.(rcmgr.ResourceScopeLimiter).SetLimit(l)), the documented way) at any
//     point, in particular while negotiated streams charged to that scope are open;
//   - collection passes: the resource manager drops unused peer / protocol scopes once a minute;
//     a pass is placed at any quiescent point (rcmgr.VerifGC, the verif-tagged hook that runs
//     exactly the body of the once-a-minute background job, or a virtual minute that passes);
//   - disconnects and reconnects, closes by either end of a stream.
//
// Oracle: a reference model that is nothing but the harness' own list of open streams and the
// limits the harness itself has set.
//
//	(1) after every step, at quiescence, on every host: Stat() of every protocol scope (and of
//	    every peer and service scope) counts exactly the streams of the harness that are open on
//	    that host and were negotiated for that protocol (with that peer / attached to that service
//	    by their handler), by direction. A stream stays charged for as long as it is open on that
//	    side, whatever happens to limits, other streams, other peers in between;
//	(2) "charged to the scope" means counted against the scope's limit: an open is refused only if
//	    a limit the harness has set does not admit one more stream given (1)'s count, and then no
//	    stream remains on either side; the application handler does not run when the responder's
//	    peer or protocol scope refuses;
//	(3) every other open with a common protocol is bound to it, runs exactly the handler registered
//	    for it on the host it was opened to (stream reporting the same protocol, remote peer = the
//	    opener), echoes the nonce, and from then on is counted by (1) on both sides. A collection
//	    pass is invisible: nobody but the resource manager knows it happened.
//
// Requests name at most ONE protocol the responder serves (plus, optionally, one it does not
// serve), handlers are exact and fixed for the case, so which protocol an open must be bound to
// follows from the statement alone.

import (
	"context"
	"encoding/binary"
	"encoding/json"
	"fmt"
	"math"
	"strconv"
	"strings"
	"sync"
	"testing"
	"testing/synctest"
	"time"

	"github.com/libp2p/go-libp2p/core/network"
	"github.com/libp2p/go-libp2p/core/peer"
	"github.com/libp2p/go-libp2p/core/protocol"
	rcmgr "github.com/libp2p/go-libp2p/p2p/host/resource-manager"
	"pgregory.net/rapid"

	"verif/internal/hx"
	"verif/internal/keys"
	"verif/internal/stats"
)

var scopeProtos = []protocol.ID{"/a/1.0.0", "/b", "/ab"}

const scopeNever = protocol.ID("/c/1.0.0") // nobody serves it

var scopeSvcs = []string{"svc-1", "svc-2"}

// slim is a stream limit as the application writes it: total, inbound, outbound; -1 = unlimited.
type slim struct {
	Total int `json:"total"`
	In    int `json:"in"`
	Out   int `json:"out"`
}

func (l slim) limit() rcmgr.Limit {
	v := func(x int) int {
		if x < 0 {
			return math.MaxInt
		}
		return x
	}
	return &rcmgr.BaseLimit{Streams: v(l.Total), StreamsInbound: v(l.In), StreamsOutbound: v(l.Out),
		Conns: math.MaxInt, ConnsInbound: math.MaxInt, ConnsOutbound: math.MaxInt, FD: math.MaxInt, Memory: math.MaxInt64}
}

func (l slim) finite() bool { return l.Total >= 0 || l.In >= 0 || l.Out >= 0 }

type sreg struct {
	Pid protocol.ID `json:"pid"`
	Svc string      `json:"svc,omitempty"` // the handler attaches its stream to this service scope (as library services do)
}

// splim is a per-peer limit of the host configuration: the resource manager applies it to EVERY
// peer separately ("protocol X, peer P" / "service S, peer P" sub-scopes). These sub-scopes are not
// reachable through the View API, so the limit is part of the configuration the host is built with
// and the scope is judged through admission alone.
type splim struct {
	Scope string `json:"scope"` // protocol | service
	Name  string `json:"name"`
	Lim   slim   `json:"lim"`
}

type sstep struct {
	Op string `json:"op"` // connect | disconnect | open | close | limit | collect | minute
	// connect / disconnect: A dials / closes the connection to B. open: A opens to B.
	// limit / collect: the host whose resource manager is addressed.
	A      int           `json:"a"`
	B      int           `json:"b"`
	Req    []protocol.ID `json:"req,omitempty"`
	Stream int           `json:"stream,omitempty"` // close: index of the open step that made the stream
	Side   string        `json:"side,omitempty"`   // close: opener | handler | both
	Scope  string        `json:"scope,omitempty"`  // limit: protocol | peer | service
	Name   string        `json:"name,omitempty"`   // limit: protocol ID | index of the peer host | service name
	Lim    *slim         `json:"lim,omitempty"`
	Burst  string        `json:"burst,omitempty"` // generator's note: the step belongs to a churn (open, close, open, close ...) or pile (open, open ...) run of one peer
}

func (s sstep) String() string {
	switch s.Op {
	case "connect", "disconnect":
		return fmt.Sprintf("%s(h%d,h%d)", s.Op, s.A, s.B)
	case "open":
		return fmt.Sprintf("open(h%d->h%d %v)", s.A, s.B, s.Req)
	case "close":
		return fmt.Sprintf("close(stream of step %d, %s)", s.Stream, s.Side)
	case "limit":
		return fmt.Sprintf("limit(h%d %s %s := %+v)", s.A, s.Scope, s.Name, *s.Lim)
	case "collect":
		return fmt.Sprintf("collect(h%d)", s.A)
	}
	return s.Op
}

type sscenario struct {
	Hosts  int      `json:"hosts"`
	Serves [][]sreg `json:"serves"` // per host: exact registrations, fixed for the case
	Conns  [][2]int `json:"conns"`  // initial connections (dialer, listener)
	// per host: per-peer protocol / service limits of its resource manager's configuration
	PeerLim [][]splim `json:"peer_lim,omitempty"`
	Steps   []sstep   `json:"steps"`
	Key     uint64    `json:"-"`
}

func (sc *sscenario) fingerprint() string {
	b, _ := json.Marshal(sc)
	return string(b)
}

// ---------------------------------------------------------------------------
// reference model: the harness' own list of open streams and the limits it has set

type sstream struct {
	id, a, b     int // id = index of the open step; a opened it to b
	proto        protocol.ID
	svc          string
	openA, openB bool
	limitedSince bool // a limit was set on a scope this stream is charged to while it was open
}

type skey struct {
	host       int
	kind, name string
}

func (k skey) String() string { return fmt.Sprintf("h%d %s scope %s", k.host, k.kind, k.name) }

type smodel struct {
	nh      int
	serves  []map[protocol.ID]string
	conn    map[[2]int]bool
	streams []*sstream
	limits  map[skey]slim
	// bookkeeping for labels and for the generator's biases only (the oracle never reads it)
	usedWith map[skey]map[int]bool // protocol / service scope -> peers that had a stream charged to it since it last was unused at a collection
	stale    map[skey]map[int]bool // ... -> peers whose own scope was collected meanwhile while this scope stayed in use
	gone     map[[2]int]bool       // (host, peer): the peer disconnected from the host and no collection ran at the host since
	pairUsed map[[2]int][]protocol.ID
	everConn map[[2]int]bool
	closed   map[skey]int // per-peer sub-scope -> streams charged to it that have ended since
}

// per-peer sub-scope of a protocol / service scope
func subKey(h int, kind, name string, p int) skey {
	return skey{h, kind + "-peer", name + " peer h" + strconv.Itoa(p)}
}
func (k skey) sub() bool { return strings.HasSuffix(k.kind, "-peer") }

func pk(a, b int) [2]int {
	if a > b {
		a, b = b, a
	}
	return [2]int{a, b}
}

func newSModel(sc *sscenario) *smodel {
	m := &smodel{nh: sc.Hosts, conn: map[[2]int]bool{}, limits: map[skey]slim{}, usedWith: map[skey]map[int]bool{}, stale: map[skey]map[int]bool{},
		gone: map[[2]int]bool{}, pairUsed: map[[2]int][]protocol.ID{}, everConn: map[[2]int]bool{}, closed: map[skey]int{}}
	for h, ls := range sc.PeerLim {
		for _, l := range ls {
			for p := 0; p < sc.Hosts; p++ {
				if p != h {
					m.limits[subKey(h, l.Scope, l.Name, p)] = l.Lim
				}
			}
		}
	}
	for _, regs := range sc.Serves {
		s := map[protocol.ID]string{}
		for _, r := range regs {
			s[r.Pid] = r.Svc
		}
		m.serves = append(m.serves, s)
	}
	return m
}

// scopesOf lists the scopes st is charged to on the given end (while that end is open).
func (st *sstream) scopesOf(opener bool) []skey {
	if opener {
		return []skey{{st.a, "protocol", string(st.proto)}, {st.a, "peer", strconv.Itoa(st.b)}, subKey(st.a, "protocol", string(st.proto), st.b)}
	}
	out := []skey{{st.b, "protocol", string(st.proto)}, {st.b, "peer", strconv.Itoa(st.a)}, subKey(st.b, "protocol", string(st.proto), st.a)}
	if st.svc != "" {
		out = append(out, skey{st.b, "service", st.svc}, subKey(st.b, "service", st.svc, st.a))
	}
	return out
}

func (m *smodel) count(k skey) (in, out int) {
	for _, st := range m.streams {
		if st.openA {
			for _, x := range st.scopesOf(true) {
				if x == k {
					out++
				}
			}
		}
		if st.openB {
			for _, x := range st.scopesOf(false) {
				if x == k {
					in++
				}
			}
		}
	}
	return
}

// admits: does the limit the harness has set on k (none = unlimited) admit one more stream?
func (m *smodel) admits(k skey, inbound bool) bool {
	l, ok := m.limits[k]
	if !ok {
		return true
	}
	in, out := m.count(k)
	if l.Total >= 0 && in+out+1 > l.Total {
		return false
	}
	if inbound {
		return l.In < 0 || in+1 <= l.In
	}
	return l.Out < 0 || out+1 <= l.Out
}

// spred: what the statement (plus the limits the harness set) says about an open.
type spred struct {
	P   protocol.ID // the one protocol common to the request and the responder's handlers ("" = none)
	svc string
	// refusals that apply
	noCommon, openerPeer, openerProto, respPeer, respProto, service bool
	// the per-peer part of the protocol / service scope (configured per-peer limits)
	openerProtoPeer, respProtoPeer, servicePeer bool
}

func (p spred) ok() bool {
	return !(p.noCommon || p.openerPeer || p.openerProto || p.respPeer || p.respProto || p.service || p.openerProtoPeer || p.respProtoPeer || p.servicePeer)
}

// the opener's own scopes are consulted before NewStream returns
func (p spred) mustFailAtNewStream() bool { return p.openerPeer || p.openerProto || p.openerProtoPeer }
func (p spred) handlerMustNotRun() bool {
	return p.noCommon || p.openerPeer || p.respPeer || p.respProto || p.respProtoPeer
}

// the opener's protocol scope may be consulted after the responder has dispatched the stream (the
// statement is silent about a handler that runs on a stream its opener gives up at once)
func (p spred) handlerMayRun() bool {
	return !p.handlerMustNotRun() && (p.openerProto || p.openerProtoPeer)
}
func (p spred) handlerMustRun() bool {
	return !p.handlerMustNotRun() && !p.openerProto && !p.openerProtoPeer
}
func (p spred) String() string {
	var s []string
	for _, x := range []struct {
		b bool
		n string
	}{{p.noCommon, "no common protocol"}, {p.openerPeer, "opener's peer scope is full"}, {p.openerProto, "opener's protocol scope is full"},
		{p.respPeer, "responder's peer scope is full"}, {p.respProto, "responder's protocol scope is full"}, {p.service, "responder's service scope is full"},
		{p.openerProtoPeer, "opener's per-peer limit of the protocol is reached for the responder"}, {p.respProtoPeer, "responder's per-peer limit of the protocol is reached for the opener"},
		{p.servicePeer, "responder's per-peer limit of the service is reached for the opener"}} {
		if x.b {
			s = append(s, x.n)
		}
	}
	if len(s) == 0 {
		return fmt.Sprintf("must succeed on %q", p.P)
	}
	return fmt.Sprintf("must fail (%s)", strings.Join(s, ", "))
}

func (m *smodel) common(b int, req []protocol.ID) []protocol.ID {
	var out []protocol.ID
	for _, id := range req {
		if _, ok := m.serves[b][id]; ok {
			out = append(out, id)
		}
	}
	return out
}

func (m *smodel) predict(a, b int, req []protocol.ID) spred {
	var p spred
	p.openerPeer = !m.admits(skey{a, "peer", strconv.Itoa(b)}, false)
	p.respPeer = !m.admits(skey{b, "peer", strconv.Itoa(a)}, true)
	c := m.common(b, req)
	if len(c) == 0 {
		p.noCommon = true
		return p
	}
	p.P, p.svc = c[0], m.serves[b][c[0]]
	p.openerProto = !m.admits(skey{a, "protocol", string(p.P)}, false)
	p.respProto = !m.admits(skey{b, "protocol", string(p.P)}, true)
	p.openerProtoPeer = !m.admits(subKey(a, "protocol", string(p.P), b), false)
	p.respProtoPeer = !m.admits(subKey(b, "protocol", string(p.P), a), true)
	if p.svc != "" {
		p.service = !m.admits(skey{b, "service", p.svc}, true)
		p.servicePeer = !m.admits(subKey(b, "service", p.svc, a), true)
	}
	return p
}

// staleFor: would this open be the first use of a protocol / service scope by a peer whose own
// scope was collected while that scope stayed in use? (label / bias only)
func (m *smodel) staleFor(a, b int, p spred) bool {
	if p.P == "" {
		return false
	}
	return m.stale[skey{a, "protocol", string(p.P)}][b] || m.stale[skey{b, "protocol", string(p.P)}][a] || (p.svc != "" && m.stale[skey{b, "service", p.svc}][a])
}

func (m *smodel) mark(set map[skey]map[int]bool, k skey, p int) {
	if set[k] == nil {
		set[k] = map[int]bool{}
	}
	set[k][p] = true
}

// apply advances the model by one step; pred is the prediction for an open step.
func (m *smodel) apply(i int, s sstep, pred spred) {
	switch s.Op {
	case "connect":
		m.conn[pk(s.A, s.B)] = true
		m.everConn[pk(s.A, s.B)] = true
	case "disconnect":
		m.conn[pk(s.A, s.B)] = false
		m.gone[[2]int{s.A, s.B}], m.gone[[2]int{s.B, s.A}] = true, true
		var keep []*sstream
		for _, st := range m.streams {
			if pk(st.a, st.b) != pk(s.A, s.B) {
				keep = append(keep, st)
			}
		}
		m.streams = keep
	case "open":
		if !pred.ok() {
			return
		}
		st := &sstream{id: i, a: s.A, b: s.B, proto: pred.P, svc: pred.svc, openA: true, openB: true}
		m.streams = append(m.streams, st)
		for _, k := range st.scopesOf(true) {
			if !k.sub() {
				m.mark(m.usedWith, k, s.B)
				delete(m.stale[k], s.B)
			}
		}
		for _, k := range st.scopesOf(false) {
			if !k.sub() {
				m.mark(m.usedWith, k, s.A)
				delete(m.stale[k], s.A)
			}
		}
		if !containsID(m.pairUsed[pk(s.A, s.B)], pred.P) {
			m.pairUsed[pk(s.A, s.B)] = append(m.pairUsed[pk(s.A, s.B)], pred.P)
		}
	case "close":
		var keep []*sstream
		for _, st := range m.streams {
			if st.id == s.Stream {
				if s.Side != "handler" && st.openA {
					st.openA = false
					for _, k := range st.scopesOf(true) {
						if k.sub() {
							m.closed[k]++
						}
					}
				}
				if s.Side != "opener" && st.openB {
					st.openB = false
					for _, k := range st.scopesOf(false) {
						if k.sub() {
							m.closed[k]++
						}
					}
				}
			}
			if st.openA || st.openB {
				keep = append(keep, st)
			}
		}
		m.streams = keep
	case "limit":
		k := skey{s.A, s.Scope, s.Name}
		m.limits[k] = *s.Lim
		for _, st := range m.streams {
			for _, side := range []bool{true, false} {
				if (side && !st.openA) || (!side && !st.openB) {
					continue
				}
				for _, x := range st.scopesOf(side) {
					if x == k {
						st.limitedSince = true
					}
				}
			}
		}
	case "collect":
		m.collect(s.A)
	case "minute":
		for h := 0; h < m.nh; h++ {
			m.collect(h)
		}
	}
}

// collect: bookkeeping of what a collection pass at h can have dropped, from the documented
// behaviour (unused peer and protocol scopes are dropped; scopes with an explicit limit and
// service scopes are kept). Nothing the oracle uses changes.
func (m *smodel) collect(h int) {
	var dead []int
	for p := 0; p < m.nh; p++ {
		if p == h {
			continue
		}
		delete(m.gone, [2]int{h, p})
		_, sticky := m.limits[skey{h, "peer", strconv.Itoa(p)}]
		if !m.conn[pk(h, p)] && !sticky {
			dead = append(dead, p)
		}
	}
	keys := map[skey]bool{}
	for k := range m.usedWith {
		keys[k] = true
	}
	for k := range keys {
		if k.host != h {
			continue
		}
		in, out := m.count(k)
		_, sticky := m.limits[k]
		if in+out > 0 || sticky || k.kind == "service" {
			for _, p := range dead {
				if m.usedWith[k][p] {
					m.mark(m.stale, k, p)
				}
			}
		} else {
			delete(m.usedWith, k)
			delete(m.stale, k)
		}
	}
}

func containsID(l []protocol.ID, id protocol.ID) bool { return contains(l, id) }

// ---------------------------------------------------------------------------
// generator: the model runs along, so every step is constructed for the state it meets

func drawLimit(rt *rapid.T, in, out int) *slim {
	d := func() int { return rapid.SampledFrom([]int{-1, 0, 0, 1, 1, 2}).Draw(rt, "lim-delta") }
	l := &slim{Total: -1, In: -1, Out: -1}
	switch rapid.IntRange(0, 6).Draw(rt, "lim-shape") {
	case 0: // the limit is lifted
	case 1, 2:
		l.Total = max(0, in+out+d())
	case 3:
		l.In = max(0, in+d())
	case 4:
		l.Out = max(0, out+d())
	case 5:
		l.Total, l.In, l.Out = max(0, in+out+d()), max(0, in+d()), max(0, out+d())
	default:
		l.In, l.Out = max(0, in+d()), max(0, out+d())
	}
	return l
}

// drawPeerLimit: a per-peer limit of the configuration, 1..3 streams in total and / or by direction.
func drawPeerLimit(rt *rapid.T) slim {
	n := func() int { return rapid.IntRange(1, 3).Draw(rt, "pp-n") }
	l := slim{Total: -1, In: -1, Out: -1}
	switch rapid.IntRange(0, 4).Draw(rt, "pp-shape") {
	case 0, 1:
		l.Total = n()
	case 2:
		l.In = n()
	case 3:
		l.In, l.Out = n(), n()
	default:
		l.Total, l.In = n(), n()
	}
	return l
}

// perPeerCap: the smallest per-peer limit value that applies to streams of P opened by a to b (99 = none).
func (m *smodel) perPeerCap(a, b int, P protocol.ID) int {
	c := 99
	f := func(k skey, inbound bool) {
		if l, ok := m.limits[k]; ok {
			for _, v := range []int{l.Total, map[bool]int{true: l.In, false: l.Out}[inbound]} {
				if v >= 0 {
					c = min(c, v)
				}
			}
		}
	}
	f(subKey(a, "protocol", string(P), b), false)
	f(subKey(b, "protocol", string(P), a), true)
	if svc := m.serves[b][P]; svc != "" {
		f(subKey(b, "service", svc, a), true)
	}
	return c
}

func drawScopeScenario(rt *rapid.T) *sscenario {
	sc := &sscenario{Key: rapid.Uint64().Draw(rt, "key")}
	sc.Hosts = rapid.SampledFrom([]int{2, 3, 3, 3, 4}).Draw(rt, "hosts")
	nh := sc.Hosts
	// hot spot: one host and one protocol draw most of the traffic, so that histories revisit
	// the same scopes (limits, collections and reconnects meet streams that are there)
	focusH := rapid.IntRange(0, nh-1).Draw(rt, "focus-host")
	focusP := rapid.SampledFrom(scopeProtos).Draw(rt, "focus-proto")
	for h := 0; h < nh; h++ {
		var regs []sreg
		for _, p := range scopeProtos {
			if (h == focusH && p == focusP) || rapid.IntRange(0, 2).Draw(rt, "serves") > 0 {
				r := sreg{Pid: p}
				if rapid.IntRange(0, 2).Draw(rt, "has-svc") == 0 {
					r.Svc = rapid.SampledFrom(scopeSvcs).Draw(rt, "svc")
				}
				regs = append(regs, r)
			}
		}
		sc.Serves = append(sc.Serves, regs)
	}
	// per-peer limits of the hosts' configurations (two cases in three): small values, so that one
	// peer reaches its share of a protocol / service within a few opens
	sc.PeerLim = make([][]splim, nh)
	if rapid.IntRange(0, 2).Draw(rt, "per-peer-limits") > 0 {
		for h := 0; h < nh; h++ {
			for _, p := range scopeProtos {
				if (h == focusH && p == focusP && rapid.IntRange(0, 3).Draw(rt, "pp-focus") > 0) || rapid.IntRange(0, 3).Draw(rt, "pp-proto") == 0 {
					sc.PeerLim[h] = append(sc.PeerLim[h], splim{Scope: "protocol", Name: string(p), Lim: drawPeerLimit(rt)})
				}
			}
			for _, v := range scopeSvcs {
				if rapid.IntRange(0, 3).Draw(rt, "pp-svc") == 0 {
					sc.PeerLim[h] = append(sc.PeerLim[h], splim{Scope: "service", Name: v, Lim: drawPeerLimit(rt)})
				}
			}
		}
	}
	m := newSModel(sc)
	for a := 0; a < nh; a++ {
		for b := a + 1; b < nh; b++ {
			if rapid.IntRange(0, 3).Draw(rt, "connected") > 0 {
				c := [2]int{a, b}
				if rapid.Bool().Draw(rt, "dial-dir") {
					c = [2]int{b, a}
				}
				sc.Conns = append(sc.Conns, c)
				m.apply(-1, sstep{Op: "connect", A: c[0], B: c[1]}, spred{})
			}
		}
	}
	pickHost := func(label string) int {
		if rapid.IntRange(0, 2).Draw(rt, label+"-focus") > 0 {
			return focusH
		}
		return rapid.IntRange(0, nh-1).Draw(rt, label)
	}
	pairs := func(connected bool) (all, hot [][2]int) {
		for a := 0; a < nh; a++ {
			for b := a + 1; b < nh; b++ {
				if m.conn[pk(a, b)] == connected {
					all = append(all, [2]int{a, b})
					if a == focusH || b == focusH {
						hot = append(hot, [2]int{a, b})
					}
				}
			}
		}
		return
	}
	pickPair := func(connected bool, label string) [2]int {
		all, hot := pairs(connected)
		if len(hot) > 0 && rapid.IntRange(0, 2).Draw(rt, label+"-focus") > 0 {
			return rapid.SampledFrom(hot).Draw(rt, label+"-hot")
		}
		return rapid.SampledFrom(all).Draw(rt, label)
	}
	var last sstep
	bursts := 0
	for i, n := 0, rapid.IntRange(4, 16).Draw(rt, "nsteps"); i < n; i++ {
		conn, _ := pairs(true)
		disc, _ := pairs(false)
		type cand struct {
			op string
			w  int
		}
		// weights follow what applications do: a fresh connection is used, a peer that left stays
		// away for a while (a collection pass runs meanwhile) and then comes back
		var cands []cand
		if len(conn) > 0 {
			ow := 6
			if last.Op == "connect" {
				ow = 14
			}
			cands = append(cands, cand{"open", ow}, cand{"disconnect", 2})
		}
		if len(disc) > 0 {
			w := 3
			if last.Op == "collect" || last.Op == "minute" {
				w = 10
			}
			cands = append(cands, cand{"connect", w})
		}
		if len(m.streams) > 0 {
			cands = append(cands, cand{"close", 2})
		}
		cw := 2
		if len(m.gone) > 0 {
			cw = 5
			if last.Op == "disconnect" {
				cw = 12
			}
		}
		cands = append(cands, cand{"limit", 3}, cand{"collect", cw}, cand{"minute", 1})
		if len(conn) > 0 && bursts < 2 {
			// one peer opens (and closes) streams of one protocol over and over (at most two such runs
			// per case, on top of the 4..16 steps); more often when the configuration has per-peer
			// limits such a peer can run into
			bw := 1
			for _, ls := range sc.PeerLim {
				if len(ls) > 0 {
					bw = 5
				}
			}
			cands = append(cands, cand{"burst", bw})
		}
		total := 0
		for _, c := range cands {
			total += c.w
		}
		x := rapid.IntRange(0, total-1).Draw(rt, "step")
		op := ""
		for _, c := range cands {
			if x < c.w {
				op = c.op
				break
			}
			x -= c.w
		}
		s := sstep{Op: op}
		var pred spred
		switch op {
		case "connect":
			// a pair that was connected before comes back (2/3) rather than a pair that never met
			var back [][2]int
			for _, p := range disc {
				if m.everConn[p] {
					back = append(back, p)
				}
			}
			p := [2]int{}
			if len(back) > 0 && rapid.IntRange(0, 2).Draw(rt, "reconnect") > 0 {
				p = rapid.SampledFrom(back).Draw(rt, "pair-back")
			} else {
				p = pickPair(false, "pair")
			}
			s.A, s.B = p[0], p[1]
			if rapid.Bool().Draw(rt, "dial-dir") {
				s.A, s.B = s.B, s.A
			}
		case "disconnect":
			p := pickPair(true, "pair")
			s.A, s.B = p[0], p[1]
			if rapid.Bool().Draw(rt, "close-dir") {
				s.A, s.B = s.B, s.A
			}
		case "open":
			var p [2]int
			if last.Op == "connect" && rapid.IntRange(0, 3).Draw(rt, "use-new-conn") > 0 {
				p = pk(last.A, last.B) // connect, then use the connection
			} else {
				p = pickPair(true, "pair")
			}
			s.A, s.B = p[0], p[1]
			switch {
			case s.A == focusH && rapid.IntRange(0, 2).Draw(rt, "to-focus") > 0:
				s.A, s.B = s.B, s.A
			case s.B == focusH && rapid.IntRange(0, 2).Draw(rt, "to-focus") > 0:
			case rapid.Bool().Draw(rt, "open-dir"):
				s.A, s.B = s.B, s.A
			}
			var served, unserved []protocol.ID
			for _, id := range scopeProtos {
				if _, ok := m.serves[s.B][id]; ok {
					served = append(served, id)
				} else {
					unserved = append(unserved, id)
				}
			}
			unserved = append(unserved, scopeNever)
			var again []protocol.ID // what this pair used before and the responder serves
			for _, id := range m.pairUsed[pk(s.A, s.B)] {
				if _, ok := m.serves[s.B][id]; ok {
					again = append(again, id)
				}
			}
			_, focusServed := m.serves[s.B][focusP]
			var main protocol.ID
			switch c := rapid.IntRange(0, 11).Draw(rt, "reqclass"); {
			case c <= 3 && len(again) > 0:
				main = rapid.SampledFrom(again).Draw(rt, "req-again")
			case c <= 7 && focusServed:
				main = focusP
			case c <= 10 && len(served) > 0:
				main = rapid.SampledFrom(served).Draw(rt, "req-served")
			default:
				main = rapid.SampledFrom(unserved).Draw(rt, "req-unserved")
			}
			s.Req = []protocol.ID{main}
			if rapid.IntRange(0, 3).Draw(rt, "req-second") == 0 {
				var other []protocol.ID
				for _, id := range unserved {
					if id != main {
						other = append(other, id)
					}
				}
				if len(other) > 0 {
					o := rapid.SampledFrom(other).Draw(rt, "req-other")
					if rapid.Bool().Draw(rt, "other-first") {
						s.Req = []protocol.ID{o, main}
					} else {
						s.Req = []protocol.ID{main, o}
					}
				}
			}
			pred = m.predict(s.A, s.B, s.Req)
		case "burst":
			// candidates: (opener, responder, protocol the responder serves) over connected pairs;
			// those a per-peer limit applies to are preferred (3/4)
			type bc struct {
				a, b int
				p    protocol.ID
			}
			var all, capped []bc
			for _, pr := range conn {
				for _, d := range [][2]int{{pr[0], pr[1]}, {pr[1], pr[0]}} {
					for _, id := range scopeProtos {
						if _, ok := m.serves[d[1]][id]; ok {
							all = append(all, bc{d[0], d[1], id})
							if m.perPeerCap(d[0], d[1], id) < 99 {
								capped = append(capped, bc{d[0], d[1], id})
							}
						}
					}
				}
			}
			bursts++
			i--
			if len(all) == 0 {
				continue
			}
			var c bc
			if len(capped) > 0 && rapid.IntRange(0, 3).Draw(rt, "burst-capped") > 0 {
				c = rapid.SampledFrom(capped).Draw(rt, "burst-target")
			} else {
				c = rapid.SampledFrom(all).Draw(rt, "burst-any")
			}
			n := m.perPeerCap(c.a, c.b, c.p)
			if n == 99 {
				n = rapid.IntRange(1, 3).Draw(rt, "burst-n")
			}
			kind := rapid.SampledFrom([]string{"churn", "churn", "pile"}).Draw(rt, "burst-kind")
			n += rapid.IntRange(0, 1).Draw(rt, "burst-extra") // churn: as many rounds as the cap, or one more; pile: up to the cap, or beyond
			if kind == "pile" {
				n++
			}
			for j := 0; j < n; j++ {
				o := sstep{Op: "open", A: c.a, B: c.b, Req: []protocol.ID{c.p}, Burst: kind}
				pr := m.predict(o.A, o.B, o.Req)
				id := len(sc.Steps)
				m.apply(id, o, pr)
				sc.Steps = append(sc.Steps, o)
				last = o
				if kind == "churn" && pr.ok() {
					cl := sstep{Op: "close", Stream: id, Burst: kind, Side: rapid.SampledFrom([]string{"both", "both", "both", "both", "opener", "handler"}).Draw(rt, "burst-side")}
					m.apply(len(sc.Steps), cl, spred{})
					sc.Steps = append(sc.Steps, cl)
					last = cl
				}
			}
			continue
		case "close":
			st := m.streams[rapid.IntRange(0, len(m.streams)-1).Draw(rt, "stream")]
			s.Stream = st.id
			switch {
			case !st.openA:
				s.Side = "handler"
			case !st.openB:
				s.Side = "opener"
			default:
				s.Side = rapid.SampledFrom([]string{"both", "both", "opener", "handler"}).Draw(rt, "side")
			}
		case "limit":
			s.A = pickHost("host")
			switch c := rapid.IntRange(0, 5).Draw(rt, "scope"); {
			case c <= 2:
				s.Scope = "protocol"
				if rapid.IntRange(0, 2).Draw(rt, "proto-focus") > 0 {
					s.Name = string(focusP)
				} else {
					s.Name = string(rapid.SampledFrom(scopeProtos).Draw(rt, "proto"))
				}
			case c <= 4:
				s.Scope = "peer"
				p := rapid.IntRange(0, nh-2).Draw(rt, "peer")
				if p >= s.A {
					p++
				}
				s.Name = strconv.Itoa(p)
			default:
				s.Scope, s.Name = "service", rapid.SampledFrom(scopeSvcs).Draw(rt, "svc")
			}
			in, out := m.count(skey{s.A, s.Scope, s.Name})
			s.Lim = drawLimit(rt, in, out)
		case "collect":
			var hs []int // hosts a peer has left since their last collection
			for h := 0; h < nh; h++ {
				for p := 0; p < nh; p++ {
					if m.gone[[2]int{h, p}] {
						hs = append(hs, h)
						break
					}
				}
			}
			if len(hs) > 0 && rapid.IntRange(0, 3).Draw(rt, "collect-left") > 0 {
				s.A = rapid.SampledFrom(hs).Draw(rt, "host-left")
			} else {
				s.A = pickHost("host")
			}
		}
		m.apply(len(sc.Steps), s, pred)
		sc.Steps = append(sc.Steps, s)
		last = s
	}
	return sc
}

// ---------------------------------------------------------------------------
// handler side

type sinv struct {
	serial int
	reg    sreg
	proto  protocol.ID
	remote peer.ID
	svcErr error
	got    bool
	nonce  uint64
}

type shost struct {
	n     *node
	mu    sync.Mutex
	inv   []*sinv
	next  int
	gates map[uint64]chan struct{} // nonce -> gate of the handler that holds that stream
}

func (h *shost) take() []*sinv {
	h.mu.Lock()
	defer h.mu.Unlock()
	out := h.inv
	h.inv = nil
	return out
}

// release lets the handler holding the stream with that nonce close it.
func (h *shost) release(nonce uint64) {
	h.mu.Lock()
	defer h.mu.Unlock()
	if g, ok := h.gates[nonce]; ok {
		close(g)
		delete(h.gates, nonce)
	}
}

func (h *shost) releaseAll() {
	h.mu.Lock()
	defer h.mu.Unlock()
	for k, g := range h.gates {
		close(g)
		delete(h.gates, k)
	}
}

// handler of registration r: records that it ran, attaches the stream to r's service (if any;
// a refusal is recorded and ends the stream, as the library's own services do), reads the
// request, answers with who it is and what it read, and then HOLDS the stream open until the
// harness releases it.
func (h *shost) handler(r sreg) network.StreamHandler {
	return func(s network.Stream) {
		inv := &sinv{reg: r, proto: s.Protocol(), remote: s.Conn().RemotePeer()}
		h.mu.Lock()
		inv.serial = h.next
		h.next++
		h.inv = append(h.inv, inv)
		h.mu.Unlock()
		if r.Svc != "" {
			if err := s.Scope().SetService(r.Svc); err != nil {
				h.mu.Lock()
				inv.svcErr = err
				h.mu.Unlock()
				s.Reset()
				return
			}
		}
		s.SetReadDeadline(time.Now().Add(20 * time.Second))
		buf := make([]byte, payloadLen)
		if err := readFull(s, buf); err != nil {
			s.Reset()
			return
		}
		s.SetReadDeadline(time.Time{})
		nonce := binary.BigEndian.Uint64(buf[1:])
		gate := make(chan struct{})
		h.mu.Lock()
		inv.got, inv.nonce = true, nonce
		h.gates[nonce] = gate
		h.mu.Unlock()
		err := writeMsg(s, reply{Reg: -1, Proto: string(s.Protocol()), Inv: inv.serial,
			Remote: s.Conn().RemotePeer().String(), Local: s.Conn().LocalPeer().String(), Dir: int(s.Stat().Direction)})
		if err == nil {
			err = writeMsg(s, echo{Inv: inv.serial, N: payloadLen, Nonce: nonce})
		}
		if err != nil {
			s.Reset()
			return
		}
		<-gate
		s.Close()
	}
}

// ---------------------------------------------------------------------------
// running a scenario

type sopen struct {
	s     network.Stream
	nonce uint64
}

func runScopes(f failer, sc *sscenario) *outcome {
	oc := &outcome{labels: map[string]bool{}}
	lab := func(s string) { oc.labels[s] = true }
	w := newWorld(false)
	defer w.closePipes()
	hosts := make([]*shost, sc.Hosts)
	for i := range hosts {
		limits := rcmgr.InfiniteLimits
		if i < len(sc.PeerLim) && len(sc.PeerLim[i]) > 0 {
			// the documented way to configure limits: a partial configuration over the defaults
			val := func(x int) rcmgr.LimitVal {
				if x < 0 {
					return rcmgr.Unlimited
				}
				if x == 0 {
					return rcmgr.BlockAllLimit
				}
				return rcmgr.LimitVal(x)
			}
			part := rcmgr.PartialLimitConfig{ProtocolPeer: map[protocol.ID]rcmgr.ResourceLimits{}, ServicePeer: map[string]rcmgr.ResourceLimits{}}
			for _, l := range sc.PeerLim[i] {
				rl := rcmgr.ResourceLimits{Streams: val(l.Lim.Total), StreamsInbound: val(l.Lim.In), StreamsOutbound: val(l.Lim.Out)}
				if l.Scope == "protocol" {
					part.ProtocolPeer[protocol.ID(l.Name)] = rl
					lab("config:per-peer-protocol-limit")
				} else {
					part.ServicePeer[l.Name] = rl
					lab("config:per-peer-service-limit")
				}
			}
			limits = part.Build(rcmgr.InfiniteLimits)
		}
		n, err := newNodeLimits(w, "basic", keys.Ed(81+i), fmt.Sprintf("10.7.1.%d", i+1), true, limits)
		if err != nil {
			f.Fatalf("harness: host %d: %v", i, err)
		}
		defer n.Close()
		hosts[i] = &shost{n: n, gates: map[uint64]chan struct{}{}}
		for _, r := range sc.Serves[i] {
			n.SetStreamHandler(r.Pid, hosts[i].handler(r))
		}
	}
	for _, h := range hosts {
		defer h.releaseAll() // before the hosts are closed, also on failure
	}
	idx := map[peer.ID]int{}
	for i, h := range hosts {
		idx[h.n.ID()] = i
	}
	m := newSModel(sc)
	var hist []string
	history := func() string { return strings.Join(hist, "; ") }
	lab(fmt.Sprintf("hosts:%d", sc.Hosts))

	connect := func(a, b int) {
		A, B := hosts[a].n, hosts[b].n
		ctx, cancel := context.WithTimeout(context.Background(), time.Minute)
		err := A.Connect(ctx, peer.AddrInfo{ID: B.ID(), Addrs: B.Addrs()})
		cancel()
		if err != nil {
			f.Fatalf("harness: connect h%d->h%d over a faithful pipe failed: %v; history: %s", a, b, err, history())
		}
		synctest.Wait()
		if x, y := len(A.Network().ConnsToPeer(B.ID())), len(B.Network().ConnsToPeer(A.ID())); x != 1 || y != 1 {
			f.Fatalf("harness: after connect h%d->h%d: %d / %d connections; history: %s", a, b, x, y, history())
		}
	}
	stat := func(h int, k skey) network.ScopeStat {
		var st network.ScopeStat
		var err error
		rm := hosts[h].n.rm
		switch k.kind {
		case "protocol":
			err = rm.ViewProtocol(protocol.ID(k.name), func(s network.ProtocolScope) error { st = s.Stat(); return nil })
		case "peer":
			p, _ := strconv.Atoi(k.name)
			err = rm.ViewPeer(hosts[p].n.ID(), func(s network.PeerScope) error { st = s.Stat(); return nil })
		case "service":
			err = rm.ViewService(k.name, func(s network.ServiceScope) error { st = s.Stat(); return nil })
		}
		if err != nil {
			f.Fatalf("harness: view %s: %v", k, err)
		}
		return st
	}
	allKeys := func(h int) []skey {
		var ks []skey
		for _, id := range scopeProtos {
			ks = append(ks, skey{h, "protocol", string(id)})
		}
		ks = append(ks, skey{h, "protocol", string(scopeNever)})
		for p := 0; p < sc.Hosts; p++ {
			if p != h {
				ks = append(ks, skey{h, "peer", strconv.Itoa(p)})
			}
		}
		for _, s := range scopeSvcs {
			ks = append(ks, skey{h, "service", s})
		}
		return ks
	}
	// audit: rule (1) of the file comment
	audit := func(after string) {
		for h := range hosts {
			for _, k := range allKeys(h) {
				st := stat(h, k)
				in, out := m.count(k)
				if st.NumStreamsInbound != in || st.NumStreamsOutbound != out {
					var open []string
					for _, s := range m.streams {
						open = append(open, fmt.Sprintf("step %d h%d->h%d %s svc=%q open on opener=%v on responder=%v", s.id, s.a, s.b, s.proto, s.svc, s.openA, s.openB))
					}
					f.Fatalf("after %s: %s counts %d inbound / %d outbound streams, but %d inbound / %d outbound streams charged to it are open on that host "+
						"(streams the harness holds open: %v); history: %s", after, k, st.NumStreamsInbound, st.NumStreamsOutbound, in, out, open, history())
				}
			}
		}
	}

	for _, c := range sc.Conns {
		connect(c[0], c[1])
		m.apply(-1, sstep{Op: "connect", A: c[0], B: c[1]}, spred{})
	}
	synctest.Wait()
	audit("the initial connects")

	opens := map[int]*sopen{} // step index -> the opener's end
	for i, s := range sc.Steps {
		var pred spred
		switch s.Op {
		case "connect":
			if m.conn[pk(s.A, s.B)] {
				f.Fatalf("harness: step %d %s: already connected", i, s)
			}
			if m.everConn[pk(s.A, s.B)] {
				lab("reconnect")
			}
			connect(s.A, s.B)
		case "disconnect":
			if !m.conn[pk(s.A, s.B)] {
				f.Fatalf("harness: step %d %s: not connected", i, s)
			}
			for _, st := range m.streams {
				if pk(st.a, st.b) == pk(s.A, s.B) {
					lab("disconnect:with-open-streams")
				}
			}
			if err := hosts[s.A].n.Network().ClosePeer(hosts[s.B].n.ID()); err != nil {
				f.Fatalf("harness: step %d %s: %v", i, s, err)
			}
			synctest.Wait()
			if x, y := len(hosts[s.A].n.Network().ConnsToPeer(hosts[s.B].n.ID())), len(hosts[s.B].n.Network().ConnsToPeer(hosts[s.A].n.ID())); x != 0 || y != 0 {
				f.Fatalf("harness: step %d %s: %d / %d connections remain", i, s, x, y)
			}
			for _, st := range m.streams { // the handlers of the streams that died with the connection may go home
				if pk(st.a, st.b) == pk(s.A, s.B) {
					hosts[st.b].release(opens[st.id].nonce)
				}
			}
		case "limit":
			k := skey{s.A, s.Scope, s.Name}
			in, out := m.count(k)
			lab("limit:" + s.Scope)
			switch {
			case !s.Lim.finite():
				lab("limit:lifted-or-unlimited")
			case in+out > 0:
				oc.nontrivial = true
				lab("limit:set-while-streams-charged-to-the-scope-are-open")
				lab("limit:set-while-streams-charged-to-the-scope-are-open:" + s.Scope)
				if (s.Lim.Total >= 0 && s.Lim.Total < in+out) || (s.Lim.In >= 0 && s.Lim.In < in) || (s.Lim.Out >= 0 && s.Lim.Out < out) {
					lab("limit:below-current-usage")
				}
			default:
				lab("limit:set-on-an-idle-scope")
			}
			if _, ok := m.limits[k]; ok {
				lab("limit:changed-again")
			}
			set := func(sc network.ResourceScope) error {
				l, ok := sc.(rcmgr.ResourceScopeLimiter)
				if !ok {
					return fmt.Errorf("%T is not a ResourceScopeLimiter", sc)
				}
				l.SetLimit(s.Lim.limit())
				return nil
			}
			var err error
			rm := hosts[s.A].n.rm
			switch s.Scope {
			case "protocol":
				err = rm.ViewProtocol(protocol.ID(s.Name), func(x network.ProtocolScope) error { return set(x) })
			case "peer":
				p, _ := strconv.Atoi(s.Name)
				err = rm.ViewPeer(hosts[p].n.ID(), func(x network.PeerScope) error { return set(x) })
			case "service":
				err = rm.ViewService(s.Name, func(x network.ServiceScope) error { return set(x) })
			}
			if err != nil {
				f.Fatalf("harness: step %d %s: %v", i, s, err)
			}
		case "collect", "minute":
			var at []int
			if s.Op == "collect" {
				at = []int{s.A}
				lab("collect:on-demand")
				if !rcmgr.VerifGC(hosts[s.A].n.rm) {
					f.Fatalf("harness: step %d: not the resource manager of package rcmgr", i)
				}
			} else {
				for h := range hosts {
					at = append(at, h)
				}
				lab("collect:a-minute-passes")
				time.Sleep(61 * time.Second)
			}
			for _, h := range at {
				for p := 0; p < sc.Hosts; p++ {
					if p != h && !m.conn[pk(h, p)] && m.everConn[pk(h, p)] {
						lab("collect:while-a-former-peer-is-away")
					}
				}
				if len(m.streams) > 0 {
					lab("collect:while-streams-are-open")
				}
			}
		case "close":
			var st *sstream
			for _, x := range m.streams {
				if x.id == s.Stream {
					st = x
				}
			}
			if st == nil || (s.Side != "handler" && !st.openA) || (s.Side != "opener" && !st.openB) {
				f.Fatalf("harness: step %d %s: no such open end", i, s)
			}
			lab("close:" + s.Side)
			if st.limitedSince {
				lab("close:stream-older-than-a-limit-change-of-its-scope")
				for _, y := range m.streams {
					if y.id > st.id && y.proto == st.proto && !y.limitedSince {
						lab("close:stream-older-than-a-limit-change-of-its-scope:while-a-newer-stream-of-the-protocol-is-open")
					}
				}
			}
			if s.Side != "handler" {
				if err := opens[st.id].s.Close(); err != nil {
					f.Fatalf("step %d %s: closing a healthy stream failed: %v; history: %s", i, s, err, history())
				}
			}
			if s.Side != "opener" {
				hosts[st.b].release(opens[st.id].nonce)
			}
		case "open":
			if !m.conn[pk(s.A, s.B)] {
				f.Fatalf("harness: step %d %s: not connected", i, s)
			}
			if len(m.common(s.B, s.Req)) > 1 {
				f.Fatalf("harness: step %d %s: more than one common protocol", i, s)
			}
			pred = m.predict(s.A, s.B, s.Req)
			stale := m.staleFor(s.A, s.B, pred)
			A, B := hosts[s.A], hosts[s.B]
			nonce := mix(sc.Key + uint64(i))
			what := fmt.Sprintf("step %d %s, which %s", i, s, pred)
			ctx, cancel := context.WithTimeout(context.Background(), 30*time.Second)
			str, err := A.n.NewStream(ctx, B.n.ID(), private(s.Req)...)
			cancel()
			var useErr error
			var rep reply
			var ech echo
			var P protocol.ID
			lazy := false
			if err == nil {
				P = str.Protocol()
				lazy = strings.Contains(fmt.Sprintf("%T", str), "streamWrapper")
				str.SetDeadline(time.Now().Add(20 * time.Second))
				if _, useErr = str.Write(payload(nonce)); useErr == nil {
					if useErr = readMsg(str, &rep); useErr == nil {
						useErr = readMsg(str, &ech)
					}
				}
				if useErr != nil {
					str.Reset()
				} else {
					str.SetDeadline(time.Time{})
				}
			}
			synctest.Wait()
			invs := B.take()
			for h, o := range hosts {
				if h != s.B {
					if x := o.take(); len(x) > 0 {
						f.Fatalf("%s: an application handler ran on h%d (registration %q, stream protocol %q), a host the stream was not opened to; history: %s", what, h, x[0].reg.Pid, x[0].proto, history())
					}
				}
			}
			for _, inv := range invs {
				if pred.P == "" || inv.reg.Pid != pred.P || inv.proto != pred.P || inv.remote != A.n.ID() {
					f.Fatalf("%s: the handler registered for %q ran on a stream reporting protocol %q from peer h%d; history: %s", what, inv.reg.Pid, inv.proto, idx[inv.remote], history())
				}
			}
			if len(invs) > 1 {
				f.Fatalf("%s: %d application handler invocations for one open; history: %s", what, len(invs), history())
			}
			if err == nil && !contains(s.Req, P) {
				f.Fatalf("%s: NewStream returned a stream bound to %q, which was not requested; history: %s", what, P, history())
			}
			if s.Burst != "" {
				lab("burst:" + s.Burst)
			}
			// the per-peer sub-scopes this open goes through (configured per-peer limits)
			if pred.P != "" {
				subs := []struct {
					k       skey
					inbound bool
					n       string
				}{{subKey(s.A, "protocol", string(pred.P), s.B), false, "opener-protocol-peer"}, {subKey(s.B, "protocol", string(pred.P), s.A), true, "responder-protocol-peer"}}
				if pred.svc != "" {
					subs = append(subs, struct {
						k       skey
						inbound bool
						n       string
					}{subKey(s.B, "service", pred.svc, s.A), true, "responder-service-peer"})
				}
				for _, x := range subs {
					l, ok := m.limits[x.k]
					if !ok {
						continue
					}
					oc.nontrivial = true
					lab("open:through-a-per-peer-limit:" + x.n)
					lowest := 99
					for _, v := range []int{l.Total, map[bool]int{true: l.In, false: l.Out}[x.inbound]} {
						if v >= 0 {
							lowest = min(lowest, v)
						}
					}
					if pred.ok() {
						if in, out := m.count(x.k); in+out > 0 {
							lab("open:admitted-by-a-per-peer-limit-that-counts-open-streams")
						}
						// the peer has ended at least as many streams in that sub-scope as it may hold at once:
						// admitted only if ended streams are no longer charged there
						if m.closed[x.k] >= lowest {
							lab("open:admitted-after-the-peer-ended-at-least-its-per-peer-limit-of-streams:" + x.n)
							if pred.svc != "" {
								lab("open:admitted-after-the-peer-ended-at-least-its-per-peer-limit-of-streams:service-attached-handler")
							}
						}
					}
				}
				// another peer is at its per-peer limit of this protocol on the responder right now
				for p := 0; p < sc.Hosts; p++ {
					if p != s.A && p != s.B && pred.ok() {
						if k := subKey(s.B, "protocol", string(pred.P), p); !m.admits(k, true) {
							if _, has := m.limits[k]; has {
								lab("open:admitted-while-another-peer-is-at-its-per-peer-limit-of-the-protocol")
							}
						}
					}
				}
			}
			if lazy {
				lab("path:lazy")
			} else if err == nil {
				lab("path:eager")
			}
			if stale {
				oc.nontrivial = true
				lab("open:by-a-peer-whose-scope-was-collected-while-the-protocol-scope-stayed-in-use")
				if pred.ok() {
					lab("open:by-a-peer-whose-scope-was-collected-while-the-protocol-scope-stayed-in-use:must-succeed")
				}
			}
			if m.everConn[pk(s.A, s.B)] && containsID(m.pairUsed[pk(s.A, s.B)], pred.P) {
				lab("open:protocol-this-pair-used-before")
			}
			for _, k := range []skey{{s.A, "peer", strconv.Itoa(s.B)}, {s.B, "peer", strconv.Itoa(s.A)}, {s.A, "protocol", string(pred.P)}, {s.B, "protocol", string(pred.P)}, {s.B, "service", pred.svc}} {
				if l, ok := m.limits[k]; ok && l.finite() && k.name != "" {
					lab("open:through-a-scope-with-a-limit-set-at-run-time")
					if in, out := m.count(k); in+out > 0 && pred.ok() {
						lab("open:admitted-by-a-run-time-limit-that-counts-open-streams")
					}
				}
			}
			switch {
			case pred.ok():
				lab("open:ok")
				if err != nil {
					f.Fatalf("%s: NewStream failed: %v; history: %s", what, err, history())
				}
				if useErr != nil {
					f.Fatalf("%s: the stream (bound to %q, lazy=%v) failed on first use: %v; %d handler invocation(s); history: %s", what, P, lazy, useErr, len(invs), history())
				}
				if P != pred.P {
					f.Fatalf("%s: bound to %q, which the responder does not serve, yet answered; history: %s", what, P, history())
				}
				if len(invs) != 1 || !invs[0].got || invs[0].nonce != nonce || invs[0].svcErr != nil {
					f.Fatalf("%s: expected exactly one invocation of the handler of %q that reads nonce %x; got %d (%+v); history: %s", what, P, nonce, len(invs), invs, history())
				}
				if ech.Inv != rep.Inv || rep.Inv != invs[0].serial || ech.Nonce != nonce || protocol.ID(rep.Proto) != P || str.Protocol() != P ||
					rep.Local != B.n.ID().String() || rep.Remote != A.n.ID().String() || network.Direction(rep.Dir) != network.DirInbound {
					f.Fatalf("%s: wrong answer on the stream: greeting %+v echo %+v, expected invocation %d on h%d, protocol %q, nonce %x; history: %s", what, rep, ech, invs[0].serial, s.B, P, nonce, history())
				}
				opens[i] = &sopen{s: str, nonce: nonce}
			default:
				oc.nontrivial = oc.nontrivial || !pred.noCommon
				if pred.noCommon {
					lab("open:no-common-protocol")
				} else {
					for _, x := range []struct {
						b bool
						n string
					}{{pred.openerPeer, "opener-peer"}, {pred.openerProto, "opener-protocol"}, {pred.respPeer, "responder-peer"}, {pred.respProto, "responder-protocol"}, {pred.service, "responder-service"}} {
						if x.b {
							lab("open:refused-by-run-time-limit:" + x.n)
						}
					}
					for _, x := range []struct {
						b bool
						n string
					}{{pred.openerProtoPeer, "opener-protocol-peer"}, {pred.respProtoPeer, "responder-protocol-peer"}, {pred.servicePeer, "responder-service-peer"}} {
						if x.b {
							lab("open:refused-by-per-peer-limit:" + x.n)
						}
					}
				}
				if err == nil && useErr == nil {
					f.Fatalf("%s: the open succeeded (bound to %q, answered by invocation %d); history: %s", what, P, rep.Inv, history())
				}
				if pred.mustFailAtNewStream() && err == nil {
					f.Fatalf("%s: NewStream returned a stream bound to %q although a scope of the opener itself does not admit it; history: %s", what, P, history())
				}
				if pred.handlerMustNotRun() && len(invs) > 0 {
					f.Fatalf("%s: the application handler of %q ran; history: %s", what, invs[0].reg.Pid, history())
				}
				if pred.handlerMustRun() {
					// only the service scope refuses: the right handler runs and is told so
					if len(invs) != 1 || invs[0].svcErr == nil {
						f.Fatalf("%s: expected one invocation of the handler of %q whose SetService(%q) is refused; got %d (%+v); history: %s", what, pred.P, pred.svc, len(invs), invs, history())
					}
				}
				if pred.handlerMayRun() && len(invs) == 1 && invs[0].got {
					B.release(invs[0].nonce)
				}
			}
			hist = append(hist, fmt.Sprintf("%s -> err=%v first-use=%v lazy=%v handler-invocations=%d", s, err, useErr, lazy, len(invs)))
		default:
			f.Fatalf("harness: unknown step %q", s.Op)
		}
		if s.Op != "open" {
			hist = append(hist, s.String())
		}
		m.apply(i, s, pred)
		synctest.Wait()
		audit(fmt.Sprintf("step %d %s", i, s))
	}
	// everything closes: every scope returns to zero
	for _, st := range append([]*sstream{}, m.streams...) {
		side := "both"
		switch {
		case !st.openA:
			side = "handler"
		case !st.openB:
			side = "opener"
		}
		if side != "handler" {
			if err := opens[st.id].s.Close(); err != nil {
				f.Fatalf("final close of the stream of step %d failed: %v; history: %s", st.id, err, history())
			}
		}
		if side != "opener" {
			hosts[st.b].release(opens[st.id].nonce)
		}
		m.apply(len(sc.Steps), sstep{Op: "close", Stream: st.id, Side: side}, spred{})
	}
	synctest.Wait()
	audit("closing every stream")
	for h, o := range hosts {
		if x := o.take(); len(x) > 0 {
			f.Fatalf("an application handler ran on h%d with no open in progress (registration %q); history: %s", h, x[0].reg.Pid, history())
		}
	}
	oc.trace = hist
	return oc
}

// TestScopes: generated resource-scope histories (see the file comment).
func TestScopes(t *testing.T) {
	name := t.Name()
	hx.Check(t, 2400, 80000, 0, func(rt *rapid.T) {
		sc := drawScopeScenario(rt)
		var oc *outcome
		hx.Bubble(t, rt, func() {
			oc = runScopes(rt, sc)
		})
		stats.Case(name, sc.fingerprint(), oc.nontrivial, sortedLabels(oc.labels)...)
		if stats.WantSample(name) {
			stats.Sample(name, map[string]any{"scenario": sc, "trace": oc.trace})
		}
	})
}

// TestScopesSmall enumerates a small domain of the same dimensions completely (a seed independent
// floor). Three hosts A, B, C; all serve X; C is connected to B throughout. History: [limit on X's
// scope at B] ; [C and B open an X stream that stays open] ; A and B open an X stream (either
// opens) ; [limit on B's scope of X, or of peer A, while that stream is open] ; A leaves (the
// stream is closed | A disconnects | B disconnects) ; [a collection pass: at B | at A and B | a
// minute passes] ; A returns (reconnects if it left) and A and B open X again (either opens) ;
// B sets X's limit to exactly what is open ; one more open (refused) ; the oldest X stream at B
// closes ; one more open (admitted). Every combination of the bracketed choices x B's handler of X
// attaches its streams to a service or not.
func TestScopesSmall(t *testing.T) {
	name := t.Name()
	const X, Y = protocol.ID("/a/1.0.0"), protocol.ID("/b")
	const A, B, C = 0, 1, 2
	keepers := []string{"none", "C->B", "B->C"}
	limitAts := []string{"none", "before-first-use", "protocol-scope-while-open", "peer-scope-while-open"}
	leaves := []string{"close", "A-disconnects", "B-disconnects"}
	collects := []string{"none", "at-B", "at-A-and-B", "a-minute-passes"}
	idx := 0
	for _, keeper := range keepers {
		for _, limitAt := range limitAts {
			for dir1 := 0; dir1 < 2; dir1++ {
				for _, leave := range leaves {
					for _, collect := range collects {
						for dir2 := 0; dir2 < 2; dir2++ {
							for svc := 0; svc < 2; svc++ {
								idx++
								if !hx.Mine(idx) {
									continue
								}
								bx := sreg{Pid: X}
								if svc == 1 {
									bx.Svc = "svc-1"
								}
								sc := &sscenario{Hosts: 3, Serves: [][]sreg{{{Pid: X}}, {bx, {Pid: Y}}, {{Pid: X}}}, Conns: [][2]int{{A, B}, {C, B}}, Key: uint64(idx)}
								m := newSModel(sc)
								for _, c := range sc.Conns {
									m.apply(-1, sstep{Op: "connect", A: c[0], B: c[1]}, spred{})
								}
								add := func(s sstep) int {
									var pred spred
									if s.Op == "open" {
										pred = m.predict(s.A, s.B, s.Req)
									}
									m.apply(len(sc.Steps), s, pred)
									sc.Steps = append(sc.Steps, s)
									return len(sc.Steps) - 1
								}
								openAB := func(dir int) int {
									if dir == 0 {
										return add(sstep{Op: "open", A: A, B: B, Req: []protocol.ID{X}})
									}
									return add(sstep{Op: "open", A: B, B: A, Req: []protocol.ID{X}})
								}
								if limitAt == "before-first-use" {
									add(sstep{Op: "limit", A: B, Scope: "protocol", Name: string(X), Lim: &slim{Total: 4, In: -1, Out: -1}})
								}
								switch keeper {
								case "C->B":
									add(sstep{Op: "open", A: C, B: B, Req: []protocol.ID{X}})
								case "B->C":
									add(sstep{Op: "open", A: B, B: C, Req: []protocol.ID{Y, X}})
								}
								first := openAB(dir1)
								switch limitAt {
								case "protocol-scope-while-open":
									add(sstep{Op: "limit", A: B, Scope: "protocol", Name: string(X), Lim: &slim{Total: 4, In: -1, Out: -1}})
								case "peer-scope-while-open":
									add(sstep{Op: "limit", A: B, Scope: "peer", Name: strconv.Itoa(A), Lim: &slim{Total: 3, In: -1, Out: -1}})
								}
								switch leave {
								case "close":
									add(sstep{Op: "close", Stream: first, Side: "both"})
								case "A-disconnects":
									add(sstep{Op: "disconnect", A: A, B: B})
								case "B-disconnects":
									add(sstep{Op: "disconnect", A: B, B: A})
								}
								switch collect {
								case "at-B":
									add(sstep{Op: "collect", A: B})
								case "at-A-and-B":
									add(sstep{Op: "collect", A: A})
									add(sstep{Op: "collect", A: B})
								case "a-minute-passes":
									add(sstep{Op: "minute"})
								}
								if leave != "close" {
									add(sstep{Op: "connect", A: A, B: B})
								}
								openAB(dir2)
								in, out := m.count(skey{B, "protocol", string(X)})
								add(sstep{Op: "limit", A: B, Scope: "protocol", Name: string(X), Lim: &slim{Total: in + out, In: -1, Out: -1}})
								add(sstep{Op: "open", A: A, B: B, Req: []protocol.ID{X}})
								for _, st := range m.streams { // the oldest stream charged to X at B
									if st.proto == X && (st.a == B || st.b == B) {
										add(sstep{Op: "close", Stream: st.id, Side: "both"})
										break
									}
								}
								add(sstep{Op: "open", A: A, B: B, Req: []protocol.ID{X}})
								var oc *outcome
								synctest.Test(t, func(t *testing.T) {
									oc = runScopes(t, sc)
								})
								if oc == nil {
									t.Fatalf("scenario %s failed", sc.fingerprint())
								}
								stats.CaseEnumerated(name, oc.nontrivial, sortedLabels(oc.labels, "keeper:"+keeper, "limit-at:"+limitAt, "leave:"+leave, "collection-pass:"+collect,
									fmt.Sprintf("first-opener:%d,returning-opener:%d", dir1, dir2), fmt.Sprintf("service-attached:%v", svc == 1))...)
								if stats.WantSample(name) {
									stats.Sample(name, map[string]any{"scenario": sc, "trace": oc.trace})
								}
							}
						}
					}
				}
			}
		}
	}
	stats.Exhaustive(name)
}

// TestPerPeerSmall enumerates a small domain of the per-peer dimension completely (a seed
// independent floor). Three hosts A, B, C; all serve X; A and C are connected to B. One per-peer
// limit of L = 1..3 streams is configured: on B for protocol X (total | inbound), on B for the
// service B's handler of X attaches its streams to (total), or on A for protocol X (outbound).
// History: A opens X to B and ends the stream (both ends | the opener, then the handler), L+1 times
// over; A opens X until L streams are open and then `extra` = 1..2 more (refused: nothing may stay
// charged anywhere); C opens X to B (another peer is not concerned); A's oldest stream ends; A
// opens X once more (admitted). Every combination x B's handler of X attaches its streams to a
// service or not.
func TestPerPeerSmall(t *testing.T) {
	name := t.Name()
	const X = protocol.ID("/a/1.0.0")
	const A, B, C = 0, 1, 2
	wheres := []string{"B:protocol-peer:total", "B:protocol-peer:inbound", "B:service-peer:total", "A:protocol-peer:outbound"}
	ends := []string{"both", "opener-then-handler"}
	idx := 0
	for svc := 0; svc < 2; svc++ {
		for _, where := range wheres {
			if svc == 0 && where == "B:service-peer:total" {
				continue
			}
			for L := 1; L <= 3; L++ {
				for _, end := range ends {
					for extra := 1; extra <= 2; extra++ {
						idx++
						if !hx.Mine(idx) {
							continue
						}
						bx := sreg{Pid: X}
						if svc == 1 {
							bx.Svc = "svc-1"
						}
						sc := &sscenario{Hosts: 3, Serves: [][]sreg{{{Pid: X}}, {bx}, {{Pid: X}}}, Conns: [][2]int{{A, B}, {C, B}}, Key: uint64(7000 + idx), PeerLim: make([][]splim, 3)}
						switch where {
						case "B:protocol-peer:total":
							sc.PeerLim[B] = []splim{{"protocol", string(X), slim{Total: L, In: -1, Out: -1}}}
						case "B:protocol-peer:inbound":
							sc.PeerLim[B] = []splim{{"protocol", string(X), slim{Total: -1, In: L, Out: -1}}}
						case "B:service-peer:total":
							sc.PeerLim[B] = []splim{{"service", "svc-1", slim{Total: L, In: -1, Out: -1}}}
						case "A:protocol-peer:outbound":
							sc.PeerLim[A] = []splim{{"protocol", string(X), slim{Total: -1, In: -1, Out: L}}}
						}
						m := newSModel(sc)
						for _, c := range sc.Conns {
							m.apply(-1, sstep{Op: "connect", A: c[0], B: c[1]}, spred{})
						}
						add := func(s sstep) int {
							var pred spred
							if s.Op == "open" {
								pred = m.predict(s.A, s.B, s.Req)
							}
							m.apply(len(sc.Steps), s, pred)
							sc.Steps = append(sc.Steps, s)
							return len(sc.Steps) - 1
						}
						for j := 0; j <= L; j++ {
							id := add(sstep{Op: "open", A: A, B: B, Req: []protocol.ID{X}, Burst: "churn"})
							if end == "both" {
								add(sstep{Op: "close", Stream: id, Side: "both", Burst: "churn"})
							} else {
								add(sstep{Op: "close", Stream: id, Side: "opener", Burst: "churn"})
								add(sstep{Op: "close", Stream: id, Side: "handler", Burst: "churn"})
							}
						}
						oldest := -1
						for j := 0; j < L+extra; j++ {
							id := add(sstep{Op: "open", A: A, B: B, Req: []protocol.ID{X}, Burst: "pile"})
							if j == 0 {
								oldest = id
							}
						}
						add(sstep{Op: "open", A: C, B: B, Req: []protocol.ID{X}})
						add(sstep{Op: "close", Stream: oldest, Side: "both"})
						add(sstep{Op: "open", A: A, B: B, Req: []protocol.ID{X}})
						if in, _ := m.count(skey{B, "protocol", string(X)}); in != L+1 {
							t.Fatalf("harness: the model holds %d inbound streams of X at B at the end, expected %d", in, L+1)
						}
						var oc *outcome
						synctest.Test(t, func(t *testing.T) {
							oc = runScopes(t, sc)
						})
						if oc == nil {
							t.Fatalf("scenario %s failed", sc.fingerprint())
						}
						stats.CaseEnumerated(name, oc.nontrivial, sortedLabels(oc.labels, "per-peer-limit:"+where, fmt.Sprintf("per-peer-limit:%d", L), "stream-ends:"+end,
							fmt.Sprintf("opens-beyond-the-limit:%d", extra), fmt.Sprintf("service-attached:%v", svc == 1))...)
						if stats.WantSample(name) {
							stats.Sample(name, map[string]any{"scenario": sc, "trace": oc.trace})
						}
					}
				}
			}
		}
	}
	stats.Exhaustive(name)
}
