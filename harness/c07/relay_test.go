package c07

// Connection kind "limited through a relay host".
//
// The statement quantifies over "limited vs direct connections". A limited connection is what
// a circuit-v2 relay gives two hosts that cannot reach each other: a third host forwards the
// bytes of ONE stream pair (hop stream from the dialer, stop stream to the listener), the two
// ends run Noise + yamux inside it, and the relay bounds its duration and volume; the swarm
// marks the connection Limited and refuses streams on it to callers that did not opt in with
// network.WithAllowLimitedConn. world.limited (world_test.go) only sets that mark on a direct
// pipe; here the connection is the real thing: a third real BasicHost running the real relay
// service (relay.New), the real circuit client transport on both hosts, a real reservation.
// The two hosts have NO other route to each other: the connection's listener does not listen
// on the in-memory transport at all, the only address the dialer ever learns is the circuit
// address.

import (
	"context"
	"time"

	"github.com/libp2p/go-libp2p/core/peer"
	"github.com/libp2p/go-libp2p/p2p/protocol/circuitv2/client"
	"github.com/libp2p/go-libp2p/p2p/protocol/circuitv2/relay"
	ma "github.com/multiformats/go-multiaddr"

	"verif/internal/keys"
)

// relayLimit: the relayed connection is limited (any non-nil limit makes it so), with bounds a
// case of this harness never comes near (a case moves a few KiB and, unless an operation
// blocks, no virtual time passes), so a limit that bites is never the reason of an outcome.
var relayLimit = relay.RelayLimit{Duration: 30 * time.Minute, Data: 4 << 20}

// connectThroughRelay starts the relay host, lets L reserve a slot and makes D dial L through
// the relay. The returned function shuts the relay down (call it before the hosts are closed).
func connectThroughRelay(f failer, w *world, D, L *node, baseCtx context.Context) (shutdown func()) {
	RL, err := newNode(w, "basic", keys.Ed(73), "10.7.0.3", true)
	if err != nil {
		f.Fatalf("harness: relay host: %v", err)
	}
	svc, err := relay.New(RL.Host, relay.WithLimit(&relayLimit))
	if err != nil {
		RL.Close()
		f.Fatalf("harness: relay service: %v", err)
	}
	shutdown = func() {
		svc.Close()
		RL.Close()
	}
	for _, n := range []*node{D, L} {
		if err := client.AddTransport(n.Host, n.up); err != nil {
			shutdown()
			f.Fatalf("harness: circuit transport: %v", err)
		}
	}
	ctx, cancel := context.WithTimeout(baseCtx, time.Minute)
	defer cancel()
	ri := peer.AddrInfo{ID: RL.ID(), Addrs: RL.Addrs()}
	if err := L.Connect(ctx, ri); err != nil {
		shutdown()
		f.Fatalf("harness: listener cannot reach the relay: %v", err)
	}
	if _, err := client.Reserve(ctx, L.Host, ri); err != nil {
		shutdown()
		f.Fatalf("harness: reservation refused: %v", err)
	}
	if err := D.Connect(ctx, ri); err != nil {
		shutdown()
		f.Fatalf("harness: dialer cannot reach the relay: %v", err)
	}
	circuit := ma.StringCast("/p2p/" + RL.ID().String() + "/p2p-circuit/p2p/" + L.ID().String())
	if err := D.Connect(ctx, peer.AddrInfo{ID: L.ID(), Addrs: []ma.Multiaddr{circuit}}); err != nil {
		shutdown()
		f.Fatalf("harness: connect through the relay failed: %v", err)
	}
	return shutdown
}
