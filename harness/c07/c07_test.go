// Package c07 checks property C07: stream protocol negotiation — both ends agree and the
// right handler runs.
//
// One real host pair per generated case (BasicHost and/or BlankHost on real swarms, real
// upgrader Noise+yamux over in-memory pipes, real resource manager), several rounds per
// case; a round = listener handler changes, a state of the dialer's knowledge about the
// listener's protocols (public peerstore API), and 1..4 concurrent opens. Every handler
// closure echoes (its registration id, the protocol its stream reports, the nonce).
package c07

import (
	"context"
	"encoding/binary"
	"encoding/json"
	"errors"
	"fmt"
	"io"
	"sort"
	"strconv"
	"strings"
	"sync"
	"testing"
	"testing/synctest"
	"time"

	"github.com/libp2p/go-libp2p/core/network"
	"github.com/libp2p/go-libp2p/core/peer"
	"github.com/libp2p/go-libp2p/core/protocol"
	"pgregory.net/rapid"

	"verif/internal/hx"
	"verif/internal/keys"
	"verif/internal/stats"
)

func TestMain(m *testing.M) {
	stats.Describe("exploration",
		"Each case builds two real hosts (BasicHost/BlankHost pairs, direct or limited connection) and runs 1..4 rounds; a round applies 0..3 "+
			"SetStreamHandler / SetStreamHandlerMatch (prefix, path, semver, alias matchers; overlapping) / RemoveStreamHandler calls on the listener, "+
			"puts the dialer's peerstore knowledge about the listener into a generated state (kept from identify, none, accurate, stale, over-optimistic, random) "+
			"and performs 1..4 concurrent NewStream calls with ordered request lists of 1..3 IDs from a 10-ID universe with shared prefixes, each followed by a nonce echo. "+
			"The oracle is a reference model of the listener's registrations written from the statement. "+
			"Non-trivial = some open took the optimistic (lazy) path with a protocol the listener does not accept (stale / over-optimistic knowledge), "+
			"or a match-function registration (not an exact ID) answered, or handlers were changed after the first batch of opens. "+
			"Distinct = distinct (pair kind, limited, handler history, knowledge states, request lists).",
		"go-multistream (select / lazy select / muxer) is a trusted dependency, exercised but not modelled",
		"handler changes are applied between batches of opens, at quiescence (synctest.Wait), never concurrently with an open; "+
			"so 'installed when the open started' is well defined",
		"application payload starts with a 0x00 byte, which is never a valid multistream token: after a refused lazy negotiation the listener cannot "+
			"mistake payload for a further protocol proposal",
		"the in-memory transport replaces only the socket; security, muxer, swarm, hosts, identify and resource manager are the real ones",
		"failure on first use is accepted as: the first Write may be accepted locally (lazy select does not wait), the first Read must return an error and no data",
	)
	hx.Main(m)
}

// ---------------------------------------------------------------------------
// protocol universe and matchers

var regUniverse = []protocol.ID{"/a/1.0.0", "/a/1.1.0", "/a/1.2.0", "/a/2.0.0", "/a", "/ab", "/ab/1.0.0", "/b", "/b/1.0.0"}

// reqUniverse adds an ID nobody ever registers (always available for over-optimistic knowledge).
var reqUniverse = append(append([]protocol.ID{}, regUniverse...), "/c/1.0.0")

func splitSemver(id protocol.ID) (base string, major, minor int, ok bool) {
	s := string(id)
	i := strings.LastIndex(s, "/")
	if i <= 0 {
		return "", 0, 0, false
	}
	parts := strings.Split(s[i+1:], ".")
	if len(parts) != 3 {
		return "", 0, 0, false
	}
	var n [3]int
	for k, p := range parts {
		v, err := strconv.Atoi(p)
		if err != nil {
			return "", 0, 0, false
		}
		n[k] = v
	}
	return s[:i], n[0], n[1], true
}

// accepts is the definition of "registered for (or matching)": exact registrations accept
// their own ID only; match registrations accept what their match function accepts (the
// registration name is NOT used for matching, as documented in core/protocol/switch.go).
func accepts(kind string, name, target, id protocol.ID) bool {
	switch kind {
	case "exact":
		return id == name
	case "prefix":
		return strings.HasPrefix(string(id), string(name))
	case "path":
		return id == name || strings.HasPrefix(string(id), string(name)+"/")
	case "semver":
		b1, M1, m1, ok1 := splitSemver(name)
		b2, M2, m2, ok2 := splitSemver(id)
		return ok1 && ok2 && b1 == b2 && M1 == M2 && m2 <= m1
	case "alias":
		return id == target
	}
	return false
}

// ---------------------------------------------------------------------------
// scenario

type lop struct {
	Op     string      `json:"op"` // set | match | remove
	Pid    protocol.ID `json:"pid"`
	Kind   string      `json:"kind,omitempty"`
	Target protocol.ID `json:"target,omitempty"`
}

type openSpec struct {
	Req   []protocol.ID `json:"req"`
	nonce uint64
}

type round struct {
	Ops      []lop         `json:"ops"`
	KnowMode string        `json:"know_mode"`
	Know     []protocol.ID `json:"know,omitempty"`
	Opens    []openSpec    `json:"opens"`
}

type scenario struct {
	Dialer   string  `json:"dialer"`
	Listener string  `json:"listener"`
	Limited  bool    `json:"limited"`
	Init     []lop   `json:"init"`
	Rounds   []round `json:"rounds"`
	Key      uint64  `json:"-"`
}

// ---------------------------------------------------------------------------
// reference model of the listener's registrations

type reg struct {
	id     int
	name   protocol.ID
	kind   string
	target protocol.ID
}

func (r *reg) accepts(id protocol.ID) bool { return accepts(r.kind, r.name, r.target, id) }
func (r *reg) String() string {
	if r.kind == "alias" {
		return fmt.Sprintf("#%d %s[alias->%s]", r.id, r.name, r.target)
	}
	return fmt.Sprintf("#%d %s[%s]", r.id, r.name, r.kind)
}

type lmodel struct {
	installed []*reg // in registration order
	all       []*reg
	ever      map[protocol.ID]bool // IDs accepted at some point of the history
}

func newModel() *lmodel { return &lmodel{ever: map[protocol.ID]bool{}} }

// apply returns the new registration for set/match (nil for remove).
func (m *lmodel) apply(op lop) *reg {
	// every operation on a name first drops the registration carrying that name
	for i, r := range m.installed {
		if r.name == op.Pid {
			m.installed = append(m.installed[:i:i], m.installed[i+1:]...)
			break
		}
	}
	var nr *reg
	if op.Op != "remove" {
		kind := "exact"
		if op.Op == "match" {
			kind = op.Kind
		}
		nr = &reg{id: len(m.all), name: op.Pid, kind: kind, target: op.Target}
		m.all = append(m.all, nr)
		m.installed = append(m.installed, nr)
	}
	for _, id := range reqUniverse {
		if m.accepted(id) {
			m.ever[id] = true
		}
	}
	return nr
}

func (m *lmodel) acceptors(id protocol.ID) []*reg {
	var out []*reg
	for _, r := range m.installed {
		if r.accepts(id) {
			out = append(out, r)
		}
	}
	return out
}

func (m *lmodel) accepted(id protocol.ID) bool { return len(m.acceptors(id)) > 0 }

func (m *lmodel) isInstalled(id int) bool {
	for _, r := range m.installed {
		if r.id == id {
			return true
		}
	}
	return false
}

func (m *lmodel) acceptedSet() []protocol.ID {
	var out []protocol.ID
	for _, id := range reqUniverse {
		if m.accepted(id) {
			out = append(out, id)
		}
	}
	return out
}

func (m *lmodel) describe() string {
	var s []string
	for _, r := range m.installed {
		s = append(s, r.String())
	}
	return "[" + strings.Join(s, ", ") + "]"
}

// ---------------------------------------------------------------------------
// generator (the model is a pure function of the operations, so the generator runs it to
// construct knowledge states and request lists of every class instead of rejecting)

func drawOp(rt *rapid.T, m *lmodel) lop {
	switch k := rapid.IntRange(0, 9).Draw(rt, "opkind"); {
	case k <= 3:
		return lop{Op: "set", Pid: rapid.SampledFrom(regUniverse).Draw(rt, "pid")}
	case k <= 6:
		pid := rapid.SampledFrom(regUniverse).Draw(rt, "pid")
		kinds := []string{"prefix", "path", "alias"}
		if _, _, _, ok := splitSemver(pid); ok {
			kinds = append(kinds, "semver", "semver")
		}
		o := lop{Op: "match", Pid: pid, Kind: rapid.SampledFrom(kinds).Draw(rt, "mkind")}
		if o.Kind == "alias" {
			var others []protocol.ID
			for _, x := range regUniverse {
				if x != pid {
					others = append(others, x)
				}
			}
			o.Target = rapid.SampledFrom(others).Draw(rt, "target")
		}
		return o
	default:
		if len(m.installed) > 0 && rapid.IntRange(0, 3).Draw(rt, "rm-installed") > 0 {
			return lop{Op: "remove", Pid: m.installed[rapid.IntRange(0, len(m.installed)-1).Draw(rt, "rm-idx")].name}
		}
		return lop{Op: "remove", Pid: rapid.SampledFrom(regUniverse).Draw(rt, "pid")}
	}
}

var knowModes = []string{"keep", "none", "accurate", "stale", "stale", "optimistic", "optimistic", "random"}

func drawKnowledge(rt *rapid.T, m *lmodel, mode string) []protocol.ID {
	acc := m.acceptedSet()
	switch mode {
	case "none", "keep":
		return nil
	case "accurate":
		return acc
	case "stale":
		out := append([]protocol.ID{}, acc...)
		for _, id := range reqUniverse {
			if m.ever[id] && !m.accepted(id) {
				out = append(out, id)
			}
		}
		return out
	case "optimistic":
		out := append([]protocol.ID{}, acc...)
		var never []protocol.ID
		for _, id := range reqUniverse {
			if !m.ever[id] {
				never = append(never, id)
			}
		}
		// non-empty by construction: /c/1.0.0 is never registered
		first := rapid.IntRange(0, len(never)-1).Draw(rt, "opt-first")
		for i, id := range never {
			if i == first || rapid.IntRange(0, 3).Draw(rt, "opt-more") == 0 {
				out = append(out, id)
			}
		}
		return out
	default: // random
		var out []protocol.ID
		for _, id := range reqUniverse {
			if rapid.Bool().Draw(rt, "know-"+string(id)) {
				out = append(out, id)
			}
		}
		return out
	}
}

func contains(l []protocol.ID, id protocol.ID) bool {
	for _, x := range l {
		if x == id {
			return true
		}
	}
	return false
}

func drawRequest(rt *rapid.T, m *lmodel, know []protocol.ID) []protocol.ID {
	acc := m.acceptedSet()
	var bad []protocol.ID // believed supported, not accepted
	for _, id := range know {
		if !m.accepted(id) {
			bad = append(bad, id)
		}
	}
	n := rapid.IntRange(1, 3).Draw(rt, "nreq")
	var req []protocol.ID
	for len(req) < n {
		var id protocol.ID
		switch c := rapid.IntRange(0, 5).Draw(rt, "reqclass"); {
		case c <= 1 && len(acc) > 0:
			id = rapid.SampledFrom(acc).Draw(rt, "req-acc")
		case c == 2 && len(bad) > 0:
			id = rapid.SampledFrom(bad).Draw(rt, "req-bad")
		default:
			id = rapid.SampledFrom(reqUniverse).Draw(rt, "req-any")
		}
		// distinct by construction: walk to the next unused ID
		for k := 0; contains(req, id); k++ {
			for i, x := range reqUniverse {
				if x == id {
					id = reqUniverse[(i+1)%len(reqUniverse)]
					break
				}
			}
		}
		req = append(req, id)
	}
	return req
}

func mix(x uint64) uint64 { // splitmix64 finaliser: a bijection, so nonces of one case are distinct
	x += 0x9e3779b97f4a7c15
	x = (x ^ (x >> 30)) * 0xbf58476d1ce4e5b9
	x = (x ^ (x >> 27)) * 0x94d049bb133111eb
	return x ^ (x >> 31)
}

func drawScenario(rt *rapid.T) *scenario {
	sc := &scenario{Key: rapid.Uint64().Draw(rt, "key")}
	switch p := rapid.IntRange(0, 9).Draw(rt, "pair"); {
	case p <= 5:
		sc.Dialer, sc.Listener = "basic", "basic"
	case p <= 6:
		sc.Dialer, sc.Listener = "blank", "blank"
	case p <= 8:
		sc.Dialer, sc.Listener = "basic", "blank"
	default:
		sc.Dialer, sc.Listener = "blank", "basic"
	}
	sc.Limited = rapid.IntRange(0, 3).Draw(rt, "limited") == 0
	m := newModel()
	for i, n := 0, rapid.IntRange(0, 4).Draw(rt, "ninit"); i < n; i++ {
		op := drawOp(rt, m)
		m.apply(op)
		sc.Init = append(sc.Init, op)
	}
	nonce := 0
	for i, n := 0, rapid.IntRange(1, 4).Draw(rt, "nrounds"); i < n; i++ {
		var r round
		r.KnowMode = rapid.SampledFrom(knowModes).Draw(rt, "knowmode")
		for j, k := 0, rapid.IntRange(0, 3).Draw(rt, "nops"); j < k; j++ {
			op := drawOp(rt, m)
			m.apply(op)
			r.Ops = append(r.Ops, op)
		}
		if r.KnowMode == "stale" && len(m.installed) > 0 {
			// construct staleness: something the listener accepts now is removed in this round
			// (the dialer will afterwards be told it is still supported)
			stale := false
			for _, id := range reqUniverse {
				if m.ever[id] && !m.accepted(id) {
					stale = true
				}
			}
			if !stale {
				op := lop{Op: "remove", Pid: m.installed[rapid.IntRange(0, len(m.installed)-1).Draw(rt, "stale-rm")].name}
				m.apply(op)
				r.Ops = append(r.Ops, op)
			}
		}
		r.Know = drawKnowledge(rt, m, r.KnowMode)
		for j, k := 0, rapid.IntRange(1, 4).Draw(rt, "nopens"); j < k; j++ {
			nonce++
			r.Opens = append(r.Opens, openSpec{Req: drawRequest(rt, m, r.Know), nonce: mix(sc.Key + uint64(nonce))})
		}
		sc.Rounds = append(sc.Rounds, r)
	}
	return sc
}

// ---------------------------------------------------------------------------
// wire format of the echo

const payloadLen = 9 // 0x00 | nonce (8 bytes, big endian)

func payload(nonce uint64) []byte {
	b := make([]byte, payloadLen)
	binary.BigEndian.PutUint64(b[1:], nonce)
	return b
}

type reply struct {
	Reg    int    `json:"reg"`
	Proto  string `json:"proto"`
	Nonce  uint64 `json:"nonce"`
	Remote string `json:"remote"` // remote peer as seen by the handler's stream
	Local  string `json:"local"`
	Dir    int    `json:"dir"`
}

var errNoProgress = errors.New("Read returned (0, nil) repeatedly: neither data nor error")

// readFull is io.ReadFull that gives up on a reader that keeps returning (0, nil).
func readFull(r io.Reader, buf []byte) error {
	n, idle := 0, 0
	for n < len(buf) {
		k, err := r.Read(buf[n:])
		n += k
		if n >= len(buf) {
			return nil
		}
		if err != nil {
			return err
		}
		if k == 0 {
			idle++
			if idle > 8 {
				return errNoProgress
			}
		} else {
			idle = 0
		}
	}
	return nil
}

func writeReply(w io.Writer, r reply) error {
	b, err := json.Marshal(r)
	if err != nil {
		return err
	}
	out := make([]byte, 2+len(b))
	binary.BigEndian.PutUint16(out, uint16(len(b)))
	copy(out[2:], b)
	_, err = w.Write(out)
	return err
}

func readReply(r io.Reader) (*reply, error) {
	var l [2]byte
	if err := readFull(r, l[:]); err != nil {
		return nil, err
	}
	b := make([]byte, binary.BigEndian.Uint16(l[:]))
	if err := readFull(r, b); err != nil {
		return nil, fmt.Errorf("reply body: %w", err)
	}
	var rep reply
	if err := json.Unmarshal(b, &rep); err != nil {
		return nil, fmt.Errorf("reply is not what a handler of this harness writes: %q: %w", b, err)
	}
	return &rep, nil
}

// ---------------------------------------------------------------------------
// handler side

type invocation struct {
	reg      int
	proto    protocol.ID
	remote   peer.ID
	nonce    uint64
	gotNonce bool
}

type hlog struct {
	mu  sync.Mutex
	inv []*invocation
}

func (l *hlog) take() []*invocation {
	l.mu.Lock()
	defer l.mu.Unlock()
	out := l.inv
	l.inv = nil
	return out
}

// handlerFor returns the application handler of registration r: it records that it ran
// (before touching the stream), echoes and then waits for the dialer to finish.
func handlerFor(r *reg, l *hlog) network.StreamHandler {
	return func(s network.Stream) {
		inv := &invocation{reg: r.id, proto: s.Protocol(), remote: s.Conn().RemotePeer()}
		l.mu.Lock()
		l.inv = append(l.inv, inv)
		l.mu.Unlock()
		buf := make([]byte, payloadLen)
		if err := readFull(s, buf); err != nil {
			s.Reset()
			return
		}
		nonce := binary.BigEndian.Uint64(buf[1:])
		l.mu.Lock()
		inv.nonce, inv.gotNonce = nonce, true
		l.mu.Unlock()
		err := writeReply(s, reply{Reg: r.id, Proto: string(s.Protocol()), Nonce: nonce,
			Remote: s.Conn().RemotePeer().String(), Local: s.Conn().LocalPeer().String(), Dir: int(s.Stat().Direction)})
		if err != nil {
			s.Reset()
			return
		}
		if _, err := io.Copy(io.Discard, s); err != nil {
			s.Reset()
			return
		}
		s.Close()
	}
}

func applyOp(h *node, op lop, r *reg, l *hlog) {
	switch op.Op {
	case "set":
		h.SetStreamHandler(op.Pid, handlerFor(r, l))
	case "match":
		kind, name, target := r.kind, r.name, r.target
		h.SetStreamHandlerMatch(op.Pid, func(id protocol.ID) bool { return accepts(kind, name, target, id) }, handlerFor(r, l))
	case "remove":
		h.RemoveStreamHandler(op.Pid)
	}
}

// ---------------------------------------------------------------------------
// running a scenario

type failer interface {
	Fatalf(format string, args ...any)
}

type openResult struct {
	err       error // NewStream error
	s         network.Stream
	proto     protocol.ID
	lazy      bool
	useErr    error // first round trip failed
	wroteOK   bool
	rep       *reply
	protoPost protocol.ID
}

type outcome struct {
	labels     map[string]bool
	nontrivial bool
	trace      []string
}

type protoStat struct{ out, in int }

func viewStats(f failer, n *node) map[protocol.ID]protoStat {
	out := map[protocol.ID]protoStat{}
	for _, id := range reqUniverse {
		err := n.rm.ViewProtocol(id, func(ps network.ProtocolScope) error {
			st := ps.Stat()
			out[id] = protoStat{out: st.NumStreamsOutbound, in: st.NumStreamsInbound}
			return nil
		})
		if err != nil {
			f.Fatalf("harness: ViewProtocol(%s): %v", id, err)
		}
	}
	return out
}

func runScenario(f failer, sc *scenario) *outcome {
	oc := &outcome{labels: map[string]bool{}}
	lab := func(s string) { oc.labels[s] = true }
	w := newWorld(sc.Limited)
	defer w.closePipes()
	D, err := newNode(w, sc.Dialer, keys.Ed(71), "10.7.0.1", false)
	if err != nil {
		f.Fatalf("harness: dialer host: %v", err)
	}
	defer D.Close()
	L, err := newNode(w, sc.Listener, keys.Ed(72), "10.7.0.2", true)
	if err != nil {
		f.Fatalf("harness: listener host: %v", err)
	}
	defer L.Close()

	m := newModel()
	hl := &hlog{}
	for _, op := range sc.Init {
		applyOp(L, op, m.apply(op), hl)
	}
	baseCtx := context.Background()
	if sc.Limited {
		baseCtx = network.WithAllowLimitedConn(baseCtx, "c07")
	}
	{
		ctx, cancel := context.WithTimeout(baseCtx, time.Minute)
		err := D.Connect(ctx, peer.AddrInfo{ID: L.ID(), Addrs: L.Addrs()})
		cancel()
		if err != nil {
			f.Fatalf("harness: connect over a faithful pipe failed: %v", err)
		}
	}
	synctest.Wait()
	if got := D.Network().ConnsToPeer(L.ID()); len(got) != 1 || got[0].Stat().Limited != sc.Limited {
		f.Fatalf("harness: expected one connection with Limited=%v, got %d", sc.Limited, len(got))
	}
	base := [2]map[protocol.ID]protoStat{viewStats(f, D), viewStats(f, L)}

	for ri, r := range sc.Rounds {
		for _, op := range r.Ops {
			applyOp(L, op, m.apply(op), hl)
		}
		if ri > 0 && len(r.Ops) > 0 {
			oc.nontrivial = true // handlers changed during the case
			lab("handlers-changed-between-batches")
		}
		synctest.Wait() // identify pushes settle
		switch r.KnowMode {
		case "keep":
		case "random":
			if err := D.Peerstore().SetProtocols(L.ID(), r.Know...); err != nil {
				f.Fatalf("harness: SetProtocols: %v", err)
			}
		default:
			if err := D.Peerstore().RemoveProtocols(L.ID(), reqUniverse...); err != nil {
				f.Fatalf("harness: RemoveProtocols: %v", err)
			}
			if err := D.Peerstore().AddProtocols(L.ID(), r.Know...); err != nil {
				f.Fatalf("harness: AddProtocols: %v", err)
			}
		}
		known, err := D.Peerstore().SupportsProtocols(L.ID(), reqUniverse...)
		if err != nil {
			f.Fatalf("harness: SupportsProtocols: %v", err)
		}
		inK := map[protocol.ID]bool{}
		for _, id := range known {
			inK[id] = true
		}
		if stale := hl.take(); len(stale) != 0 {
			f.Fatalf("round %d: %d application handler invocation(s) with no open in progress (first: registration #%d, protocol %q)", ri, len(stale), stale[0].reg, stale[0].proto)
		}

		// the batch: all opens start at the same virtual instant
		res := make([]*openResult, len(r.Opens))
		var wg sync.WaitGroup
		for i := range r.Opens {
			res[i] = &openResult{}
			wg.Add(1)
			go func(o openSpec, out *openResult) {
				defer wg.Done()
				ctx, cancel := context.WithTimeout(baseCtx, 30*time.Second)
				defer cancel()
				s, err := D.NewStream(ctx, L.ID(), o.Req...)
				if err != nil {
					out.err = err
					return
				}
				out.s, out.proto = s, s.Protocol()
				out.lazy = strings.Contains(fmt.Sprintf("%T", s), "streamWrapper")
				s.SetDeadline(time.Now().Add(20 * time.Second))
				if _, err := s.Write(payload(o.nonce)); err != nil {
					out.useErr = fmt.Errorf("write: %w", err)
					s.Reset()
					return
				}
				out.wroteOK = true
				rep, err := readReply(s)
				if err != nil {
					out.useErr = fmt.Errorf("read: %w", err)
					s.Reset()
					return
				}
				s.SetDeadline(time.Time{})
				out.rep, out.protoPost = rep, s.Protocol()
			}(r.Opens[i], res[i])
		}
		wg.Wait()
		synctest.Wait()

		// ---- oracle
		ctxt := func(i int) string {
			return fmt.Sprintf("round %d open %d: request %v, dialer(%s) knowledge %v, listener(%s) registrations %s", ri, i, r.Opens[i].Req, sc.Dialer, known, sc.Listener, m.describe())
		}
		byNonce := map[uint64]int{}
		open := map[protocol.ID]int{}
		nOK := 0
		for i, o := range r.Opens {
			out := res[i]
			shared := false
			for _, id := range o.Req {
				if m.accepted(id) {
					shared = true
				}
			}
			// labels: what the dialer believed about the requested IDs
			var kreq []protocol.ID
			for _, id := range o.Req {
				if inK[id] {
					kreq = append(kreq, id)
				}
			}
			kclass := "unknown"
			if len(kreq) > 0 && sc.Dialer == "basic" {
				switch first := kreq[0]; {
				case m.accepted(first):
					kclass = "accurate-first"
					for _, id := range kreq {
						if !m.accepted(id) {
							kclass = "accurate-first-bad-tail"
						}
					}
				case m.ever[first]:
					kclass = "stale-first"
				default:
					kclass = "optimistic-first"
				}
			}
			lab("knowledge:" + kclass)
			if shared {
				lab("common-protocol")
			} else {
				lab("no-common-protocol")
			}
			for _, id := range o.Req {
				if len(m.acceptors(id)) > 1 {
					lab("overlapping-registrations")
				}
			}

			if out.err != nil {
				lab("outcome:newstream-error")
				oc.trace = append(oc.trace, fmt.Sprintf("r%d.%d %v -> error", ri, i, o.Req))
				if shared {
					f.Fatalf("%s: NewStream failed (%v) although the listener accepts one of the requested protocols", ctxt(i), out.err)
				}
				continue
			}
			P := out.proto
			if out.lazy {
				lab("path:lazy")
			} else {
				lab("path:eager")
			}
			if !contains(o.Req, P) {
				f.Fatalf("%s: NewStream returned a stream bound to %q, which was not requested", ctxt(i), P)
			}
			if out.useErr != nil {
				lab("outcome:first-use-failed")
				oc.trace = append(oc.trace, fmt.Sprintf("r%d.%d %v -> %s lazy=%v first use failed", ri, i, o.Req, P, out.lazy))
				if errors.Is(out.useErr, errNoProgress) {
					f.Fatalf("%s: stream bound to %q: first use neither delivered data nor failed: %v", ctxt(i), P, out.useErr)
				}
				// the only excuse: the protocol was chosen optimistically from (wrong) earlier knowledge
				if !(sc.Dialer == "basic" && inK[P] && !m.accepted(P)) {
					f.Fatalf("%s: stream bound to %q failed on first use (%v) but that is not excused: believed-supported=%v, accepted-by-listener=%v",
						ctxt(i), P, out.useErr, inK[P], m.accepted(P))
				}
				oc.nontrivial = true
				if r.KnowMode == "keep" {
					lab("lazy-refused:knowledge-from-identify-or-earlier-opens")
				}
				if m.ever[P] {
					lab("lazy-refused:stale")
				} else {
					lab("lazy-refused:never-supported")
				}
				continue
			}
			// the echo round trip succeeded
			lab("outcome:ok")
			nOK++
			rep := out.rep
			oc.trace = append(oc.trace, fmt.Sprintf("r%d.%d %v -> %s lazy=%v reg#%d", ri, i, o.Req, P, out.lazy, rep.Reg))
			if rep.Nonce != o.nonce {
				f.Fatalf("%s: wrote nonce %x on the stream, the reply carries %x: bytes went to another endpoint", ctxt(i), o.nonce, rep.Nonce)
			}
			if rep.Reg < 0 || rep.Reg >= len(m.all) {
				f.Fatalf("%s: reply names unknown registration #%d", ctxt(i), rep.Reg)
			}
			ar := m.all[rep.Reg]
			if !m.isInstalled(ar.id) {
				f.Fatalf("%s: stream bound to %q was answered by %s, which was removed (or replaced) before the open started", ctxt(i), P, ar)
			}
			if !ar.accepts(P) {
				f.Fatalf("%s: stream bound to %q was answered by %s, which neither is registered for nor matches that protocol", ctxt(i), P, ar)
			}
			if protocol.ID(rep.Proto) != P {
				f.Fatalf("%s: dialer's stream reports %q, the handler's stream reported %q", ctxt(i), P, rep.Proto)
			}
			if out.protoPost != P {
				f.Fatalf("%s: dialer's stream changed its protocol from %q to %q", ctxt(i), P, out.protoPost)
			}
			if rep.Remote != D.ID().String() || rep.Local != L.ID().String() || network.Direction(rep.Dir) != network.DirInbound {
				f.Fatalf("%s: handler's stream endpoints wrong: remote=%s local=%s dir=%d", ctxt(i), rep.Remote, rep.Local, rep.Dir)
			}
			if ar.kind != "exact" {
				oc.nontrivial = true
				lab("answered-by-matcher:" + ar.kind)
				if out.lazy {
					lab("lazy-accepted-by-matcher")
				}
			} else {
				lab("answered-by-exact")
			}
			byNonce[o.nonce] = i
			open[P]++
		}
		lab(fmt.Sprintf("concurrent-opens:%d", len(r.Opens)))

		// exactly the handler: one invocation per successful open, none otherwise
		invs := hl.take()
		seen := map[uint64]int{}
		for _, inv := range invs {
			ar := m.all[inv.reg]
			if !m.isInstalled(inv.reg) {
				f.Fatalf("round %d: application handler %s ran (stream protocol %q) although it was removed before the batch started; listener registrations %s", ri, ar, inv.proto, m.describe())
			}
			if !inv.gotNonce {
				f.Fatalf("round %d: application handler %s ran (stream protocol %q) without receiving a request: it ran for an open that failed; opens %s", ri, ar, inv.proto, describeBatch(r.Opens, res))
			}
			i, ok := byNonce[inv.nonce]
			if !ok {
				f.Fatalf("round %d: application handler %s ran with nonce %x, which belongs to no successful open of this batch; opens %s", ri, ar, inv.nonce, describeBatch(r.Opens, res))
			}
			seen[inv.nonce]++
			if seen[inv.nonce] > 1 {
				f.Fatalf("round %d open %d: more than one application handler ran for this open", ri, i)
			}
			if inv.reg != res[i].rep.Reg {
				f.Fatalf("round %d open %d: handler %s ran but the reply came from #%d", ri, i, ar, res[i].rep.Reg)
			}
			if inv.proto != res[i].proto {
				f.Fatalf("round %d open %d: handler %s was invoked on a stream reporting %q, dialer's stream reports %q", ri, i, ar, inv.proto, res[i].proto)
			}
			if inv.remote != D.ID() {
				f.Fatalf("round %d open %d: handler's stream has remote peer %s", ri, i, inv.remote)
			}
		}
		if len(invs) != nOK {
			f.Fatalf("round %d: %d application handler invocations for %d successful opens; opens %s", ri, len(invs), nOK, describeBatch(r.Opens, res))
		}

		// charged to the negotiated protocol's scope on both sides while open ...
		stD, stL := viewStats(f, D), viewStats(f, L)
		for _, id := range reqUniverse {
			if got := stD[id].out - base[0][id].out; got != open[id] {
				f.Fatalf("round %d: dialer's protocol scope %q counts %d outbound streams above baseline, %d streams bound to it are open; opens %s", ri, id, got, open[id], describeBatch(r.Opens, res))
			}
			if got := stL[id].in - base[1][id].in; got != open[id] {
				f.Fatalf("round %d: listener's protocol scope %q counts %d inbound streams above baseline, %d streams bound to it are open; opens %s", ri, id, got, open[id], describeBatch(r.Opens, res))
			}
			if stD[id].in != base[0][id].in || stL[id].out != base[1][id].out {
				f.Fatalf("round %d: protocol scope %q charged in the wrong direction: dialer inbound %d, listener outbound %d", ri, id, stD[id].in, stL[id].out)
			}
		}
		// ... and released after close
		for _, out := range res {
			if out.rep != nil {
				if err := out.s.Close(); err != nil {
					f.Fatalf("round %d: closing a healthy stream failed: %v", ri, err)
				}
			}
		}
		synctest.Wait()
		stD, stL = viewStats(f, D), viewStats(f, L)
		for _, id := range reqUniverse {
			if stD[id] != base[0][id] || stL[id] != base[1][id] {
				f.Fatalf("round %d: after closing every stream protocol scope %q did not return to its baseline: dialer %+v (baseline %+v), listener %+v (baseline %+v)",
					ri, id, stD[id], base[0][id], stL[id], base[1][id])
			}
		}
	}
	if w.dials != 1 {
		f.Fatalf("harness: %d transport dials in one case, expected 1", w.dials)
	}
	return oc
}

func describeBatch(opens []openSpec, res []*openResult) string {
	var s []string
	for i, o := range opens {
		switch out := res[i]; {
		case out.err != nil:
			s = append(s, fmt.Sprintf("%v->NewStream error", o.Req))
		case out.useErr != nil:
			s = append(s, fmt.Sprintf("%v->%q lazy=%v first use failed (%v)", o.Req, out.proto, out.lazy, out.useErr))
		default:
			s = append(s, fmt.Sprintf("%v->%q lazy=%v answered by #%d nonce %x", o.Req, out.proto, out.lazy, out.rep.Reg, o.nonce))
		}
	}
	return "{" + strings.Join(s, "; ") + "}"
}

func (sc *scenario) fingerprint() string {
	b, _ := json.Marshal(sc)
	return string(b)
}

func sortedLabels(m map[string]bool, extra ...string) []string {
	out := append([]string{}, extra...)
	for l := range m {
		out = append(out, l)
	}
	sort.Strings(out)
	return out
}

// TestNegotiation is the generated check described in the package comment.
func TestNegotiation(t *testing.T) {
	name := t.Name()
	hx.Check(t, 12000, 400000, 0, func(rt *rapid.T) {
		sc := drawScenario(rt)
		var oc *outcome
		hx.Bubble(t, rt, func() {
			oc = runScenario(rt, sc)
		})
		conn := "conn:direct"
		if sc.Limited {
			conn = "conn:limited"
		}
		stats.Case(name, sc.fingerprint(), oc.nontrivial, sortedLabels(oc.labels, "pair:"+sc.Dialer+"->"+sc.Listener, conn)...)
		if stats.WantSample(name) {
			stats.Sample(name, map[string]any{"scenario": sc, "trace": oc.trace})
		}
	})
}

// TestSmallExhaustive enumerates a small domain completely (seed independent floor under
// the random search): every listener configuration of a fixed list (no handler, exact,
// prefix / path / semver / alias matchers, overlapping pairs) x every ordered request over
// {X, Y} x every knowledge state over {X, Y} (+ "as identify left it") x the four host
// pairings; each scenario opens once with the handlers installed and once more after all
// of them were removed (so remembered knowledge becomes stale).
func TestSmallExhaustive(t *testing.T) {
	name := t.Name()
	const X, Y = protocol.ID("/a/1.0.0"), protocol.ID("/a/1.1.0")
	configs := [][]lop{
		nil,
		{{Op: "set", Pid: X}},
		{{Op: "set", Pid: Y}},
		{{Op: "match", Pid: "/a", Kind: "prefix"}},
		{{Op: "match", Pid: "/a", Kind: "path"}},
		{{Op: "match", Pid: Y, Kind: "semver"}}, // accepts X and Y
		{{Op: "match", Pid: X, Kind: "semver"}}, // accepts X only
		{{Op: "match", Pid: "/b", Kind: "alias", Target: X}},
		{{Op: "match", Pid: X, Kind: "alias", Target: Y}}, // advertised as X, accepts only Y
		{{Op: "set", Pid: X}, {Op: "match", Pid: "/a", Kind: "prefix"}},
		{{Op: "match", Pid: "/a", Kind: "prefix"}, {Op: "set", Pid: X}},
		{{Op: "set", Pid: X}, {Op: "set", Pid: X}}, // replaced registration
	}
	reqs := [][]protocol.ID{{X}, {Y}, {X, Y}, {Y, X}}
	type know struct {
		mode string
		ids  []protocol.ID
	}
	knows := []know{{"keep", nil}, {"fixed", nil}, {"fixed", []protocol.ID{X}}, {"fixed", []protocol.ID{Y}}, {"fixed", []protocol.ID{X, Y}}}
	pairs := [][2]string{{"basic", "basic"}, {"blank", "blank"}, {"basic", "blank"}, {"blank", "basic"}}
	idx := 0
	for ci, cfg := range configs {
		for _, req := range reqs {
			for _, kn := range knows {
				for _, pr := range pairs {
					idx++
					if !hx.Mine(idx) {
						continue
					}
					sc := &scenario{Dialer: pr[0], Listener: pr[1], Limited: idx%5 == 0, Init: cfg, Key: uint64(idx)}
					var removes []lop
					seen := map[protocol.ID]bool{}
					for _, op := range cfg {
						if !seen[op.Pid] {
							seen[op.Pid] = true
							removes = append(removes, lop{Op: "remove", Pid: op.Pid})
						}
					}
					sc.Rounds = []round{
						{KnowMode: kn.mode, Know: kn.ids, Opens: []openSpec{{Req: req, nonce: mix(uint64(idx) * 2)}}},
						{Ops: removes, KnowMode: kn.mode, Know: kn.ids, Opens: []openSpec{{Req: req, nonce: mix(uint64(idx)*2 + 1)}}},
					}
					var oc *outcome
					synctest.Test(t, func(t *testing.T) {
						oc = runScenario(t, sc)
					})
					if oc == nil {
						t.Fatalf("scenario %s failed", sc.fingerprint())
					}
					stats.CaseEnumerated(name, oc.nontrivial, sortedLabels(oc.labels, "pair:"+pr[0]+"->"+pr[1], fmt.Sprintf("config:%d", ci))...)
					if stats.WantSample(name) {
						stats.Sample(name, map[string]any{"scenario": sc, "trace": oc.trace})
					}
				}
			}
		}
	}
	stats.Exhaustive(name)
}
