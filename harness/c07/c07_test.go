// Package c07 checks property C07: stream protocol negotiation — both ends agree and the
// right handler runs.
//
// One real host pair per generated case (BasicHost and/or BlankHost on real swarms, real
// upgrader Noise+yamux over in-memory pipes, real resource manager), several rounds per
// case; a round = listener handler changes, a state of the dialer's knowledge about the
// listener's protocols (public peerstore API), and 1..4 concurrent opens, each with a
// generated way of using the fresh stream (which operation comes first: Write, empty Write,
// Read, empty Read, CloseWrite, Close, Write+CloseWrite). Every handler closure speaks
// first (its registration id, the protocol its stream reports, a serial number of the
// invocation), then echoes what it received (the nonce, or "nothing, then EOF").
// The request list of an open is a slice object of the caller: private to the call, or a
// list the application keeps and passes to several opens of the history (listPool); the
// oracle judges every open against the list the caller intended and demands that the
// caller's object is left as it was.
//
// bothways_test.go generates the same rounds with either host as the opener and without any
// harness-side peerstore write (knowledge produced by the library alone).
//
// The connection kind is generated: direct, limited (a direct pipe flagged Limited), or limited
// through a real circuit-v2 relay host that is the only route between the two hosts
// (relay_test.go). Where the knowledge is the library's own, a protocol the responder has
// stopped announcing must be gone from it at quiescence (withdrawalDelivered in runScenario;
// TestWithdrawnSmall in bothways_test.go enumerates that dimension).
//
// scopes_test.go makes the resource manager part of the history: streams that stay open over
// many steps on 2..4 hosts, run-time limit changes on protocol / peer / service scopes,
// collection passes of unused scopes, disconnects and reconnects, with every scope's Stat()
// compared against the harness' own count of open streams after every step.
package c07

import (
	"context"
	"encoding/binary"
	"encoding/json"
	"errors"
	"fmt"
	"io"
	"slices"
	"sort"
	"strconv"
	"strings"
	"sync"
	"testing"
	"testing/synctest"
	"time"

	"github.com/libp2p/go-libp2p/core/network"
	"github.com/libp2p/go-libp2p/core/peer"
	"github.com/libp2p/go-libp2p/core/protocol"
	"pgregory.net/rapid"

	"verif/internal/hx"
	"verif/internal/keys"
	"verif/internal/stats"
)

func TestMain(m *testing.M) {
	stats.Describe("exploration",
		"Each case builds two real hosts (BasicHost/BlankHost pairs; direct connection, limited connection, or limited connection through a real relay host) and runs 1..4 rounds; a round applies 0..3 "+
			"SetStreamHandler / SetStreamHandlerMatch (prefix, path, semver, alias matchers; overlapping) / RemoveStreamHandler calls on the listener, "+
			"puts the dialer's peerstore knowledge about the listener into a generated state (kept from identify, none, accurate, stale, over-optimistic, random) "+
			"and performs 1..4 concurrent NewStream calls with ordered request lists of 1..3 IDs from a 10-ID universe with shared prefixes. "+
			"Each open also draws how the application uses the fresh stream, i.e. which operation comes first (on a lazily negotiated stream that operation "+
			"has to carry the multistream handshake): Write(request), Write(nil), Read (server speaks first), Read into an empty buffer, CloseWrite with nothing sent, "+
			"Close at once, Write then CloseWrite; every kind but Close then completes a greeting + echo exchange (handlers greet with registration id / protocol / "+
			"invocation serial before reading, then echo the nonce or 'nothing, then EOF'). "+
			"The oracle is a reference model of the listener's registrations written from the statement, applied on both sides: what the dialer read, and which "+
			"handler invocations the listener recorded (every open on an accepted protocol reaches exactly one right handler whatever the first operation is; "+
			"handlers hold their stream until the resource-scope audit is over). "+
			"Non-trivial = some open took the optimistic (lazy) path with a protocol the listener does not accept (stale / over-optimistic knowledge), "+
			"or a match-function registration (not an exact ID) answered, or handlers were changed after the first batch of opens. "+
			"Distinct = distinct (pair kind, limited, handler history, knowledge states, request lists, first-operation kinds). "+
			"Labels first-op:<kind>:<eager|lazy-accepted|lazy-refused> count the cases containing such an open. "+
			"The request list is the caller's own slice OBJECT, and which object an open passes is generated: a private slice (2/6), a list the application keeps "+
			"(request + 0..2 further entries behind it, 2/6) or a prefix (the same one in 2/3 of the draws, else any of 1..3 entries) of a list kept since an earlier open of the case (2/6), passed with the "+
			"rest of the array as spare capacity or clipped ([:n:n], 1/4); so one list object is passed to several NewStream calls of a history: concurrently in one batch, in later "+
			"rounds after handler / knowledge changes, and (both-directions tests) by either host, i.e. towards different peers. The enumerated tests pass one kept list per request to all opens of a case. "+
			"Oracle: every open is judged against the list the caller intended (a reference copy the library never sees), and the backing array of every passed slice must hold after the call, "+
			"and at quiescence after the batch, what it held before (NewStream takes the list by value; a list the library rewrote makes the later opens of the history request something else than the caller listed). "+
			"Labels request-list:... count the cases containing an open of that class (reused = the same object was passed by another open of the case). "+
			"TestBothDirections / TestBothDirectionsSmall generate the same rounds with opens in BOTH directions over the one connection: both hosts carry independently drawn "+
			"(asymmetric) handler sets, each round names which host opens (2..5 rounds, opener switches with probability 2/3), handler changes happen on either host (none in half "+
			"of the rounds; each change makes a BasicHost push its protocol list; in 1/4 of the rounds with changes the opens start while the pushes are in flight), request lists mix "+
			"IDs the responder serves, IDs the responder itself opened earlier to the opener but does not serve, IDs the opener serves, and arbitrary ones; the harness never writes "+
			"a peerstore there, so an opener's knowledge is whatever the library derived from identify, pushes and the earlier opens in either direction "+
			"(label knowledge-source:library-only). Extra oracle rule while the harness has written no knowledge in a case: a failure on first use (or a stream that reaches no handler) "+
			"is tolerated only if the responder accepted or announced the bound protocol at some time or no requested protocol is common; and no application handler may run on the opener's own host. "+
			"There a case is also non-trivial if some request names an ID the responder itself had opened earlier (labels both-ways:...; the longest one counts the cases in which such an ID, never "+
			"served by the responder, precedes a common protocol in the request of a BasicHost opener). TestBothDirectionsSmall: all pairs of exact handler sets over two IDs x first opener x "+
			"ordered requests of both directions x push / no push in between x 3 host pairings, history P->Q, Q->P, P->Q. "+
			"Connection kind (labels conn:...): direct; limited = a direct pipe whose Stat().Limited is set; limited = a real circuit-v2 connection through a third BasicHost running the relay service "+
			"(real circuit client transport and reservation; the connection's listener listens nowhere else, so the relay is the only route; every open passes WithAllowLimitedConn). Drawn per case (nominally 6/9, 2/9, 1/9), "+
			"and taken by fixed fractions of the enumerated tests. "+
			"Withdrawn protocols: requests may start (1/3 of the draws where possible; both-directions rounds and knowledge mode keep) with an ID the responder announced or accepted earlier and neither announces nor accepts now, "+
			"followed by one it accepts. Extra oracle rule (withdrawalDelivered), only while the harness has written no knowledge, both hosts are BasicHosts and the batch started at quiescence: a failure on first use "+
			"(or no handler reached) on such an ID is tolerated only if the opener negotiated it successfully since the responder last changed the set it announces; otherwise, with a common protocol requested, the open must reach "+
			"that protocol's handler - stale-after-removal is tolerated while the announcement is in flight, not after it was delivered, on limited connections as on direct ones. "+
			"Labels withdrawn-id-listed-before-common-protocol[:must-be-refreshed[:conn:...]] count the cases with such an open (must-be-refreshed = the extra rule applies to it). "+
			"TestWithdrawnSmall: 3 connection kinds x which host serves x withdrawn registration (exact | matcher the opener negotiated through) x replaced or not x 7 first operations x pushes settled / in flight, "+
			"history open [X]; withdraw X; open [X,Y]; (quiescence) open [X,Y]. "+
			"Resource-scope histories (TestScopes, TestScopesSmall; scopes_test.go): 2..4 BasicHosts with fixed exact handlers (some attach their streams to a service scope), 4..16 steps drawn for the state they meet "+
			"(a hot-spot host and protocol draw 2/3 of the traffic): connect / disconnect / reconnect, open (request = the one protocol the responder serves or none, optionally with an ID it does not serve before or behind it; "+
			"the stream then STAYS open), close by the opener, by the handler or by both, a run-time limit change on a protocol, peer or service scope of some host (View<Scope> + ResourceScopeLimiter.SetLimit; "+
			"total / inbound / outbound stream limits drawn around the scope's current usage: below it, exactly full, one or two free, lifted), and a collection pass of a host's resource manager "+
			"(rcmgr.VerifGC hook = the body of the once-a-minute job, or a virtual minute passing on all hosts) at any quiescent point. Oracle = the harness' own list of open streams and of the limits it set: "+
			"after every step Stat() of every protocol / peer / service scope on every host counts exactly the open streams charged to it, by direction; an open is refused only where a limit the harness set does not admit "+
			"one more stream on top of that count (then nothing stays charged, and no handler runs if the responder's peer or protocol scope refused), every other open with a common protocol reaches exactly the right handler "+
			"and is counted on both sides from then on; a collection pass is invisible. Non-trivial there = a limit was set while streams charged to that scope were open, or an open was refused by a limit, or a peer whose own "+
			"scope was collected (it was away during a pass) while the protocol / service scope stayed in use opens that protocol again. Labels limit:..., open:..., collect:..., close:..., reconnect count the cases containing such a step. "+
			"TestScopesSmall: 3 hosts, {nobody, C->B, B->C keeps an X stream open at B} x {no limit, limit on X before first use, on X / on the peer's scope while A's stream is open} x first opener x "+
			"{A's stream closed, A disconnects, B disconnects} x {no pass, pass at B, at A and B, a minute passes} x returning opener x service attached or not, then limit := exactly full, refused open, oldest stream closed, admitted open. "+
			"Per-peer limits (the part of a protocol's / service's scope that belongs to ONE peer): in 2/3 of the TestScopes cases the hosts' resource managers are CONFIGURED (PartialLimitConfig.ProtocolPeer / ServicePeer over infinite "+
			"defaults; these sub-scopes cannot be reached through View, so they are configuration, not run-time steps) with per-peer limits of 1..3 streams (total / inbound / inbound+outbound / total+inbound) on a quarter of the "+
			"(host, protocol) and (host, service) pairs, the hot-spot pair in 3/4; and a 'burst' step (at most two per case, on top of the 4..16 steps) makes ONE peer open one protocol over and over (3/4 of the draws: a protocol a per-peer limit applies to): churn = open, end the stream "+
			"(both ends 4/6, opener only, handler only), as many rounds as the limit or one more; pile = opens with no close up to one or two beyond the limit. The per-peer sub-scopes enter the same reference model as further scopes a stream is "+
			"charged to while it is open (opener: protocol-peer; responder: protocol-peer and, with a service-attaching handler, service-peer); their Stat() cannot be read, so they are judged through admission: an open the model admits must "+
			"reach its handler (streams that ended are no longer charged to the peer's share), an open beyond the share is refused (no handler if the protocol's share refuses, the handler's SetService fails if the service's share does) "+
			"and after every refusal the readable scopes (protocol, peer, service) still count exactly the open streams, so other peers' opens are admitted. A case with an open through a configured per-peer limit is non-trivial. "+
			"Labels config:per-peer-..., burst:churn|pile, open:through-a-per-peer-limit:<which>, open:refused-by-per-peer-limit:<which>, open:admitted-after-the-peer-ended-at-least-its-per-peer-limit-of-streams:<which | service-attached-handler>, "+
			"open:admitted-while-another-peer-is-at-its-per-peer-limit-of-the-protocol count the cases containing such an open. "+
			"TestPerPeerSmall: 3 hosts, one per-peer limit {B protocol-peer total, B protocol-peer inbound, B service-peer total, A protocol-peer outbound} x L=1..3 x service attached or not x stream ends {both, opener then handler} x "+
			"1..2 opens beyond the limit; history: L+1 rounds of open+end by A, A piles up L+extra opens, C opens, A's oldest stream ends, A opens again.",
		"go-multistream (select / lazy select / muxer) is a trusted dependency, exercised but not modelled",
		"handler changes are applied between batches of opens, never concurrently with an open, so 'installed when the open started' is well defined; "+
			"the batch starts at quiescence (synctest.Wait), except in the both-directions rounds marked no_settle, where only the identify pushes caused by the changes are still in flight "+
			"(there 'earlier knowledge' is bounded by the model: the responder accepted or announced the protocol at some time)",
		"which of two concurrent opens of one batch negotiates first is decided by the Go scheduler: the generated inputs are a pure function of the seed, the eager/lazy outcome labels of such batches may differ by a few counts between runs",
		"application payload starts with a 0x00 byte, which is never a valid multistream token: after a refused lazy negotiation the listener cannot "+
			"mistake payload for a further protocol proposal",
		"the in-memory transport replaces only the socket; security, muxer, swarm, hosts, identify and resource manager are the real ones",
		"relayed connections: relay limits are set far above what a case uses (30 min, 4 MiB), so a limit that bites is never the reason of an outcome; what 'limited' means to the hosts (Stat().Limited, opt-in per open) is unchanged",
		"withdrawalDelivered relies on the documented identify behaviour that a BasicHost pushes every change of its announced protocol set to its connected peers and that the receiver replaces its knowledge with it; "+
			"quiescence (synctest.Wait) is what 'delivered' means",
		"failure on first use is accepted as: a Write (also an empty one), CloseWrite or Close may be accepted locally (lazy select does not wait for the answer), "+
			"the first Read (also one into an empty buffer) must return an error and no data; for a stream closed at once only 'no application handler runs' is demanded",
		"not generated as first operations: Reset, CloseRead, deadline-only use; a stream the dialer resets may or may not reach a handler, the statement is silent there",
		"resource-scope histories: 'charged to the scope' is read as 'counted by the scope's Stat() and against its limit' (the resource manager's documented meaning); limits other than stream counts (memory, connections, FDs) and the "+
			"system / transient scopes stay unlimited; per-peer protocol / service limits are fixed for the life of a host (configuration), all other limits are set at run time; only BasicHosts (BlankHost ignores the scope's answer); steps are applied at quiescence, one open at a time; "+
			"rcmgr.VerifGC (verif build tag) is trusted to run exactly what the background job runs",
	)
	hx.Main(m)
}

// ---------------------------------------------------------------------------
// protocol universe and matchers

var regUniverse = []protocol.ID{"/a/1.0.0", "/a/1.1.0", "/a/1.2.0", "/a/2.0.0", "/a", "/ab", "/ab/1.0.0", "/b", "/b/1.0.0"}

// reqUniverse adds an ID nobody ever registers (always available for over-optimistic knowledge).
var reqUniverse = append(append([]protocol.ID{}, regUniverse...), "/c/1.0.0")

func splitSemver(id protocol.ID) (base string, major, minor int, ok bool) {
	s := string(id)
	i := strings.LastIndex(s, "/")
	if i <= 0 {
		return "", 0, 0, false
	}
	parts := strings.Split(s[i+1:], ".")
	if len(parts) != 3 {
		return "", 0, 0, false
	}
	var n [3]int
	for k, p := range parts {
		v, err := strconv.Atoi(p)
		if err != nil {
			return "", 0, 0, false
		}
		n[k] = v
	}
	return s[:i], n[0], n[1], true
}

// accepts is the definition of "registered for (or matching)": exact registrations accept
// their own ID only; match registrations accept what their match function accepts (the
// registration name is NOT used for matching, as documented in core/protocol/switch.go).
func accepts(kind string, name, target, id protocol.ID) bool {
	switch kind {
	case "exact":
		return id == name
	case "prefix":
		return strings.HasPrefix(string(id), string(name))
	case "path":
		return id == name || strings.HasPrefix(string(id), string(name)+"/")
	case "semver":
		b1, M1, m1, ok1 := splitSemver(name)
		b2, M2, m2, ok2 := splitSemver(id)
		return ok1 && ok2 && b1 == b2 && M1 == M2 && m2 <= m1
	case "alias":
		return id == target
	}
	return false
}

// ---------------------------------------------------------------------------
// scenario

type lop struct {
	Op     string      `json:"op"` // set | match | remove
	Pid    protocol.ID `json:"pid"`
	Kind   string      `json:"kind,omitempty"`
	Target protocol.ID `json:"target,omitempty"`
	Host   string      `json:"host,omitempty"` // "" = the host that listened for the connection, "D" = the host that dialled it
}

type openSpec struct {
	// Req is the ordered list the caller INTENDS to request. It is the oracle's reference and is
	// never handed to the library: the slice object that is passed to NewStream is built (or
	// looked up) at run time, see List.
	Req []protocol.ID `json:"req"`
	Use string        `json:"use"` // the dialer's first operation(s) on the fresh stream, see useKinds
	// List says which slice OBJECT the caller passes. 0: a private slice built for this one call
	// (len == cap). k > 0: the caller's kept list k (scenario.Lists[k-1]), an object that lives for
	// the whole case and is passed, as kept[:len(Req)], to every open naming it; Req is that prefix.
	List int `json:"list,omitempty"`
	// Clip: pass kept[:n:n] (the callee sees no spare capacity) instead of kept[:n].
	Clip  bool `json:"clip,omitempty"`
	nonce uint64
}

// How the dialer uses the stream NewStream returned. The statement quantifies over every
// open; which stream operation the application performs first is part of "every open"
// (a lazily negotiated stream sends its handshake as a side effect of that operation).
const (
	useWrite           = "write"            // Write(request); read greeting; read echo
	useWriteEmpty      = "write-empty"      // Write(nil); then as write
	useRead            = "read"             // read greeting (server speaks first); Write(request); read echo
	useReadEmpty       = "read-empty"       // Read(zero-length buffer); then as write
	useCloseWrite      = "closewrite"       // CloseWrite() with nothing sent; read greeting; read echo (of nothing)
	useClose           = "close"            // Close() at once; nothing can be read
	useWriteCloseWrite = "write-closewrite" // Write(request); CloseWrite(); read greeting; read echo
)

var useKinds = []string{useWrite, useWriteEmpty, useRead, useReadEmpty, useCloseWrite, useClose, useWriteCloseWrite}

// drawn with these weights: the classic write-first exchange keeps 4/11 of the opens
var useWeighted = []string{useWrite, useWrite, useWrite, useWrite, useWriteEmpty, useRead, useReadEmpty, useCloseWrite, useCloseWrite, useClose, useWriteCloseWrite}

func (o openSpec) use() string {
	if o.Use == "" {
		return useWrite
	}
	return o.Use
}

// sendsRequest: the dialer writes its 9-byte request on the stream (everything but the
// two kinds that close without having sent anything).
func (o openSpec) sendsRequest() bool { return o.use() != useCloseWrite && o.use() != useClose }

// A round: handler changes (on either host), then one batch of concurrent opens, all made
// by the same host. Which of the two hosts opens is part of the round: the statement is
// about "a host" opening a stream to "the remote", not about the host that happened to
// dial the connection. Opener "" = the host that dialled the connection, "L" = the host
// that listened for it.
type round struct {
	Ops      []lop         `json:"ops"`
	KnowMode string        `json:"know_mode"`
	Know     []protocol.ID `json:"know,omitempty"`
	Opens    []openSpec    `json:"opens"`
	Opener   string        `json:"opener,omitempty"`
	// NoSettle: the opens start right after the handler changes of this round, while the
	// identify pushes they caused are still in flight (default: pushes are delivered first).
	NoSettle bool `json:"no_settle,omitempty"`
}

// Dialer / Listener are the kinds of the host that dials / listens for the one connection
// of the case; streams are opened over it by the host each round names.
type scenario struct {
	Dialer   string `json:"dialer"`
	Listener string `json:"listener"`
	Limited  bool   `json:"limited"`
	// Relay (only with Limited): the limited connection is a real circuit-v2 connection through
	// a third host and the only route between the two hosts (relay_test.go); otherwise a limited
	// connection is a direct pipe that reports Stat().Limited.
	Relay  bool    `json:"relay,omitempty"`
	Init   []lop   `json:"init"`
	InitD  []lop   `json:"init_dialer,omitempty"` // handlers of the connection's dialer (it is a listener for streams too)
	Rounds []round `json:"rounds"`
	// Lists: the request lists the application keeps and reuses (the usual package level
	// `var protocols = []protocol.ID{...}`): full content of each backing array. An open naming
	// list k requests a prefix of it; the entries behind that prefix are spare capacity as far
	// as that call is concerned, and part of the request of an open that passes a longer prefix.
	Lists [][]protocol.ID `json:"lists,omitempty"`
	Key   uint64          `json:"-"`
}

// ---------------------------------------------------------------------------
// reference model of the listener's registrations

type reg struct {
	id     int
	name   protocol.ID
	kind   string
	target protocol.ID
}

func (r *reg) accepts(id protocol.ID) bool { return accepts(r.kind, r.name, r.target, id) }
func (r *reg) String() string {
	if r.kind == "alias" {
		return fmt.Sprintf("#%d %s[alias->%s]", r.id, r.name, r.target)
	}
	return fmt.Sprintf("#%d %s[%s]", r.id, r.name, r.kind)
}

type lmodel struct {
	installed []*reg // in registration order
	all       []*reg
	ever      map[protocol.ID]bool // IDs accepted at some point of the history
	named     map[protocol.ID]bool // IDs that were the name of a registration at some point (what the host itself announces)
}

func newModel() *lmodel { return &lmodel{ever: map[protocol.ID]bool{}, named: map[protocol.ID]bool{}} }

// apply returns the new registration for set/match (nil for remove).
func (m *lmodel) apply(op lop) *reg {
	// every operation on a name first drops the registration carrying that name
	for i, r := range m.installed {
		if r.name == op.Pid {
			m.installed = append(m.installed[:i:i], m.installed[i+1:]...)
			break
		}
	}
	var nr *reg
	if op.Op != "remove" {
		kind := "exact"
		if op.Op == "match" {
			kind = op.Kind
		}
		nr = &reg{id: len(m.all), name: op.Pid, kind: kind, target: op.Target}
		m.all = append(m.all, nr)
		m.installed = append(m.installed, nr)
		m.named[op.Pid] = true
	}
	for _, id := range reqUniverse {
		if m.accepted(id) {
			m.ever[id] = true
		}
	}
	return nr
}

func (m *lmodel) acceptors(id protocol.ID) []*reg {
	var out []*reg
	for _, r := range m.installed {
		if r.accepts(id) {
			out = append(out, r)
		}
	}
	return out
}

func (m *lmodel) accepted(id protocol.ID) bool { return len(m.acceptors(id)) > 0 }

func (m *lmodel) isInstalled(id int) bool {
	for _, r := range m.installed {
		if r.id == id {
			return true
		}
	}
	return false
}

func (m *lmodel) acceptedSet() []protocol.ID {
	var out []protocol.ID
	for _, id := range reqUniverse {
		if m.accepted(id) {
			out = append(out, id)
		}
	}
	return out
}

// namedNow: id is the name of an installed registration, i.e. the host announces it at present
// (identify and identify push carry the names of the registrations, Mux().Protocols()).
func (m *lmodel) namedNow(id protocol.ID) bool {
	for _, r := range m.installed {
		if r.name == id {
			return true
		}
	}
	return false
}

// announced is the set of names the host announces at present, as a comparable key.
func (m *lmodel) announced() string {
	var s []string
	for _, r := range m.installed {
		s = append(s, string(r.name))
	}
	sort.Strings(s)
	return strings.Join(s, "\x00")
}

// withdrawn: IDs the host announced or accepted at some time and neither announces nor accepts
// now (what a peer that has not heard of the change still believes: "stale after handler removal").
func (m *lmodel) withdrawn() []protocol.ID {
	var out []protocol.ID
	for _, id := range reqUniverse {
		if (m.ever[id] || m.named[id]) && !m.accepted(id) && !m.namedNow(id) {
			out = append(out, id)
		}
	}
	return out
}

func (m *lmodel) describe() string {
	var s []string
	for _, r := range m.installed {
		s = append(s, r.String())
	}
	return "[" + strings.Join(s, ", ") + "]"
}

// ---------------------------------------------------------------------------
// generator (the model is a pure function of the operations, so the generator runs it to
// construct knowledge states and request lists of every class instead of rejecting)

func drawOp(rt *rapid.T, m *lmodel) lop {
	switch k := rapid.IntRange(0, 9).Draw(rt, "opkind"); {
	case k <= 3:
		return lop{Op: "set", Pid: rapid.SampledFrom(regUniverse).Draw(rt, "pid")}
	case k <= 6:
		pid := rapid.SampledFrom(regUniverse).Draw(rt, "pid")
		kinds := []string{"prefix", "path", "alias"}
		if _, _, _, ok := splitSemver(pid); ok {
			kinds = append(kinds, "semver", "semver")
		}
		o := lop{Op: "match", Pid: pid, Kind: rapid.SampledFrom(kinds).Draw(rt, "mkind")}
		if o.Kind == "alias" {
			var others []protocol.ID
			for _, x := range regUniverse {
				if x != pid {
					others = append(others, x)
				}
			}
			o.Target = rapid.SampledFrom(others).Draw(rt, "target")
		}
		return o
	default:
		if len(m.installed) > 0 && rapid.IntRange(0, 3).Draw(rt, "rm-installed") > 0 {
			return lop{Op: "remove", Pid: m.installed[rapid.IntRange(0, len(m.installed)-1).Draw(rt, "rm-idx")].name}
		}
		return lop{Op: "remove", Pid: rapid.SampledFrom(regUniverse).Draw(rt, "pid")}
	}
}

var knowModes = []string{"keep", "none", "accurate", "stale", "stale", "optimistic", "optimistic", "random"}

func drawKnowledge(rt *rapid.T, m *lmodel, mode string) []protocol.ID {
	acc := m.acceptedSet()
	switch mode {
	case "none", "keep":
		return nil
	case "accurate":
		return acc
	case "stale":
		out := append([]protocol.ID{}, acc...)
		for _, id := range reqUniverse {
			if m.ever[id] && !m.accepted(id) {
				out = append(out, id)
			}
		}
		return out
	case "optimistic":
		out := append([]protocol.ID{}, acc...)
		var never []protocol.ID
		for _, id := range reqUniverse {
			if !m.ever[id] {
				never = append(never, id)
			}
		}
		// non-empty by construction: /c/1.0.0 is never registered
		first := rapid.IntRange(0, len(never)-1).Draw(rt, "opt-first")
		for i, id := range never {
			if i == first || rapid.IntRange(0, 3).Draw(rt, "opt-more") == 0 {
				out = append(out, id)
			}
		}
		return out
	default: // random
		var out []protocol.ID
		for _, id := range reqUniverse {
			if rapid.Bool().Draw(rt, "know-"+string(id)) {
				out = append(out, id)
			}
		}
		return out
	}
}

// private returns a copy of l with len == cap. Every list of the harness that reaches the
// library through a variadic parameter (which shares the backing array) is passed as such a
// copy: the scenario, the universe and the oracle's reference lists are never exposed to writes
// by the code under test. (The slices handed to NewStream are the generated objects, see openSpec.List.)
func private(l []protocol.ID) []protocol.ID { return append(make([]protocol.ID, 0, len(l)), l...) }

func contains(l []protocol.ID, id protocol.ID) bool {
	for _, x := range l {
		if x == id {
			return true
		}
	}
	return false
}

func drawRequest(rt *rapid.T, m *lmodel, know []protocol.ID, knowMode string) []protocol.ID {
	acc := m.acceptedSet()
	var bad []protocol.ID // believed supported, not accepted
	for _, id := range know {
		if !m.accepted(id) {
			bad = append(bad, id)
		}
	}
	n := rapid.IntRange(1, 3).Draw(rt, "nreq")
	var req []protocol.ID
	if knowMode == "keep" { // knowledge as the library left it: what the listener withdrew should be gone from it
		req = drawWithdrawnFirst(rt, m)
		n = max(n, len(req))
	}
	for len(req) < n {
		var id protocol.ID
		switch c := rapid.IntRange(0, 5).Draw(rt, "reqclass"); {
		case c <= 1 && len(acc) > 0:
			id = rapid.SampledFrom(acc).Draw(rt, "req-acc")
		case c == 2 && len(bad) > 0:
			id = rapid.SampledFrom(bad).Draw(rt, "req-bad")
		default:
			id = rapid.SampledFrom(reqUniverse).Draw(rt, "req-any")
		}
		// distinct by construction: walk to the next unused ID
		for k := 0; contains(req, id); k++ {
			for i, x := range reqUniverse {
				if x == id {
					id = reqUniverse[(i+1)%len(reqUniverse)]
					break
				}
			}
		}
		req = append(req, id)
	}
	return req
}

// nextUnused walks the request universe from id to the first ID that is not in used.
func nextUnused(used []protocol.ID, id protocol.ID) protocol.ID {
	for contains(used, id) {
		for i, x := range reqUniverse {
			if x == id {
				id = reqUniverse[(i+1)%len(reqUniverse)]
				break
			}
		}
	}
	return id
}

// listPool is the generator's view of the request lists the application keeps (scenario.Lists).
// The statement quantifies over every ordered request list and over histories of opens; the
// list is the caller's own object, and NewStream receives it by value (`pids ...protocol.ID`
// shares the caller's backing array). A caller that keeps one list and passes it to several
// opens - concurrently, after handler or knowledge changes, from either host - requests in
// every one of them what it put into the list, whatever earlier calls did with it.
type listPool struct {
	lists    [][]protocol.ID
	firstLen []int // length of the prefix the creating open passed
}

// draw decides which slice object an open passes and returns the intended request: a prefix of
// a list kept since an earlier open (2/6 once one exists), a new kept list whose first entries
// are a request constructed by fresh() for the current state, followed by 0..2 further
// entries (2/6), or a private slice holding fresh() (2/6).
func (p *listPool) draw(rt *rapid.T, fresh func() []protocol.ID) (req []protocol.ID, list int, clip bool) {
	src := rapid.IntRange(0, 5).Draw(rt, "listsrc")
	if src <= 1 && len(p.lists) > 0 {
		k := rapid.IntRange(0, len(p.lists)-1).Draw(rt, "list-idx")
		st := p.lists[k]
		n := p.firstLen[k]
		if rapid.IntRange(0, 2).Draw(rt, "list-otherlen") == 0 {
			n = rapid.IntRange(1, min(len(st), 3)).Draw(rt, "list-len")
		}
		return append([]protocol.ID{}, st[:n]...), k + 1, rapid.IntRange(0, 3).Draw(rt, "list-clip") == 0
	}
	req = fresh()
	if src > 3 {
		return req, 0, false
	}
	st := append([]protocol.ID{}, req...)
	for i, n := 0, rapid.IntRange(0, 2).Draw(rt, "list-spare"); i < n; i++ {
		st = append(st, nextUnused(st, rapid.SampledFrom(reqUniverse).Draw(rt, "list-spare-id")))
	}
	p.lists = append(p.lists, st)
	p.firstLen = append(p.firstLen, len(req))
	return req, len(p.lists), rapid.IntRange(0, 3).Draw(rt, "list-clip") == 0
}

func mix(x uint64) uint64 { // splitmix64 finaliser: a bijection, so nonces of one case are distinct
	x += 0x9e3779b97f4a7c15
	x = (x ^ (x >> 30)) * 0xbf58476d1ce4e5b9
	x = (x ^ (x >> 27)) * 0x94d049bb133111eb
	return x ^ (x >> 31)
}

// drawConn draws the connection kind: direct (nominally 6/9), limited = a direct pipe flagged
// Limited (2/9), limited = through a relay host, the only route between the two hosts (1/9;
// rapid prefers small values, the label histogram shows the real shares).
func drawConn(rt *rapid.T, sc *scenario) {
	c := rapid.IntRange(0, 8).Draw(rt, "conn")
	sc.Limited, sc.Relay = c <= 2, c == 0
}

func drawScenario(rt *rapid.T) *scenario {
	sc := &scenario{Key: rapid.Uint64().Draw(rt, "key")}
	switch p := rapid.IntRange(0, 9).Draw(rt, "pair"); {
	case p <= 5:
		sc.Dialer, sc.Listener = "basic", "basic"
	case p <= 6:
		sc.Dialer, sc.Listener = "blank", "blank"
	case p <= 8:
		sc.Dialer, sc.Listener = "basic", "blank"
	default:
		sc.Dialer, sc.Listener = "blank", "basic"
	}
	drawConn(rt, sc)
	m := newModel()
	for i, n := 0, rapid.IntRange(0, 4).Draw(rt, "ninit"); i < n; i++ {
		op := drawOp(rt, m)
		m.apply(op)
		sc.Init = append(sc.Init, op)
	}
	nonce := 0
	pool := &listPool{}
	for i, n := 0, rapid.IntRange(1, 4).Draw(rt, "nrounds"); i < n; i++ {
		var r round
		r.KnowMode = rapid.SampledFrom(knowModes).Draw(rt, "knowmode")
		for j, k := 0, rapid.IntRange(0, 3).Draw(rt, "nops"); j < k; j++ {
			op := drawOp(rt, m)
			m.apply(op)
			r.Ops = append(r.Ops, op)
		}
		if r.KnowMode == "stale" && len(m.installed) > 0 {
			// construct staleness: something the listener accepts now is removed in this round
			// (the dialer will afterwards be told it is still supported)
			stale := false
			for _, id := range reqUniverse {
				if m.ever[id] && !m.accepted(id) {
					stale = true
				}
			}
			if !stale {
				op := lop{Op: "remove", Pid: m.installed[rapid.IntRange(0, len(m.installed)-1).Draw(rt, "stale-rm")].name}
				m.apply(op)
				r.Ops = append(r.Ops, op)
			}
		}
		r.Know = drawKnowledge(rt, m, r.KnowMode)
		for j, k := 0, rapid.IntRange(1, 4).Draw(rt, "nopens"); j < k; j++ {
			nonce++
			req, list, clip := pool.draw(rt, func() []protocol.ID { return drawRequest(rt, m, r.Know, r.KnowMode) })
			r.Opens = append(r.Opens, openSpec{Req: req, List: list, Clip: clip, Use: rapid.SampledFrom(useWeighted).Draw(rt, "use"), nonce: mix(sc.Key + uint64(nonce))})
		}
		sc.Rounds = append(sc.Rounds, r)
	}
	sc.Lists = pool.lists
	return sc
}

// ---------------------------------------------------------------------------
// wire format. Dialer -> handler: one 9-byte request (or nothing). Handler -> dialer: two
// length-prefixed JSON messages, the greeting (sent before the handler reads anything, so
// that every order of the dialer's first operations terminates) and the echo.

const payloadLen = 9 // 0x00 | nonce (8 bytes, big endian)

func payload(nonce uint64) []byte {
	b := make([]byte, payloadLen)
	binary.BigEndian.PutUint64(b[1:], nonce)
	return b
}

// reply is the greeting: who is answering.
type reply struct {
	Reg    int    `json:"reg"`
	Proto  string `json:"proto"`
	Inv    int    `json:"inv"`    // serial number of the handler invocation (unique per case)
	Remote string `json:"remote"` // remote peer as seen by the handler's stream
	Local  string `json:"local"`
	Dir    int    `json:"dir"`
}

// echo is what the invocation received from the dialer before answering.
type echo struct {
	Inv   int    `json:"inv"`
	N     int    `json:"n"`     // request bytes received (payloadLen, or fewer followed by EOF)
	EOF   bool   `json:"eof"`   // the request ended by EOF before payloadLen bytes
	Nonce uint64 `json:"nonce"` // valid when N == payloadLen
}

var errNoProgress = errors.New("Read returned (0, nil) repeatedly: neither data nor error")

// readSome reads until buf is full or the reader fails; it gives up on a reader that keeps
// returning (0, nil). io.EOF is returned as such (with the count read so far).
func readSome(r io.Reader, buf []byte) (int, error) {
	n, idle := 0, 0
	for n < len(buf) {
		k, err := r.Read(buf[n:])
		n += k
		if n >= len(buf) {
			return n, nil
		}
		if err != nil {
			return n, err
		}
		if k == 0 {
			idle++
			if idle > 8 {
				return n, errNoProgress
			}
		} else {
			idle = 0
		}
	}
	return n, nil
}

// readFull is io.ReadFull on top of readSome.
func readFull(r io.Reader, buf []byte) error {
	_, err := readSome(r, buf)
	return err
}

func writeMsg(w io.Writer, v any) error {
	b, err := json.Marshal(v)
	if err != nil {
		return err
	}
	out := make([]byte, 2+len(b))
	binary.BigEndian.PutUint16(out, uint16(len(b)))
	copy(out[2:], b)
	_, err = w.Write(out)
	return err
}

func readMsg(r io.Reader, v any) error {
	var l [2]byte
	if err := readFull(r, l[:]); err != nil {
		return err
	}
	b := make([]byte, binary.BigEndian.Uint16(l[:]))
	if err := readFull(r, b); err != nil {
		return fmt.Errorf("message body: %w", err)
	}
	dec := json.NewDecoder(strings.NewReader(string(b)))
	dec.DisallowUnknownFields()
	if err := dec.Decode(v); err != nil {
		return fmt.Errorf("message is not what a handler of this harness writes here: %q: %w", b, err)
	}
	return nil
}

// ---------------------------------------------------------------------------
// handler side

type invocation struct {
	serial int
	reg    int
	proto  protocol.ID
	remote peer.ID
	done   bool // the request was read (completely, or up to EOF)
	got    int
	eof    bool
	nonce  uint64 // valid when got == payloadLen
}

type hlog struct {
	mu      sync.Mutex
	inv     []*invocation
	next    int
	release chan struct{} // handlers keep their stream open until this is closed
}

func newHlog() *hlog { return &hlog{release: make(chan struct{})} }

func (l *hlog) take() []*invocation {
	l.mu.Lock()
	defer l.mu.Unlock()
	out := l.inv
	l.inv = nil
	return out
}

// releaseAll lets every handler that is holding its stream finish; later invocations get
// a fresh gate.
func (l *hlog) releaseAll() {
	l.mu.Lock()
	defer l.mu.Unlock()
	close(l.release)
	l.release = make(chan struct{})
}

// handlerFor returns the application handler of registration r: it records that it ran
// (before touching the stream), greets, reads the request (9 bytes, or fewer up to EOF),
// echoes what it got and then holds the stream until the harness has audited the batch.
func handlerFor(r *reg, l *hlog) network.StreamHandler {
	return func(s network.Stream) {
		inv := &invocation{reg: r.id, proto: s.Protocol(), remote: s.Conn().RemotePeer()}
		l.mu.Lock()
		inv.serial = l.next
		l.next++
		l.inv = append(l.inv, inv)
		release := l.release
		l.mu.Unlock()
		err := writeMsg(s, reply{Reg: r.id, Proto: string(s.Protocol()), Inv: inv.serial,
			Remote: s.Conn().RemotePeer().String(), Local: s.Conn().LocalPeer().String(), Dir: int(s.Stat().Direction)})
		if err != nil {
			s.Reset()
			return
		}
		buf := make([]byte, payloadLen)
		n, err := readSome(s, buf)
		if err != nil && err != io.EOF {
			s.Reset()
			return
		}
		e := echo{Inv: inv.serial, N: n, EOF: err == io.EOF}
		if n == payloadLen {
			e.Nonce = binary.BigEndian.Uint64(buf[1:])
		}
		l.mu.Lock()
		inv.done, inv.got, inv.eof = true, n, e.EOF
		inv.nonce = e.Nonce
		l.mu.Unlock()
		if err := writeMsg(s, e); err != nil {
			s.Reset()
			return
		}
		<-release
		if _, err := io.Copy(io.Discard, s); err != nil {
			s.Reset()
			return
		}
		s.Close()
	}
}

func applyOp(h *node, op lop, r *reg, l *hlog) {
	switch op.Op {
	case "set":
		h.SetStreamHandler(op.Pid, handlerFor(r, l))
	case "match":
		kind, name, target := r.kind, r.name, r.target
		h.SetStreamHandlerMatch(op.Pid, func(id protocol.ID) bool { return accepts(kind, name, target, id) }, handlerFor(r, l))
	case "remove":
		h.RemoveStreamHandler(op.Pid)
	}
}

// ---------------------------------------------------------------------------
// running a scenario

type failer interface {
	Fatalf(format string, args ...any)
}

type openResult struct {
	err       error // NewStream error
	s         network.Stream
	proto     protocol.ID
	lazy      bool
	useErr    error // first round trip failed
	wroteOK   bool
	closed    bool // use "close": Close() was the only operation
	closeErr  error
	rep       *reply
	echo      *echo
	protoPost protocol.ID
	claimed   bool // an application handler invocation was attributed to this open
	// the caller's slice object: what NewStream was given (arg, a prefix of backing) and a copy
	// of the whole backing array taken when NewStream returned
	arg, backing []protocol.ID
	listAfter    []protocol.ID
}

// listUse records one open that passed a kept request list (for the reuse labels).
type listUse struct {
	round, n, opener int
	lazy             bool
	outcome          string // bound protocol, or "error"
	nonFirst         bool   // bound to an entry other than the first one of the request
}

// useStream performs the generated usage of a fresh stream (see useKinds). A failure of
// any operation before the echo has arrived is recorded as "first use failed".
func useStream(s network.Stream, o openSpec, out *openResult) {
	fail := func(stage string, err error) {
		out.useErr = fmt.Errorf("%s: %w", stage, err)
		s.Reset()
	}
	use := o.use()
	if use == useClose {
		out.closed, out.closeErr = true, s.Close()
		return
	}
	s.SetDeadline(time.Now().Add(20 * time.Second))
	var rep reply
	greeted := false
	switch use {
	case useWriteEmpty:
		if _, err := s.Write(nil); err != nil {
			fail("empty write", err)
			return
		}
	case useReadEmpty:
		if _, err := s.Read(make([]byte, 0)); err != nil {
			fail("read into an empty buffer", err)
			return
		}
	case useRead:
		if err := readMsg(s, &rep); err != nil {
			fail("read", err)
			return
		}
		greeted = true
	case useCloseWrite:
		if err := s.CloseWrite(); err != nil {
			fail("closewrite", err)
			return
		}
	}
	if o.sendsRequest() {
		if _, err := s.Write(payload(o.nonce)); err != nil {
			fail("write", err)
			return
		}
		out.wroteOK = true
	}
	if use == useWriteCloseWrite {
		if err := s.CloseWrite(); err != nil {
			fail("closewrite after write", err)
			return
		}
	}
	if !greeted {
		if err := readMsg(s, &rep); err != nil {
			fail("read", err)
			return
		}
	}
	var e echo
	if err := readMsg(s, &e); err != nil {
		fail("read", err)
		return
	}
	s.SetDeadline(time.Time{})
	out.rep, out.echo, out.protoPost = &rep, &e, s.Protocol()
}

type outcome struct {
	labels     map[string]bool
	nontrivial bool
	trace      []string
}

type protoStat struct{ out, in int }

func viewStats(f failer, n *node) map[protocol.ID]protoStat {
	out := map[protocol.ID]protoStat{}
	for _, id := range reqUniverse {
		err := n.rm.ViewProtocol(id, func(ps network.ProtocolScope) error {
			st := ps.Stat()
			out[id] = protoStat{out: st.NumStreamsOutbound, in: st.NumStreamsInbound}
			return nil
		})
		if err != nil {
			f.Fatalf("harness: ViewProtocol(%s): %v", id, err)
		}
	}
	return out
}

// side is one of the two hosts of a case: every host is a listener for streams (it has
// handlers, modelled by m, whose invocations are logged in hl) and may be the opener of a
// round.
type side struct {
	n    *node
	kind string
	role string // "conn-dialer" | "conn-listener"
	m    *lmodel
	hl   *hlog
	base map[protocol.ID]protoStat
	// bound: protocol IDs of the streams this host obtained from NewStream so far in the case
	// (i.e. what the other host has seen this host open)
	bound map[protocol.ID]bool
	// learned: protocols this host negotiated successfully with the other host since the other
	// host last changed the set of protocols it announces (cleared at every such change)
	learned map[protocol.ID]bool
}

func runScenario(f failer, sc *scenario) *outcome {
	oc := &outcome{labels: map[string]bool{}}
	lab := func(s string) { oc.labels[s] = true }
	if sc.Relay && !sc.Limited {
		f.Fatalf("harness: a relayed connection is a limited one")
	}
	w := newWorld(sc.Limited && !sc.Relay)
	defer w.closePipes()
	D, err := newNode(w, sc.Dialer, keys.Ed(71), "10.7.0.1", false)
	if err != nil {
		f.Fatalf("harness: dialer host: %v", err)
	}
	defer D.Close()
	L, err := newNode(w, sc.Listener, keys.Ed(72), "10.7.0.2", !sc.Relay)
	if err != nil {
		f.Fatalf("harness: listener host: %v", err)
	}
	defer L.Close()

	sides := [2]*side{
		{n: D, kind: sc.Dialer, role: "conn-dialer", m: newModel(), hl: newHlog(), bound: map[protocol.ID]bool{}, learned: map[protocol.ID]bool{}},
		{n: L, kind: sc.Listener, role: "conn-listener", m: newModel(), hl: newHlog(), bound: map[protocol.ID]bool{}, learned: map[protocol.ID]bool{}},
	}
	sideOf := func(op lop) *side {
		if op.Host == "D" {
			return sides[0]
		}
		return sides[1]
	}
	// registered after the hosts: runs before they are closed, also on failure
	defer sides[0].hl.releaseAll()
	defer sides[1].hl.releaseAll()
	for _, op := range sc.Init {
		applyOp(L, op, sides[1].m.apply(op), sides[1].hl)
	}
	for _, op := range sc.InitD {
		applyOp(D, op, sides[0].m.apply(op), sides[0].hl)
	}
	baseCtx := context.Background()
	if sc.Limited {
		baseCtx = network.WithAllowLimitedConn(baseCtx, "c07")
	}
	if sc.Relay {
		defer connectThroughRelay(f, w, D, L, baseCtx)()
	} else {
		ctx, cancel := context.WithTimeout(baseCtx, time.Minute)
		err := D.Connect(ctx, peer.AddrInfo{ID: L.ID(), Addrs: L.Addrs()})
		cancel()
		if err != nil {
			f.Fatalf("harness: connect over a faithful pipe failed: %v", err)
		}
	}
	synctest.Wait() // both swarms know the connection; identify has completed where it can
	if got := D.Network().ConnsToPeer(L.ID()); len(got) != 1 || got[0].Stat().Limited != sc.Limited {
		f.Fatalf("harness: expected one connection with Limited=%v, got %d", sc.Limited, len(got))
	}
	if got := L.Network().ConnsToPeer(D.ID()); len(got) != 1 {
		f.Fatalf("harness: expected one connection on the listening host, got %d", len(got))
	}
	sides[0].base, sides[1].base = viewStats(f, D), viewStats(f, L)

	// The application's kept request lists: built once per case, handed to every open that names
	// them. sc.Lists / openSpec.Req (never given to the library) stay the reference.
	kept := make([][]protocol.ID, len(sc.Lists))
	for k, l := range sc.Lists {
		kept[k] = append(make([]protocol.ID, 0, len(l)), l...)
	}
	listUses := make([][]listUse, len(sc.Lists))

	// harnessWrote: the harness has written protocol knowledge into a peerstore in this case.
	// As long as it has not, whatever an opener believes about the other host was produced by
	// the library itself (identify, identify push, earlier opens in either direction).
	harnessWrote := false
	prevOpener := -1

	for ri, r := range sc.Rounds {
		announcedBefore := [2]string{sides[0].m.announced(), sides[1].m.announced()}
		for _, op := range r.Ops {
			t := sideOf(op)
			applyOp(t.n, op, t.m.apply(op), t.hl)
		}
		for i, sd := range sides {
			if sd.m.announced() != announcedBefore[i] {
				// the host announces another set now: it tells every peer (identify push), and what the
				// peer had concluded from earlier opens is replaced by the announcement
				sides[1-i].learned = map[protocol.ID]bool{}
			}
		}
		if ri > 0 && len(r.Ops) > 0 {
			oc.nontrivial = true // handlers changed during the case
			lab("handlers-changed-between-batches")
		}
		if r.NoSettle {
			if len(r.Ops) > 0 && (sc.Dialer == "basic" || sc.Listener == "basic") {
				lab("identify-push:in-flight-during-opens")
			}
		} else {
			synctest.Wait() // identify pushes settle
		}
		oi := 0
		if r.Opener == "L" {
			oi = 1
		}
		O, R := sides[oi], sides[1-oi]
		m, hl := R.m, R.hl // the responder's registrations and handler log
		lab("opener:" + O.role)
		if prevOpener >= 0 && prevOpener != oi {
			lab("opener:switched-between-rounds")
		}
		prevOpener = oi
		switch r.KnowMode {
		case "keep":
		case "random":
			harnessWrote = true
			if err := O.n.Peerstore().SetProtocols(R.n.ID(), private(r.Know)...); err != nil {
				f.Fatalf("harness: SetProtocols: %v", err)
			}
		default:
			harnessWrote = true
			if err := O.n.Peerstore().RemoveProtocols(R.n.ID(), private(reqUniverse)...); err != nil {
				f.Fatalf("harness: RemoveProtocols: %v", err)
			}
			if err := O.n.Peerstore().AddProtocols(R.n.ID(), private(r.Know)...); err != nil {
				f.Fatalf("harness: AddProtocols: %v", err)
			}
		}
		if harnessWrote {
			lab("knowledge-source:harness-wrote-peerstore")
		} else {
			lab("knowledge-source:library-only")
		}
		known, err := O.n.Peerstore().SupportsProtocols(R.n.ID(), private(reqUniverse)...)
		if err != nil {
			f.Fatalf("harness: SupportsProtocols: %v", err)
		}
		inK := map[protocol.ID]bool{}
		for _, id := range known {
			inK[id] = true
		}
		for _, sd := range sides {
			if stale := sd.hl.take(); len(stale) != 0 {
				f.Fatalf("round %d: %d application handler invocation(s) on the %s with no open in progress (first: registration #%d, protocol %q)", ri, len(stale), sd.role, stale[0].reg, stale[0].proto)
			}
		}
		// excused: a stream bound to P that dies on first use (or reaches no handler) is tolerated
		// only when P was chosen optimistically from earlier knowledge. With the pushes of this
		// round still in flight the snapshot `known` is not what NewStream will see, so there the
		// belief is bounded by the model: the responder accepted or announced P at some time.
		excused := func(P protocol.ID) bool {
			if O.kind != "basic" || m.accepted(P) {
				return false
			}
			if r.NoSettle {
				return inK[P] || m.ever[P] || m.named[P]
			}
			return inK[P]
		}

		// the batch: all opens start at the same virtual instant
		res := make([]*openResult, len(r.Opens))
		var wg sync.WaitGroup
		for i := range r.Opens {
			res[i] = &openResult{}
			// the slice object this open passes
			if o := r.Opens[i]; o.List == 0 {
				res[i].backing = append(make([]protocol.ID, 0, len(o.Req)), o.Req...)
				res[i].arg = res[i].backing
			} else {
				if o.List > len(kept) || len(o.Req) > len(sc.Lists[o.List-1]) || !slices.Equal(sc.Lists[o.List-1][:len(o.Req)], o.Req) {
					f.Fatalf("harness: round %d open %d: request %v is not a prefix of kept list %d of %v", ri, i, o.Req, o.List, sc.Lists)
				}
				res[i].backing = kept[o.List-1]
				res[i].arg = res[i].backing[:len(o.Req)]
				if o.Clip {
					res[i].arg = res[i].backing[:len(o.Req):len(o.Req)]
				}
			}
			wg.Add(1)
			go func(o openSpec, out *openResult) {
				defer wg.Done()
				ctx, cancel := context.WithTimeout(baseCtx, 30*time.Second)
				defer cancel()
				s, err := O.n.NewStream(ctx, R.n.ID(), out.arg...)
				out.listAfter = append([]protocol.ID(nil), out.backing...)
				if err != nil {
					out.err = err
					return
				}
				out.s, out.proto = s, s.Protocol()
				out.lazy = strings.Contains(fmt.Sprintf("%T", s), "streamWrapper")
				useStream(s, o, out)
			}(r.Opens[i], res[i])
		}
		wg.Wait()
		synctest.Wait()

		// ---- oracle
		ctxt := func(i int) string {
			return fmt.Sprintf("round %d open %d: request %v, opener %s(%s) knowledge %v (%s), responder %s(%s) registrations %s; earlier: %s", ri, i, r.Opens[i].Req,
				O.role, O.kind, known, map[bool]string{false: "produced by the library alone", true: "written by the harness"}[harnessWrote], R.role, R.kind, m.describe(), strings.Join(oc.trace, " | "))
		}
		// libraryMadeItUp: the statement tolerates a failure on first use when the protocol "was
		// chosen optimistically from earlier knowledge", and lists the knowledge states unknown,
		// accurate, stale after handler removal. Knowledge the library produced by itself about a
		// protocol the responder never accepted and never announced is none of these: if a
		// requested protocol is common to both sides, the open has to succeed on it.
		libraryMadeItUp := func(P protocol.ID, shared bool) bool {
			return !harnessWrote && shared && !m.ever[P] && !m.named[P]
		}
		// withdrawalDelivered: "stale after handler removal" is a state of the opener's knowledge
		// that the statement tolerates, not one it lets last: it demands that an open for a list
		// with a common protocol reaches that protocol's handler, over limited and direct
		// connections alike. Between two BasicHosts a host that stops announcing P tells every
		// connected peer so, and the announcement replaces what the peer believed. So once the
		// system is quiescent after that change (every push delivered), and unless the opener has
		// negotiated P successfully since (a matcher may still have accepted it), knowledge the
		// library produced by itself no longer contains P: an optimistic choice of P is then not
		// "from earlier knowledge" any more, it is knowledge the library failed to refresh.
		// Not demanded: rounds whose pushes are still in flight (no_settle), knowledge written by
		// the harness, a BlankHost on either side (neither sends nor consumes pushes), a protocol
		// the responder still announces without accepting it, and a protocol whose acceptance
		// ended without any change of the announced set (nothing is pushed then).
		withdrawalDelivered := func(P protocol.ID, shared bool) bool {
			return !harnessWrote && shared && O.kind == "basic" && R.kind == "basic" && !r.NoSettle &&
				!m.accepted(P) && !m.namedNow(P) && (m.ever[P] || m.named[P]) && !O.learned[P]
		}
		const withdrawalMsg = "The responder announced or accepted %q earlier, has stopped announcing it, does not accept it, and the opener has not negotiated it since; the system was quiescent " +
			"before this batch (every identify push delivered) and the harness wrote no protocol knowledge in this case, so the opener's belief is knowledge the library did not refresh after the removal was announced " +
			"(connection limited=%v), not the tolerated state 'stale after handler removal'; the two sides do have a requested protocol in common, the open has to be bound to it and reach its handler"
		// The request list is the caller's: NewStream receives it by value, and the next open of the
		// history that passes the same object requests what the caller put there. Every backing
		// array must hold after the call (and at quiescence after the batch) what it held before.
		for i, o := range r.Opens {
			want, what := o.Req, "a private slice"
			if o.List > 0 {
				want, what = sc.Lists[o.List-1], fmt.Sprintf("the caller's kept list %d (%v, passed as [:%d] with capacity %d)", o.List, sc.Lists[o.List-1], len(o.Req), cap(res[i].arg))
			}
			if !slices.Equal(res[i].listAfter, want) {
				f.Fatalf("%s: the request list the caller passed to NewStream, %s, held %v before the batch and holds %v when the call has returned: "+
					"the library wrote through the caller's slice, so opens that pass this list from now on do not request what the caller listed; opens %s",
					ctxt(i), what, want, res[i].listAfter, describeBatch(r.Opens, res))
			}
		}
		for k := range kept {
			if !slices.Equal(kept[k], sc.Lists[k]) {
				f.Fatalf("round %d: the caller's kept request list %d held %v and holds %v after the batch (at quiescence): the library wrote through the caller's slice; opens %s",
					ri, k+1, sc.Lists[k], kept[k], describeBatch(r.Opens, res))
			}
		}
		byInv := map[int]int{}                                       // handler invocation serial -> open it answered
		openD, openL := map[protocol.ID]int{}, map[protocol.ID]int{} // streams open on the opener / held by the responder's handlers
		var closedOK []int                                           // opens closed at once on an accepted protocol
		nOK := 0
		for i, o := range r.Opens {
			out := res[i]
			shared := false
			for _, id := range o.Req {
				if m.accepted(id) {
					shared = true
				}
			}
			// labels: what the opener believed about the requested IDs
			var kreq []protocol.ID
			for _, id := range o.Req {
				if inK[id] {
					kreq = append(kreq, id)
				}
			}
			kclass := "unknown"
			if len(kreq) > 0 && O.kind == "basic" {
				switch first := kreq[0]; {
				case m.accepted(first):
					kclass = "accurate-first"
					for _, id := range kreq {
						if !m.accepted(id) {
							kclass = "accurate-first-bad-tail"
						}
					}
				case m.ever[first]:
					kclass = "stale-first"
				default:
					kclass = "optimistic-first"
				}
			}
			lab("knowledge:" + kclass)
			if shared {
				lab("common-protocol")
			} else {
				lab("no-common-protocol")
			}
			for _, id := range o.Req {
				if len(m.acceptors(id)) > 1 {
					lab("overlapping-registrations")
				}
			}
			// the both-directions class: the request names a protocol the responder itself opened
			// to the opener earlier in the case (the library saw the remote speak it as a client)
			for k, id := range o.Req {
				if !R.bound[id] {
					continue
				}
				oc.nontrivial = true
				lab("both-ways:request-names-id-the-responder-opened-earlier")
				if !m.ever[id] && !m.named[id] {
					lab("both-ways:...which-the-responder-never-served")
					for _, later := range o.Req[k+1:] {
						if m.accepted(later) {
							lab("both-ways:...which-the-responder-never-served,listed-before-a-common-protocol")
							if !harnessWrote && O.kind == "basic" {
								lab("both-ways:...which-the-responder-never-served,listed-before-a-common-protocol,library-only-knowledge,basic-opener")
							}
						}
					}
				}
			}

			// the withdrawn class: the request lists a protocol the responder has stopped announcing
			// and accepting before one it serves. The ...:must-be-refreshed labels count the cases in
			// which withdrawalDelivered applies to such an open (the open must reach the common protocol).
			for k, id := range o.Req {
				if m.accepted(id) || m.namedNow(id) || !(m.ever[id] || m.named[id]) {
					continue
				}
				for _, later := range o.Req[k+1:] {
					if !m.accepted(later) {
						continue
					}
					lab("withdrawn-id-listed-before-common-protocol")
					if withdrawalDelivered(id, true) {
						lab("withdrawn-id-listed-before-common-protocol:must-be-refreshed")
						lab("withdrawn-id-listed-before-common-protocol:must-be-refreshed:" + connLabel(sc))
					}
					break
				}
			}

			// which slice object carried the request, and what the history did with it before
			if cap(out.arg) > len(out.arg) {
				lab("request-list:spare-capacity-behind-the-request")
			}
			if o.List == 0 {
				lab("request-list:private")
			} else {
				lab("request-list:kept-by-caller")
				now := listUse{round: ri, n: len(o.Req), opener: oi, lazy: out.lazy, outcome: "error"}
				if out.err == nil {
					now.outcome, now.nonFirst = string(out.proto), out.proto != o.Req[0]
				}
				for j, o2 := range r.Opens {
					if j != i && o2.List == o.List {
						lab("request-list:reused")
						lab("request-list:reused:concurrently-in-one-batch")
					}
				}
				for _, u := range listUses[o.List-1] {
					if u.round == ri {
						continue
					}
					lab("request-list:reused")
					lab("request-list:reused:in-a-later-round")
					if u.lazy {
						lab("request-list:reused:after-an-optimistic-open")
					}
					if u.nonFirst {
						lab("request-list:reused:after-an-open-bound-to-a-non-first-entry")
					}
					if u.n != now.n {
						lab("request-list:reused:as-another-prefix")
					} else if u.outcome != now.outcome {
						lab("request-list:reused:same-request-other-outcome")
					}
					if u.opener != oi {
						lab("request-list:reused:by-the-other-host")
					}
				}
				listUses[o.List-1] = append(listUses[o.List-1], now)
			}

			if out.err != nil {
				lab("outcome:newstream-error")
				oc.trace = append(oc.trace, fmt.Sprintf("r%d.%d %s %v -> error", ri, i, O.role, o.Req))
				if shared {
					f.Fatalf("%s: NewStream failed (%v) although the responder accepts one of the requested protocols", ctxt(i), out.err)
				}
				continue
			}
			P := out.proto
			O.bound[P] = true
			if out.lazy {
				lab("path:lazy")
			} else {
				lab("path:eager")
			}
			if !contains(o.Req, P) {
				f.Fatalf("%s: NewStream returned a stream bound to %q, which was not requested", ctxt(i), P)
			}
			// the new stream's first operation x how its protocol was negotiated
			switch {
			case !out.lazy:
				lab("first-op:" + o.use() + ":eager")
			case m.accepted(P):
				lab("first-op:" + o.use() + ":lazy-accepted")
			default:
				lab("first-op:" + o.use() + ":lazy-refused")
			}
			if out.useErr != nil {
				lab("outcome:first-use-failed")
				oc.trace = append(oc.trace, fmt.Sprintf("r%d.%d %s %v %s -> %s lazy=%v first use failed", ri, i, O.role, o.Req, o.use(), P, out.lazy))
				if errors.Is(out.useErr, errNoProgress) {
					f.Fatalf("%s: stream bound to %q: first use neither delivered data nor failed: %v", ctxt(i), P, out.useErr)
				}
				// the only excuse: the protocol was chosen optimistically from (wrong) earlier knowledge
				if !excused(P) {
					f.Fatalf("%s: stream bound to %q failed on first use (%v) but that is not excused: believed-supported=%v, accepted-by-responder=%v",
						ctxt(i)+" ("+o.use()+")", P, out.useErr, inK[P], m.accepted(P))
				}
				if libraryMadeItUp(P, shared) {
					f.Fatalf("%s: stream bound to %q failed on first use (%v). The opener's belief that the responder supports %q was produced by the library itself (the harness wrote no protocol knowledge in this case), "+
						"but the responder never accepted and never announced %q, so no handler removal can have made that belief stale; the two sides do have a requested protocol in common, the open has to succeed on it",
						ctxt(i)+" ("+o.use()+")", P, out.useErr, P, P)
				}
				if withdrawalDelivered(P, shared) {
					f.Fatalf("%s: stream bound to %q failed on first use (%v). "+withdrawalMsg, ctxt(i)+" ("+o.use()+")", P, out.useErr, P, sc.Limited)
				}
				oc.nontrivial = true
				if r.KnowMode == "keep" {
					lab("lazy-refused:knowledge-from-identify-or-earlier-opens")
				}
				if m.ever[P] {
					lab("lazy-refused:stale")
				} else {
					lab("lazy-refused:never-supported")
				}
				continue
			}
			if out.closed {
				// Close() was the only operation: nothing can be observed on the opener's side. What
				// the statement still demands is on the responder's side (checked below): exactly the
				// right handler runs if the responder accepts P, none otherwise. Close() may succeed
				// locally even if an optimistic choice is refused.
				lab("outcome:closed-at-once")
				oc.trace = append(oc.trace, fmt.Sprintf("r%d.%d %s %v -> %s lazy=%v closed at once", ri, i, O.role, o.Req, P, out.lazy))
				if !m.accepted(P) {
					if !excused(P) {
						f.Fatalf("%s: NewStream returned a stream bound to %q, which the responder does not accept, and the opener had no earlier knowledge that excuses an optimistic choice", ctxt(i), P)
					}
					if libraryMadeItUp(P, shared) {
						f.Fatalf("%s: NewStream returned a stream bound to %q, which the responder does not accept, never accepted and never announced; the opener's belief was produced by the library itself "+
							"(the harness wrote no protocol knowledge in this case) and the two sides do have a requested protocol in common: the open has to be bound to it and reach its handler", ctxt(i), P)
					}
					if withdrawalDelivered(P, shared) {
						f.Fatalf("%s: NewStream returned a stream bound to %q, which the responder does not accept. "+withdrawalMsg, ctxt(i), P, P, sc.Limited)
					}
					oc.nontrivial = true
					lab("lazy-refused:closed-before-use")
					continue
				}
				if out.closeErr != nil {
					f.Fatalf("%s: closing a healthy stream bound to %q failed: %v", ctxt(i), P, out.closeErr)
				}
				closedOK = append(closedOK, i)
				O.learned[P] = true
				continue
			}
			// the round trip succeeded
			lab("outcome:ok")
			nOK++
			rep, ech := out.rep, out.echo
			oc.trace = append(oc.trace, fmt.Sprintf("r%d.%d %s %v %s -> %s lazy=%v reg#%d", ri, i, O.role, o.Req, o.use(), P, out.lazy, rep.Reg))
			if ech.Inv != rep.Inv {
				f.Fatalf("%s: the greeting on this stream came from handler invocation %d, the echo from invocation %d: bytes of two endpoints on one stream", ctxt(i), rep.Inv, ech.Inv)
			}
			if o.sendsRequest() {
				if ech.N != payloadLen || ech.Nonce != o.nonce {
					f.Fatalf("%s (%s): wrote %d bytes with nonce %x on the stream, the handler echoes %d bytes (eof=%v), nonce %x: bytes went to another endpoint or were lost", ctxt(i), o.use(), payloadLen, o.nonce, ech.N, ech.EOF, ech.Nonce)
				}
			} else if ech.N != 0 || !ech.EOF {
				f.Fatalf("%s (%s): closed the stream for writing without sending anything, the handler received %d bytes (eof=%v)", ctxt(i), o.use(), ech.N, ech.EOF)
			}
			if rep.Local != R.n.ID().String() {
				f.Fatalf("%s: the stream was answered by a handler running on host %s, not on the host it was opened to (%s)", ctxt(i), rep.Local, R.n.ID())
			}
			if rep.Reg < 0 || rep.Reg >= len(m.all) {
				f.Fatalf("%s: reply names unknown registration #%d", ctxt(i), rep.Reg)
			}
			ar := m.all[rep.Reg]
			if !m.isInstalled(ar.id) {
				f.Fatalf("%s: stream bound to %q was answered by %s, which was removed (or replaced) before the open started", ctxt(i), P, ar)
			}
			if !ar.accepts(P) {
				f.Fatalf("%s: stream bound to %q was answered by %s, which neither is registered for nor matches that protocol", ctxt(i), P, ar)
			}
			if protocol.ID(rep.Proto) != P {
				f.Fatalf("%s: opener's stream reports %q, the handler's stream reported %q", ctxt(i), P, rep.Proto)
			}
			if out.protoPost != P {
				f.Fatalf("%s: opener's stream changed its protocol from %q to %q", ctxt(i), P, out.protoPost)
			}
			if rep.Remote != O.n.ID().String() || network.Direction(rep.Dir) != network.DirInbound {
				f.Fatalf("%s: handler's stream endpoints wrong: remote=%s local=%s dir=%d", ctxt(i), rep.Remote, rep.Local, rep.Dir)
			}
			if ar.kind != "exact" {
				oc.nontrivial = true
				lab("answered-by-matcher:" + ar.kind)
				if out.lazy {
					lab("lazy-accepted-by-matcher")
				}
			} else {
				lab("answered-by-exact")
			}
			if j, dup := byInv[rep.Inv]; dup {
				f.Fatalf("%s: answered by handler invocation %d, which also answered open %d of this batch", ctxt(i), rep.Inv, j)
			}
			byInv[rep.Inv] = i
			openD[P]++
			O.learned[P] = true
		}
		lab(fmt.Sprintf("concurrent-opens:%d", len(r.Opens)))

		// exactly the handler: one invocation per open that reached a handler (round trip
		// succeeded, or closed at once on a protocol the responder accepts), none otherwise
		invs := hl.take()
		for _, inv := range invs {
			ar := m.all[inv.reg]
			if !m.isInstalled(inv.reg) {
				f.Fatalf("round %d: application handler %s ran (stream protocol %q) although it was removed before the batch started; responder registrations %s", ri, ar, inv.proto, m.describe())
			}
			if inv.remote != O.n.ID() {
				f.Fatalf("round %d: stream of handler %s has remote peer %s", ri, ar, inv.remote)
			}
			i, ok := byInv[inv.serial]
			if !ok {
				// not named by any reply the opener read: it must belong to an open that was closed at
				// once (same protocol; which of several equal ones is immaterial)
				i = -1
				for _, c := range closedOK {
					if !res[c].claimed && res[c].proto == inv.proto {
						i = c
						break
					}
				}
				if i < 0 {
					f.Fatalf("round %d: application handler %s ran (invocation %d, stream protocol %q, received %d request bytes) for no open of this batch that reached a handler; opens %s",
						ri, ar, inv.serial, inv.proto, inv.got, describeBatch(r.Opens, res))
				}
				if !ar.accepts(inv.proto) {
					f.Fatalf("round %d open %d: stream bound to %q (closed at once) was handled by %s, which neither is registered for nor matches that protocol", ri, i, inv.proto, ar)
				}
			} else if inv.reg != res[i].rep.Reg {
				f.Fatalf("round %d open %d: handler %s ran but the reply came from #%d", ri, i, ar, res[i].rep.Reg)
			}
			if res[i].claimed {
				f.Fatalf("round %d open %d: more than one application handler ran for this open", ri, i)
			}
			res[i].claimed = true
			if inv.proto != res[i].proto {
				f.Fatalf("round %d open %d: handler %s was invoked on a stream reporting %q, opener's stream reports %q", ri, i, ar, inv.proto, res[i].proto)
			}
			// what the handler itself recorded (not only what it wrote back)
			wantN := 0
			if r.Opens[i].sendsRequest() {
				wantN = payloadLen
			}
			if !inv.done || inv.got != wantN || (wantN == payloadLen && inv.nonce != r.Opens[i].nonce) || (wantN == 0 && !inv.eof) {
				f.Fatalf("round %d open %d (%s): handler %s received %d request bytes (complete=%v eof=%v nonce %x), the opener sent %d (nonce %x)",
					ri, i, r.Opens[i].use(), ar, inv.got, inv.done, inv.eof, inv.nonce, wantN, r.Opens[i].nonce)
			}
			openL[inv.proto]++ // the handler holds its stream until the audit below is over
		}
		for i, out := range res {
			if (out.rep != nil || (out.closed && m.accepted(out.proto))) && !out.claimed {
				f.Fatalf("round %d open %d (%s): stream bound to %q, which the responder accepts, but no application handler ran for it; opens %s",
					ri, i, r.Opens[i].use(), out.proto, describeBatch(r.Opens, res))
			}
		}
		if len(invs) != nOK+len(closedOK) {
			f.Fatalf("round %d: %d application handler invocations for %d opens that reached a handler; opens %s", ri, len(invs), nOK+len(closedOK), describeBatch(r.Opens, res))
		}
		// "between precisely those two endpoints": nothing runs on the opener's own handlers
		if own := O.hl.take(); len(own) != 0 {
			f.Fatalf("round %d: %d application handler invocation(s) on the opener's own host (%s) during its batch of opens (first: registration %s, stream protocol %q); opens %s",
				ri, len(own), O.role, O.m.all[own[0].reg], own[0].proto, describeBatch(r.Opens, res))
		}

		// charged to the negotiated protocol's scope on both sides while open (opener: until it
		// closes; responder: until the handler, which is holding the stream, closes) ...
		stD, stL := viewStats(f, O.n), viewStats(f, R.n)
		for _, id := range reqUniverse {
			if got := stD[id].out - O.base[id].out; got != openD[id] {
				f.Fatalf("round %d: opener's protocol scope %q counts %d outbound streams above baseline, %d streams bound to it are open; opens %s", ri, id, got, openD[id], describeBatch(r.Opens, res))
			}
			if got := stL[id].in - R.base[id].in; got != openL[id] {
				f.Fatalf("round %d: responder's protocol scope %q counts %d inbound streams above baseline, %d streams bound to it are held open by their handlers; opens %s", ri, id, got, openL[id], describeBatch(r.Opens, res))
			}
			if stD[id].in != O.base[id].in || stL[id].out != R.base[id].out {
				f.Fatalf("round %d: protocol scope %q charged in the wrong direction: opener inbound %d, responder outbound %d", ri, id, stD[id].in, stL[id].out)
			}
		}
		// ... and released after close
		for _, out := range res {
			if out.rep != nil {
				if err := out.s.Close(); err != nil {
					f.Fatalf("round %d: closing a healthy stream failed: %v", ri, err)
				}
			}
		}
		hl.releaseAll()
		synctest.Wait()
		stD, stL = viewStats(f, O.n), viewStats(f, R.n)
		for _, id := range reqUniverse {
			if stD[id] != O.base[id] || stL[id] != R.base[id] {
				f.Fatalf("round %d: after closing every stream protocol scope %q did not return to its baseline: opener %+v (baseline %+v), responder %+v (baseline %+v)",
					ri, id, stD[id], O.base[id], stL[id], R.base[id])
			}
		}
	}
	// no host ever dialled behind the harness's back (relay: each of the two hosts dialled the relay, once)
	if want := map[bool]int{false: 1, true: 2}[sc.Relay]; w.dials != want {
		f.Fatalf("harness: %d transport dials in one case, expected %d", w.dials, want)
	}
	return oc
}

func connLabel(sc *scenario) string {
	switch {
	case sc.Relay:
		return "conn:limited-through-relay"
	case sc.Limited:
		return "conn:limited-flagged-direct-pipe"
	}
	return "conn:direct"
}

func describeBatch(opens []openSpec, res []*openResult) string {
	var s []string
	for i, o := range opens {
		switch out := res[i]; {
		case out.err != nil:
			s = append(s, fmt.Sprintf("%v->NewStream error", o.Req))
		case out.useErr != nil:
			s = append(s, fmt.Sprintf("%v %s->%q lazy=%v first use failed (%v)", o.Req, o.use(), out.proto, out.lazy, out.useErr))
		case out.closed:
			s = append(s, fmt.Sprintf("%v %s->%q lazy=%v closed at once (%v)", o.Req, o.use(), out.proto, out.lazy, out.closeErr))
		default:
			s = append(s, fmt.Sprintf("%v %s->%q lazy=%v answered by #%d invocation %d nonce %x", o.Req, o.use(), out.proto, out.lazy, out.rep.Reg, out.rep.Inv, o.nonce))
		}
	}
	return "{" + strings.Join(s, "; ") + "}"
}

func (sc *scenario) fingerprint() string {
	b, _ := json.Marshal(sc)
	return string(b)
}

func sortedLabels(m map[string]bool, extra ...string) []string {
	out := append([]string{}, extra...)
	for l := range m {
		out = append(out, l)
	}
	sort.Strings(out)
	return out
}

// TestNegotiation is the generated check described in the package comment.
func TestNegotiation(t *testing.T) {
	name := t.Name()
	hx.Check(t, 12000, 400000, 0, func(rt *rapid.T) {
		sc := drawScenario(rt)
		var oc *outcome
		hx.Bubble(t, rt, func() {
			oc = runScenario(rt, sc)
		})
		stats.Case(name, sc.fingerprint(), oc.nontrivial, sortedLabels(oc.labels, "pair:"+sc.Dialer+"->"+sc.Listener, connLabel(sc))...)
		if stats.WantSample(name) {
			stats.Sample(name, map[string]any{"scenario": sc, "trace": oc.trace})
		}
	})
}

// TestSmallExhaustive enumerates a small domain completely (seed independent floor under
// the random search): every listener configuration of a fixed list (no handler, exact,
// prefix / path / semver / alias matchers, overlapping pairs) x every ordered request over
// {X, Y} x every knowledge state over {X, Y} (+ "as identify left it") x the four host
// pairings x every kind of first operation on the fresh stream (useKinds); every
// combination opens once with the handlers installed and once more after all of them were
// removed (so remembered knowledge becomes stale).
func TestSmallExhaustive(t *testing.T) {
	name := t.Name()
	const X, Y = protocol.ID("/a/1.0.0"), protocol.ID("/a/1.1.0")
	configs := [][]lop{
		nil,
		{{Op: "set", Pid: X}},
		{{Op: "set", Pid: Y}},
		{{Op: "match", Pid: "/a", Kind: "prefix"}},
		{{Op: "match", Pid: "/a", Kind: "path"}},
		{{Op: "match", Pid: Y, Kind: "semver"}}, // accepts X and Y
		{{Op: "match", Pid: X, Kind: "semver"}}, // accepts X only
		{{Op: "match", Pid: "/b", Kind: "alias", Target: X}},
		{{Op: "match", Pid: X, Kind: "alias", Target: Y}}, // advertised as X, accepts only Y
		{{Op: "set", Pid: X}, {Op: "match", Pid: "/a", Kind: "prefix"}},
		{{Op: "match", Pid: "/a", Kind: "prefix"}, {Op: "set", Pid: X}},
		{{Op: "set", Pid: X}, {Op: "set", Pid: X}}, // replaced registration
	}
	reqs := [][]protocol.ID{{X}, {Y}, {X, Y}, {Y, X}}
	type know struct {
		mode string
		ids  []protocol.ID
	}
	knows := []know{{"keep", nil}, {"fixed", nil}, {"fixed", []protocol.ID{X}}, {"fixed", []protocol.ID{Y}}, {"fixed", []protocol.ID{X, Y}}}
	pairs := [][2]string{{"basic", "basic"}, {"blank", "blank"}, {"basic", "blank"}, {"blank", "basic"}}
	idx := 0
	for ci, cfg := range configs {
		for _, req := range reqs {
			for _, kn := range knows {
				for _, pr := range pairs {
					// Fixed knowledge is re-established before every round, so the first-operation kinds
					// share one host pair (one round each, first with the handlers installed, then again
					// after their removal). Knowledge "as identify and earlier opens left it" evolves with
					// every open, so there each kind gets a host pair of its own.
					groups := [][]string{useKinds}
					if kn.mode == "keep" {
						groups = nil
						for _, use := range useKinds {
							groups = append(groups, []string{use})
						}
					}
					for _, uses := range groups {
						idx++
						if !hx.Mine(idx) {
							continue
						}
						// the caller keeps ONE list object for the whole case (request + one further entry it
						// never requests here) and passes it to every open: 2 or 14 opens, before and after the
						// removal of the handlers, knowledge re-established or evolving in between
						sc := &scenario{Dialer: pr[0], Listener: pr[1], Limited: idx%5 == 0, Relay: idx%15 == 0, Init: cfg, Key: uint64(idx),
							Lists: [][]protocol.ID{append(append([]protocol.ID{}, req...), "/c/1.0.0")}}
						var removes []lop
						seen := map[protocol.ID]bool{}
						for _, op := range cfg {
							if !seen[op.Pid] {
								seen[op.Pid] = true
								removes = append(removes, lop{Op: "remove", Pid: op.Pid})
							}
						}
						for phase := 0; phase < 2; phase++ {
							for k, use := range uses {
								r := round{KnowMode: kn.mode, Know: kn.ids, Opens: []openSpec{{Req: append([]protocol.ID{}, req...), List: 1, Clip: idx%3 == 0, Use: use,
									nonce: mix(uint64(idx)*64 + uint64(phase*len(uses)+k))}}}
								if phase == 1 && k == 0 {
									r.Ops = removes
								}
								sc.Rounds = append(sc.Rounds, r)
							}
						}
						var oc *outcome
						synctest.Test(t, func(t *testing.T) {
							oc = runScenario(t, sc)
						})
						if oc == nil {
							t.Fatalf("scenario %s failed", sc.fingerprint())
						}
						stats.CaseEnumerated(name, oc.nontrivial, sortedLabels(oc.labels, "pair:"+pr[0]+"->"+pr[1], connLabel(sc), fmt.Sprintf("config:%d", ci))...)
						if stats.WantSample(name) {
							stats.Sample(name, map[string]any{"scenario": sc, "trace": oc.trace})
						}
					}
				}
			}
		}
	}
	stats.Exhaustive(name)
}
