package c07

// In-memory substrate: two real hosts (BasicHost or BlankHost) on real swarms with the
// real resource manager; connections are memnet pipes upgraded by the real upgrader
// (Noise + yamux). Only the socket is replaced. Everything is created and closed
// inside the synctest bubble of the case.

import (
	"context"
	"errors"
	"net"
	"sync"

	"github.com/libp2p/go-libp2p/core/host"
	"github.com/libp2p/go-libp2p/core/network"
	"github.com/libp2p/go-libp2p/core/peer"
	"github.com/libp2p/go-libp2p/core/peerstore"
	"github.com/libp2p/go-libp2p/core/sec"
	"github.com/libp2p/go-libp2p/core/transport"
	bhost "github.com/libp2p/go-libp2p/p2p/host/basic"
	blankhost "github.com/libp2p/go-libp2p/p2p/host/blank"
	"github.com/libp2p/go-libp2p/p2p/host/eventbus"
	"github.com/libp2p/go-libp2p/p2p/host/peerstore/pstoremem"
	rcmgr "github.com/libp2p/go-libp2p/p2p/host/resource-manager"
	"github.com/libp2p/go-libp2p/p2p/muxer/yamux"
	"github.com/libp2p/go-libp2p/p2p/net/swarm"
	"github.com/libp2p/go-libp2p/p2p/net/upgrader"
	"github.com/libp2p/go-libp2p/p2p/security/noise"
	ma "github.com/multiformats/go-multiaddr"
	manet "github.com/multiformats/go-multiaddr/net"

	"verif/internal/keys"
	"verif/internal/memnet"
)

type world struct {
	mu        sync.Mutex
	listeners map[string]*memnet.Listener
	pipes     []*memnet.Conn
	limited   bool // every connection reports Stat().Limited (as a relayed connection does)
	dials     int
}

func newWorld(limited bool) *world {
	return &world{listeners: map[string]*memnet.Listener{}, limited: limited}
}

func (w *world) closePipes() {
	w.mu.Lock()
	defer w.mu.Unlock()
	for _, p := range w.pipes {
		p.Close()
	}
}

// limitedMaConn makes the upgrader (which copies Stat() from the raw conn, the way it
// does for circuit-relay conns) produce a connection whose Stat().Limited is true.
type limitedMaConn struct{ manet.Conn }

func (limitedMaConn) Stat() network.ConnStats {
	return network.ConnStats{Stats: network.Stats{Limited: true}}
}

type limitedMaListener struct{ manet.Listener }

func (l limitedMaListener) Accept() (manet.Conn, error) {
	c, err := l.Listener.Accept()
	if err != nil {
		return nil, err
	}
	return limitedMaConn{c}, nil
}

type memTransport struct {
	w     *world
	u     transport.Upgrader
	rm    network.ResourceManager
	local *net.TCPAddr
}

var _ transport.Transport = (*memTransport)(nil)

func (t *memTransport) CanDial(a ma.Multiaddr) bool {
	_, err := manet.ToNetAddr(a)
	return err == nil
}
func (t *memTransport) Protocols() []int { return []int{ma.P_TCP} }
func (t *memTransport) Proxy() bool      { return false }

func (t *memTransport) Dial(ctx context.Context, raddr ma.Multiaddr, p peer.ID) (transport.CapableConn, error) {
	na, err := manet.ToNetAddr(raddr)
	if err != nil {
		return nil, err
	}
	t.w.mu.Lock()
	l := t.w.listeners[na.String()]
	t.w.dials++
	t.w.mu.Unlock()
	if l == nil {
		return nil, errors.New("memtransport: connection refused")
	}
	scope, err := t.rm.OpenConnection(network.DirOutbound, false, raddr)
	if err != nil {
		return nil, err
	}
	if err := scope.SetPeer(p); err != nil {
		scope.Done()
		return nil, err
	}
	client, server := memnet.Pipe(memnet.Options{LocalAddr: t.local, RemoteAddr: na})
	t.w.mu.Lock()
	t.w.pipes = append(t.w.pipes, client, server)
	t.w.mu.Unlock()
	if !l.Inject(server) {
		client.Close()
		scope.Done()
		return nil, errors.New("memtransport: listener closed")
	}
	mc, err := manet.WrapNetConn(client)
	if err != nil {
		client.Close()
		scope.Done()
		return nil, err
	}
	if t.w.limited {
		mc = limitedMaConn{mc}
	}
	// Upgrade releases the scope itself when it fails.
	return t.u.Upgrade(ctx, t, mc, network.DirOutbound, p, scope)
}

func (t *memTransport) Listen(laddr ma.Multiaddr) (transport.Listener, error) {
	na, err := manet.ToNetAddr(laddr)
	if err != nil {
		return nil, err
	}
	l := memnet.NewListener(na)
	t.w.mu.Lock()
	t.w.listeners[na.String()] = l
	t.w.mu.Unlock()
	ml, err := manet.WrapNetListener(l)
	if err != nil {
		return nil, err
	}
	if t.w.limited {
		ml = limitedMaListener{ml}
	}
	return t.u.UpgradeListener(t, ml), nil
}

// node is one host plus the parts the harness reads directly.
type node struct {
	host.Host
	kind string // "basic" | "blank"
	id   *keys.Identity
	rm   network.ResourceManager
	ps   peerstore.Peerstore
	up   transport.Upgrader // the host's upgrader (Noise + yamux), for further transports of the same host
}

func (n *node) Close() {
	n.Host.Close()
	// BasicHost.Close closes peerstore and resource manager itself; both are idempotent.
	// BlankHost.Close only closes the network.
	n.ps.Close()
	n.rm.Close()
}

func newNode(w *world, kind string, id *keys.Identity, ip string, listen bool) (*node, error) {
	return newNodeLimits(w, kind, id, ip, listen, rcmgr.InfiniteLimits)
}

// newNodeLimits: the same host, its resource manager configured with the given limits.
func newNodeLimits(w *world, kind string, id *keys.Identity, ip string, listen bool, limits rcmgr.ConcreteLimitConfig) (*node, error) {
	ps, err := pstoremem.NewPeerstore()
	if err != nil {
		return nil, err
	}
	fail := func(err error, closers ...func()) (*node, error) {
		for _, c := range closers {
			c()
		}
		ps.Close()
		return nil, err
	}
	if err := ps.AddPrivKey(id.ID, id.Priv); err != nil {
		return fail(err)
	}
	if err := ps.AddPubKey(id.ID, id.Pub); err != nil {
		return fail(err)
	}
	rm, err := rcmgr.NewResourceManager(rcmgr.NewFixedLimiter(limits), rcmgr.WithMetricsDisabled())
	if err != nil {
		return fail(err)
	}
	closeRM := func() { rm.Close() }
	bus := eventbus.NewBus()
	sw, err := swarm.NewSwarm(id.ID, ps, bus, swarm.WithResourceManager(rm))
	if err != nil {
		return fail(err, closeRM)
	}
	closeSW := func() { sw.Close() }
	st, err := noise.New(noise.ID, id.Priv, nil)
	if err != nil {
		return fail(err, closeSW, closeRM)
	}
	u, err := upgrader.New([]sec.SecureTransport{st}, []upgrader.StreamMuxer{{ID: yamux.ID, Muxer: yamux.DefaultTransport}}, nil, rm, nil)
	if err != nil {
		return fail(err, closeSW, closeRM)
	}
	tr := &memTransport{w: w, u: u, rm: rm, local: &net.TCPAddr{IP: net.ParseIP(ip), Port: 40000}}
	if err := sw.AddTransport(tr); err != nil {
		return fail(err, closeSW, closeRM)
	}
	if listen {
		if err := sw.Listen(ma.StringCast("/ip4/" + ip + "/tcp/4001")); err != nil {
			return fail(err, closeSW, closeRM)
		}
	}
	n := &node{kind: kind, id: id, rm: rm, ps: ps, up: u}
	switch kind {
	case "basic":
		h, err := bhost.NewHost(sw, &bhost.HostOpts{EventBus: bus})
		if err != nil {
			return fail(err, closeSW, closeRM)
		}
		h.Start()
		n.Host = h
	case "blank":
		h := blankhost.NewBlankHost(sw, blankhost.WithEventBus(bus))
		if h == nil {
			return fail(errors.New("NewBlankHost returned nil"), closeSW, closeRM)
		}
		n.Host = h
	default:
		return fail(errors.New("unknown host kind "+kind), closeSW, closeRM)
	}
	return n, nil
}
