package c07

// Opens in BOTH directions between the same two hosts.
//
// The statement speaks of "a host" that opens a stream and of "the remote"; which of the two
// dialled the connection is immaterial, and both hosts are listeners for streams with handler
// sets of their own. It quantifies over "every state of the dialer's knowledge about the
// remote's protocols" and over histories. In TestNegotiation the knowledge states are written
// by the harness through the public peerstore API and only one host ever opens. Here nothing
// is written by the harness: the knowledge each host has about the other one is whatever the
// LIBRARY derived during a generated history of opens by either host (identify, identify
// pushes after handler changes, the outcome of earlier opens, and anything else the library
// chooses to conclude from streams it has seen in either direction).
//
// Oracle (runScenario, unchanged rules plus one that needs this dimension to bite): a stream
// bound to a protocol runs exactly one right handler on the host it was opened to and none
// on the opener; a failure on first use is tolerated only for an optimistic choice, and when
// the harness never wrote knowledge, only for a protocol the responder accepted or announced
// at some time (the "stale after handler removal" state). If a requested protocol is common
// to both sides and the bound protocol was never served by the responder, the open must
// succeed.

import (
	"fmt"
	"slices"
	"testing"
	"testing/synctest"

	"github.com/libp2p/go-libp2p/core/protocol"
	"pgregory.net/rapid"

	"verif/internal/hx"
	"verif/internal/stats"
)

// drawRequestBothWays draws an ordered request list for an open by the host with handler
// model own towards the host with model rem. peerOpened = IDs the remote host itself
// requested (and the opener accepted) earlier in the case.
func drawRequestBothWays(rt *rapid.T, own, rem *lmodel, peerOpened []protocol.ID) []protocol.ID {
	acc := rem.acceptedSet()
	mine := own.acceptedSet()
	var clientOnly []protocol.ID // the remote opened it earlier but does not serve it
	for _, id := range peerOpened {
		if !rem.accepted(id) {
			clientOnly = append(clientOnly, id)
		}
	}
	n := rapid.IntRange(1, 3).Draw(rt, "nreq")
	req := drawWithdrawnFirst(rt, rem)
	n = max(n, len(req))
	for len(req) < n {
		var id protocol.ID
		switch c := rapid.IntRange(0, 7).Draw(rt, "reqclass"); {
		case c <= 1 && len(acc) > 0:
			id = rapid.SampledFrom(acc).Draw(rt, "req-acc")
		case c <= 3 && len(clientOnly) > 0:
			id = rapid.SampledFrom(clientOnly).Draw(rt, "req-peer-opened")
		case c == 4 && len(mine) > 0:
			id = rapid.SampledFrom(mine).Draw(rt, "req-own")
		default:
			id = rapid.SampledFrom(reqUniverse).Draw(rt, "req-any")
		}
		for contains(req, id) { // distinct by construction: walk to the next unused ID
			for i, x := range reqUniverse {
				if x == id {
					id = reqUniverse[(i+1)%len(reqUniverse)]
					break
				}
			}
		}
		req = append(req, id)
	}
	return req
}

// drawWithdrawnFirst starts, in 1/3 of the draws in which the remote host has withdrawn
// something, a request with an ID the remote host announced or accepted earlier and neither
// announces nor accepts now, followed by one it accepts now (if there is one): the request of an
// application that prefers the protocol the remote has just stopped serving.
func drawWithdrawnFirst(rt *rapid.T, rem *lmodel) []protocol.ID {
	gone := rem.withdrawn()
	if len(gone) == 0 || rapid.IntRange(0, 2).Draw(rt, "withdrawn-first") != 0 {
		return nil
	}
	req := []protocol.ID{rapid.SampledFrom(gone).Draw(rt, "req-withdrawn")}
	if acc := rem.acceptedSet(); len(acc) > 0 {
		req = append(req, rapid.SampledFrom(acc).Draw(rt, "req-acc")) // disjoint from gone by definition
	}
	return req
}

func drawBothWays(rt *rapid.T) *scenario {
	sc := &scenario{Key: rapid.Uint64().Draw(rt, "key")}
	switch p := rapid.IntRange(0, 9).Draw(rt, "pair"); {
	case p <= 5:
		sc.Dialer, sc.Listener = "basic", "basic"
	case p <= 7:
		sc.Dialer, sc.Listener = "basic", "blank"
	default:
		sc.Dialer, sc.Listener = "blank", "basic"
	}
	drawConn(rt, sc)
	models := [2]*lmodel{newModel(), newModel()} // 0 = connection dialer, 1 = connection listener
	hostName := [2]string{"D", ""}
	// asymmetric handler sets: drawn independently for the two hosts
	for h := 0; h < 2; h++ {
		for i, n := 0, rapid.IntRange(0, 3).Draw(rt, "ninit"); i < n; i++ {
			op := drawOp(rt, models[h])
			op.Host = hostName[h]
			models[h].apply(op)
			if h == 0 {
				sc.InitD = append(sc.InitD, op)
			} else {
				sc.Init = append(sc.Init, op)
			}
		}
	}
	var opened [2][]protocol.ID // IDs host h requested so far which the other host accepted at that time
	nonce := 0
	pool := &listPool{}
	opener := rapid.IntRange(0, 1).Draw(rt, "first-opener")
	for i, n := 0, rapid.IntRange(2, 5).Draw(rt, "nrounds"); i < n; i++ {
		r := round{KnowMode: "keep"} // the harness never touches a peerstore
		if i > 0 && rapid.IntRange(0, 2).Draw(rt, "switch-opener") > 0 {
			opener = 1 - opener
		}
		if opener == 1 {
			r.Opener = "L"
		}
		// handler changes (each makes a BasicHost push its new protocol list): none in half of the rounds
		for j, k := 0, rapid.SampledFrom([]int{0, 0, 1, 2}).Draw(rt, "nops"); j < k; j++ {
			h := rapid.IntRange(0, 1).Draw(rt, "op-host")
			op := drawOp(rt, models[h])
			op.Host = hostName[h]
			models[h].apply(op)
			r.Ops = append(r.Ops, op)
		}
		if len(r.Ops) > 0 {
			r.NoSettle = rapid.IntRange(0, 3).Draw(rt, "no-settle") == 0
		}
		for j, k := 0, rapid.IntRange(1, 3).Draw(rt, "nopens"); j < k; j++ {
			nonce++
			// one pool for both hosts: the application that runs them keeps its request lists in one place
			// and uses a list for opens by either host (i.e. to different peers)
			req, list, clip := pool.draw(rt, func() []protocol.ID {
				return drawRequestBothWays(rt, models[opener], models[1-opener], opened[1-opener])
			})
			r.Opens = append(r.Opens, openSpec{Req: req, List: list, Clip: clip, Use: rapid.SampledFrom(useWeighted).Draw(rt, "use"), nonce: mix(sc.Key + uint64(nonce))})
		}
		for _, o := range r.Opens {
			for _, id := range o.Req {
				if models[1-opener].accepted(id) && !contains(opened[opener], id) {
					opened[opener] = append(opened[opener], id)
				}
			}
		}
		sc.Rounds = append(sc.Rounds, r)
	}
	sc.Lists = pool.lists
	return sc
}

// TestBothDirections: generated histories of opens by either host, knowledge produced by
// the library alone (see the file comment).
func TestBothDirections(t *testing.T) {
	name := t.Name()
	hx.Check(t, 2000, 100000, 0, func(rt *rapid.T) {
		sc := drawBothWays(rt)
		var oc *outcome
		hx.Bubble(t, rt, func() {
			oc = runScenario(rt, sc)
		})
		stats.Case(name, sc.fingerprint(), oc.nontrivial, sortedLabels(oc.labels, "pair:"+sc.Dialer+"->"+sc.Listener, connLabel(sc))...)
		if stats.WantSample(name) {
			stats.Sample(name, map[string]any{"scenario": sc, "trace": oc.trace})
		}
	})
}

// TestBothDirectionsSmall enumerates a small domain of the same dimension completely (a seed
// independent floor): every pair of exact handler sets over {X, Y} on the two hosts x which
// host opens first x every ordered request over {X, Y} for the first opener x every ordered
// request for the reverse open x {no handler change, the first opener registers a further
// handler (=> identify push) between the two opens; BasicHost pairs only} x three host pairings. History: P opens
// req1 to Q; Q opens req2 to P; P opens req2 to Q. No handler is ever removed and the
// harness writes no knowledge, so every open whose request contains a protocol the responder
// serves must succeed.
func TestBothDirectionsSmall(t *testing.T) {
	name := t.Name()
	const X, Y, Z = protocol.ID("/a/1.0.0"), protocol.ID("/b"), protocol.ID("/ab")
	sets := [][]protocol.ID{nil, {X}, {Y}, {X, Y}}
	reqs := [][]protocol.ID{{X}, {Y}, {X, Y}, {Y, X}}
	pairs := [][2]string{{"basic", "basic"}, {"basic", "blank"}, {"blank", "basic"}}
	idx := 0
	for _, pr := range pairs {
		for di, dset := range sets {
			for li, lset := range sets {
				for first := 0; first < 2; first++ {
					for _, req1 := range reqs {
						for _, req2 := range reqs {
							for push := 0; push < 2; push++ {
								if push == 1 && (pr[0] != "basic" || pr[1] != "basic") {
									continue // a BlankHost neither sends nor consumes identify pushes
								}
								idx++
								if !hx.Mine(idx) {
									continue
								}
								sc := &scenario{Dialer: pr[0], Listener: pr[1], Limited: idx%7 == 0, Relay: idx%21 == 0, Key: uint64(idx)}
								for _, id := range dset {
									sc.InitD = append(sc.InitD, lop{Op: "set", Pid: id, Host: "D"})
								}
								for _, id := range lset {
									sc.Init = append(sc.Init, lop{Op: "set", Pid: id})
								}
								who := [2]string{"", "L"}
								host := [2]string{"D", ""}
								use := useKinds[(idx/2)%len(useKinds)]
								// the application keeps its request lists (each with one further entry behind the
								// request): the list of the two later opens is passed by Q (to P) and then by P (to
								// Q); when req1 and req2 are the same list, all three opens pass the one object
								cp := func(l []protocol.ID) []protocol.ID { return append([]protocol.ID{}, l...) }
								sc.Lists = [][]protocol.ID{append(cp(req1), "/c/1.0.0")}
								l2 := 1
								if !slices.Equal(req1, req2) {
									sc.Lists = append(sc.Lists, append(cp(req2), "/c/1.0.0"))
									l2 = 2
								}
								clip := idx%3 == 0
								r1 := round{KnowMode: "keep", Opener: who[first], Opens: []openSpec{{Req: cp(req1), List: 1, Clip: clip, Use: useWrite, nonce: mix(uint64(idx)*8 + 1)}}}
								r2 := round{KnowMode: "keep", Opener: who[1-first], Opens: []openSpec{{Req: cp(req2), List: l2, Clip: clip, Use: use, nonce: mix(uint64(idx)*8 + 2)}}}
								if push == 1 {
									r2.Ops = []lop{{Op: "set", Pid: Z, Host: host[first]}}
								}
								r3 := round{KnowMode: "keep", Opener: who[first], Opens: []openSpec{{Req: cp(req2), List: l2, Clip: clip, Use: use, nonce: mix(uint64(idx)*8 + 3)}}}
								sc.Rounds = []round{r1, r2, r3}
								var oc *outcome
								synctest.Test(t, func(t *testing.T) {
									oc = runScenario(t, sc)
								})
								if oc == nil {
									t.Fatalf("scenario %s failed", sc.fingerprint())
								}
								stats.CaseEnumerated(name, oc.nontrivial, sortedLabels(oc.labels, "pair:"+pr[0]+"->"+pr[1], connLabel(sc),
									fmt.Sprintf("handlers:D%d/L%d", di, li), fmt.Sprintf("push-between-opens:%v", push == 1))...)
								if stats.WantSample(name) {
									stats.Sample(name, map[string]any{"scenario": sc, "trace": oc.trace})
								}
							}
						}
					}
				}
			}
		}
	}
	stats.Exhaustive(name)
}

// TestWithdrawnSmall enumerates a small domain of the "handler removed, the peer is told"
// dimension completely (a seed independent floor): every connection kind (direct, limited =
// flagged direct pipe, limited = through a relay host) x which host serves and which opens x
// the registration that is withdrawn (exact X | a path matcher named /a through which the
// opener negotiated X) x {nothing, a new handler Z} installed in its place x every kind of
// first operation x {opens after the pushes have settled, opens with the pushes in flight}.
// Two BasicHosts, the harness writes no knowledge. History: responder serves X and Y; the
// opener opens [X] (works, so it knows X); the responder withdraws X; the opener opens [X, Y]
// (with the generated first operation; tolerated to fail on first use only when the pushes are
// still in flight); at quiescence it opens [X, Y] once more: that open must reach Y's handler.
func TestWithdrawnSmall(t *testing.T) {
	name := t.Name()
	const X, Y, Z = protocol.ID("/a/1.0.0"), protocol.ID("/b"), protocol.ID("/ab")
	type connKind struct{ limited, relay bool }
	conns := []connKind{{false, false}, {true, false}, {true, true}}
	served := []lop{{Op: "set", Pid: X}, {Op: "match", Pid: "/a", Kind: "path"}}
	idx := 0
	for _, ck := range conns {
		for responder := 0; responder < 2; responder++ { // 0: the connection's listener serves, its dialer opens
			for si, reg := range served {
				for replace := 0; replace < 2; replace++ {
					for _, use := range useKinds {
						for noSettle := 0; noSettle < 2; noSettle++ {
							idx++
							if !hx.Mine(idx) {
								continue
							}
							host, opener := "", ""
							if responder == 1 {
								host, opener = "D", "L"
							}
							at := func(op lop) lop { op.Host = host; return op }
							sc := &scenario{Dialer: "basic", Listener: "basic", Limited: ck.limited, Relay: ck.relay, Key: uint64(idx)}
							init := []lop{at(reg), at(lop{Op: "set", Pid: Y})}
							if responder == 1 {
								sc.InitD = init
							} else {
								sc.Init = init
							}
							ops := []lop{at(lop{Op: "remove", Pid: reg.Pid})}
							if replace == 1 {
								ops = append(ops, at(lop{Op: "set", Pid: Z}))
							}
							sc.Rounds = []round{
								{KnowMode: "keep", Opener: opener, Opens: []openSpec{{Req: []protocol.ID{X}, Use: useWrite, nonce: mix(uint64(idx)*8 + 1)}}},
								{KnowMode: "keep", Opener: opener, Ops: ops, NoSettle: noSettle == 1, Opens: []openSpec{{Req: []protocol.ID{X, Y}, Use: use, nonce: mix(uint64(idx)*8 + 2)}}},
								{KnowMode: "keep", Opener: opener, Opens: []openSpec{{Req: []protocol.ID{X, Y}, Use: useWrite, nonce: mix(uint64(idx)*8 + 3)}}},
							}
							var oc *outcome
							synctest.Test(t, func(t *testing.T) {
								oc = runScenario(t, sc)
							})
							if oc == nil {
								t.Fatalf("scenario %s failed", sc.fingerprint())
							}
							stats.CaseEnumerated(name, oc.nontrivial, sortedLabels(oc.labels, connLabel(sc), fmt.Sprintf("withdrawn-registration:%d", si),
								fmt.Sprintf("replaced:%v", replace == 1), "responder:"+map[int]string{0: "conn-listener", 1: "conn-dialer"}[responder])...)
							if stats.WantSample(name) {
								stats.Sample(name, map[string]any{"scenario": sc, "trace": oc.trace})
							}
						}
					}
				}
			}
		}
	}
	stats.Exhaustive(name)
}
