package c09

import (
	"context"
	"fmt"
	"testing"
	"testing/synctest"
	"time"

	ds "github.com/ipfs/go-datastore"
	dssync "github.com/ipfs/go-datastore/sync"
	pstore "github.com/libp2p/go-libp2p/core/peerstore"
	"github.com/libp2p/go-libp2p/p2p/host/peerstore/pstoreds"
	"github.com/libp2p/go-libp2p/p2p/host/peerstore/pstoremem"
	ma "github.com/multiformats/go-multiaddr"

	"verif/internal/hx"
	"verif/internal/kf"
)

// Minimal histories of the defects found by TestBooksAgreeWithModel on the pinned tree
// (all repaired by "fix:" commits in /repo; kept as plain regression inputs).

func inBubble(t *testing.T, f func() (bool, string)) (violated bool, detail string) {
	synctest.Test(t, func(*testing.T) { violated, detail = f() })
	return
}

func newDS(t *testing.T, store ds.Batching, cache uint, lookahead bool, capN ...int) interface {
	pstore.AddrBook
	pstore.CertifiedAddrBook
	Close() error
} {
	o := pstoreds.Options{CacheSize: cache, MaxProtocols: 1024, GCPurgeInterval: time.Minute}
	if len(capN) > 0 {
		o.MaxAddrsPerPeer = capN[0]
	}
	if lookahead {
		o.GCLookaheadInterval = 2 * time.Minute
	}
	ab, err := pstoreds.NewAddrBook(context.Background(), store, o)
	if err != nil {
		t.Fatal(err)
	}
	return ab
}

func TestWitness_MemConnectedToFiniteNeverCollected(t *testing.T) {
	hx.Shard0(t)
	kf.Witness(t, "C09-mem-connected-to-finite-never-collected", func() (bool, string) {
		return inBubble(t, func() (bool, string) {
			ab := pstoremem.NewAddrBook()
			defer ab.Close()
			ab.AddAddr(pid(0), baseAddrs[0], pstore.ConnectedAddrTTL)
			ab.SetAddr(pid(0), baseAddrs[0], pstore.TempAddrTTL)
			time.Sleep(10 * time.Minute)
			synctest.Wait()
			if ps := ab.PeersWithAddrs(); len(ps) != 0 {
				return true, fmt.Sprintf("peer still listed 8 minutes after its only address expired: %v", ps)
			}
			return false, ""
		})
	})
}

func TestWitness_DSDeleteSeveral(t *testing.T) {
	hx.Shard0(t)
	kf.Witness(t, "C09-ds-delete-several", func() (bool, string) {
		return inBubble(t, func() (bool, string) {
			ab := newDS(t, dssync.MutexWrap(ds.NewMapDatastore()), 0, false)
			defer ab.Close()
			ab.AddAddrs(pid(0), []ma.Multiaddr{baseAddrs[0], baseAddrs[1], baseAddrs[2]}, time.Hour)
			ab.SetAddrs(pid(0), []ma.Multiaddr{baseAddrs[0], baseAddrs[2]}, 0)
			got := addrSet(ab.Addrs(pid(0)))
			if len(got) != 1 || got[0] != baseAddrs[1].String() {
				return true, fmt.Sprintf("SetAddrs({A,C},0) on {A,B,C} left %v, want [B]", got)
			}
			return false, ""
		})
	})
}

func staleRecord(t *testing.T, mk func() interface {
	pstore.AddrBook
	pstore.CertifiedAddrBook
	Close() error
}) (bool, string) {
	return inBubble(t, func() (bool, string) {
		ab := mk()
		defer ab.Close()
		time.Sleep(time.Second)
		if ok, err := ab.ConsumePeerRecord(envelope(2, 2, 6, []int{0}), pstore.TempAddrTTL); !ok || err != nil {
			return true, fmt.Sprintf("record refused: %v %v", ok, err)
		}
		time.Sleep(pstore.TempAddrTTL) // expired now; the memory book's next gc tick is still ahead
		synctest.Wait()
		if ab.GetPeerRecord(pid(2)) != nil {
			return true, "record returned although all addresses expired"
		}
		ab.AddAddr(pid(2), baseAddrs[3], pstore.TempAddrTTL)
		if env := ab.GetPeerRecord(pid(2)); env != nil {
			return true, "signed record returned again after all of the peer's addresses had expired: " + recID(env)
		}
		return false, ""
	})
}

func TestWitness_MemStaleRecord(t *testing.T) {
	hx.Shard0(t)
	kf.Witness(t, "C09-mem-stale-record", func() (bool, string) {
		return staleRecord(t, func() interface {
			pstore.AddrBook
			pstore.CertifiedAddrBook
			Close() error
		} {
			return pstoremem.NewAddrBook()
		})
	})
}

func TestWitness_DSStaleRecord(t *testing.T) {
	hx.Shard0(t)
	for _, cache := range []uint{0, 8} {
		kf.Witness(t, "C09-ds-stale-record", func() (bool, string) {
			return staleRecord(t, func() interface {
				pstore.AddrBook
				pstore.CertifiedAddrBook
				Close() error
			} {
				return newDS(t, dssync.MutexWrap(ds.NewMapDatastore()), cache, false)
			})
		})
	}
}

func TestWitness_MemUpdateRevivesExpired(t *testing.T) {
	hx.Shard0(t)
	kf.Witness(t, "C09-mem-expired-leftovers", func() (bool, string) {
		return inBubble(t, func() (bool, string) {
			ab := pstoremem.NewAddrBook()
			defer ab.Close()
			time.Sleep(time.Second)
			ab.AddAddr(pid(0), baseAddrs[0], pstore.TempAddrTTL)
			time.Sleep(pstore.TempAddrTTL)
			ab.UpdateAddrs(pid(0), pstore.TempAddrTTL, time.Hour)
			if got := ab.Addrs(pid(0)); len(got) != 0 {
				return true, fmt.Sprintf("expired address returned again after UpdateAddrs: %v", got)
			}
			// second shape: re-added address inherits the TTL class of the expired entry
			ab.AddAddr(pid(1), baseAddrs[0], time.Hour)
			time.Sleep(time.Hour)
			ab.AddAddr(pid(1), baseAddrs[0], pstore.RecentlyConnectedAddrTTL)
			ab.UpdateAddrs(pid(1), pstore.RecentlyConnectedAddrTTL, 0)
			if got := ab.Addrs(pid(1)); len(got) != 0 {
				return true, fmt.Sprintf("address re-added with TTL 15m after expiry was not matched by UpdateAddrs(15m -> 0): %v", got)
			}
			return false, ""
		})
	})
}

func TestWitness_DSCleanedWithoutFlushNeverDeleted(t *testing.T) {
	hx.Shard0(t)
	kf.Witness(t, "C09-ds-cleaned-without-flush", func() (bool, string) {
		return inBubble(t, func() (bool, string) {
			ab := newDS(t, dssync.MutexWrap(ds.NewMapDatastore()), 8, true)
			defer ab.Close()
			time.Sleep(time.Second)
			ab.ConsumePeerRecord(envelope(2, 2, 6, []int{0}), time.Hour)
			time.Sleep(time.Hour)
			ab.UpdateAddrs(pid(2), pstore.TempAddrTTL, 0) // cleans the cached record, flushes nothing
			time.Sleep(10 * time.Minute)
			synctest.Wait()
			if ps := ab.PeersWithAddrs(); len(ps) != 0 {
				return true, fmt.Sprintf("peer still listed 10 minutes (5 lookahead windows) after its only address expired: %v", ps)
			}
			return false, ""
		})
	})
}

func TestWitness_DSDuplicateInBatch(t *testing.T) {
	hx.Shard0(t)
	kf.Witness(t, "C09-ds-duplicate-in-batch", func() (bool, string) {
		return inBubble(t, func() (bool, string) {
			ab := newDS(t, dssync.MutexWrap(ds.NewMapDatastore()), 0, false)
			defer ab.Close()
			ab.AddAddrs(pid(1), []ma.Multiaddr{baseAddrs[0], baseAddrs[1], baseAddrs[0]}, pstore.RecentlyConnectedAddrTTL)
			ab.SetAddrs(pid(1), []ma.Multiaddr{baseAddrs[0]}, pstore.TempAddrTTL)
			time.Sleep(5 * time.Minute)
			got := addrSet(ab.Addrs(pid(1)))
			if len(got) != 1 || got[0] != baseAddrs[1].String() {
				return true, fmt.Sprintf("address set to a 2 minute TTL is still returned after 5 minutes: %v", got)
			}
			return false, ""
		})
	})
}
