package c09

import (
	"fmt"
	"strings"
	"testing"
	"testing/synctest"
	"time"

	ds "github.com/ipfs/go-datastore"
	dssync "github.com/ipfs/go-datastore/sync"
	"github.com/libp2p/go-libp2p/core/peer"
	pstore "github.com/libp2p/go-libp2p/core/peerstore"
	"github.com/libp2p/go-libp2p/p2p/host/peerstore/pstoremem"
	"pgregory.net/rapid"

	"verif/internal/hx"
	"verif/internal/stats"
)

// TestRefreshExpiryAndGC: a small universe aimed at the order in which addresses expire. Four
// peers with one address each; an address is added or refreshed (same or another finite TTL
// class, so that refreshes overtake each other's expiries), the clock advances by amounts
// comparable to the TTLs, and after every step both books are asked who still has addresses:
// a peer with a live address must be listed, and a peer whose only address expired must be
// gone at the latest two GC periods after that instant - whatever happened to the others.
func TestRefreshExpiryAndGC(t *testing.T) {
	name := t.Name()
	const np = 4
	finite := []time.Duration{pstore.TempAddrTTL, pstore.RecentlyConnectedAddrTTL, pstore.AddressTTL}
	advs := []time.Duration{time.Second, 30 * time.Second, time.Minute, 5 * time.Minute, 14 * time.Minute, 16 * time.Minute, 50 * time.Minute}
	hx.Check(t, 3000, 600000, 0, func(rt *rapid.T) {
		type op struct {
			p   int
			ttl time.Duration
			adv time.Duration
		}
		ops := make([]op, rapid.IntRange(3, 14).Draw(rt, "nops"))
		for i := range ops {
			ops[i] = op{p: rapid.IntRange(0, np-1).Draw(rt, "p"), ttl: finite[rapid.IntRange(0, len(finite)-1).Draw(rt, "ttl")], adv: rapid.SampledFrom(advs).Draw(rt, "adv")}
		}
		cache := uint(rapid.SampledFrom([]int{0, 8}).Draw(rt, "cache"))
		var trace []string
		overtakes, expiredWhileOthersLive := 0, 0
		hx.Bubble(t, rt, func() {
			mem := pstoremem.NewAddrBook()
			defer mem.Close()
			dsb := newDS(t, dssync.MutexWrap(ds.NewMapDatastore()), cache, false)
			defer dsb.Close()
			const slack = 2*time.Minute + 2*time.Second // two GC periods of either book
			var expiry [np]time.Time
			check := func(when string) {
				now := time.Now()
				for which, ps := range map[string]peer.IDSlice{"memory": mem.PeersWithAddrs(), "datastore": dsb.PeersWithAddrs()} {
					got := map[peer.ID]bool{}
					for _, p := range ps {
						got[p] = true
					}
					for p := 0; p < np; p++ {
						live := expiry[p].After(now)
						if live && !got[pid(p)] {
							rt.Fatalf("%s: %s book PeersWithAddrs omits peer%d whose address is live until %s\nhistory: %s", when, which, p, expiry[p].Format("15:04:05"), strings.Join(trace, "; "))
						}
						if !live && got[pid(p)] && !expiry[p].IsZero() && !now.Before(expiry[p].Add(slack)) {
							rt.Fatalf("%s: %s book PeersWithAddrs still lists peer%d at %s; its only address expired at %s (more than two GC periods ago)\nhistory: %s",
								when, which, p, now.Format("15:04:05"), expiry[p].Format("15:04:05"), strings.Join(trace, "; "))
						}
					}
				}
			}
			for _, o := range ops {
				now := time.Now()
				exp := now.Add(o.ttl)
				was := expiry[o.p]
				mem.AddAddr(pid(o.p), baseAddrs[o.p], o.ttl)
				dsb.AddAddr(pid(o.p), baseAddrs[o.p], o.ttl)
				if !was.After(now) || exp.After(was) {
					expiry[o.p] = exp
				}
				if was.After(now) && exp.After(was) {
					for q := 0; q < np; q++ {
						if q != o.p && expiry[q].After(was) && expiry[q].Before(exp) {
							overtakes++ // the refreshed address now expires after one it used to expire before
						}
					}
				}
				trace = append(trace, fmt.Sprintf("Add(p%d,%s)@%s", o.p, ttlName(o.ttl), now.Format("15:04:05")))
				// advance in GC-period slices so that every collector ticks, asking after each slice
				for left := o.adv; left > 0; {
					d := min(left, time.Minute+time.Second)
					time.Sleep(d)
					synctest.Wait()
					left -= d
					check("after " + trace[len(trace)-1])
				}
				trace[len(trace)-1] += fmt.Sprintf(" +%s", o.adv)
				n := time.Now()
				for p := 0; p < np; p++ {
					if !expiry[p].IsZero() && !expiry[p].After(n) {
						for q := 0; q < np; q++ {
							if expiry[q].After(n) {
								expiredWhileOthersLive++
								break
							}
						}
					}
				}
			}
			time.Sleep(3 * slack)
			synctest.Wait()
			check("at the end")
		})
		var labels []string
		if overtakes > 0 {
			labels = append(labels, "refresh-overtakes-another-expiry")
		}
		stats.Case(name, fmt.Sprintf("%d|%s", cache, strings.Join(trace, ";")), overtakes > 0 && expiredWhileOthersLive > 0, labels...)
		if stats.WantSample(name) {
			stats.Sample(name, map[string]any{"cache": cache, "history": trace})
		}
	})
}
