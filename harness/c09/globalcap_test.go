package c09

import (
	"fmt"
	"sort"
	"strings"
	"testing"
	"time"

	pstore "github.com/libp2p/go-libp2p/core/peerstore"
	"github.com/libp2p/go-libp2p/p2p/host/peerstore/pstoremem"
	ma "github.com/multiformats/go-multiaddr"
	"pgregory.net/rapid"

	"verif/internal/hx"
	"verif/internal/stats"
)

// The in-memory book's global cap (WithMaxAddresses): "the maximum number of unconnected addresses
// to store"; addresses held by a live connection (connected / permanent TTL class) are bounded
// elsewhere and never count. The property keeps every lifetime far above the case's duration, so
// that nothing expires and the number of unconnected addresses the book holds is exactly the number
// of stored entries in a finite TTL class. The model applies the documented rule:
//   - an entry in a connected class is never refused or dropped because of the cap and does not
//     count, whatever class it was in before;
//   - an unconnected address is admitted (a new entry, or a connected entry moving to a finite class)
//     whenever fewer than cap unconnected addresses are stored; at the cap AddAddrs ignores the call,
//     SetAddrs skips the new entry, and a connected entry that would move to a finite class is dropped.
// (AddAddrs looks at the cap once per call, so a batch may overshoot it: the model does the same.)
func TestMemGlobalCap(t *testing.T) {
	name := t.Name()
	hx.Check(t, 3000, 600000, 0, func(rt *rapid.T) {
		capN := rapid.IntRange(1, 6).Draw(rt, "cap")
		nops := rapid.IntRange(2, 16).Draw(rt, "nops")
		classes := []time.Duration{time.Hour, 2 * time.Hour, pstore.ConnectedAddrTTL, pstore.PermanentAddrTTL}
		type entry struct{ ttl time.Duration }
		const np = 3
		var trace []string
		atCap, raised, lowered, refusedAtCap, droppedOnLowering := 0, 0, 0, 0, 0
		ambiguous := false
		type gop struct {
			p        int
			kind     string
			perm     []int
			ttl, old time.Duration
			adv      time.Duration
		}
		ops := make([]gop, nops)
		for i := range ops {
			o := gop{p: rapid.IntRange(0, np-1).Draw(rt, "p"),
				kind: rapid.SampledFrom([]string{"add", "add", "set", "set", "update", "update"}).Draw(rt, "kind")}
			n := rapid.SampledFrom([]int{1, 1, 2, 3}).Draw(rt, "n")
			o.perm = rapid.Permutation([]int{0, 1, 2, 3, 4}).Draw(rt, "perm")[:n]
			o.ttl = classes[rapid.IntRange(0, len(classes)-1).Draw(rt, "ttl")]
			o.adv = time.Duration(rapid.IntRange(0, 20).Draw(rt, "adv")) * time.Second
			if o.kind == "set" && rapid.IntRange(0, 5).Draw(rt, "remove") == 0 {
				o.ttl = 0
			}
			o.old = classes[rapid.IntRange(0, len(classes)-1).Draw(rt, "old")]
			ops[i] = o
		}
		hx.Bubble(t, rt, func() {
			ab := pstoremem.NewAddrBook(pstoremem.WithMaxAddresses(capN), pstoremem.WithMaxAddressesPerPeer(0))
			defer ab.Close()
			model := [np]map[int]*entry{}
			for i := range model {
				model[i] = map[int]*entry{}
			}
			unconnected := func() int {
				n := 0
				for _, m := range model {
					for _, e := range m {
						if !isConnected(e.ttl) {
							n++
						}
					}
				}
				return n
			}
			for _, o := range ops {
				p, kind, perm, ttl := o.p, o.kind, o.perm, o.ttl
				time.Sleep(o.adv)
				var as []ma.Multiaddr
				for _, ai := range perm {
					as = append(as, baseAddrs[ai])
				}
				full := unconnected() >= capN
				if full {
					atCap++
				}
				switch kind {
				case "add":
					trace = append(trace, fmt.Sprintf("Add(p%d,%v,%s)", p, perm, ttlName(ttl)))
					ab.AddAddrs(pid(p), as, ttl)
					if !isConnected(ttl) && full {
						refusedAtCap++
						break
					}
					for _, ai := range perm {
						if e, ok := model[p][ai]; ok {
							if ttl > e.ttl {
								if isConnected(ttl) && !isConnected(e.ttl) {
									raised++
								}
								e.ttl = ttl
							}
						} else {
							model[p][ai] = &entry{ttl}
						}
					}
				case "set":
					trace = append(trace, fmt.Sprintf("Set(p%d,%v,%s)", p, perm, ttlName(ttl)))
					ab.SetAddrs(pid(p), as, ttl)
					for _, ai := range perm {
						e, ok := model[p][ai]
						switch {
						case ttl <= 0:
							delete(model[p], ai)
						case ok && isConnected(e.ttl) && !isConnected(ttl):
							lowered++
							if unconnected() >= capN {
								droppedOnLowering++
								delete(model[p], ai)
							} else {
								e.ttl = ttl
							}
						case ok:
							if isConnected(ttl) && !isConnected(e.ttl) {
								raised++
							}
							e.ttl = ttl
						case !isConnected(ttl) && unconnected() >= capN:
							refusedAtCap++
						default:
							model[p][ai] = &entry{ttl}
						}
					}
				case "update":
					// mostly the two transitions a host makes: a connection comes (finite -> connected) or goes
					old := o.old
					if old == ttl || ttl <= 0 {
						break
					}
					if isConnected(old) && !isConnected(ttl) {
						// the book walks the peer's entries in no particular order: if only some of them fit
						// under the cap, which ones stay is open and the case is not compared any further
						k := 0
						for _, e := range model[p] {
							if e.ttl == old {
								k++
							}
						}
						if room := capN - unconnected(); k > 1 && room > 0 && room < k {
							ambiguous = true
							return
						}
					}
					trace = append(trace, fmt.Sprintf("Update(p%d,%s->%s)", p, ttlName(old), ttlName(ttl)))
					ab.UpdateAddrs(pid(p), old, ttl)
					var ks []int
					for k := range model[p] {
						ks = append(ks, k)
					}
					sort.Ints(ks)
					for _, k := range ks {
						e := model[p][k]
						if e.ttl != old {
							continue
						}
						switch {
						case isConnected(old) && !isConnected(ttl):
							lowered++
							if unconnected() >= capN {
								droppedOnLowering++
								delete(model[p], k)
							} else {
								e.ttl = ttl
							}
						default:
							if isConnected(ttl) && !isConnected(old) {
								raised++
							}
							e.ttl = ttl
						}
					}
				}
				for q := 0; q < np; q++ {
					var want []string
					for k := range model[q] {
						want = append(want, baseAddrs[k].String())
					}
					sort.Strings(want)
					if got := addrSet(ab.Addrs(pid(q))); strings.Join(got, ",") != strings.Join(want, ",") {
						rt.Fatalf("in-memory book with a global cap of %d unconnected addresses: Addrs(peer%d) = %v, the documented rule gives %v (%d unconnected addresses stored)\nhistory: %s",
							capN, q, got, want, unconnected(), strings.Join(trace, "; "))
					}
				}
			}
		})
		labels := []string{fmt.Sprintf("globalcap=%d", capN)}
		if ambiguous {
			labels = append(labels, "open-choice-among-lowered-entries(not compared further)")
		}
		for l, n := range map[string]int{"op-at-the-cap": atCap, "finite-entry-raised-to-connected": raised, "connected-entry-lowered-to-finite": lowered,
			"unconnected-address-refused-at-the-cap": refusedAtCap, "entry-dropped-when-lowered-at-the-cap": droppedOnLowering} {
			if n > 0 {
				labels = append(labels, l)
			}
		}
		sort.Strings(labels)
		stats.Case(name, fmt.Sprintf("%d/%s", capN, strings.Join(trace, ";")), atCap > 0 && (raised > 0 || lowered > 0), labels...)
		if stats.WantSample(name) {
			stats.Sample(name, map[string]any{"cap": capN, "history": trace})
		}
	})
}
