package c09

import (
	"fmt"
	"sort"
	"strings"
	"testing"
	"time"

	ds "github.com/ipfs/go-datastore"
	"github.com/libp2p/go-libp2p/core/peer"
	"github.com/libp2p/go-libp2p/core/record"
	dssync "github.com/ipfs/go-datastore/sync"
	pstore "github.com/libp2p/go-libp2p/core/peerstore"
	"github.com/libp2p/go-libp2p/p2p/host/peerstore/pstoremem"
	ma "github.com/multiformats/go-multiaddr"
	"pgregory.net/rapid"

	"verif/internal/hx"
	"verif/internal/keys"
	"verif/internal/kf"
	"verif/internal/stats"
)

// Per-peer caps enabled. The documented rule (both books): when the cap on unconnected
// addresses is full, inserting a new unconnected address evicts the unconnected entry with
// the nearest expiry (the new address is dropped only if every entry is held by a live
// connection); addresses held by a live connection are never counted or evicted. The model
// applies exactly that rule; when the nearest expiry is shared by several entries the victim
// is not determined by the rule and the case is not compared any further (label "tie").

type capEntry struct {
	ttl    time.Duration
	expiry time.Time
}

func TestCapEviction(t *testing.T) {
	name := t.Name()
	hx.Check(t, 4000, 1500000, 0, func(rt *rapid.T) {
		capN := rapid.IntRange(1, 3).Draw(rt, "cap")
		cache := uint(rapid.SampledFrom([]int{0, 8}).Draw(rt, "cache"))
		nops := rapid.IntRange(2, 14).Draw(rt, "nops")
		type op struct {
			kind  string // add, set, update (connected -> ttl), consume (signed record)
			addrs []int
			seq   uint64
			ttl   time.Duration
			adv   time.Duration
		}
		finite := []time.Duration{2 * time.Minute, 15 * time.Minute, time.Hour, 3 * time.Hour}
		ops := make([]op, nops)
		for i := range ops {
			n := rapid.SampledFrom([]int{1, 1, 2, 3, 4}).Draw(rt, "n")
			perm := rapid.Permutation([]int{0, 1, 2, 3, 4}).Draw(rt, "perm")
			ttl := finite[rapid.IntRange(0, len(finite)-1).Draw(rt, "ttl")]
			if rapid.IntRange(0, 4).Draw(rt, "connected") == 0 {
				ttl = pstore.ConnectedAddrTTL
			}
			kind := rapid.SampledFrom([]string{"add", "add", "add", "set", "update", "consume", "consume"}).Draw(rt, "kind")
			if kind == "set" && rapid.IntRange(0, 3).Draw(rt, "zero") == 0 {
				ttl = time.Duration(rapid.SampledFrom([]int{0, -1}).Draw(rt, "nonpositive"))
			}
			if kind == "update" && isConnected(ttl) {
				ttl = finite[0]
			}
			var seq uint64
			if kind == "consume" {
				seq = uint64(rapid.IntRange(1, 4).Draw(rt, "seq"))
			}
			ops[i] = op{kind: kind, addrs: perm[:n], ttl: ttl, seq: seq,
				adv: time.Duration(rapid.SampledFrom([]int{1, 1, 7, 61, 125, 901}).Draw(rt, "adv")) * time.Second}
		}
		var trace []string
		tie, evictions, batchEvictions, downgrades := false, 0, 0, 0
		recOps, recKeptAcrossEviction, recRejected, recSuperseded := 0, 0, 0, 0
		hx.Bubble(t, rt, func() {
			mem := pstoremem.NewAddrBook(pstoremem.WithMaxAddressesPerPeer(capN))
			defer mem.Close()
			dsb := newDS(t, dssync.MutexWrap(ds.NewMapDatastore()), cache, false, capN)
			defer dsb.Close()
			model := map[int]*capEntry{}
			// the signed record the peer must have now (nil: none), as in the uncapped model: it
			// lives exactly as long as the peer has a live address
			type capRec struct {
				seq   uint64
				addrs map[int]bool
			}
			var rec *capRec
			p := pid(0)
			for _, o := range ops {
				time.Sleep(o.adv)
				now := time.Now()
				for k, e := range model {
					if !e.expiry.After(now) {
						delete(model, k)
					}
				}
				if len(model) == 0 {
					rec = nil
				}
				var as []ma.Multiaddr
				for _, ai := range o.addrs {
					as = append(as, baseAddrs[ai])
				}
				if o.kind == "consume" {
					trace = append(trace, fmt.Sprintf("consume(seq%d,%v,%s)@%s", o.seq, o.addrs, ttlName(o.ttl), now.Format("15:04:05")))
				} else {
					trace = append(trace, fmt.Sprintf("%s(%v,%s)@%s", o.kind, o.addrs, ttlName(o.ttl), now.Format("15:04:05")))
				}
				exp := now.Add(o.ttl)
				rejected := false
				switch o.kind {
				case "consume":
					recOps++
					env := orderedEnvelope(o.seq, o.addrs)
					okM, errM := mem.ConsumePeerRecord(env, o.ttl)
					okD, errD := dsb.ConsumePeerRecord(env, o.ttl)
					want := rec == nil || rec.seq <= o.seq
					if okM != want || okD != want || errM != nil || errD != nil {
						rt.Fatalf("ConsumePeerRecord(seq %d) with per-peer cap %d: memory (%v,%v) datastore (%v,%v), want accepted=%v (current record: %+v)\nhistory: %s",
							o.seq, capN, okM, errM, okD, errD, want, rec, strings.Join(trace, "; "))
					}
					if !want {
						rejected = true
						recRejected++
						break
					}
					newSet := map[int]bool{}
					for _, ai := range o.addrs {
						newSet[ai] = true
					}
					if rec != nil {
						// addresses the previous record listed and the new one does not are dropped unless a
						// connection holds them
						for ai := range rec.addrs {
							if e, ok := model[ai]; ok && !newSet[ai] && !isConnected(e.ttl) {
								delete(model, ai)
								recSuperseded++
							}
						}
					}
					rec = &capRec{o.seq, newSet}
				case "set":
					mem.SetAddrs(p, as, o.ttl)
					dsb.SetAddrs(p, as, o.ttl)
				case "add":
					mem.AddAddrs(p, as, o.ttl)
					dsb.AddAddrs(p, as, o.ttl)
				case "update":
					// the connection went away: no eviction, the addresses just start to count
					mem.UpdateAddrs(p, pstore.ConnectedAddrTTL, o.ttl)
					dsb.UpdateAddrs(p, pstore.ConnectedAddrTTL, o.ttl)
					for _, e := range model {
						if e.ttl == pstore.ConnectedAddrTTL {
							e.ttl, e.expiry = o.ttl, exp
							downgrades++
						}
					}
				}
				inBatch := map[int]bool{}
				evBefore := evictions
				for _, ai := range o.addrs {
					if o.kind == "update" || rejected {
						break
					}
					if o.ttl <= 0 {
						delete(model, ai)
						continue
					}
					if e, ok := model[ai]; ok {
						if o.kind == "set" {
							if isConnected(e.ttl) && !isConnected(o.ttl) {
								downgrades++
							}
							e.ttl, e.expiry = o.ttl, exp
						} else {
							if o.ttl > e.ttl {
								e.ttl = o.ttl
							}
							if exp.After(e.expiry) {
								e.expiry = exp
							}
						}
						inBatch[ai] = true
						continue
					}
					if !isConnected(o.ttl) {
						var unc []int
						for k, e := range model {
							if !isConnected(e.ttl) {
								unc = append(unc, k)
							}
						}
						if len(unc) >= capN {
							sort.Slice(unc, func(i, j int) bool { return model[unc[i]].expiry.Before(model[unc[j]].expiry) })
							if len(unc) > 1 && model[unc[0]].expiry.Equal(model[unc[1]].expiry) {
								tie = true
								return
							}
							if inBatch[unc[0]] {
								batchEvictions++
							}
							delete(model, unc[0])
							evictions++
						}
					}
					model[ai] = &capEntry{o.ttl, exp}
					inBatch[ai] = true
				}
				if len(model) == 0 {
					rec = nil
				}
				if rec != nil && evictions > evBefore {
					recKeptAcrossEviction++
				}
				for which, env := range map[string]*record.Envelope{"memory": mem.GetPeerRecord(p), "datastore": dsb.GetPeerRecord(p)} {
					got := recID(env)
					switch {
					case rec == nil && got != "":
						rt.Fatalf("%s book with per-peer cap %d returns the record %s for a peer without live addresses\nhistory: %s", which, capN, got, strings.Join(trace, "; "))
					case rec != nil && got == "":
						rt.Fatalf("%s book with per-peer cap %d lost the signed record (seq %d) of a peer that has had live addresses ever since it was accepted (now %v)\nhistory: %s",
							which, capN, rec.seq, addrSet(mem.Addrs(p)), strings.Join(trace, "; "))
					case rec != nil:
						if r, err := env.Record(); err != nil || r.(*peer.PeerRecord).Seq != rec.seq {
							rt.Fatalf("%s book with per-peer cap %d returns record %s, the last accepted one has seq %d\nhistory: %s", which, capN, got, rec.seq, strings.Join(trace, "; "))
						}
					}
				}
				var want []string
				for k := range model {
					want = append(want, baseAddrs[k].String())
				}
				sort.Strings(want)
				for which, got := range map[string][]string{"memory": addrSet(mem.Addrs(p)), "datastore": addrSet(dsb.Addrs(p))} {
					if strings.Join(got, ",") != strings.Join(want, ",") {
						rt.Fatalf("%s book with per-peer cap %d returns %v, the documented eviction rule gives %v\nhistory: %s", which, capN, got, want, strings.Join(trace, "; "))
					}
				}
			}
		})
		labels := []string{fmt.Sprintf("cap=%d", capN)}
		if tie {
			labels = append(labels, "tie")
		}
		if downgrades > 0 {
			labels = append(labels, "connected-to-finite-under-cap")
		}
		if batchEvictions > 0 {
			labels = append(labels, "evicted-entry-of-the-same-batch")
		}
		if recOps > 0 {
			labels = append(labels, "signed-record-under-cap")
		}
		if recKeptAcrossEviction > 0 {
			labels = append(labels, "record-kept-across-eviction")
		}
		if recRejected > 0 {
			labels = append(labels, "older-seq-refused-under-cap")
		}
		if recSuperseded > 0 {
			labels = append(labels, "superseded-address-dropped-under-cap")
		}
		stats.Case(name, fmt.Sprintf("%d/%d/%s", capN, cache, strings.Join(trace, ";")), evictions > 0, labels...)
		if stats.WantSample(name) {
			stats.Sample(name, map[string]any{"cap": capN, "cache": cache, "history": trace})
		}
	})
}

// The datastore book used to look for an eviction victim only among the entries that existed
// before the call: a batch of short-lived addresses evicted a long-lived one instead of each
// other, and could not evict anything on an empty peer.
func TestWitness_DSCapEvictsAcrossBatch(t *testing.T) {
	hx.Shard0(t)
	kf.Witness(t, "C09-ds-cap-eviction-ignores-batch", func() (bool, string) {
		return inBubble(t, func() (bool, string) {
			ab := newDS(t, dssync.MutexWrap(ds.NewMapDatastore()), 0, false, 2)
			defer ab.Close()
			ab.AddAddr(pid(0), baseAddrs[0], pstore.RecentlyConnectedAddrTTL)
			ab.AddAddrs(pid(0), []ma.Multiaddr{baseAddrs[0], baseAddrs[1], baseAddrs[2]}, pstore.TempAddrTTL)
			time.Sleep(3 * time.Minute)
			if got := addrSet(ab.Addrs(pid(0))); len(got) != 1 || got[0] != baseAddrs[0].String() {
				return true, fmt.Sprintf("cap 2: Add(A,15m); Add([A,B,C],2m); 3 minutes later the book returns %v, want [A] (the nearest-expiry entry is B or C, never A)", got)
			}
			return false, ""
		})
	})
}

// An address that stops being held by a connection in the same call (SetAddrs with a finite
// TTL on a connected entry) was not counted, so the call could leave the peer above the cap.
func TestWitness_DSCapIgnoresDowngradeInBatch(t *testing.T) {
	hx.Shard0(t)
	kf.Witness(t, "C09-ds-cap-ignores-downgrade-in-batch", func() (bool, string) {
		return inBubble(t, func() (bool, string) {
			ab := newDS(t, dssync.MutexWrap(ds.NewMapDatastore()), 0, false, 1)
			defer ab.Close()
			ab.SetAddr(pid(0), baseAddrs[0], pstore.ConnectedAddrTTL)
			ab.SetAddrs(pid(0), []ma.Multiaddr{baseAddrs[0], baseAddrs[1]}, pstore.TempAddrTTL)
			if got := addrSet(ab.Addrs(pid(0))); len(got) != 1 {
				return true, fmt.Sprintf("cap 1: Set(A,connected); Set([A,B],2m) leaves %d unconnected addresses %v (the memory book keeps [B])", len(got), got)
			}
			return false, ""
		})
	})
}

// ConsumePeerRecord with a non-positive TTL stores nothing, but it used to run the record's
// addresses through the cap first and evicted live addresses to make room for them.
func TestWitness_DSNonPositiveTTLRecordEvicts(t *testing.T) {
	hx.Shard0(t)
	kf.Witness(t, "C09-ds-nonpositive-ttl-record-evicts", func() (bool, string) {
		return inBubble(t, func() (bool, string) {
			ab := newDS(t, dssync.MutexWrap(ds.NewMapDatastore()), 0, false, 2)
			defer ab.Close()
			ab.AddAddrs(pid(0), []ma.Multiaddr{baseAddrs[0], baseAddrs[1]}, time.Hour)
			ab.ConsumePeerRecord(envelope(0, 0, 5, []int{2, 3}), -1)
			if got := addrSet(ab.Addrs(pid(0))); len(got) != 2 {
				return true, fmt.Sprintf("cap 2: Add([A,B],1h); ConsumePeerRecord([C,D], ttl -1ns) leaves %v, want A and B untouched (as in the memory book)", got)
			}
			return false, ""
		})
	})
}

// orderedEnvelope seals a record of peer 0 listing the addresses in exactly the given order
// (under a cap the order decides which entry of a batch is evicted first).
var orderedEnvCache = map[string]*record.Envelope{}

func orderedEnvelope(seq uint64, ais []int) *record.Envelope {
	k := fmt.Sprint(seq, ais)
	if e, ok := orderedEnvCache[k]; ok {
		return e
	}
	var addrs []ma.Multiaddr
	for _, ai := range ais {
		addrs = append(addrs, baseAddrs[ai])
	}
	e, err := record.Seal(&peer.PeerRecord{PeerID: pid(0), Addrs: addrs, Seq: seq}, keys.Ed(10).Priv)
	if err != nil {
		panic(err)
	}
	orderedEnvCache[k] = e
	return e
}
