// Package c09 checks property C09: address-book TTL / expiry / GC semantics, identical
// in the in-memory and the datastore-backed book, and across close/reopen.
package c09

import (
	"context"
	"fmt"
	"sort"
	"strings"
	"testing"
	"testing/synctest"
	"time"

	ds "github.com/ipfs/go-datastore"
	dssync "github.com/ipfs/go-datastore/sync"
	"github.com/libp2p/go-libp2p/core/peer"
	pstore "github.com/libp2p/go-libp2p/core/peerstore"
	"github.com/libp2p/go-libp2p/core/record"
	"github.com/libp2p/go-libp2p/p2p/host/peerstore/pstoreds"
	"github.com/libp2p/go-libp2p/p2p/host/peerstore/pstoremem"
	ma "github.com/multiformats/go-multiaddr"
	"pgregory.net/rapid"

	"verif/internal/hx"
	"verif/internal/keys"
	"verif/internal/stats"
)

func TestMain(m *testing.M) {
	stats.Describe("exploration",
		"rapid state machine: histories of AddAddrs/SetAddrs/UpdateAddrs/ClearAddrs/ConsumePeerRecord/clock advance/GC/reopen over 3 peers, "+
			"5 addresses (bare, /p2p-suffixed for the same and for another peer) and TTLs {0,-1s,2m,15m,1h,connected,permanent}, applied to the "+
			"in-memory book, the datastore book (cache 0 or 8, purge or lookahead GC) and a continuous-time reference model inside one synctest bubble; "+
			"Addrs/GetPeerRecord compared at generated audit points and at the end, PeersWithAddrs after GC. "+
			"Non-trivial = history contains a connected->finite transition followed by GC, or a multi-address delete, or a record replacement, or a reopen, "+
			"or an expiry of all addresses of a peer holding a record; distinct = distinct (rule, argument) sequence.",
		"clock steps are whole seconds (the datastore record stores Unix seconds)",
		"the datastore double applies every write atomically; a crash is modelled as close/reopen",
	)
	hx.Main(m)
}

// ---------------------------------------------------------------------------
// universe

const nPeers = 3
const nAddrs = 5

var ttls = []time.Duration{0, -time.Second, pstore.TempAddrTTL, pstore.RecentlyConnectedAddrTTL, pstore.AddressTTL, pstore.ConnectedAddrTTL, pstore.PermanentAddrTTL}
var ttlNames = []string{"0", "-1s", "temp2m", "recent15m", "addr1h", "connected", "permanent"}

func ttlName(d time.Duration) string {
	for i, t := range ttls {
		if t == d {
			return ttlNames[i]
		}
	}
	return d.String()
}

func isConnected(ttl time.Duration) bool { return ttl >= pstore.ConnectedAddrTTL }

var baseAddrs = func() []ma.Multiaddr {
	var out []ma.Multiaddr
	for i := 0; i < nAddrs; i++ {
		out = append(out, ma.StringCast(fmt.Sprintf("/ip4/1.2.3.%d/tcp/%d", i+1, 4000+i)))
	}
	return out
}()

func pid(i int) peer.ID { return keys.Ed(10 + i).ID }

// addrForm: 0 bare, 1 with /p2p/<same peer>, 2 with /p2p/<another peer> (must be ignored)
func formAddr(ai, form, p int) ma.Multiaddr {
	a := baseAddrs[ai]
	switch form {
	case 1:
		return a.Encapsulate(ma.StringCast("/p2p/" + pid(p).String()))
	case 2:
		return a.Encapsulate(ma.StringCast("/p2p/" + pid((p+1)%nPeers).String()))
	}
	return a
}

// ---------------------------------------------------------------------------
// reference model (continuous time: an address is gone the instant it expires; a
// signed record is gone the instant its peer has no live address)

type mAddr struct {
	ttl    time.Duration
	expiry time.Time
	// pinned: the address was last written by an Add/Set naming it with a connected TTL, so it
	// is certainly stored (connected addresses bypass the per-peer cap and are never evicted)
	pinned bool
}

type mRec struct {
	seq   uint64
	addrs map[int]bool
	id    string // identifies the envelope (peer/seq/addrs)
}

type mPeer struct {
	addrs map[int]*mAddr
	rec   *mRec
}

type model struct {
	peers [nPeers]*mPeer
	// graceUntil[p]: until this instant peer p may still be listed by PeersWithAddrs
	// although it has no live address (an address expired and the next GC run is due)
	graceUntil [nPeers]time.Time
	slack      time.Duration
}

func newModel() *model {
	m := &model{}
	for i := range m.peers {
		m.peers[i] = &mPeer{addrs: map[int]*mAddr{}}
	}
	return m
}

// prune applies the passage of time. It returns true if some peer lost its record
// because all its addresses expired.
func (m *model) prune(now time.Time) (recordDied bool) {
	for i, p := range m.peers {
		for k, a := range p.addrs {
			if !a.expiry.After(now) {
				if g := a.expiry.Add(m.slack); g.After(m.graceUntil[i]) {
					m.graceUntil[i] = g
				}
				delete(p.addrs, k)
			}
		}
		if len(p.addrs) == 0 && p.rec != nil {
			p.rec = nil
			recordDied = true
		}
	}
	return
}

func (m *model) add(now time.Time, p int, ais []int, forms []int, ttl time.Duration) {
	if ttl <= 0 {
		return
	}
	for i, ai := range ais {
		if forms[i] == 2 {
			continue
		}
		exp := now.Add(ttl)
		if a, ok := m.peers[p].addrs[ai]; ok {
			if ttl > a.ttl {
				a.ttl = ttl
			}
			if exp.After(a.expiry) {
				a.expiry = exp
			}
			if isConnected(ttl) {
				a.pinned = true
			}
		} else {
			m.peers[p].addrs[ai] = &mAddr{ttl, exp, isConnected(ttl)}
		}
	}
}

func (m *model) set(now time.Time, p int, ais []int, forms []int, ttl time.Duration) {
	for i, ai := range ais {
		if forms[i] == 2 {
			continue
		}
		if ttl <= 0 {
			delete(m.peers[p].addrs, ai)
			continue
		}
		m.peers[p].addrs[ai] = &mAddr{ttl, now.Add(ttl), isConnected(ttl)}
	}
}

func (m *model) update(now time.Time, p int, old, nw time.Duration) {
	for k, a := range m.peers[p].addrs {
		if a.ttl != old {
			continue
		}
		if nw <= 0 {
			if g := now.Add(m.slack); nw < 0 && g.After(m.graceUntil[p]) {
				m.graceUntil[p] = g
			}
			delete(m.peers[p].addrs, k)
			continue
		}
		a.ttl, a.expiry = nw, now.Add(nw)
		a.pinned = a.pinned && isConnected(nw)
	}
}

func (m *model) clear(p int) {
	m.graceUntil[p] = time.Time{}
	m.peers[p].addrs = map[int]*mAddr{}
	m.peers[p].rec = nil
}

// consume returns whether the record must be accepted.
func (m *model) consume(now time.Time, p int, seq uint64, ais []int, ttl time.Duration, id string) bool {
	mp := m.peers[p]
	if mp.rec != nil && mp.rec.seq > seq {
		return false
	}
	newSet := map[int]bool{}
	for _, ai := range ais {
		newSet[ai] = true
	}
	if mp.rec != nil {
		for ai := range mp.rec.addrs {
			if newSet[ai] {
				continue
			}
			if a, ok := mp.addrs[ai]; ok && !isConnected(a.ttl) {
				delete(mp.addrs, ai)
			}
		}
	}
	mp.rec = &mRec{seq: seq, addrs: newSet, id: id}
	forms := make([]int, len(ais))
	m.add(now, p, ais, forms, ttl)
	return true
}

func (m *model) live(p int) []string {
	var out []string
	for ai := range m.peers[p].addrs {
		out = append(out, baseAddrs[ai].String())
	}
	sort.Strings(out)
	return out
}

// ---------------------------------------------------------------------------

type books struct {
	mem interface {
		pstore.AddrBook
		pstore.CertifiedAddrBook
		Close() error
	}
	dsb interface {
		pstore.AddrBook
		pstore.CertifiedAddrBook
		Close() error
	}
	store  ds.Batching
	dsOpts pstoreds.Options
}

func (b *books) openDS(rt *rapid.T) {
	ab, err := pstoreds.NewAddrBook(context.Background(), b.store, b.dsOpts)
	if err != nil {
		rt.Fatalf("NewAddrBook: %v", err)
	}
	b.dsb = ab
}

func addrSet(as []ma.Multiaddr) []string {
	seen := map[string]bool{}
	var out []string
	for _, a := range as {
		s := a.String()
		if !seen[s] {
			seen[s] = true
			out = append(out, s)
		}
	}
	sort.Strings(out)
	return out
}

func recID(env *record.Envelope) string {
	if env == nil {
		return ""
	}
	r, err := env.Record()
	if err != nil {
		return "undecodable:" + err.Error()
	}
	pr, ok := r.(*peer.PeerRecord)
	if !ok {
		return "not-a-peer-record"
	}
	return fmt.Sprintf("%s/%d/%v", pr.PeerID, pr.Seq, addrSet(pr.Addrs))
}

type envKey struct {
	p, signer int
	seq       uint64
	mask      int
}

var envCache = map[envKey]*record.Envelope{}

func envelope(p, signer int, seq uint64, ais []int) *record.Envelope {
	mask := 0
	for _, ai := range ais {
		mask |= 1 << ai
	}
	k := envKey{p, signer, seq, mask}
	if e, ok := envCache[k]; ok {
		return e
	}
	var addrs []ma.Multiaddr
	for _, ai := range ais {
		addrs = append(addrs, baseAddrs[ai])
	}
	rec := &peer.PeerRecord{PeerID: pid(p), Addrs: addrs, Seq: seq}
	e, err := record.Seal(rec, keys.Ed(10+signer).Priv)
	if err != nil {
		panic(err)
	}
	envCache[k] = e
	return e
}

func drawBatch(rt *rapid.T, p int) (ais, forms []int, addrs []ma.Multiaddr) {
	n := rapid.SampledFrom([]int{1, 1, 2, 2, 3, 4}).Draw(rt, "n")
	perm := rapid.Permutation([]int{0, 1, 2, 3, 4}).Draw(rt, "perm")
	for i := 0; i < n; i++ {
		ai := perm[i]
		form := rapid.SampledFrom([]int{0, 0, 0, 0, 1, 2}).Draw(rt, "form")
		ais = append(ais, ai)
		forms = append(forms, form)
		addrs = append(addrs, formAddr(ai, form, p))
	}
	// occasionally name one address twice in the batch (same or another textual form)
	if rapid.IntRange(0, 5).Draw(rt, "dup") == 0 {
		k := rapid.IntRange(0, n-1).Draw(rt, "dupOf")
		form := rapid.SampledFrom([]int{0, 1}).Draw(rt, "dupForm")
		ais = append(ais, ais[k])
		forms = append(forms, form)
		addrs = append(addrs, formAddr(ais[k], form, p))
	}
	return
}

func drawTTL(rt *rapid.T, label string) time.Duration {
	return ttls[rapid.SampledFrom([]int{0, 1, 2, 2, 3, 3, 4, 5, 5, 6}).Draw(rt, label)]
}

type config struct {
	cache     uint
	lookahead bool
	capN      int // per-peer cap on unconnected addresses; 0 = disabled (exact oracle)
}

func TestBooksAgreeWithModel(t *testing.T) {
	name := t.Name()
	hx.Check(t, 10000, 1200000, 40, func(rt *rapid.T) {
		cfg := config{
			cache:     uint(rapid.SampledFrom([]int{0, 8}).Draw(rt, "cache")),
			lookahead: rapid.Bool().Draw(rt, "lookahead"),
			capN:      0, // caps are covered by TestCapEviction (exact eviction model)
		}
		var trace []string
		var flags struct{ connToFiniteThenGC, multiDelete, recReplace, reopen, recDied, sawConnToFinite bool }
		hx.Bubble(t, rt, func() {
			b := &books{store: dssync.MutexWrap(ds.NewMapDatastore())}
			b.dsOpts = pstoreds.Options{CacheSize: cfg.cache, MaxProtocols: 1024, MaxAddrsPerPeer: cfg.capN, GCPurgeInterval: time.Minute, GCInitialDelay: 0}
			if cfg.lookahead {
				b.dsOpts.GCLookaheadInterval = 2 * time.Minute
			}
			b.mem = pstoremem.NewAddrBook(pstoremem.WithMaxAddressesPerPeer(cfg.capN))
			b.openDS(rt)
			defer func() { b.mem.Close(); b.dsb.Close() }()
			m := newModel()
			m.slack = 2*time.Minute + time.Second
			if cfg.lookahead {
				m.slack = 3*time.Minute + time.Second
			}
			nextSeq := [nPeers]uint64{5, 5, 5}

			audit := func(when string) {
				now := time.Now()
				if m.prune(now) {
					flags.recDied = true
				}
				if cfg.capN > 0 {
					// caps enabled: eviction victims tie on expiry and the statement does not rank them, so each
					// book is judged against invariants only: returned addresses are live in the uncapped model,
					// addresses held by a live connection are never evicted, at most capN others are kept, and a
					// returned record is the model's current one
					for p := 0; p < nPeers; p++ {
						live := map[string]*mAddr{}
						for ai, a := range m.peers[p].addrs {
							live[baseAddrs[ai].String()] = a
						}
						for which, got := range map[string][]string{"memory": addrSet(b.mem.Addrs(pid(p))), "datastore": addrSet(b.dsb.Addrs(pid(p)))} {
							have := map[string]bool{}
							unconnected := 0
							for _, a := range got {
								have[a] = true
								la, ok := live[a]
								if !ok {
									rt.Fatalf("%s: %s book (cap %d) returns %s for peer%d, which is not live in the model %v\ntrace: %s", when, which, cfg.capN, a, p, m.live(p), strings.Join(trace, "; "))
								}
								if !isConnected(la.ttl) {
									unconnected++
								}
							}
							// (the cap is enforced when new addresses are inserted, not when connected addresses
							// are downgraded, so the number kept is not asserted)
							_ = unconnected
							for a, la := range live {
								if la.pinned && isConnected(la.ttl) && !have[a] {
									rt.Fatalf("%s: %s book (cap %d) lost the connected address %s of peer%d\ntrace: %s", when, which, cfg.capN, a, p, strings.Join(trace, "; "))
								}
							}
						}
						wantRec := ""
						if m.peers[p].rec != nil {
							wantRec = m.peers[p].rec.id
						}
						for which, got := range map[string]string{"memory": recID(b.mem.GetPeerRecord(pid(p))), "datastore": recID(b.dsb.GetPeerRecord(pid(p)))} {
							if got != "" && got != wantRec {
								rt.Fatalf("%s: %s book (cap %d) GetPeerRecord(peer%d) = %q, model %q\ntrace: %s", when, which, cfg.capN, p, got, wantRec, strings.Join(trace, "; "))
							}
						}
					}
					return
				}
				for p := 0; p < nPeers; p++ {
					want := m.live(p)
					gm, gd := addrSet(b.mem.Addrs(pid(p))), addrSet(b.dsb.Addrs(pid(p)))
					if strings.Join(gm, ",") != strings.Join(want, ",") {
						rt.Fatalf("%s: memory book Addrs(peer%d) = %v, model %v\ntrace: %s", when, p, gm, want, strings.Join(trace, "; "))
					}
					if strings.Join(gd, ",") != strings.Join(want, ",") {
						rt.Fatalf("%s: datastore book Addrs(peer%d) = %v, model %v\ntrace: %s", when, p, gd, want, strings.Join(trace, "; "))
					}
					wantRec := ""
					if m.peers[p].rec != nil {
						wantRec = m.peers[p].rec.id
					}
					if got := recID(b.mem.GetPeerRecord(pid(p))); got != wantRec {
						rt.Fatalf("%s: memory book GetPeerRecord(peer%d) = %q, model %q\ntrace: %s", when, p, got, wantRec, strings.Join(trace, "; "))
					}
					if got := recID(b.dsb.GetPeerRecord(pid(p))); got != wantRec {
						rt.Fatalf("%s: datastore book GetPeerRecord(peer%d) = %q, model %q\ntrace: %s", when, p, got, wantRec, strings.Join(trace, "; "))
					}
				}
			}
			// listed compares PeersWithAddrs with the model: every peer with a live address is
			// listed; a peer without one may stay listed only until the GC run that follows the
			// expiry of its last address (graceUntil); exact=true demands equality.
			listed := func(when string, exact bool) {
				now := time.Now()
				for _, which := range []string{"memory", "datastore"} {
					ps := b.mem.PeersWithAddrs()
					if which == "datastore" {
						ps = b.dsb.PeersWithAddrs()
					}
					got := map[peer.ID]bool{}
					for _, p := range ps {
						got[p] = true
					}
					for p := 0; p < nPeers; p++ {
						live := len(m.peers[p].addrs) > 0
						if live && !got[pid(p)] && cfg.capN == 0 {
							rt.Fatalf("%s: %s book PeersWithAddrs omits peer%d which has live addresses %v\ntrace: %s", when, which, p, m.live(p), strings.Join(trace, "; "))
						}
						if !live && got[pid(p)] && (exact || !now.Before(m.graceUntil[p])) {
							rt.Fatalf("%s: %s book PeersWithAddrs still lists peer%d, which has had no live address since %v (now %v)\ntrace: %s",
								when, which, p, m.graceUntil[p].Add(-m.slack).Format("15:04:05"), now.Format("15:04:05"), strings.Join(trace, "; "))
						}
						delete(got, pid(p))
					}
					if len(got) != 0 {
						rt.Fatalf("%s: %s book PeersWithAddrs lists unknown peers %v", when, which, got)
					}
				}
			}
			step := func(s string) { trace = append(trace, s) }

			rt.Repeat(map[string]func(*rapid.T){
				"add": func(rt *rapid.T) {
					p := rapid.IntRange(0, nPeers-1).Draw(rt, "p")
					ais, forms, addrs := drawBatch(rt, p)
					ttl := drawTTL(rt, "ttl")
					m.prune(time.Now())
					step(fmt.Sprintf("Add(p%d,%v/%v,%s)", p, ais, forms, ttlName(ttl)))
					b.mem.AddAddrs(pid(p), addrs, ttl)
					b.dsb.AddAddrs(pid(p), addrs, ttl)
					m.add(time.Now(), p, ais, forms, ttl)
				},
				"set": func(rt *rapid.T) {
					p := rapid.IntRange(0, nPeers-1).Draw(rt, "p")
					ais, forms, addrs := drawBatch(rt, p)
					ttl := drawTTL(rt, "ttl")
					m.prune(time.Now())
					if ttl <= 0 {
						hit := 0
						for i, ai := range ais {
							if _, ok := m.peers[p].addrs[ai]; ok && forms[i] != 2 {
								hit++
							}
						}
						if hit >= 2 {
							flags.multiDelete = true
						}
					} else if !isConnected(ttl) {
						for i, ai := range ais {
							if a, ok := m.peers[p].addrs[ai]; ok && forms[i] != 2 && isConnected(a.ttl) {
								flags.sawConnToFinite = true
							}
						}
					}
					step(fmt.Sprintf("Set(p%d,%v/%v,%s)", p, ais, forms, ttlName(ttl)))
					b.mem.SetAddrs(pid(p), addrs, ttl)
					b.dsb.SetAddrs(pid(p), addrs, ttl)
					m.set(time.Now(), p, ais, forms, ttl)
				},
				"update": func(rt *rapid.T) {
					p := rapid.IntRange(0, nPeers-1).Draw(rt, "p")
					old := ttls[rapid.IntRange(2, len(ttls)-1).Draw(rt, "old")]
					nw := drawTTL(rt, "new")
					m.prune(time.Now())
					if isConnected(old) && !isConnected(nw) && nw > 0 {
						for _, a := range m.peers[p].addrs {
							if a.ttl == old {
								flags.sawConnToFinite = true
							}
						}
					}
					step(fmt.Sprintf("Update(p%d,%s->%s)", p, ttlName(old), ttlName(nw)))
					b.mem.UpdateAddrs(pid(p), old, nw)
					b.dsb.UpdateAddrs(pid(p), old, nw)
					m.update(time.Now(), p, old, nw)
				},
				"clear": func(rt *rapid.T) {
					p := rapid.IntRange(0, nPeers-1).Draw(rt, "p")
					m.prune(time.Now())
					step(fmt.Sprintf("Clear(p%d)", p))
					b.mem.ClearAddrs(pid(p))
					b.dsb.ClearAddrs(pid(p))
					m.clear(p)
				},
				"consume": func(rt *rapid.T) {
					p := rapid.IntRange(0, nPeers-1).Draw(rt, "p")
					n := rapid.IntRange(0, 3).Draw(rt, "n")
					perm := rapid.Permutation([]int{0, 1, 2, 3, 4}).Draw(rt, "perm")
					ais := append([]int(nil), perm[:n]...)
					sort.Ints(ais)
					var seq uint64
					switch rapid.SampledFrom([]string{"higher", "higher", "equal", "lower"}).Draw(rt, "seqkind") {
					case "higher":
						nextSeq[p]++
						seq = nextSeq[p]
					case "equal":
						seq = nextSeq[p]
					default:
						seq = nextSeq[p] - uint64(rapid.IntRange(1, 3).Draw(rt, "back"))
					}
					ttl := ttls[rapid.SampledFrom([]int{2, 3, 4, 5, 2, 3, 0, 1}).Draw(rt, "ttl")]
					wrongSigner := rapid.IntRange(0, 7).Draw(rt, "wrongSigner") == 0
					signer := p
					if wrongSigner {
						signer = (p + 1) % nPeers
					}
					env := envelope(p, signer, seq, ais)
					m.prune(time.Now())
					step(fmt.Sprintf("Consume(p%d,seq%d,%v,%s,wrongSigner=%v)", p, seq, ais, ttlName(ttl), wrongSigner))
					okM, errM := b.mem.ConsumePeerRecord(env, ttl)
					okD, errD := b.dsb.ConsumePeerRecord(env, ttl)
					if wrongSigner {
						if okM || errM == nil || okD || errD == nil {
							rt.Fatalf("record for peer%d signed by another key was not refused: memory (%v,%v) datastore (%v,%v)\ntrace: %s", p, okM, errM, okD, errD, strings.Join(trace, "; "))
						}
						return
					}
					hadRec := m.peers[p].rec != nil
					want := m.consume(time.Now(), p, seq, ais, ttl, recID(env))
					if want && hadRec {
						flags.recReplace = true
					}
					if okM != want || errM != nil {
						rt.Fatalf("memory book ConsumePeerRecord = (%v,%v), model accepts=%v\ntrace: %s", okM, errM, want, strings.Join(trace, "; "))
					}
					if okD != want || errD != nil {
						rt.Fatalf("datastore book ConsumePeerRecord = (%v,%v), model accepts=%v\ntrace: %s", okD, errD, want, strings.Join(trace, "; "))
					}
				},
				"advance": func(rt *rapid.T) {
					d := rapid.SampledFrom([]time.Duration{time.Second, 59 * time.Second, 61 * time.Second, 2 * time.Minute, 16 * time.Minute, time.Hour}).Draw(rt, "d")
					step("Advance(" + d.String() + ")")
					time.Sleep(d)
					synctest.Wait()
				},
				"gc": func(rt *rapid.T) {
					// advance past the next tick of every collector, then compare the peer lists
					d := time.Minute + time.Second
					if cfg.lookahead {
						d = 3*time.Minute + time.Second
					}
					step("GC(" + d.String() + ")")
					time.Sleep(d)
					synctest.Wait()
					if flags.sawConnToFinite {
						flags.connToFiniteThenGC = true
					}
					if m.prune(time.Now()) {
						flags.recDied = true
					}
					listed("after GC", false)
				},
				"reopen": func(rt *rapid.T) {
					step("Reopen")
					flags.reopen = true
					b.dsb.Close()
					b.openDS(rt)
				},
				"audit": func(rt *rapid.T) {
					step("Audit")
					audit("audit")
				},
				// single reads of one peer in one book (the audit always reads the addresses before the
				// record, of every peer, in both books: a read that repairs state would hide what the
				// other read, or the next GC run, sees)
				"read1": func(rt *rapid.T) {
					if cfg.capN > 0 {
						rt.Skip("caps: audits only")
					}
					p := rapid.IntRange(0, nPeers-1).Draw(rt, "p")
					what := rapid.SampledFrom([]string{"rec", "rec", "addrs"}).Draw(rt, "what")
					which := rapid.SampledFrom([]string{"memory", "datastore", "datastore"}).Draw(rt, "which")
					m.prune(time.Now())
					step(fmt.Sprintf("Read1(%s,p%d,%s)", what, p, which))
					var ab interface {
						pstore.AddrBook
						pstore.CertifiedAddrBook
					} = b.mem
					if which == "datastore" {
						ab = b.dsb
					}
					if what == "addrs" {
						if got, want := addrSet(ab.Addrs(pid(p))), m.live(p); strings.Join(got, ",") != strings.Join(want, ",") {
							rt.Fatalf("%s book Addrs(peer%d) = %v, model %v\ntrace: %s", which, p, got, want, strings.Join(trace, "; "))
						}
						return
					}
					wantRec := ""
					if m.peers[p].rec != nil {
						wantRec = m.peers[p].rec.id
					}
					if got := recID(ab.GetPeerRecord(pid(p))); got != wantRec {
						rt.Fatalf("%s book GetPeerRecord(peer%d) = %q, model %q\ntrace: %s", which, p, got, wantRec, strings.Join(trace, "; "))
					}
				},
			})
			if rapid.Bool().Draw(rt, "auditBeforeFinalGC") {
				audit("final audit")
			}
			// final GC: after more than the GC period with nothing expiring in between,
			// nothing without a live address may stay listed
			step("FinalGC")
			for range 3 {
				time.Sleep(m.slack)
				synctest.Wait()
			}
			m.prune(time.Now())
			exact := true
			for p := 0; p < nPeers; p++ {
				if time.Now().Before(m.graceUntil[p]) {
					exact = false
				}
			}
			listed("after final GC", exact)
			audit("after final GC")
		})
		nontrivial := flags.connToFiniteThenGC || flags.multiDelete || flags.recReplace || flags.reopen || flags.recDied
		var labels []string
		for k, v := range map[string]bool{"connToFiniteThenGC": flags.connToFiniteThenGC, "multiDelete": flags.multiDelete, "recReplace": flags.recReplace, "reopen": flags.reopen, "recDied": flags.recDied} {
			if v {
				labels = append(labels, k)
			}
		}
		sort.Strings(labels)
		labels = append(labels, fmt.Sprintf("cache=%d", cfg.cache), fmt.Sprintf("lookahead=%v", cfg.lookahead), fmt.Sprintf("cap=%d", cfg.capN))
		stats.Case(name, strings.Join(trace, ";"), nontrivial, labels...)
		if stats.WantSample(name) {
			stats.Sample(name, map[string]any{"config": fmt.Sprintf("%+v", cfg), "history": trace})
		}
	})
}
