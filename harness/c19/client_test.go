package c19

// Client side: the real ClientPeerIDAuth against a harness server (an http.RoundTripper) that
// answers honestly or with generated deviations.

import (
	"fmt"
	"io"
	"net/http"
	"strings"
	"testing"
	"time"

	ic "github.com/libp2p/go-libp2p/core/crypto"
	"github.com/libp2p/go-libp2p/core/peer"
	httppeeridauth "github.com/libp2p/go-libp2p/p2p/http/auth"
	"pgregory.net/rapid"

	"verif/internal/hx"
	"verif/internal/keys"
	"verif/internal/stats"
)

type respPlan struct {
	Signer      int  `json:"signer,omitempty"`       // 0 V (the identity normally claimed), 1 A (attacker), 2 no sig at all, 3 a third identity
	Claim       int  `json:"claim,omitempty"`        // public-key param: 0 V, 1 A, 2 dropped, 3 V then A, 4 A then V, 5 V with a flipped bit, 6 V's key re-encoded (another way of writing the same key, keyenc_test.go)
	Chal        int  `json:"chal,omitempty"`         // signed challenge: 0 this request's, 1 one of an earlier call, 2 empty, 3 one char changed, 4 first of this call
	CKey        int  `json:"ckey,omitempty"`         // signed client key: 0 the client's, 1 another identity's, 2 empty
	HostS       int  `json:"host_signed,omitempty"`  // signed hostname: 0 request Host, 1 other host, 2 empty, 3 part omitted, 4 upper-cased
	SigMut      int  `json:"sig_mut,omitempty"`      // 0 none, 1 bit flip, 2 truncated, 3 replay of a signature of an earlier call, 4 LF inserted (equivalent)
	RefuseCI    bool `json:"refuse_ci,omitempty"`    // answer the client-initiated request without a signature (forces the server-initiated flow)
	RejectToken bool `json:"reject_token,omitempty"` // answer a bearer request with 401 + challenge
	Place       int  `json:"place,omitempty"`        // 0 normal, 1 header names swapped, 2 both headers set
	Status      int  `json:"status,omitempty"`       // 0 normal, 1 force 200, 2 force 401
	DropBearer  bool `json:"drop_bearer,omitempty"`
	SigAlways   bool `json:"sig_always,omitempty"` // also add a (planned) sig where an honest server sends none
	// Tell: the response ALSO carries, as parameters, the values the signature it sends was actually
	// made for (bit 1 challenge-server, bit 2 client-public-key, bit 4 hostname): what an impostor
	// does that replays a signature of an earlier session and hopes the client takes the signed
	// context from the header instead of from its own state. An honest server sends none of them.
	ClaimEnc  int     `json:"claim_enc,omitempty"` // Claim 6: the way V's key is written
	Tell      int     `json:"tell,omitempty"`
	TellFront bool    `json:"tell_front,omitempty"`
	Ops       []hdrOp `json:"ops,omitempty"` // parameter-level operators on the finished header
}

// hdrOp is one parameter-level operator applied to the finished response header value.
type hdrOp struct {
	Op    int  `json:"op"`  // 0 add, 1 drop, 2 duplicate, 3 swap (replace the value; add when absent)
	K     int  `json:"k"`   // index into hdrParamNames
	Src   int  `json:"src"` // donor of add / swap: 0 an earlier session of this client (either direction), 1 this session (reflection), 2 fresh
	Front bool `json:"front,omitempty"`
}

// every parameter name of the scheme plus the two names that exist only inside signed data
var hdrParamNames = []string{"challenge-server", "challenge-client", "opaque", "public-key", "sig", "bearer", "hostname", "client-public-key"}
var hdrOpNames = []string{"add", "drop", "dup", "swap"}

func (p respPlan) honest() bool {
	return (p.Signer == 0 && p.Claim == 0 || p.Signer == 1 && p.Claim == 1) && p.Chal == 0 && p.CKey == 0 && p.HostS == 0 && (p.SigMut == 0 || p.SigMut == 4) &&
		p.Place == 0 && p.Status == 0 && !p.DropBearer && p.Tell == 0 && len(p.Ops) == 0
}

type callPlan struct {
	Host    int        `json:"host"`
	Sleep   int        `json:"sleep"`
	GetBody bool       `json:"get_body"`
	Resp    []respPlan `json:"resp"`
}

type clientScenario struct {
	ClientKey int        `json:"client_key"`
	TokenTTL  int        `json:"token_ttl"`
	VKey      int        `json:"v_key"`
	AKey      int        `json:"a_key"`
	Calls     []callPlan `json:"calls"`
}

var clientTTLs = []time.Duration{0, time.Minute, time.Hour}

func drawRespPlan(rt *rapid.T) respPlan {
	// 0-2 deviations per answer, so that multi-step flows progress to their later steps
	var p respPlan
	nd := rapid.SampledFrom([]int{0, 0, 0, 1, 1, 1, 1, 2}).Draw(rt, "ndev")
	for i := 0; i < nd; i++ {
		switch rapid.IntRange(0, 8).Draw(rt, "field") {
		case 0:
			p.Signer = rapid.SampledFrom([]int{1, 1, 2, 3}).Draw(rt, "signer")
		case 1:
			p.Claim = rapid.SampledFrom([]int{1, 2, 3, 4, 5, 6, 6}).Draw(rt, "claim")
			if p.Claim == 6 {
				p.ClaimEnc = rapid.IntRange(1, nKeyEncs-1).Draw(rt, "claimenc")
			}
		case 2:
			p.Chal = rapid.IntRange(1, 4).Draw(rt, "chal")
		case 3:
			p.CKey = rapid.IntRange(1, 2).Draw(rt, "ckey")
		case 4:
			p.HostS = rapid.IntRange(1, 4).Draw(rt, "hosts")
		case 5:
			p.SigMut = rapid.IntRange(1, 4).Draw(rt, "sigmut")
		case 6:
			p.Place = rapid.IntRange(1, 2).Draw(rt, "place")
		case 7:
			p.Status = rapid.IntRange(1, 2).Draw(rt, "status")
		default:
			p.DropBearer = true
		}
	}
	p.RefuseCI = rapid.IntRange(0, 3).Draw(rt, "refuseci") == 0
	p.RejectToken = rapid.IntRange(0, 1).Draw(rt, "rejecttoken") == 0
	p.SigAlways = rapid.IntRange(0, 3).Draw(rt, "sigalways") == 0
	// A signature made for another context (stale / foreign challenge, other client key, other
	// hostname, replayed signature) is accompanied by its context half of the time, an ordinary
	// one rarely.
	tellOdds := []int{0, 0, 0, 0, 0, 0, 0, 1}
	if p.Chal != 0 || p.CKey != 0 || p.HostS != 0 || p.SigMut == 3 {
		tellOdds = []int{0, 1}
	}
	if rapid.SampledFrom(tellOdds).Draw(rt, "tell") == 1 {
		p.Tell = rapid.IntRange(1, 7).Draw(rt, "tellmask")
		p.TellFront = rapid.Bool().Draw(rt, "tellfront")
	}
	nops := rapid.SampledFrom([]int{0, 0, 0, 0, 0, 1, 1, 2}).Draw(rt, "nops")
	for i := 0; i < nops; i++ {
		p.Ops = append(p.Ops, hdrOp{
			Op:    rapid.IntRange(0, len(hdrOpNames)-1).Draw(rt, "op"),
			K:     rapid.IntRange(0, len(hdrParamNames)-1).Draw(rt, "opk"),
			Src:   rapid.IntRange(0, 2).Draw(rt, "opsrc"),
			Front: rapid.Bool().Draw(rt, "opfront"),
		})
	}
	return p
}

func drawClientScenario(rt *rapid.T) clientScenario {
	sc := clientScenario{
		ClientKey: rapid.IntRange(0, 3).Draw(rt, "clientkey"),
		TokenTTL:  rapid.IntRange(0, len(clientTTLs)-1).Draw(rt, "ttl"),
		VKey:      rapid.IntRange(0, 3).Draw(rt, "vkey"),
		AKey:      rapid.IntRange(0, 3).Draw(rt, "akey"),
	}
	nc := rapid.IntRange(1, 4).Draw(rt, "calls")
	for i := 0; i < nc; i++ {
		c := callPlan{
			Host:    rapid.SampledFrom([]int{0, 0, 0, 1}).Draw(rt, "host"),
			Sleep:   rapid.SampledFrom([]int{0, 0, 1, 2, 3, 4}).Draw(rt, "sleep"),
			GetBody: rapid.IntRange(0, 3).Draw(rt, "getbody") != 0,
		}
		nr := rapid.IntRange(1, 4).Draw(rt, "nresp")
		for j := 0; j < nr; j++ {
			c.Resp = append(c.Resp, drawRespPlan(rt))
		}
		sc.Calls = append(sc.Calls, c)
	}
	return sc
}

type sentSig struct {
	raw     []byte // what the parameter decodes to
	signer  peer.ID
	chal    string
	ckey    string
	host    string
	noHost  bool
	mutated bool
}

// evilServer is the harness server. All state that the oracle uses is recorded here from
// what actually went over the wire.
type evilServer struct {
	f        failer
	client   *keys.Identity
	cpub     []byte
	v, a, o  *keys.Identity // claimed identity, attacker, a third one
	otherKey []byte         // some other client's public key
	plan     []respPlan
	n        int

	host       string
	challenges []string  // challenge-server values the client sent in this call
	sigs       []sentSig // signatures sent in this call
	keysSent   [][]byte  // public-key values sent in this call (decoded)
	firstBear  bool      // the first request of the call carried a bearer token
	firstCode  int
	kinds      []string
	prevChal   []string  // challenges of earlier calls
	prevSigs   []sentSig // signatures of earlier calls
	ctr        int

	made    map[string]sentSig  // every signature the harness ever produced, by its bytes (provenance)
	lastSig *sentSig            // the signature produced for the response being built
	cur     map[string][]string // parameter values seen on the wire in this call, either direction
	donors  map[string][]string // the same of earlier calls (sessions) of this client
	labels  []string
}

func addDonor(m map[string][]string, k, v string) {
	for _, x := range m[k] {
		if x == v {
			return
		}
	}
	m[k] = append(m[k], v)
}

func (e *evilServer) reset(host string, plan []respPlan) {
	e.prevChal = append(e.prevChal, e.challenges...)
	e.prevSigs = append(e.prevSigs, e.sigs...)
	if e.donors == nil {
		e.donors = map[string][]string{}
		e.made = map[string]sentSig{}
		addDonor(e.donors, "client-public-key", b64(e.otherKey))
		for _, h := range hostNames {
			addDonor(e.donors, "hostname", h)
		}
	}
	for _, k := range hdrParamNames {
		for _, v := range e.cur[k] {
			addDonor(e.donors, k, v)
		}
	}
	e.cur = map[string][]string{}
	addDonor(e.cur, "hostname", host)
	addDonor(e.cur, "client-public-key", b64(e.cpub))
	e.host, e.plan, e.n = host, plan, 0
	e.challenges, e.sigs, e.keysSent, e.kinds, e.labels = nil, nil, nil, nil, nil
	e.firstBear, e.firstCode = false, 0
}

// donor picks the value an add / swap operator uses for parameter name.
func (e *evilServer) donor(name string, src int, rp []param) string {
	switch src {
	case 0:
		if d := e.donors[name]; len(d) > 0 {
			return d[e.ctr%len(d)]
		}
	case 1:
		if v, ok := getParam(rp, name); ok {
			return v
		}
		if d := e.cur[name]; len(d) > 0 {
			return d[e.ctr%len(d)]
		}
	}
	return b64([]byte("x-" + e.fresh(name)))
}

// applyOps applies the parameter-level operators to the finished parameter list.
func (e *evilServer) applyOps(ps []param, ops []hdrOp, rp []param) []param {
	put := func(front bool, x param) {
		if front {
			ps = append([]param{x}, ps...)
		} else {
			ps = append(ps, x)
		}
	}
	for _, op := range ops {
		name := hdrParamNames[op.K]
		kind := hdrOpNames[op.Op]
		switch op.Op {
		case 0:
			put(op.Front, param{name, e.donor(name, op.Src, rp)})
		case 1, 2:
			// drop / duplicate act on a parameter that is there (construction, not rejection)
			i := idxParam(ps, name)
			if i < 0 {
				if len(ps) == 0 {
					continue
				}
				i = op.K % len(ps)
				name = ps[i].K
			}
			if op.Op == 1 {
				ps = delParam(ps, name)
			} else {
				put(op.Front, ps[i])
			}
		default:
			v := e.donor(name, op.Src, rp)
			if i := idxParam(ps, name); i >= 0 {
				ps = cloneParams(ps)
				ps[i].V = v
			} else {
				kind = "add"
				put(op.Front, param{name, v})
			}
		}
		e.labels = append(e.labels, "hdrop:"+kind+":"+name)
	}
	return ps
}

func (e *evilServer) fresh(tag string) string {
	e.ctr++
	return challengeText(uint64(e.ctr)*2654435761 + uint64(len(tag)))
}

func (e *evilServer) RoundTrip(req *http.Request) (*http.Response, error) {
	p := e.plan[min(e.n, len(e.plan)-1)]
	first := e.n == 0
	e.n++
	e.lastSig = nil
	if req.Host != e.host {
		e.f.Fatalf("harness: request Host %q differs from the call's host %q", req.Host, e.host)
	}
	rp := parseParams(req.Header.Get("Authorization"))
	cs, hasCS := getParam(rp, "challenge-server")
	_, hasPK := getParam(rp, "public-key")
	_, hasSig := getParam(rp, "sig")
	_, hasOpaque := getParam(rp, "opaque")
	_, hasBearer := getParam(rp, "bearer")
	if hasCS {
		e.challenges = append(e.challenges, cs)
	}
	if first {
		e.firstBear = hasBearer
	}
	for _, x := range rp {
		addDonor(e.cur, x.K, x.V)
	}

	claim := func() []param {
		vk, ak := b64(mustPubBytes(e.v.Pub)), b64(mustPubBytes(e.a.Pub))
		var out []param
		switch p.Claim {
		case 0:
			out = []param{{"public-key", vk}}
		case 1:
			out = []param{{"public-key", ak}}
		case 2:
		case 3:
			out = []param{{"public-key", vk}, {"public-key", ak}}
		case 4:
			out = []param{{"public-key", ak}, {"public-key", vk}}
		case 6:
			out = []param{{"public-key", vk}}
			e.ctr++
			if enc, en, tn, _, ok := reencodeKeyBytes(mustPubBytes(e.v.Pub), p.ClaimEnc-1, e.ctr); ok {
				out = []param{{"public-key", b64(enc)}}
				e.labels = append(e.labels, "claim:key-reencoded", "claim:key-reencoded:"+en, "claim:key-reencoded:"+tn)
			}
		default:
			d := mustPubBytes(e.v.Pub)
			d[len(d)-1-e.ctr%8] ^= 0x10
			out = []param{{"public-key", b64(d)}}
		}
		for _, x := range out {
			d, _ := firstDecode(x.V)
			e.keysSent = append(e.keysSent, d)
		}
		return out
	}
	sig := func() []param {
		var signer *keys.Identity
		switch p.Signer {
		case 0:
			signer = e.v
		case 1:
			signer = e.a
		case 2:
			return nil
		default:
			signer = e.o
		}
		s := sentSig{signer: signer.ID, ckey: string(e.cpub), host: e.host}
		s.chal = cs
		if !hasCS && len(e.challenges) > 0 {
			s.chal = e.challenges[len(e.challenges)-1]
		}
		switch p.Chal {
		case 1:
			if len(e.prevChal) > 0 {
				s.chal = e.prevChal[e.ctr%len(e.prevChal)]
			} else {
				s.chal = e.fresh("x")
			}
		case 2:
			s.chal = ""
		case 3:
			if len(s.chal) > 3 {
				c := byte('A')
				if s.chal[3] == 'A' {
					c = 'B'
				}
				s.chal = s.chal[:3] + string(c) + s.chal[4:]
			}
		case 4:
			if len(e.challenges) > 0 {
				s.chal = e.challenges[0]
			}
		}
		switch p.CKey {
		case 1:
			s.ckey = string(e.otherKey)
		case 2:
			s.ckey = ""
		}
		switch p.HostS {
		case 1:
			s.host = hostNames[0]
			if e.host == hostNames[0] {
				s.host = hostNames[1]
			}
		case 2:
			s.host = ""
		case 3:
			s.noHost = true
		case 4:
			s.host = strings.ToUpper(e.host)
		}
		parts := []kv{{"challenge-server", []byte(s.chal)}, {"client-public-key", []byte(s.ckey)}}
		if !s.noHost {
			parts = append(parts, kv{"hostname", []byte(s.host)})
		}
		s.raw = mustSign(signer.Priv, sigData(parts...))
		text := b64(s.raw)
		switch p.SigMut {
		case 1:
			s.raw = append([]byte(nil), s.raw...)
			s.raw[(e.ctr*7)%len(s.raw)] ^= 1 << (e.ctr % 8)
			s.mutated = true
			text = b64(s.raw)
		case 2:
			s.raw = s.raw[:len(s.raw)-1]
			s.mutated = true
			text = b64(s.raw)
		case 3:
			if len(e.prevSigs) > 0 {
				s = e.prevSigs[e.ctr%len(e.prevSigs)]
				text = b64(s.raw)
			}
		case 4:
			text = text[:len(text)/2] + "\n" + text[len(text)/2:]
		}
		e.made[string(s.raw)] = s
		e.lastSig = &s
		return []param{{"sig", text}}
	}

	var ps []param
	status := http.StatusOK
	hdrName := ""
	challenge := func(withSig bool) {
		status, hdrName = http.StatusUnauthorized, "WWW-Authenticate"
		ps = append(ps, param{"challenge-client", e.fresh("cc")})
		ps = append(ps, claim()...)
		if withSig {
			ps = append(ps, sig()...)
		}
		ps = append(ps, param{"opaque", b64([]byte("opaque-" + e.fresh("o")))})
	}
	switch {
	case hasBearer:
		e.kinds = append(e.kinds, "bearer")
		if p.RejectToken {
			challenge(p.SigAlways)
		}
	case hasSig && hasOpaque:
		hdrName = "Authentication-Info"
		if hasCS {
			e.kinds = append(e.kinds, "s2")
			ps = append(ps, sig()...)
		} else {
			e.kinds = append(e.kinds, "c2")
			if p.SigAlways {
				ps = append(ps, sig()...)
			}
		}
		if p.SigAlways {
			ps = append(ps, claim()...)
		}
		if !p.DropBearer {
			ps = append(ps, param{"bearer", b64([]byte("token-" + e.fresh("t")))})
		}
	case hasCS && hasPK:
		e.kinds = append(e.kinds, "c1")
		challenge(!p.RefuseCI)
	default:
		e.kinds = append(e.kinds, "none")
		challenge(p.SigAlways)
	}
	switch p.Status {
	case 1:
		status = http.StatusOK
	case 2:
		status = http.StatusUnauthorized
	}
	if first {
		e.firstCode = status
	}
	h := http.Header{}
	if hdrName != "" {
		if s := e.lastSig; s != nil && p.Tell != 0 {
			// state the context the signature was made for
			var tell []param
			if p.Tell&1 != 0 {
				tell = append(tell, param{"challenge-server", s.chal})
				e.labels = append(e.labels, "tell:challenge-server")
				if !hasCS || s.chal != cs {
					e.labels = append(e.labels, "tell:challenge-server-not-the-requests")
				}
				for _, c := range e.prevChal {
					if c == s.chal {
						e.labels = append(e.labels, "tell:challenge-server-of-earlier-session")
						break
					}
				}
			}
			if p.Tell&2 != 0 {
				tell = append(tell, param{"client-public-key", b64([]byte(s.ckey))})
				e.labels = append(e.labels, "tell:client-public-key")
			}
			if p.Tell&4 != 0 && !s.noHost {
				tell = append(tell, param{"hostname", s.host})
				e.labels = append(e.labels, "tell:hostname")
			}
			if p.TellFront {
				ps = append(tell, ps...)
			} else {
				ps = append(ps, tell...)
			}
		}
		ps = e.applyOps(ps, p.Ops, rp)
		// The oracle's tables are filled from what is actually on the wire: every sig value of the
		// final header (with the harness' provenance record when it made those bytes, as "unknown"
		// otherwise) and every public-key value.
		for _, x := range ps {
			addDonor(e.cur, x.K, x.V)
			switch x.K {
			case "sig":
				d, ok := firstDecode(x.V)
				if !ok {
					continue
				}
				if s, ok := e.made[string(d)]; ok {
					e.sigs = append(e.sigs, s)
				} else {
					e.sigs = append(e.sigs, sentSig{raw: d, mutated: true})
				}
			case "public-key":
				if d, ok := firstDecode(x.V); ok {
					e.keysSent = append(e.keysSent, d)
				}
			}
		}
		val := buildHeader(ps)
		other := "Authentication-Info"
		if hdrName == other {
			other = "WWW-Authenticate"
		}
		switch p.Place {
		case 0:
			h.Set(hdrName, val)
		case 1:
			h.Set(other, val)
		default:
			h.Set(hdrName, val)
			h.Set(other, val)
		}
	}
	return &http.Response{Status: http.StatusText(status), StatusCode: status, Proto: "HTTP/1.1", ProtoMajor: 1, ProtoMinor: 1,
		Header: h, Body: http.NoBody, Request: req}, nil
}

// pubOfServer finds a public key for a returned server ID.
func (e *evilServer) pubOfServer(x peer.ID) ic.PubKey {
	// The ID of a key is computed by the harness from the key material (keyenc_test.go): a key sent
	// in a non-canonical encoding stands for its own ID only, never for an ID of the bytes.
	for _, id := range []*keys.Identity{e.v, e.a, e.o, e.client} {
		if cid, ok := canonicalID(id.Pub); ok && cid == x {
			return id.Pub
		}
	}
	if k, err := x.ExtractPublicKey(); err == nil && k != nil {
		if cid, ok := canonicalID(k); ok && cid == x {
			return k
		}
	}
	for _, d := range e.keysSent {
		if k, err := ic.UnmarshalPublicKey(d); err == nil {
			if id, ok := canonicalID(k); ok && id == x {
				return k
			}
		}
	}
	return nil
}

// encNote explains a returned ID that is the hash of the bytes of a public-key parameter.
func (e *evilServer) encNote(x peer.ID) string {
	for _, d := range e.keysSent {
		if idOfKeyBytes(d) != x {
			continue
		}
		if k, err := ic.UnmarshalPublicKey(d); err == nil {
			if cid, ok := canonicalID(k); ok && cid != x {
				return fmt.Sprintf("\n NOTE: the returned ID is the hash of the BYTES of a public-key parameter as sent, a non-canonical encoding of the key whose peer ID is %s; a peer ID belongs to the key, i.e. to its canonical encoding", cid)
			}
		}
	}
	return ""
}

// proven reports whether the call carried a signature that proves identity x to this client:
// valid under x's key over (a challenge the client sent in this call, the client's public key,
// the call's hostname). The second result says whether the harness also knows, by provenance,
// that it produced exactly such a signature with x's key.
func (e *evilServer) proven(x peer.ID) (crypto, provenance bool) {
	pub := e.pubOfServer(x)
	if pub == nil {
		return false, false
	}
	for _, s := range e.sigs {
		for _, c := range e.challenges {
			if safeVerify(pub, serverSigData(c, e.cpub, e.host), s.raw) {
				crypto = true
			}
			if !s.mutated && !s.noHost && s.signer == x && s.chal == c && s.ckey == string(e.cpub) && s.host == e.host {
				provenance = true
			}
		}
	}
	return
}

func TestClientProvenance(t *testing.T) {
	name := t.Name()
	hx.Check(t, 12000, 500000, 0, func(rt *rapid.T) {
		sc := drawClientScenario(rt)
		var labels, fp []string
		nontrivial := false
		hx.Bubble(t, rt, func() {
			client := keys.Get(keys.Types[sc.ClientKey], 0)
			es := &evilServer{f: rt, client: client, cpub: mustPubBytes(client.Pub),
				v: keys.Get(keys.Types[sc.VKey], 20), a: keys.Get(keys.Types[sc.AKey], 21), o: keys.Ed(22),
				otherKey: mustPubBytes(keys.Ed(23).Pub)}
			ttl := clientTTLs[sc.TokenTTL]
			ca := &httppeeridauth.ClientPeerIDAuth{PrivKey: client.Priv, TokenTTL: ttl}
			lastProven := map[string]peer.ID{}
			labels = append(labels, "clientkey:"+client.Type, "vkey:"+es.v.Type)
			for _, cp := range sc.Calls {
				switch cp.Sleep {
				case 1:
					time.Sleep(time.Second)
				case 2:
					time.Sleep(ttl - time.Second)
				case 3:
					time.Sleep(ttl + time.Second)
				case 4:
					time.Sleep(2 * time.Hour)
				}
				host := hostNames[cp.Host]
				es.reset(host, cp.Resp)
				req, err := http.NewRequest("POST", "http://"+host+"/x", strings.NewReader("body"))
				if err != nil {
					rt.Fatalf("harness: %v", err)
				}
				req.Host = host
				if cp.GetBody {
					req.GetBody = func() (io.ReadCloser, error) { return io.NopCloser(strings.NewReader("body")), nil }
				} else {
					req.GetBody = nil
				}
				hadToken := ca.HasToken(host)
				id, resp, err := ca.AuthenticateWithRoundTripper(es, req)
				if resp != nil && resp.Body != nil {
					resp.Body.Close()
				}
				// honest = every answer used in this call is what a correct server of ONE identity sends
				honest := true
				for i := 0; i < min(es.n, len(cp.Resp)); i++ {
					if !cp.Resp[i].honest() || cp.Resp[i].Claim != cp.Resp[0].Claim {
						honest = false
					}
				}
				if !honest {
					nontrivial = true
				}
				var pd []string
				for i := 0; i < min(es.n, len(cp.Resp)); i++ {
					pd = append(pd, fmt.Sprintf("%+v", cp.Resp[i]))
				}
				fp = append(fp, fmt.Sprintf("h%d/s%d/%s/%s", cp.Host, cp.Sleep, strings.Join(es.kinds, ","), strings.Join(pd, ",")))
				labels = append(labels, "flow:"+strings.Join(es.kinds, ">"))
				labels = append(labels, es.labels...)
				if err != nil {
					labels = append(labels, "return:error")
					if id != "" {
						rt.Fatalf("C19 client: server ID %s returned together with error %v", id, err)
					}
					if honest && !strings.Contains(err.Error(), "GetBody") {
						rt.Fatalf(precondition+"client rejected an entirely honest server: %v (requests %v)", err, es.kinds)
					}
					continue
				}
				// A server ID was reported. Either this call proved it, or the client used what it
				// cached for this hostname (its first request was not answered with 401, so no new
				// handshake was due) and the ID is the one proven when that was cached.
				crypto, prov := es.proven(id)
				if !crypto {
					want, ok := lastProven[host]
					if hadToken && es.n == 1 && es.firstCode != http.StatusUnauthorized && ok && want == id {
						labels = append(labels, "return:id-from-cached-token")
						if !es.firstBear {
							labels = append(labels, "cached-token-was-empty")
						}
						continue
					}
					rt.Fatalf("C19 client: returned server ID %s (V=%s A=%s) for host %q without a valid signature by that ID over (a challenge of this call, the client's key, the hostname); ID proven earlier for this host: %q (cached token: %v).\n requests=%v challenges=%q\n plans=%+v\n sigs sent: %s%s",
						id, es.v.ID, es.a.ID, host, want, hadToken, es.kinds, es.challenges, cp.Resp[:min(es.n, len(cp.Resp))], describeSigs(es.sigs, es), es.encNote(id))
				}
				if !prov {
					labels = append(labels, "accepted-by-crypto-only")
				}
				lastProven[host] = id
				switch id {
				case es.v.ID:
					labels = append(labels, "return:id=V")
				case es.a.ID:
					labels = append(labels, "return:id=A")
				default:
					labels = append(labels, "return:id=other")
				}
				if !honest {
					labels = append(labels, "return:id-despite-deviation")
				}
			}
		})
		stats.Case(name, strings.Join(fp, " ; "), nontrivial, labels...)
		if stats.WantSample(name) {
			stats.Sample(name, map[string]any{"scenario": sc, "flows": fp})
		}
	})
}

func describeSigs(ss []sentSig, e *evilServer) string {
	var out []string
	for _, s := range ss {
		who := "other"
		switch s.signer {
		case e.v.ID:
			who = "V"
		case e.a.ID:
			who = "A"
		}
		out = append(out, fmt.Sprintf("{by %s chal=%q clientkey-ok=%v host=%q nohost=%v mutated=%v}", who, s.chal, s.ckey == string(e.cpub), s.host, s.noHost, s.mutated))
	}
	return strings.Join(out, " ")
}
