package c19

// Client side: the real ClientPeerIDAuth against a harness server (an http.RoundTripper) that
// answers honestly or with generated deviations.

import (
	"fmt"
	"io"
	"net/http"
	"strings"
	"testing"
	"time"

	ic "github.com/libp2p/go-libp2p/core/crypto"
	"github.com/libp2p/go-libp2p/core/peer"
	httppeeridauth "github.com/libp2p/go-libp2p/p2p/http/auth"
	"pgregory.net/rapid"

	"verif/internal/hx"
	"verif/internal/keys"
	"verif/internal/stats"
)

type respPlan struct {
	Signer      int  `json:"signer,omitempty"`       // 0 V (the identity normally claimed), 1 A (attacker), 2 no sig at all, 3 a third identity
	Claim       int  `json:"claim,omitempty"`        // public-key param: 0 V, 1 A, 2 dropped, 3 V then A, 4 A then V, 5 V with a flipped bit
	Chal        int  `json:"chal,omitempty"`         // signed challenge: 0 this request's, 1 one of an earlier call, 2 empty, 3 one char changed, 4 first of this call
	CKey        int  `json:"ckey,omitempty"`         // signed client key: 0 the client's, 1 another identity's, 2 empty
	HostS       int  `json:"host_signed,omitempty"`  // signed hostname: 0 request Host, 1 other host, 2 empty, 3 part omitted, 4 upper-cased
	SigMut      int  `json:"sig_mut,omitempty"`      // 0 none, 1 bit flip, 2 truncated, 3 replay of a signature of an earlier call, 4 LF inserted (equivalent)
	RefuseCI    bool `json:"refuse_ci,omitempty"`    // answer the client-initiated request without a signature (forces the server-initiated flow)
	RejectToken bool `json:"reject_token,omitempty"` // answer a bearer request with 401 + challenge
	Place       int  `json:"place,omitempty"`        // 0 normal, 1 header names swapped, 2 both headers set
	Status      int  `json:"status,omitempty"`       // 0 normal, 1 force 200, 2 force 401
	DropBearer  bool `json:"drop_bearer,omitempty"`
	SigAlways   bool `json:"sig_always,omitempty"` // also add a (planned) sig where an honest server sends none
}

func (p respPlan) honest() bool {
	return (p.Signer == 0 && p.Claim == 0 || p.Signer == 1 && p.Claim == 1) && p.Chal == 0 && p.CKey == 0 && p.HostS == 0 && (p.SigMut == 0 || p.SigMut == 4) &&
		p.Place == 0 && p.Status == 0 && !p.DropBearer
}

type callPlan struct {
	Host    int        `json:"host"`
	Sleep   int        `json:"sleep"`
	GetBody bool       `json:"get_body"`
	Resp    []respPlan `json:"resp"`
}

type clientScenario struct {
	ClientKey int        `json:"client_key"`
	TokenTTL  int        `json:"token_ttl"`
	VKey      int        `json:"v_key"`
	AKey      int        `json:"a_key"`
	Calls     []callPlan `json:"calls"`
}

var clientTTLs = []time.Duration{0, time.Minute, time.Hour}

func drawRespPlan(rt *rapid.T) respPlan {
	// 0-2 deviations per answer, so that multi-step flows progress to their later steps
	var p respPlan
	nd := rapid.SampledFrom([]int{0, 0, 0, 1, 1, 1, 1, 2}).Draw(rt, "ndev")
	for i := 0; i < nd; i++ {
		switch rapid.IntRange(0, 8).Draw(rt, "field") {
		case 0:
			p.Signer = rapid.SampledFrom([]int{1, 1, 2, 3}).Draw(rt, "signer")
		case 1:
			p.Claim = rapid.IntRange(1, 5).Draw(rt, "claim")
		case 2:
			p.Chal = rapid.IntRange(1, 4).Draw(rt, "chal")
		case 3:
			p.CKey = rapid.IntRange(1, 2).Draw(rt, "ckey")
		case 4:
			p.HostS = rapid.IntRange(1, 4).Draw(rt, "hosts")
		case 5:
			p.SigMut = rapid.IntRange(1, 4).Draw(rt, "sigmut")
		case 6:
			p.Place = rapid.IntRange(1, 2).Draw(rt, "place")
		case 7:
			p.Status = rapid.IntRange(1, 2).Draw(rt, "status")
		default:
			p.DropBearer = true
		}
	}
	p.RefuseCI = rapid.IntRange(0, 3).Draw(rt, "refuseci") == 0
	p.RejectToken = rapid.IntRange(0, 1).Draw(rt, "rejecttoken") == 0
	p.SigAlways = rapid.IntRange(0, 3).Draw(rt, "sigalways") == 0
	return p
}

func drawClientScenario(rt *rapid.T) clientScenario {
	sc := clientScenario{
		ClientKey: rapid.IntRange(0, 3).Draw(rt, "clientkey"),
		TokenTTL:  rapid.IntRange(0, len(clientTTLs)-1).Draw(rt, "ttl"),
		VKey:      rapid.IntRange(0, 3).Draw(rt, "vkey"),
		AKey:      rapid.IntRange(0, 3).Draw(rt, "akey"),
	}
	nc := rapid.IntRange(1, 4).Draw(rt, "calls")
	for i := 0; i < nc; i++ {
		c := callPlan{
			Host:    rapid.SampledFrom([]int{0, 0, 0, 1}).Draw(rt, "host"),
			Sleep:   rapid.SampledFrom([]int{0, 0, 1, 2, 3, 4}).Draw(rt, "sleep"),
			GetBody: rapid.IntRange(0, 3).Draw(rt, "getbody") != 0,
		}
		nr := rapid.IntRange(1, 4).Draw(rt, "nresp")
		for j := 0; j < nr; j++ {
			c.Resp = append(c.Resp, drawRespPlan(rt))
		}
		sc.Calls = append(sc.Calls, c)
	}
	return sc
}

type sentSig struct {
	raw     []byte // what the parameter decodes to
	signer  peer.ID
	chal    string
	ckey    string
	host    string
	noHost  bool
	mutated bool
}

// evilServer is the harness server. All state that the oracle uses is recorded here from
// what actually went over the wire.
type evilServer struct {
	f        failer
	client   *keys.Identity
	cpub     []byte
	v, a, o  *keys.Identity // claimed identity, attacker, a third one
	otherKey []byte         // some other client's public key
	plan     []respPlan
	n        int

	host       string
	challenges []string  // challenge-server values the client sent in this call
	sigs       []sentSig // signatures sent in this call
	keysSent   [][]byte  // public-key values sent in this call (decoded)
	firstBear  bool      // the first request of the call carried a bearer token
	firstCode  int
	kinds      []string
	prevChal   []string  // challenges of earlier calls
	prevSigs   []sentSig // signatures of earlier calls
	ctr        int
}

func (e *evilServer) reset(host string, plan []respPlan) {
	e.prevChal = append(e.prevChal, e.challenges...)
	e.prevSigs = append(e.prevSigs, e.sigs...)
	e.host, e.plan, e.n = host, plan, 0
	e.challenges, e.sigs, e.keysSent, e.kinds = nil, nil, nil, nil
	e.firstBear, e.firstCode = false, 0
}

func (e *evilServer) fresh(tag string) string {
	e.ctr++
	return challengeText(uint64(e.ctr)*2654435761 + uint64(len(tag)))
}

func (e *evilServer) RoundTrip(req *http.Request) (*http.Response, error) {
	p := e.plan[min(e.n, len(e.plan)-1)]
	first := e.n == 0
	e.n++
	if req.Host != e.host {
		e.f.Fatalf("harness: request Host %q differs from the call's host %q", req.Host, e.host)
	}
	rp := parseParams(req.Header.Get("Authorization"))
	cs, hasCS := getParam(rp, "challenge-server")
	_, hasPK := getParam(rp, "public-key")
	_, hasSig := getParam(rp, "sig")
	_, hasOpaque := getParam(rp, "opaque")
	_, hasBearer := getParam(rp, "bearer")
	if hasCS {
		e.challenges = append(e.challenges, cs)
	}
	if first {
		e.firstBear = hasBearer
	}

	claim := func() []param {
		vk, ak := b64(mustPubBytes(e.v.Pub)), b64(mustPubBytes(e.a.Pub))
		var out []param
		switch p.Claim {
		case 0:
			out = []param{{"public-key", vk}}
		case 1:
			out = []param{{"public-key", ak}}
		case 2:
		case 3:
			out = []param{{"public-key", vk}, {"public-key", ak}}
		case 4:
			out = []param{{"public-key", ak}, {"public-key", vk}}
		default:
			d := mustPubBytes(e.v.Pub)
			d[len(d)-1-e.ctr%8] ^= 0x10
			out = []param{{"public-key", b64(d)}}
		}
		for _, x := range out {
			d, _ := firstDecode(x.V)
			e.keysSent = append(e.keysSent, d)
		}
		return out
	}
	sig := func() []param {
		var signer *keys.Identity
		switch p.Signer {
		case 0:
			signer = e.v
		case 1:
			signer = e.a
		case 2:
			return nil
		default:
			signer = e.o
		}
		s := sentSig{signer: signer.ID, ckey: string(e.cpub), host: e.host}
		s.chal = cs
		if !hasCS && len(e.challenges) > 0 {
			s.chal = e.challenges[len(e.challenges)-1]
		}
		switch p.Chal {
		case 1:
			if len(e.prevChal) > 0 {
				s.chal = e.prevChal[e.ctr%len(e.prevChal)]
			} else {
				s.chal = e.fresh("x")
			}
		case 2:
			s.chal = ""
		case 3:
			if len(s.chal) > 3 {
				c := byte('A')
				if s.chal[3] == 'A' {
					c = 'B'
				}
				s.chal = s.chal[:3] + string(c) + s.chal[4:]
			}
		case 4:
			if len(e.challenges) > 0 {
				s.chal = e.challenges[0]
			}
		}
		switch p.CKey {
		case 1:
			s.ckey = string(e.otherKey)
		case 2:
			s.ckey = ""
		}
		switch p.HostS {
		case 1:
			s.host = hostNames[0]
			if e.host == hostNames[0] {
				s.host = hostNames[1]
			}
		case 2:
			s.host = ""
		case 3:
			s.noHost = true
		case 4:
			s.host = strings.ToUpper(e.host)
		}
		parts := []kv{{"challenge-server", []byte(s.chal)}, {"client-public-key", []byte(s.ckey)}}
		if !s.noHost {
			parts = append(parts, kv{"hostname", []byte(s.host)})
		}
		s.raw = mustSign(signer.Priv, sigData(parts...))
		text := b64(s.raw)
		switch p.SigMut {
		case 1:
			s.raw = append([]byte(nil), s.raw...)
			s.raw[(e.ctr*7)%len(s.raw)] ^= 1 << (e.ctr % 8)
			s.mutated = true
			text = b64(s.raw)
		case 2:
			s.raw = s.raw[:len(s.raw)-1]
			s.mutated = true
			text = b64(s.raw)
		case 3:
			if len(e.prevSigs) > 0 {
				s = e.prevSigs[e.ctr%len(e.prevSigs)]
				text = b64(s.raw)
			}
		case 4:
			text = text[:len(text)/2] + "\n" + text[len(text)/2:]
		}
		e.sigs = append(e.sigs, s)
		return []param{{"sig", text}}
	}

	var ps []param
	status := http.StatusOK
	hdrName := ""
	challenge := func(withSig bool) {
		status, hdrName = http.StatusUnauthorized, "WWW-Authenticate"
		ps = append(ps, param{"challenge-client", e.fresh("cc")})
		ps = append(ps, claim()...)
		if withSig {
			ps = append(ps, sig()...)
		}
		ps = append(ps, param{"opaque", b64([]byte("opaque-" + e.fresh("o")))})
	}
	switch {
	case hasBearer:
		e.kinds = append(e.kinds, "bearer")
		if p.RejectToken {
			challenge(p.SigAlways)
		}
	case hasSig && hasOpaque:
		hdrName = "Authentication-Info"
		if hasCS {
			e.kinds = append(e.kinds, "s2")
			ps = append(ps, sig()...)
		} else {
			e.kinds = append(e.kinds, "c2")
			if p.SigAlways {
				ps = append(ps, sig()...)
			}
		}
		if p.SigAlways {
			ps = append(ps, claim()...)
		}
		if !p.DropBearer {
			ps = append(ps, param{"bearer", b64([]byte("token-" + e.fresh("t")))})
		}
	case hasCS && hasPK:
		e.kinds = append(e.kinds, "c1")
		challenge(!p.RefuseCI)
	default:
		e.kinds = append(e.kinds, "none")
		challenge(p.SigAlways)
	}
	switch p.Status {
	case 1:
		status = http.StatusOK
	case 2:
		status = http.StatusUnauthorized
	}
	if first {
		e.firstCode = status
	}
	h := http.Header{}
	if hdrName != "" {
		val := buildHeader(ps)
		other := "Authentication-Info"
		if hdrName == other {
			other = "WWW-Authenticate"
		}
		switch p.Place {
		case 0:
			h.Set(hdrName, val)
		case 1:
			h.Set(other, val)
		default:
			h.Set(hdrName, val)
			h.Set(other, val)
		}
	}
	return &http.Response{Status: http.StatusText(status), StatusCode: status, Proto: "HTTP/1.1", ProtoMajor: 1, ProtoMinor: 1,
		Header: h, Body: http.NoBody, Request: req}, nil
}

// pubOfServer finds a public key for a returned server ID.
func (e *evilServer) pubOfServer(x peer.ID) ic.PubKey {
	for _, id := range []*keys.Identity{e.v, e.a, e.o, e.client} {
		if id.ID == x {
			return id.Pub
		}
	}
	if k, err := x.ExtractPublicKey(); err == nil && k != nil {
		return k
	}
	for _, d := range e.keysSent {
		if k, err := ic.UnmarshalPublicKey(d); err == nil {
			if id, err := peer.IDFromPublicKey(k); err == nil && id == x {
				return k
			}
		}
	}
	return nil
}

// proven reports whether the call carried a signature that proves identity x to this client:
// valid under x's key over (a challenge the client sent in this call, the client's public key,
// the call's hostname). The second result says whether the harness also knows, by provenance,
// that it produced exactly such a signature with x's key.
func (e *evilServer) proven(x peer.ID) (crypto, provenance bool) {
	pub := e.pubOfServer(x)
	if pub == nil {
		return false, false
	}
	for _, s := range e.sigs {
		for _, c := range e.challenges {
			if safeVerify(pub, serverSigData(c, e.cpub, e.host), s.raw) {
				crypto = true
			}
			if !s.mutated && !s.noHost && s.signer == x && s.chal == c && s.ckey == string(e.cpub) && s.host == e.host {
				provenance = true
			}
		}
	}
	return
}

func TestClientProvenance(t *testing.T) {
	name := t.Name()
	hx.Check(t, 12000, 500000, 0, func(rt *rapid.T) {
		sc := drawClientScenario(rt)
		var labels, fp []string
		nontrivial := false
		hx.Bubble(t, rt, func() {
			client := keys.Get(keys.Types[sc.ClientKey], 0)
			es := &evilServer{f: rt, client: client, cpub: mustPubBytes(client.Pub),
				v: keys.Get(keys.Types[sc.VKey], 20), a: keys.Get(keys.Types[sc.AKey], 21), o: keys.Ed(22),
				otherKey: mustPubBytes(keys.Ed(23).Pub)}
			ttl := clientTTLs[sc.TokenTTL]
			ca := &httppeeridauth.ClientPeerIDAuth{PrivKey: client.Priv, TokenTTL: ttl}
			lastProven := map[string]peer.ID{}
			labels = append(labels, "clientkey:"+client.Type, "vkey:"+es.v.Type)
			for _, cp := range sc.Calls {
				switch cp.Sleep {
				case 1:
					time.Sleep(time.Second)
				case 2:
					time.Sleep(ttl - time.Second)
				case 3:
					time.Sleep(ttl + time.Second)
				case 4:
					time.Sleep(2 * time.Hour)
				}
				host := hostNames[cp.Host]
				es.reset(host, cp.Resp)
				req, err := http.NewRequest("POST", "http://"+host+"/x", strings.NewReader("body"))
				if err != nil {
					rt.Fatalf("harness: %v", err)
				}
				req.Host = host
				if cp.GetBody {
					req.GetBody = func() (io.ReadCloser, error) { return io.NopCloser(strings.NewReader("body")), nil }
				} else {
					req.GetBody = nil
				}
				hadToken := ca.HasToken(host)
				id, resp, err := ca.AuthenticateWithRoundTripper(es, req)
				if resp != nil && resp.Body != nil {
					resp.Body.Close()
				}
				// honest = every answer used in this call is what a correct server of ONE identity sends
				honest := true
				for i := 0; i < min(es.n, len(cp.Resp)); i++ {
					if !cp.Resp[i].honest() || cp.Resp[i].Claim != cp.Resp[0].Claim {
						honest = false
					}
				}
				if !honest {
					nontrivial = true
				}
				var pd []string
				for i := 0; i < min(es.n, len(cp.Resp)); i++ {
					pd = append(pd, fmt.Sprintf("%+v", cp.Resp[i]))
				}
				fp = append(fp, fmt.Sprintf("h%d/s%d/%s/%s", cp.Host, cp.Sleep, strings.Join(es.kinds, ","), strings.Join(pd, ",")))
				labels = append(labels, "flow:"+strings.Join(es.kinds, ">"))
				if err != nil {
					labels = append(labels, "return:error")
					if id != "" {
						rt.Fatalf("C19 client: server ID %s returned together with error %v", id, err)
					}
					if honest && !strings.Contains(err.Error(), "GetBody") {
						rt.Fatalf(precondition+"client rejected an entirely honest server: %v (requests %v)", err, es.kinds)
					}
					continue
				}
				// A server ID was reported. Either this call proved it, or the client used what it
				// cached for this hostname (its first request was not answered with 401, so no new
				// handshake was due) and the ID is the one proven when that was cached.
				crypto, prov := es.proven(id)
				if !crypto {
					want, ok := lastProven[host]
					if hadToken && es.n == 1 && es.firstCode != http.StatusUnauthorized && ok && want == id {
						labels = append(labels, "return:id-from-cached-token")
						if !es.firstBear {
							labels = append(labels, "cached-token-was-empty")
						}
						continue
					}
					rt.Fatalf("C19 client: returned server ID %s (V=%s A=%s) for host %q without a valid signature by that ID over (a challenge of this call, the client's key, the hostname); ID proven earlier for this host: %q (cached token: %v).\n requests=%v challenges=%q\n plans=%+v\n sigs sent: %s",
						id, es.v.ID, es.a.ID, host, want, hadToken, es.kinds, es.challenges, cp.Resp[:min(es.n, len(cp.Resp))], describeSigs(es.sigs, es))
				}
				if !prov {
					labels = append(labels, "accepted-by-crypto-only")
				}
				lastProven[host] = id
				switch id {
				case es.v.ID:
					labels = append(labels, "return:id=V")
				case es.a.ID:
					labels = append(labels, "return:id=A")
				default:
					labels = append(labels, "return:id=other")
				}
				if !honest {
					labels = append(labels, "return:id-despite-deviation")
				}
			}
		})
		stats.Case(name, strings.Join(fp, " ; "), nontrivial, labels...)
		if stats.WantSample(name) {
			stats.Sample(name, map[string]any{"scenario": sc, "flows": fp})
		}
	})
}

func describeSigs(ss []sentSig, e *evilServer) string {
	var out []string
	for _, s := range ss {
		who := "other"
		switch s.signer {
		case e.v.ID:
			who = "V"
		case e.a.ID:
			who = "A"
		}
		out = append(out, fmt.Sprintf("{by %s chal=%q clientkey-ok=%v host=%q nohost=%v mutated=%v}", who, s.chal, s.ckey == string(e.cpub), s.host, s.noHost, s.mutated))
	}
	return strings.Join(out, " ")
}
