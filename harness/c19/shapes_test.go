package c19

// Two small dimensions walked completely (enumerations, no randomness); the random tests draw
// from the same dimensions in combination with everything else.
//
// TestServerKeyShapes: "any state minted under a different server secret is rejected", over the
// SHAPE of application-provided HmacKeys: every base length of keyLens x every way the second
// key differs from it (one byte at each position class, extended, cut short: secrets_test.go).
// Two instances A (base key) and B (the variant) - unrelated deployments on even cases, the same
// server before and after rotating its secret (same private key) on odd ones. Tokens, freshly
// answered challenges and replayed answers minted by A are shown to B and vice versa, and tokens
// forged under every secret related to A's key are shown to A.
//
// TestServerQuoting: "any alteration of the opaque challenge state, token, signature, public key
// ... is rejected", over the SYNTAX around a value: every parameter of a valid challenge answer
// (both flows) and of a valid token request x every way of writing it (syntax_test.go) x two
// kinds of glued bytes. The provenance oracle in send() judges every acceptance; it counts only
// what the header carries in intact parameters.

import (
	"fmt"
	"net/http"
	"testing"
	"testing/synctest"
	"time"

	"verif/internal/hx"
	"verif/internal/keys"
	"verif/internal/stats"
)

type keyShape struct {
	v    keyVar
	name string
}

func keyShapesFor(n int) []keyShape {
	var out []keyShape
	seen := map[int]bool{}
	for i, p := range bytePositions(n) {
		if !seen[p] {
			seen[p] = true
			out = append(out, keyShape{keyVar{Rel: kvOneByte, Pos: i}, fmt.Sprintf("one-byte@%d", p)})
		}
	}
	for i, k := range []int{1, 4, 32} {
		out = append(out, keyShape{keyVar{Rel: kvExtended, Pos: i}, fmt.Sprintf("extended+%d", k)})
	}
	seenK := map[int]bool{}
	for i, k := range []int{1, 4, n / 2} {
		if k > 0 && k < n && !seenK[k] {
			seenK[k] = true
			out = append(out, keyShape{keyVar{Rel: kvTruncated, Pos: i}, fmt.Sprintf("truncated-%d", k)})
		}
	}
	return out
}

func TestServerKeyShapes(t *testing.T) {
	name := t.Name()
	idx := 0
	for li, n := range keyLens {
		for _, shape := range keyShapesFor(n) {
			idx++
			if !hx.Mine(idx) {
				continue
			}
			fam := keyFamily{BaseLen: li, Seed: uint64(1000 + idx)}
			hmacKeys, _ := fam.keysFor([]secretMode{secretShared, secretOwn}, []keyVar{{}, shape.v}, nil)
			rotation := idx%2 == 1
			var labels []string
			synctest.Test(t, func(rt *testing.T) {
				client := keys.Get(keys.Types[idx%len(keys.Types)], 0)
				a := srvConf{keyType: keys.Types[(idx/4)%len(keys.Types)], ttl: time.Hour, secret: secretOwn, ident: 0, hmac: hmacKeys[0]}
				b := a
				b.hmac = hmacKeys[1]
				if !rotation {
					b.ident = 1
				}
				w := newWorld(rt, []srvConf{a, b}, []*keys.Identity{client})
				if relation(w.srv[0], w.srv[1]) != "foreign" {
					rt.Fatalf("harness: the two keys of shape %s (len %d) are not different", shape.name, n)
				}
				for dir := 0; dir < 2; dir++ {
					minter, target := w.srv[dir], w.srv[1-dir]
					host := hostNames[(idx+dir)%2]
					ci := (idx/2+dir)%2 == 0
					steps := w.honest(0, minter, host, ci, challengeText(uint64(idx*2+dir))) // control: the minter accepts its own state
					www := steps[0].res.www
					cc, _ := getParam(www, "challenge-client")
					op, _ := getParam(www, "opaque")
					bearer, _ := getParam(steps[2].params, "bearer")
					sig := b64(mustSign(client.Priv, clientSigData(cc, target.pub, host)))
					fresh := []param{{"opaque", op}, {"sig", sig}}
					if !ci {
						fresh = []param{{"public-key", b64(mustPubBytes(client.Pub))}, {"challenge-server", challengeText(uint64(idx))}, {"sig", sig}, {"opaque", op}}
					}
					for k, ps := range [][]param{{{"bearer", bearer}}, fresh, steps[1].params} {
						res := w.sendParams(target, host, ps, -1) // provenance oracle inside
						if res.called {
							rt.Fatalf("C19 server: instance with a %d-byte HmacKey reported %s for %s minted under a different secret (%s, %s)",
								len(target.hmacKey), res.peer, []string{"a token", "a challenge", "a replayed answer"}[k], shape.name, keyPairClass(minter.hmacKey, target.hmacKey))
						}
					}
				}
				// tokens nobody minted, made under secrets close to instance 0's
				target := w.srv[0]
				for sel := 0; sel < 6; sel++ {
					key, kl, ok := relatedSecret(target.hmacKey, sel)
					if !ok {
						continue
					}
					tok := forgedState{IsToken: true, PeerID: client.ID, Hostname: hostNames[0], CreatedTime: time.Now()}
					res := w.sendParams(target, hostNames[0], []param{{"bearer", b64(forge(key, tok))}}, -1)
					if res.called {
						rt.Fatalf("C19 server: instance with a %d-byte HmacKey reported %s for a token forged under %s", len(target.hmacKey), res.peer, kl)
					}
					labels = append(labels, "forge-key:"+kl)
				}
				labels = append(labels, "xkey:"+keyPairClass(w.srv[0].hmacKey, w.srv[1].hmacKey))
			})
			if rotation {
				labels = append(labels, "inst:rotated-generation")
			}
			labels = append(labels, "hmackey:len"+keyLenClass(n), "hmackey:"+keyVarNames[shape.v.Rel],
				"xkey:len"+keyLenClass(len(hmacKeys[0]))+"->len"+keyLenClass(len(hmacKeys[1])))
			stats.CaseEnumerated(name, true, labels...)
		}
	}
	stats.Exhaustive(name)
}

func TestServerQuoting(t *testing.T) {
	name := t.Name()
	for kt, ktName := range keys.Types {
		for fl := 0; fl < 2; fl++ {
			if !hx.Mine(kt + fl) {
				continue
			}
			ci := fl == 0
			synctest.Test(t, func(rt *testing.T) {
				client := keys.Get(ktName, 0)
				fam := keyFamily{BaseLen: 4 + kt, Seed: uint64(77 + kt)}
				hk, _ := fam.keysFor([]secretMode{secretShared}, []keyVar{{}}, nil)
				w := newWorld(rt, []srvConf{{keyType: keys.Types[(kt+1)%len(keys.Types)], ttl: time.Hour, secret: secretOwn, hmac: hk[0]}}, []*keys.Identity{client})
				s := w.srv[0]
				host := hostNames[kt%2]
				steps := w.honest(0, s, host, ci, challengeText(uint64(500+kt)))
				for bi, base := range [][]param{steps[1].params, steps[2].params} {
					baseName := []string{steps[1].name, "bearer"}[bi]
					// control: the unaltered request is (still) good, so every refusal below is due to the alteration
					if r := w.sendParams(s, host, base, -1); !r.called || r.peer != client.ID {
						rt.Fatalf(precondition+"replayed %s not accepted (status %d)", baseName, r.status)
					}
					for pi, p := range base {
						for kind := 0; kind < nQuoteKinds; kind++ {
							junks := []string{"AAAA"}
							if kind == qJunkAfterClose || kind == qJunkThenQuote || kind == qJunkBeforeOpen {
								junks = []string{"AAAA", "=", p.V}
							}
							if kind == qQuoteInside {
								junks = []string{"mid", "tail"}
							}
							for ji, junk := range junks {
								a := areq{params: cloneParams(base), scheme: scheme, sep: ", ", raw: map[int]string{}}
								pos := len(p.V) / 2
								if junk == "tail" {
									pos = max(0, len(p.V)-4)
								}
								a.raw[pi] = writeToken(p.K, p.V, kind, junk, pos)
								hdr := a.render()
								res := w.send(s, host, host, &hdr, -1) // provenance oracle inside: intact parameters only
								out := "rejected"
								switch {
								case res.panicked:
									out = "server-panic"
								case res.called:
									out = "accepted-on-intact-proof"
								case res.status != http.StatusBadRequest && res.status != http.StatusUnauthorized:
									out = fmt.Sprintf("rejected:%d", res.status)
								}
								cl := "value-kept"
								if quoteDropsValue(kind) {
									cl = "value-altered"
								}
								stats.CaseEnumerated(name, true, "base:"+baseName, "quote:"+quoteNames[kind]+":"+out, "quote-param:"+p.K,
									"quote-class:"+cl+":"+out, fmt.Sprintf("quote-junk:%d", ji), "client:"+ktName)
							}
						}
					}
				}
			})
		}
	}
	stats.Exhaustive(name)
}

// TestSyntaxOracleTable pins carriedText (the oracle's reading of "the request carries") to the
// table of syntax_test.go: which ways of writing a parameter leave its value carried, wherever
// the parameter stands, and that the neighbours are never affected.
func TestSyntaxOracleTable(t *testing.T) {
	hx.Shard0(t)
	const v, left, right = "VkFMVUVfVkFMVUVfVkFMVUU=", "TEVGVF9MRUZUX0xFRlQ=", "UklHSFRfUklHSFRfUklHSFQ="
	contains := func(h, x string) bool {
		want, _ := firstDecode(x)
		for _, d := range decodedCandidates(h) {
			if string(d) == string(want) {
				return true
			}
		}
		return false
	}
	for kind := 0; kind < nQuoteKinds; kind++ {
		for place := 0; place < 3; place++ {
			tok := writeToken("bearer", v, kind, "AAAA", len(v)/2)
			toks := []string{`opaque="` + left + `"`, `sig="` + right + `"`}
			var hdr string
			switch place {
			case 0:
				hdr = scheme + " " + tok + ", " + toks[0] + ", " + toks[1]
			case 1:
				hdr = scheme + " " + toks[0] + ", " + tok + ", " + toks[1]
			default:
				hdr = scheme + " " + toks[0] + ", " + toks[1] + ", " + tok
			}
			carried, altered := carriedText(hdr)
			if got := contains(carried, v); got == quoteDropsValue(kind) {
				t.Fatalf("harness: %s at place %d: value carried=%v, table says dropped=%v\n header  %q\n carried %q", quoteNames[kind], place, got, quoteDropsValue(kind), hdr, carried)
			}
			if quoteDropsValue(kind) && !altered {
				t.Fatalf("harness: %s not noticed as altered: %q", quoteNames[kind], hdr)
			}
			if !contains(carried, left) || !contains(carried, right) {
				t.Fatalf("harness: %s at place %d drops an intact neighbour\n header  %q\n carried %q", quoteNames[kind], place, hdr, carried)
			}
			stats.CaseEnumerated(t.Name(), false, "quote:"+quoteNames[kind])
		}
	}
}
