package c19

import (
	"fmt"
	"strings"
	"testing"
	"time"

	"github.com/libp2p/go-libp2p/core/peer"
	"pgregory.net/rapid"

	"verif/internal/hx"
	"verif/internal/keys"
	"verif/internal/stats"
)

// ---------------------------------------------------------------------------
// Scenario (drawn completely before the bubble starts; selectors are resolved modulo what is
// available at run time).

type sessionPlan struct {
	Client int    `json:"client"`
	Srv    int    `json:"srv"`
	Host   int    `json:"host"`
	CI     bool   `json:"client_initiated"`
	Gap    int    `json:"gap_ms"`
	Sub    int    `json:"gap_ns"`  // added to the gap: sub-second part in nanoseconds (instants_test.go)
	Enc    int    `json:"key_enc"` // how the client's encoder writes its public key: 0 canonical, else a way of keyenc_test.go
	Chal   uint64 `json:"-"`
}

type opPlan struct {
	Kind int `json:"kind"`
	P    int `json:"p"`
	A    int `json:"a"`
	B    int `json:"b"`
	C    int `json:"c"`
	D    int `json:"d"`
}

type attackPlan struct {
	Base  int      `json:"base"`
	Ops   []opPlan `json:"ops"`
	Srv   int      `json:"srv"`   // 0 = the instance the base material comes from, k>0 = the k-th other one (cyclically)
	Host  int      `json:"host"`  // 0 same, 1 other valid, 2 not a valid hostname, 3 upper-cased
	Sleep int      `json:"sleep"` // sleep class, see sleepFor
	SNI   int      `json:"sni"`   // tls mode only: 0 = SNI equals Host, 1 = mismatch
	Chal  uint64   `json:"-"`
}

const maxSrv = 3

type scenario struct {
	Phase     int            `json:"start_phase_ns"` // the clock is moved off the whole second by this much before anything is minted (instants_test.go)
	NSrv      int            `json:"n_srv"`
	SrvKey    [maxSrv]int    `json:"srv_key"`
	SrvTTL    [maxSrv]int    `json:"srv_ttl"`
	SrvTLS    [maxSrv]bool   `json:"srv_tls"`
	SrvSecret [maxSrv]int    `json:"srv_secret"` // secretMode: 0 own HmacKey, 1 HmacKey shared with the other instances in this mode, 2 HmacKey unset
	SrvTwin   [maxSrv]bool   `json:"srv_twin"`   // same private key as instance 0 (a replica by identity; its secret is still governed by SrvSecret)
	SrvEngine [maxSrv]int    `json:"srv_engine"` // what handles the requests: 0 ServeHTTP, 1 handshake state machine, new per request, 2 ONE state machine re-used through Reset() (reuse_test.go)
	Keys      keyFamily      `json:"hmac_keys"`  // shape of the application-provided HmacKeys, see secrets_test.go
	SrvKeyVar [maxSrv]keyVar `json:"srv_hmac_key"`
	Clients   [3]int         `json:"client_key"`
	Sessions  []sessionPlan  `json:"sessions"`
	Attacks   []attackPlan   `json:"attacks"`
}

var ttlChoices = []time.Duration{20 * time.Second, 4 * time.Minute, 7 * time.Minute, time.Hour}

const (
	opFlip = iota
	opTrunc
	opDrop
	opDup
	opReorder
	opRecase
	opReencode
	opSwap
	opMove
	opResign
	opForge
	opFormat
	opQuote  // the syntax around one value, see syntax_test.go; always applied after the other operators
	opKeyEnc // the public-key parameter re-encoded: another way of writing the very same key (keyenc_test.go)
	nOps
)

var opNames = [...]string{"flip", "trunc", "drop", "dup", "reorder", "recase", "reencode", "swap", "move", "resign", "forge", "format", "quote", "keyenc"}

// quoteDraw weights the ways a value's quoting is changed: the kinds that alter the value twice.
var quoteDraw = []int{qJunkAfterClose, qJunkAfterClose, qJunkThenQuote, qJunkThenQuote, qNoClose, qNoClose, qNoOpen, qNoOpen,
	qDoubleBoth, qDoubleBoth, qDoubleClose, qDoubleClose, qDoubleOpen, qDoubleOpen, qQuoteInside, qQuoteInside,
	qJunkBeforeOpen, qSingleQuotes, qUnquoted, qSpaceBeforeEq, qSpaceAfterEq, qSpaceInsideOpen, qSpaceInsideClose, qTabAfter, qEscapedClose}

func drawScenario(rt *rapid.T) scenario {
	var sc scenario
	sel := rapid.IntRange(0, 1<<16-1)
	sc.Phase = rapid.SampledFrom([]int{0, 1, 1, 1}).Draw(rt, "phase") * drawSubSecond(rt, "phase")
	sc.NSrv = rapid.SampledFrom([]int{2, 2, 2, 3, 3}).Draw(rt, "nsrv")
	for i := 0; i < sc.NSrv; i++ {
		sc.SrvKey[i] = rapid.IntRange(0, 3).Draw(rt, "srvkey")
		sc.SrvTTL[i] = rapid.IntRange(0, len(ttlChoices)-1).Draw(rt, "srvttl")
		sc.SrvTLS[i] = rapid.IntRange(0, 3).Draw(rt, "srvtls") == 0
		sc.SrvSecret[i] = int(rapid.SampledFrom([]secretMode{secretOwn, secretOwn, secretShared, secretUnset, secretUnset}).Draw(rt, "srvsecret"))
		if i > 0 {
			sc.SrvTwin[i] = rapid.IntRange(0, 4).Draw(rt, "srvtwin") == 0
		}
		sc.SrvKeyVar[i] = drawKeyVar(rt)
		sc.SrvEngine[i] = int(rapid.SampledFrom([]engine{engHTTP, engHTTP, engHTTP, engHTTP, engFresh, engReused, engReused}).Draw(rt, "srvengine"))
	}
	sc.Keys = drawKeyFamily(rt)
	for i := range sc.Clients {
		sc.Clients[i] = rapid.IntRange(0, 3).Draw(rt, "clientkey")
	}
	ns := rapid.IntRange(1, 3).Draw(rt, "sessions")
	for i := 0; i < ns; i++ {
		sc.Sessions = append(sc.Sessions, sessionPlan{
			Client: rapid.IntRange(0, 2).Draw(rt, "client"),
			Srv:    rapid.IntRange(0, sc.NSrv-1).Draw(rt, "srv"),
			Host:   rapid.IntRange(0, 1).Draw(rt, "host"),
			CI:     rapid.Bool().Draw(rt, "ci"),
			Gap:    rapid.SampledFrom([]int{0, 0, 1, 1000, 2500}).Draw(rt, "gap"),
			Sub:    rapid.SampledFrom([]int{0, 0, 1}).Draw(rt, "gapsub") * drawSubSecond(rt, "gapsub"),
			Enc:    rapid.SampledFrom([]int{0, 0, 0, 1}).Draw(rt, "keyenc") * rapid.IntRange(1, nKeyEncs-1).Draw(rt, "keyencway"),
			Chal:   rapid.Uint64().Draw(rt, "chal"),
		})
	}
	na := rapid.IntRange(1, 5).Draw(rt, "attacks")
	for i := 0; i < na; i++ {
		a := attackPlan{
			Base:  sel.Draw(rt, "base"),
			Srv:   rapid.SampledFrom([]int{0, 0, 0, 0, 0, 1, 1, 2}).Draw(rt, "tsrv"),
			Host:  rapid.SampledFrom([]int{0, 0, 0, 0, 0, 1, 1, 2, 3}).Draw(rt, "thost"),
			Sleep: rapid.SampledFrom([]int{0, 0, 0, 0, 0, 0, 0, 1, 2, 3, 4, 5, 6, 7, 8, 9, 10, 11, 12, 13, 14, 15, 16}).Draw(rt, "sleep"),
			SNI:   rapid.SampledFrom([]int{0, 0, 0, 0, 0, 0, 0, 1}).Draw(rt, "sni"),
			Chal:  rapid.Uint64().Draw(rt, "chal"),
		}
		nops := rapid.SampledFrom([]int{0, 1, 1, 1, 1, 2, 2, 3}).Draw(rt, "nops")
		for j := 0; j < nops; j++ {
			a.Ops = append(a.Ops, opPlan{
				Kind: rapid.IntRange(0, nOps-1).Draw(rt, "op"),
				P:    sel.Draw(rt, "p"), A: sel.Draw(rt, "a"), B: sel.Draw(rt, "b"), C: sel.Draw(rt, "c"), D: sel.Draw(rt, "d"),
			})
		}
		sc.Attacks = append(sc.Attacks, a)
	}
	return sc
}

func drawKeyFamily(rt *rapid.T) keyFamily {
	return keyFamily{BaseLen: rapid.IntRange(0, len(keyLens)-1).Draw(rt, "hmackeylen"), Seed: uint64(rapid.IntRange(0, 1<<20).Draw(rt, "hmackeyseed"))}
}

func drawKeyVar(rt *rapid.T) keyVar {
	return keyVar{
		Rel: rapid.SampledFrom([]int{kvUnrelated, kvOneByte, kvOneByte, kvOneByte, kvExtended, kvTruncated}).Draw(rt, "hmackeyrel"),
		Pos: rapid.IntRange(0, 7).Draw(rt, "hmackeypos"),
		Len: rapid.IntRange(0, len(keyLens)-1).Draw(rt, "hmackeylen2"),
	}
}

func challengeText(seed uint64) string {
	b := make([]byte, 32)
	x := seed | 1
	for i := range b {
		x ^= x << 13
		x ^= x >> 7
		x ^= x << 17
		b[i] = byte(x)
	}
	return b64(b)
}

// ---------------------------------------------------------------------------
// Attack request under construction.

type areq struct {
	params []param
	scheme string
	sep    string
	prefix string
	suffix string
	raw    map[int]string // parameter index -> the complete token as written (operator quote)
}

func (a *areq) render() string {
	var b strings.Builder
	b.WriteString(a.prefix)
	b.WriteString(a.scheme)
	b.WriteByte(' ')
	for i, p := range a.params {
		if i > 0 {
			b.WriteString(a.sep)
		}
		if tok, ok := a.raw[i]; ok {
			b.WriteString(tok)
			continue
		}
		b.WriteString(p.K)
		b.WriteString(`="`)
		b.WriteString(p.V)
		b.WriteByte('"')
	}
	b.WriteString(a.suffix)
	return b.String()
}

type actx struct {
	w      *world
	target *server
	host   string
	victim int // client identity the base material belongs to
	chal   string
	labels *[]string
}

func isB64Kind(k string) bool {
	switch strings.ToLower(k) {
	case "opaque", "bearer", "sig", "public-key":
		return true
	}
	return false
}

const urlAlphabet = "ABCDEFGHIJKLMNOPQRSTUVWXYZabcdefghijklmnopqrstuvwxyz0123456789-_"

// pairedChallenge looks up, in the harness' own tables, the challenge that belongs to the
// opaque currently in the request (what a client that received this opaque would sign).
func (c *actx) pairedChallenge(ps []param) (string, bool) {
	o, ok := getParam(ps, "opaque")
	if !ok {
		return "", false
	}
	d, ok := firstDecode(o)
	if !ok {
		return "", false
	}
	for _, s := range c.w.srv {
		if r := s.opaques[string(d)]; r != nil {
			return r.challenge, true
		}
	}
	return "", false
}

func (c *actx) donor(kind string, sel int, not string) (poolEntry, bool) {
	es := c.w.pool[kind]
	if len(es) == 0 {
		return poolEntry{}, false
	}
	for k := 0; k < len(es); k++ {
		e := es[(sel+k)%len(es)]
		if e.v != not {
			return e, true
		}
	}
	return es[sel%len(es)], true
}

// strangers are identities that never talk to any server of the case.
func stranger(i int) *keys.Identity { return keys.Get(keys.Types[i%len(keys.Types)], 40) }

// victimOf picks the peer a forgery names: an identity of the case, somebody no server has ever
// seen, or the target server itself.
func (c *actx) victimOf(sel int) (peer.ID, []byte, string) {
	n := len(c.w.idents)
	switch k := sel % (n + 3); {
	case k < n:
		return c.w.idents[k].ID, mustPubBytes(c.w.idents[k].Pub), "client"
	case k < n+2:
		x := stranger(sel / (n + 3))
		return x.ID, mustPubBytes(x.Pub), "stranger"
	default:
		return c.target.ident.ID, c.target.pub, "server-id"
	}
}

// guessKey returns a secret that somebody who never talked to the target could try: no key at
// all, zeros, public data (the hostname, the server's public key, its peer ID), the secret of a
// different deployment, or the application-provided secret of another instance of this case
// that is NOT in the target's secret domain. None of them is the target's secret unless the
// target fails to have one of its own.
func (c *actx) guessKey(sel int) ([]byte, string) {
	if sel%14 >= 10 {
		// a secret close to the target's provided one, but not it (secrets_test.go)
		if key, l, ok := relatedSecret(c.target.hmacKey, sel/14); ok {
			return key, l
		}
	}
	switch sel % 10 {
	case 0, 1:
		return nil, "empty-secret"
	case 2:
		return make([]byte, 32), "zero-secret"
	case 3:
		return make([]byte, 64), "zero-block-secret"
	case 4:
		return []byte(c.host), "hostname-secret"
	case 5:
		return append([]byte(nil), c.target.pub...), "server-pubkey-secret"
	case 6:
		return []byte(c.target.ident.ID.String()), "server-peerid-secret"
	case 7:
		return ownSecret(17), "unrelated-secret"
	}
	for k := 0; k < len(c.w.srv); k++ {
		o := c.w.other(c.target, sel/10+k)
		if o != c.target && o.domain != c.target.domain && o.hmacKey != nil {
			return append([]byte(nil), o.hmacKey...), "other-instance-secret"
		}
	}
	return ownSecret(17), "unrelated-secret"
}

// apply performs one operator; it returns a short descriptor ("flip:opaque").
func (c *actx) apply(a *areq, op opPlan) string {
	name := opNames[op.Kind]
	pi := -1
	key := ""
	if len(a.params) > 0 {
		pi = op.P % len(a.params)
		key = strings.ToLower(a.params[pi].K)
	}
	switch op.Kind {
	case opFlip:
		if pi < 0 {
			return name + ":none"
		}
		v := a.params[pi].V
		if isB64Kind(key) {
			d, ok := firstDecode(v)
			if !ok || len(d) == 0 {
				return name + ":undecodable"
			}
			d = append([]byte(nil), d...)
			pos := op.A % len(d)
			region := "any"
			if key == "opaque" || key == "bearer" {
				switch op.C % 4 {
				case 0:
					pos, region = op.A%min(32, len(d)), "mac"
				case 1:
					if len(d) > 32 {
						pos, region = 32+op.A%(len(d)-32), "body"
					}
				}
			}
			d[pos] ^= 1 << (op.B % 8)
			a.params[pi].V = b64(d)
			return name + ":" + key + ":" + region
		}
		if len(v) == 0 {
			return name + ":empty"
		}
		pos := op.A % len(v)
		nc := urlAlphabet[op.B%64]
		if nc == v[pos] {
			nc = urlAlphabet[(op.B+1)%64]
		}
		a.params[pi].V = v[:pos] + string(nc) + v[pos+1:]
		return name + ":" + key
	case opTrunc:
		if pi < 0 {
			return name + ":none"
		}
		v := a.params[pi].V
		if op.A%7 == 0 {
			a.params[pi].V = ""
			return name + ":" + key + ":empty"
		}
		n := 1 + op.A%3
		if isB64Kind(key) {
			d, ok := firstDecode(v)
			if !ok || len(d) <= n {
				return name + ":undecodable"
			}
			if op.B%2 == 0 {
				d = d[:len(d)-n]
			} else {
				d = d[n:]
			}
			a.params[pi].V = b64(d)
			return name + ":" + key
		}
		if len(v) > n {
			a.params[pi].V = v[:len(v)-n]
		}
		return name + ":" + key
	case opDrop:
		if pi < 0 {
			return name + ":none"
		}
		a.params = append(cloneParams(a.params[:pi]), a.params[pi+1:]...)
		return name + ":" + key
	case opDup:
		if pi < 0 {
			return name + ":none"
		}
		p := a.params[pi]
		mode := op.A % 4
		if mode >= 2 {
			if e, ok := c.donor(key, op.B, p.V); ok {
				p.V = e.v
			}
		}
		switch mode {
		case 0, 3:
			a.params = append(a.params, p)
		default:
			a.params = append([]param{p}, a.params...)
		}
		return name + ":" + key + ":" + [...]string{"same-last", "same-first", "donor-first", "donor-last"}[mode]
	case opReorder:
		n := len(a.params)
		if n < 2 {
			return name + ":none"
		}
		if op.B%3 == 0 {
			for i, j := 0, n-1; i < j; i, j = i+1, j-1 {
				a.params[i], a.params[j] = a.params[j], a.params[i]
			}
			return name + ":reverse"
		}
		r := 1 + op.A%(n-1)
		a.params = append(cloneParams(a.params[r:]), a.params[:r]...)
		return name + ":rotate"
	case opRecase:
		switch op.A % 3 {
		case 0:
			if pi >= 0 {
				a.params[pi].K = strings.ToUpper(a.params[pi].K)
				return name + ":key-upper:" + key
			}
		case 1:
			if pi >= 0 {
				k := a.params[pi].K
				a.params[pi].K = strings.ToUpper(k[:1]) + k[1:]
				return name + ":key-title:" + key
			}
		}
		if op.B%2 == 0 {
			a.scheme = strings.ToUpper(scheme)
		} else {
			a.scheme = strings.ToLower(scheme)
		}
		return name + ":scheme"
	case opReencode:
		if pi < 0 || !isB64Kind(key) || len(a.params[pi].V) == 0 {
			return name + ":none"
		}
		v := a.params[pi].V
		switch op.A % 5 {
		case 0:
			pos := op.B % (len(v) + 1)
			a.params[pi].V = v[:pos] + "\n" + v[pos:]
			return name + ":" + key + ":lf"
		case 1:
			pos := op.B % (len(v) + 1)
			a.params[pi].V = v[:pos] + "\r\n" + v[pos:]
			return name + ":" + key + ":crlf"
		case 2:
			// non-canonical trailing bits: same decoded bytes, different text
			t := strings.TrimRight(v, "=")
			pad := len(v) - len(t)
			if pad == 0 || len(t) == 0 {
				return name + ":" + key + ":nopad"
			}
			x := strings.IndexByte(urlAlphabet, t[len(t)-1])
			if x < 0 {
				return name + ":" + key + ":nopad"
			}
			a.params[pi].V = t[:len(t)-1] + string(urlAlphabet[x^1]) + strings.Repeat("=", pad)
			return name + ":" + key + ":trailing-bits"
		case 3:
			a.params[pi].V = strings.TrimRight(v, "=")
			return name + ":" + key + ":unpadded"
		default:
			a.params[pi].V = strings.NewReplacer("-", "+", "_", "/").Replace(v)
			return name + ":" + key + ":std-alphabet"
		}
	case opSwap:
		if pi < 0 {
			return name + ":none"
		}
		e, ok := c.donor(key, op.A, a.params[pi].V)
		if !ok || e.v == a.params[pi].V {
			return name + ":" + key + ":nodonor"
		}
		a.params[pi].V = e.v
		rel := "same-origin"
		switch {
		case e.srv != c.target.idx && c.w.srv[e.srv].domain == c.target.domain:
			rel = "replica-server"
		case e.srv != c.target.idx:
			rel = "other-server"
		case e.owner != c.victim:
			rel = "other-client"
		case e.host != c.host:
			rel = "other-host"
		}
		return name + ":" + key + ":" + rel
	case opMove:
		x := c.w.idents[op.B%len(c.w.idents)]
		switch op.A % 4 {
		case 0, 1: // challenge opaque presented as bearer token
			o, ok := getParam(a.params, "opaque")
			if !ok {
				if e, ok2 := c.donor("opaque", op.C, ""); ok2 {
					o, ok = e.v, true
				}
			}
			if !ok {
				return name + ":nomaterial"
			}
			if op.A%4 == 0 {
				a.params = delParam(a.params, "opaque")
				a.params = setParam(a.params, "bearer", o)
				return name + ":opaque-as-bearer:keep-rest"
			}
			a.params = []param{{"bearer", o}}
			return name + ":opaque-as-bearer"
		default: // bearer token presented as challenge opaque, signed by x over an empty / foreign challenge
			t, ok := getParam(a.params, "bearer")
			if !ok {
				if e, ok2 := c.donor("bearer", op.C, ""); ok2 {
					t, ok = e.v, true
				}
			}
			if !ok {
				return name + ":nomaterial"
			}
			ch := ""
			if op.A%4 == 3 {
				if e, ok := c.donor("challenge-client", op.D, ""); ok {
					ch = e.v
				}
			}
			sig := mustSign(x.Priv, clientSigData(ch, c.target.pub, c.host))
			a.params = []param{{"public-key", b64(mustPubBytes(x.Pub))}, {"challenge-server", c.chal}, {"sig", b64(sig)}, {"opaque", t}}
			return name + ":bearer-as-opaque"
		}
	case opResign:
		x := c.w.idents[op.A%len(c.w.idents)]
		var parts []kv
		chs := "paired"
		ch, ok := c.pairedChallenge(a.params)
		switch op.B % 6 {
		case 1:
			ch, chs = "", "empty"
		case 2:
			if e, ok2 := c.donor("challenge-client", op.B/6, ch); ok2 {
				ch, chs = e.v, "foreign"
			}
		default:
			if !ok {
				if v, ok2 := getParam(a.params, "challenge-client"); ok2 {
					ch = v
				}
				chs = "unpaired"
			}
		}
		parts = append(parts, kv{"challenge-client", []byte(ch)})
		ks := "target-key"
		switch op.C % 5 {
		case 3:
			parts = append(parts, kv{"server-public-key", c.w.other(c.target, op.C/5).pub})
			ks = "other-server-key"
		case 4:
			parts = append(parts, kv{"server-public-key", mustPubBytes(x.Pub)})
			ks = "own-key"
		default:
			parts = append(parts, kv{"server-public-key", c.target.pub})
		}
		hs := "req-host"
		switch op.D % 7 {
		case 3:
			oh := hostNames[0]
			if strings.EqualFold(c.host, oh) {
				oh = hostNames[1]
			}
			parts = append(parts, kv{"hostname", []byte(oh)})
			hs = "other-host"
		case 4:
			parts = append(parts, kv{"hostname", nil})
			hs = "empty-host"
		case 5:
			hs = "no-host-part"
		default:
			parts = append(parts, kv{"hostname", []byte(c.host)})
		}
		a.params = setParam(a.params, "sig", b64(mustSign(x.Priv, sigData(parts...))))
		pk := "pk-kept"
		switch op.P % 4 {
		case 1:
			a.params = setParam(a.params, "public-key", b64(mustPubBytes(x.Pub)))
			pk = "pk-signer"
		case 2:
			if c.victim >= 0 {
				a.params = setParam(a.params, "public-key", b64(mustPubBytes(c.w.idents[c.victim].Pub)))
				pk = "pk-victim"
			}
		case 3:
			a.params = delParam(a.params, "public-key")
			pk = "pk-removed"
		}
		who := "signer-other"
		if c.victim >= 0 && x == c.w.idents[c.victim] {
			who = "signer-owner"
		}
		return strings.Join([]string{name, who, chs, ks, hs, pk}, ":")
	case opForge:
		// State that this server never minted: made offline under a secret anybody could try
		// (guessKey), or stitched together from genuine pieces. It names an arbitrary peer.
		vid, vpub, vl := c.victimOf(op.B)
		now := time.Now()
		tok := forgedState{IsToken: true, PeerID: vid, Hostname: c.host, CreatedTime: now}
		switch op.A % 8 {
		case 0, 1, 2:
			key, kl := c.guessKey(op.D)
			a.params = []param{{"bearer", b64(forge(key, tok))}}
			return name + ":token:" + kl + ":" + vl
		case 3:
			f := forge(nil, tok)
			copy(f[:32], make([]byte, 32))
			a.params = []param{{"bearer", b64(f)}}
			return name + ":token:zero-mac"
		case 4:
			// genuine MAC of a real token of this instance spliced onto a forged body
			e, ok := c.donor("bearer", op.C, "")
			if !ok {
				return name + ":nomaterial"
			}
			d, ok := firstDecode(e.v)
			if !ok || len(d) < 32 {
				return name + ":nomaterial"
			}
			f := forge(nil, tok)
			copy(f[:32], d[:32])
			a.params = []param{{"bearer", b64(f)}}
			return name + ":token:spliced-mac"
		case 5:
			// genuine token with the peer ID inside its body replaced
			e, ok := c.donor("bearer", op.C, "")
			if !ok {
				return name + ":nomaterial"
			}
			d, ok := firstDecode(e.v)
			if !ok || len(d) < 32 {
				return name + ":nomaterial"
			}
			body := string(d[32:])
			for _, id := range c.w.idents {
				if id.ID != vid && strings.Contains(body, id.ID.String()) {
					body = strings.Replace(body, id.ID.String(), vid.String(), 1)
					break
				}
			}
			a.params = []param{{"bearer", b64(append(append([]byte(nil), d[:32]...), body...))}}
			return name + ":token:peer-id-rewritten"
		default:
			// forged challenge state under a guessable / foreign secret, correctly signed by an
			// attacker x for THIS server and host. Server-initiated shape: the key travels as a
			// parameter (x's own, or the victim's); client-initiated shape: the key is inside
			// the forged state.
			x := c.w.idents[op.C%len(c.w.idents)]
			cc := challengeText(uint64(op.D) + 7)
			key, kl := c.guessKey(op.D)
			sig := mustSign(x.Priv, clientSigData(cc, c.target.pub, c.host))
			st := forgedState{ChallengeClient: cc, Hostname: c.host, CreatedTime: now}
			if op.P%3 == 0 {
				st.ClientPublicKey = mustPubBytes(x.Pub)
				a.params = []param{{"sig", b64(sig)}, {"opaque", b64(forge(key, st))}}
				return name + ":challenge-ci:" + kl
			}
			pk := mustPubBytes(x.Pub)
			if op.P%3 == 1 && vpub != nil {
				pk = vpub
			}
			a.params = []param{{"public-key", b64(pk)}, {"challenge-server", c.chal}, {"sig", b64(sig)}, {"opaque", b64(forge(key, st))}}
			return name + ":challenge-si:" + kl
		}
	case opKeyEnc:
		i := idxParam(a.params, "public-key")
		if i < 0 {
			return name + ":none"
		}
		d, ok := firstDecode(a.params[i].V)
		if !ok {
			return name + ":undecodable"
		}
		enc, en, tn, id, ok := reencodeKeyBytes(d, op.A, op.B)
		if !ok {
			return name + ":not-a-key"
		}
		c.w.noteEncoding(enc, en, tn, id)
		a.params[i].V = b64(enc)
		return name + ":" + en + ":" + tn
	case opFormat:
		switch op.A % 9 {
		case 0:
			a.sep = ","
		case 1:
			a.sep = " "
		case 2:
			a.sep = " , "
		case 3:
			a.sep = ",,  "
		case 4:
			a.prefix = "Basic Zm9vOmJhcg==, "
		case 5:
			a.suffix = ", Bearer abc.def"
		case 6:
			a.suffix = ","
		case 7:
			a.prefix = " "
			a.suffix = " "
		default:
			a.sep = "\t"
		}
		return fmt.Sprintf("%s:%d", name, op.A%9)
	case opQuote:
		if pi < 0 {
			return name + ":none"
		}
		kind := quoteDraw[op.A%len(quoteDraw)]
		p := a.params[pi]
		junk, jl := "AAAA", "b64"
		switch op.B % 8 {
		case 1:
			junk = "A"
		case 2:
			junk, jl = "=", "pad"
		case 3:
			junk = "AA=="
		case 4:
			if e, ok := c.donor(key, op.C, p.V); ok && e.v != "" && !strings.ContainsAny(e.v, "\" ,") {
				junk, jl = e.v, "donor-value"
			}
		case 5:
			if p.V != "" && !strings.ContainsAny(p.V, "\" ,") {
				junk, jl = p.V, "same-value"
			}
		case 6:
			junk, jl = ";x=1", "other"
		case 7:
			junk, jl = "\\", "other"
		}
		if a.raw == nil {
			a.raw = map[int]string{}
		}
		a.raw[pi] = writeToken(p.K, p.V, kind, junk, op.D)
		if kind > qJunkThenQuote && kind != qJunkBeforeOpen {
			jl = "-"
		}
		return name + ":" + key + ":" + quoteNames[kind] + ":" + jl
	}
	return name
}

// sleepFor resolves a sleep class against the time the base material was minted.
func sleepFor(class int, mat time.Time, ttl time.Duration) (time.Duration, string) {
	now := time.Now()
	until := func(t time.Time) time.Duration {
		if t.After(now) {
			return t.Sub(now)
		}
		return 0
	}
	switch class {
	case 0:
		return 0, "none"
	case 1:
		return time.Second, "1s"
	case 2:
		return until(mat.Add(challengeTTL - time.Second)), "challenge-ttl-1s"
	case 3:
		return until(mat.Add(challengeTTL)), "challenge-ttl"
	case 4:
		return until(mat.Add(challengeTTL + 1)), "challenge-ttl+1ns"
	case 5:
		return until(mat.Add(challengeTTL + time.Second)), "challenge-ttl+1s"
	case 6:
		return until(mat.Add(ttl - time.Second)), "token-ttl-1s"
	case 7:
		return until(mat.Add(ttl)), "token-ttl"
	case 8:
		return until(mat.Add(ttl + 1)), "token-ttl+1ns"
	case 9:
		return until(mat.Add(ttl + time.Second)), "token-ttl+1s"
	case 11:
		return until(mat.Add(challengeTTL + 400*time.Microsecond)), "challenge-ttl+0.4ms"
	case 12:
		return until(mat.Add(challengeTTL + 600*time.Microsecond)), "challenge-ttl+0.6ms"
	case 13:
		return until(mat.Add(challengeTTL + 400*time.Millisecond)), "challenge-ttl+0.4s"
	case 14:
		return until(mat.Add(ttl + 400*time.Microsecond)), "token-ttl+0.4ms"
	case 15:
		return until(mat.Add(ttl + 600*time.Microsecond)), "token-ttl+0.6ms"
	case 16:
		return until(mat.Add(ttl + 400*time.Millisecond)), "token-ttl+0.4s"
	default:
		return 24 * time.Hour, "24h"
	}
}

// ---------------------------------------------------------------------------

func caseIdentities(types [3]int) []*keys.Identity {
	out := make([]*keys.Identity, 3)
	for i, t := range types {
		out[i] = keys.Get(keys.Types[t], i)
	}
	return out
}

func TestServerProvenance(t *testing.T) {
	name := t.Name()
	hx.Check(t, 18000, 1000000, 0, func(rt *rapid.T) {
		sc := drawScenario(rt)
		var fp []string
		var labels []string
		nontrivial := false
		idents := caseIdentities(sc.Clients)
		conf := make([]srvConf, sc.NSrv)
		modes := make([]secretMode, sc.NSrv)
		for i := range conf {
			modes[i] = secretMode(sc.SrvSecret[i])
		}
		hmacKeys, keyHow := sc.Keys.keysFor(modes, sc.SrvKeyVar[:sc.NSrv], nil)
		for i := range conf {
			conf[i] = srvConf{keyType: keys.Types[sc.SrvKey[i]], ttl: ttlChoices[sc.SrvTTL[i]], tls: sc.SrvTLS[i], secret: modes[i], ident: i, hmac: hmacKeys[i], engine: engine(sc.SrvEngine[i])}
			if sc.SrvTwin[i] {
				conf[i].keyType, conf[i].ident = conf[0].keyType, conf[0].ident
			}
			if hmacKeys[i] != nil {
				labels = append(labels, "hmackey:len"+keyLenClass(len(hmacKeys[i])), "hmackey:"+keyHow[i])
			}
		}
		hx.Bubble(t, rt, func() {
			if sc.Phase > 0 {
				time.Sleep(time.Duration(sc.Phase))
			}
			w := newWorld(rt, conf, idents)
			var steps []step
			for _, sp := range sc.Sessions {
				if sp.Gap > 0 || sp.Sub > 0 {
					time.Sleep(time.Duration(sp.Gap)*time.Millisecond + time.Duration(sp.Sub))
				}
				ss := w.honestEnc(sp.Client, w.srv[sp.Srv], hostNames[sp.Host], sp.CI, challengeText(sp.Chal), sp.Enc, int(sp.Chal>>8))
				for _, s := range ss {
					if s.hasHdr {
						steps = append(steps, s)
					}
				}
				flow := "si"
				if sp.CI {
					flow = "ci"
				}
				labels = append(labels, "honest:"+flow+":"+idents[sp.Client].Type, "srvkey:"+w.srv[sp.Srv].ident.Type)
				if len(ss) > 0 {
					labels = append(labels, "issue-frac:"+fracClass(ss[len(ss)-1].matTime))
				}
				if sp.Enc != 0 {
					nontrivial = true
					fp = append(fp, fmt.Sprintf("session|%s|%s|keyenc=%s", flow, idents[sp.Client].Type, keyEncNames[sp.Enc]))
				}
			}
			if len(w.challenges) == 0 { // every session was refused before a challenge was issued
				w.send(w.srv[0], hostNames[0], hostNames[0], nil, -1)
			}
			for _, ap := range sc.Attacks {
				// base request: a captured step, or the continuation of a challenge seen so far
				// (signed properly by one of the identities, not necessarily the one it is bound to)
				var a areq
				a.scheme, a.sep = scheme, ", "
				var baseName string
				var baseSrv int
				var baseHost string
				var mat time.Time
				victim := -1
				nb := len(steps) + 2
				k := ap.Base % nb
				if k >= len(steps) {
					var ce challengeEntry
					if (ap.Base/nb)%2 == 0 {
						ce = w.challenges[len(w.challenges)-1]
					} else {
						ce = w.challenges[(ap.Base/nb/2)%len(w.challenges)]
					}
					xi := (ap.Base / 5) % len(idents)
					x := idents[xi]
					spk, _ := firstDecode(ce.spk)
					sig := mustSign(x.Priv, clientSigData(ce.cc, spk, ce.host))
					a.params = []param{{"public-key", b64(mustPubBytes(x.Pub))}, {"challenge-server", challengeText(ap.Chal)}, {"sig", b64(sig)}, {"opaque", ce.opaque}}
					baseSrv, baseHost, mat, victim = ce.srv, ce.host, ce.minted, ce.owner
					baseName = "cont-free"
					if ce.owner >= 0 {
						baseName = "cont-bound-other"
						if ce.owner == xi {
							baseName = "cont-bound-owner"
						}
					}
				} else {
					s := steps[k]
					a.params = cloneParams(s.params)
					baseSrv, baseHost, mat, victim = s.srv, s.host, s.matTime, s.client
					baseName = s.name
				}
				baseKind := "none" // which lifetime governs the base request
				if _, ok := getParam(a.params, "bearer"); ok {
					baseKind = "token"
				} else if _, ok := getParam(a.params, "sig"); ok {
					baseKind = "challenge"
				}
				minter := w.srv[baseSrv]
				target := minter
				if ap.Srv > 0 {
					target = w.other(minter, ap.Srv-1)
				}
				host := baseHost
				hostL := "same"
				switch ap.Host {
				case 1:
					host, hostL = hostNames[0], "other"
					if baseHost == hostNames[0] {
						host = hostNames[1]
					}
				case 2:
					host, hostL = invalidHost, "invalid"
				case 3:
					host, hostL = strings.ToUpper(baseHost), "upper"
				}
				d, sleepL := sleepFor(ap.Sleep, mat, target.ttl)
				if d > 0 {
					time.Sleep(d)
				}
				ctx := &actx{w: w, target: target, host: host, victim: victim, chal: challengeText(ap.Chal)}
				var opd []string
				for _, op := range ap.Ops {
					if op.Kind != opQuote {
						opd = append(opd, ctx.apply(&a, op))
					}
				}
				for _, op := range ap.Ops { // the quoting of a value is changed last: it refers to the final parameter list
					if op.Kind == opQuote {
						opd = append(opd, ctx.apply(&a, op))
					}
				}
				hdr := a.render()
				sni := host
				if ap.SNI == 1 {
					sni = "sni." + host
				}
				res := w.send(target, host, sni, &hdr, -1) // the oracle runs inside send
				// material returned to the attacker is available to later steps
				if res.called {
					steps = append(steps, step{name: "x-accepted", params: cloneParams(a.params), hasHdr: true, srv: target.idx, host: host, client: w.identIndex(res.peer), matTime: mat})
				}
				// same = the minting instance; replica = another instance the application gave the same
				// HmacKey; foreign = an instance with a secret of its own (provided or self-drawn)
				tgtL := "same"
				if target != minter {
					tgtL = relation(minter, target)
					labels = append(labels, "xinst:"+secretNames[minter.secret]+"->"+secretNames[target.secret])
					if minter.ident == target.ident {
						labels = append(labels, "xinst:same-private-key")
					}
					if tgtL == "foreign" && minter.hmacKey != nil && target.hmacKey != nil {
						labels = append(labels, "xkey:"+keyPairClass(minter.hmacKey, target.hmacKey),
							"xkey:len"+keyLenClass(len(minter.hmacKey))+"->len"+keyLenClass(len(target.hmacKey)))
					}
				}
				// Relative to the end of a lifetime the sub-second part of the issue instant matters. It is
				// counted where the lifetime is the one of the material shown (a token around TokenTTL, a
				// challenge answer around the challenge lifetime).
				atExpiry := ap.Sleep >= 2 && ap.Sleep != 10
				if atExpiry {
					sleepL += "@" + fracClass(mat)
				}
				ownLifetime := atExpiry && strings.HasPrefix(sleepL, baseKind+"-ttl")
				desc := fmt.Sprintf("%s|%s|srv=%s|host=%s|sleep=%s", baseName, strings.Join(opd, "+"), tgtL, hostL, sleepL)
				fp = append(fp, desc)
				mutated := len(ap.Ops) > 0 || target != minter || ap.Host != 0 || strings.HasPrefix(baseName, "cont-bound-other")
				if mutated || ap.Sleep >= 2 {
					nontrivial = true
				}
				out := fmt.Sprintf("rejected:%d", res.status)
				if res.panicked {
					out = "server-panic"
				} else if res.called {
					out = "accepted-by-" + res.how
					if mutated {
						labels = append(labels, "accepted-after-mutation")
					}
				}
				labels = append(labels, "base:"+baseName, "outcome:"+out, "target:"+tgtL, "host:"+hostL, "sleep:"+strings.SplitN(sleepL, "@", 2)[0], fmt.Sprintf("nops:%d", len(ap.Ops)))
				if ownLifetime && !mutated { // genuine material shown unaltered to its own server around the end of its lifetime
					labels = append(labels, "expiry:"+sleepL+":"+strings.SplitN(out, ":", 2)[0])
				}
				for _, o := range opd {
					seg := strings.Split(o, ":")
					if seg[0] == "quote" && len(seg) > 3 {
						oc := "rejected"
						if res.called {
							oc = "accepted-on-intact-proof"
						}
						labels = append(labels, "op:quote", "quote:"+seg[2]+":"+oc, "quote-junk:"+seg[3])
					}
					if seg[0] == "keyenc" && len(seg) > 2 {
						oc := "rejected"
						if res.called {
							oc = "accepted"
						}
						labels = append(labels, "keyenc:"+seg[1]+":"+oc, "keyenc-key:"+seg[2]+":"+oc)
					}
					if seg[0] == "resign" {
						labels = append(labels, "op:resign")
						for _, x := range seg[1:] {
							labels = append(labels, "resign:"+x)
						}
					} else {
						labels = append(labels, "op:"+strings.Join(seg[:min(3, len(seg))], ":"))
						if seg[0] == "forge" && len(seg) > 3 {
							labels = append(labels, "forge-names:"+seg[3])
						}
						if seg[0] == "forge" && len(seg) > 2 && strings.HasSuffix(seg[2], "-secret") {
							labels = append(labels, "forge-vs-target-secret:"+secretNames[target.secret])
						}
					}
					if res.called {
						labels = append(labels, "accepted-with:"+seg[0])
					}
				}
			}
			anyTLS := false
			for _, s := range w.srv {
				anyTLS = anyTLS || s.tls
				labels = append(labels, "srvsecret:"+secretNames[s.secret])
			}
			if anyTLS {
				labels = append(labels, "mode:tls")
			}
			labels = append(labels, fmt.Sprintf("instances:%d", len(w.srv)))
			labels = append(labels, w.notes...)
			if w.heldSecret > 0 {
				labels = append(labels, "no-verdict:state-made-by-the-harness-under-the-accepting-instances-own-secret")
			}
			rl, _ := w.reuseLabels()
			labels = append(labels, rl...)
		})
		stats.Case(name, strings.Join(fp, " ; "), nontrivial, labels...)
		if stats.WantSample(name) {
			stats.Sample(name, map[string]any{"scenario": sc, "attacks": fp})
		}
	})
}
