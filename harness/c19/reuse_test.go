package c19

// The HISTORY dimension of the server: what handled the earlier requests.
//
// The property is quantified over histories: a request is judged by what IT carries, whatever
// the server handled before. ServerPeerIDAuth.ServeHTTP builds a new handshake state machine
// (handshake.PeerIDAuthHandshakeServer) per request; the state machine itself is made for
// re-use - Reset() and the next request, as a pool of values and the package's own benchmark do.
// A value re-used through Reset() is "the server" just as much as a new one: state of an earlier
// request (a token or a completed handshake verified for peer A) must not reach what it mints or
// reports later. In particular an opaque issued as a CHALLENGE is never a bearer token.
//
// engine says what handles the requests of an instance:
//
//	engHTTP    ServerPeerIDAuth.ServeHTTP
//	engFresh   the state machine driven directly, a new value per request
//	engReused  ONE value for all requests of the instance, Reset() before each
//
// The direct engines do around the state machine exactly what ServeHTTP does (host checks, 400 on
// a parse / run error, a new challenge with 401 after an invalid HMAC / expired challenge /
// expired token, Next with PeerID()). They are reached through the add-only hook
// p2p/http/auth/export_verif.go (type alias VerifHandshakeServer, build tag verif): the package
// is internal. All engines are held to the one provenance oracle in world.send.

import (
	"crypto/hmac"
	"crypto/sha256"
	"fmt"
	"net/http"
	"strings"
	"testing"
	"time"

	httppeeridauth "github.com/libp2p/go-libp2p/p2p/http/auth"
	"pgregory.net/rapid"

	"verif/internal/hx"
	"verif/internal/keys"
	"verif/internal/stats"
)

type engine int

const (
	engHTTP engine = iota
	engFresh
	engReused
	// engNoReset: ONE value for all requests of the instance like engReused, but the pool FORGETS
	// Reset() before some of them (srvConf.skipReset: bit k%16 set = no Reset before the k-th use).
	// Reset() is the documented way of re-use, so a value that was not reset is by contract still
	// at the same request: what it was given since its last Reset counts as carried (see
	// world.send). Two things are demanded of it: an ID it reports is proven by what it was given
	// since the last Reset (same provenance rules, same instants), and a Run() that only issued a
	// challenge (SetHeader wrote WWW-Authenticate) reports no peer through PeerID().
	engNoReset
)

var engineNames = [...]string{"ServeHTTP", "handshake-fresh", "handshake-reused", "handshake-reset-forgotten"}

type directServer struct {
	s   *server
	key []byte
	hs  *httppeeridauth.VerifHandshakeServer // engReused: the one value
	// trace: what each request handled by this instance came to (for the coverage labels)
	trace []string
	// engNoReset: uses of the value so far; the Authorization values it was given since its last
	// Reset (since) and the ones before the current request (prior); whether the current request
	// is handled by a value that was NOT reset (unreset); a finding of ServeHTTP itself (violation)
	nuse      int
	since     []string
	prior     string
	unreset   bool
	violation string
}

// tr notes what a request came to; "!" marks a request handled by a value that was not reset.
func (d *directServer) tr(out string) {
	if d.unreset {
		out = "!" + out
	}
	d.trace = append(d.trace, out)
}

func newDirectServer(s *server, provided []byte) *directServer {
	key := provided
	if key == nil {
		// HmacKey unset: the instance has a secret of its own that nobody else learns (the
		// harness' tables and forgeries never use it)
		h := sha256.Sum256([]byte(fmt.Sprintf("secret drawn by instance %d of %s", s.idx, s.ident.ID)))
		key = h[:]
	}
	return &directServer{s: s, key: key}
}

// get returns the state machine for the next request.
func (d *directServer) get(hostname string) *httppeeridauth.VerifHandshakeServer {
	if d.s.engine == engFresh || d.hs == nil {
		hs := &httppeeridauth.VerifHandshakeServer{Hostname: hostname, PrivKey: d.s.ident.Priv, TokenTTL: d.s.ttl, Hmac: hmac.New(sha256.New, d.key)}
		if d.s.engine != engFresh {
			d.hs = hs
		}
		d.nuse++
		d.since, d.unreset = nil, false
		return hs
	}
	if d.s.engine == engNoReset && d.s.skipReset>>(d.nuse%16)&1 == 1 {
		d.unreset = true
	} else {
		d.hs.Reset()
		d.since, d.unreset = nil, false
	}
	d.nuse++
	d.hs.Hostname = hostname
	return d.hs
}

func (d *directServer) ServeHTTP(w http.ResponseWriter, r *http.Request) {
	s := d.s
	hostname := r.Host
	if s.tls && (r.TLS == nil || hostname != r.TLS.ServerName) || !s.auth.ValidHostnameFn(hostname) {
		w.WriteHeader(http.StatusBadRequest)
		return
	}
	hs := d.get(hostname)
	d.prior = strings.Join(d.since, " , ")
	d.since = append(d.since, r.Header.Get("Authorization"))
	if err := hs.ParseHeaderVal([]byte(r.Header.Get("Authorization"))); err != nil {
		d.tr("parse-error")
		w.WriteHeader(http.StatusBadRequest)
		return
	}
	if err := hs.Run(); err != nil {
		switch err.Error() { // handshake.ErrInvalidHMAC, ErrExpiredChallenge, ErrExpiredToken
		case "invalid HMAC", "challenge expired", "token expired":
			d.tr("refused:" + strings.ReplaceAll(err.Error(), " ", "-"))
			hs = d.get(hostname)
			if hs.Run() != nil { // only a value that was not reset: it is still at the refused request
				d.tr("no-new-challenge")
				w.WriteHeader(http.StatusUnauthorized)
				return
			}
			hs.SetHeader(w.Header())
			d.tr("challenge")
			w.WriteHeader(http.StatusUnauthorized)
			return
		}
		d.tr("refused")
		w.WriteHeader(http.StatusBadRequest)
		return
	}
	hs.SetHeader(w.Header())
	p, err := hs.PeerID()
	if err != nil {
		d.tr("challenge")
		w.WriteHeader(http.StatusUnauthorized)
		return
	}
	if ch := w.Header().Get("WWW-Authenticate"); ch != "" {
		// this Run() verified nothing: it issued a challenge
		d.violation = fmt.Sprintf("PeerID() reports peer %s after a Run() that only issued a challenge (WWW-Authenticate=%q)", p, ch)
	}
	if _, bearer := getParam(parseParams(r.Header.Get("Authorization")), "bearer"); bearer {
		d.tr("token-accepted")
	} else {
		d.tr("answer-accepted")
	}
	s.auth.Next(p, w, r)
}

// reuseLabels: for every instance with a re-used state machine, what the value had handled
// just before each request it handled ("reuse:token-accepted->challenge").
func (w *world) reuseLabels() (labels []string, reused bool) {
	for _, s := range w.srv {
		labels = append(labels, "engine:"+engineNames[s.engine])
		if s.engine != engReused && s.engine != engNoReset {
			continue
		}
		for i := 1; i < len(s.direct.trace); i++ {
			reused = true
			prev, cur := strings.TrimPrefix(s.direct.trace[i-1], "!"), s.direct.trace[i]
			if strings.HasPrefix(cur, "!") {
				labels = append(labels, "reset-forgotten:"+prev+"->"+cur[1:])
			} else {
				labels = append(labels, "reuse:"+prev+"->"+cur)
			}
		}
	}
	return
}

// ---------------------------------------------------------------------------
// TestServerReuse: one deployment (one private key, one HmacKey) served by 2-3 workers of any
// engine, at least one of them a re-used state machine; 4-12 requests, each to a drawn worker.

type reuseAction struct {
	Kind   int `json:"kind"`
	Worker int `json:"worker"`
	Client int `json:"client"`
	Host   int `json:"host"`
	Sel    int `json:"sel"`
	Enc    int `json:"enc"`
}

const (
	raBeginSI        = iota // no Authorization: the server challenges
	raBeginCI               // challenge-server + public-key: the server signs and challenges
	raAnswer                // a challenge seen so far, answered with a proper signature
	raToken                 // a token received so far
	raOpaqueAsBearer        // a challenge opaque seen so far, presented as bearer token
	raTokenAsOpaque         // a token presented as challenge opaque, with a signature
	raBroken                // a request that is refused: unparsable, bad MAC, signature by somebody else
	raSleep                 // virtual time passes (1 s, past the challenge lifetime, past the token lifetime)
	nReuseActions
)

var reuseActionNames = [...]string{"begin-si", "begin-ci", "answer", "token", "opaque-as-bearer", "token-as-opaque", "broken", "sleep"}

type reuseScenario struct {
	SrvKey  int           `json:"srv_key"`
	TTL     int           `json:"ttl"`
	Engines []int         `json:"engines"`
	Skip    []int         `json:"skip_reset_mask"` // per worker (engine handshake-reset-forgotten): bit k%16 = no Reset() before the k-th use
	Clients [3]int        `json:"client_key"`
	Actions []reuseAction `json:"actions"`
	Phase   int           `json:"start_phase_ns"` // the clock is moved off the whole second before anything is minted (instants_test.go)
}

func drawReuseScenario(rt *rapid.T) reuseScenario {
	var sc reuseScenario
	sc.SrvKey = rapid.IntRange(0, 3).Draw(rt, "srvkey")
	sc.TTL = rapid.IntRange(0, len(ttlChoices)-1).Draw(rt, "ttl")
	n := rapid.IntRange(1, 3).Draw(rt, "workers")
	// worker 0 is a re-used value: properly reset (2/3) or with Reset() forgotten before some uses
	sc.Engines = []int{int(rapid.SampledFrom([]engine{engReused, engReused, engNoReset}).Draw(rt, "engine0"))}
	for i := 1; i < n; i++ {
		sc.Engines = append(sc.Engines, int(rapid.SampledFrom([]engine{engReused, engFresh, engHTTP, engNoReset}).Draw(rt, "engine")))
	}
	for _, e := range sc.Engines {
		m := 0
		if engine(e) == engNoReset {
			// forgotten always / before a drawn half of the uses / before one use in four
			m = []int{0xffff, 0xffff, -1, -1, -2}[rapid.IntRange(0, 4).Draw(rt, "skipkind")]
			switch m {
			case -1:
				m = rapid.IntRange(1, 0xffff).Draw(rt, "skipmask")
			case -2:
				m = rapid.IntRange(1, 0xffff).Draw(rt, "skipmask") & rapid.IntRange(1, 0xffff).Draw(rt, "skipmask2")
			}
		}
		sc.Skip = append(sc.Skip, m)
	}
	for i := range sc.Clients {
		sc.Clients[i] = rapid.SampledFrom([]int{0, 0, 0, 1, 2, 3}).Draw(rt, "clientkey") // mostly Ed25519: cheap
	}
	sc.Phase = rapid.SampledFrom([]int{0, 1, 1, 1}).Draw(rt, "phase") * drawSubSecond(rt, "phase")
	na := rapid.IntRange(4, 12).Draw(rt, "actions")
	sel := rapid.IntRange(0, 1<<16-1)
	for i := 0; i < na; i++ {
		sc.Actions = append(sc.Actions, reuseAction{
			Kind: rapid.SampledFrom([]int{raBeginSI, raBeginSI, raBeginCI, raBeginCI, raAnswer, raAnswer, raAnswer, raToken, raToken,
				raOpaqueAsBearer, raOpaqueAsBearer, raOpaqueAsBearer, raTokenAsOpaque, raBroken, raBroken, raSleep}).Draw(rt, "kind"),
			Worker: rapid.SampledFrom([]int{0, 0, 0, 1, 2}).Draw(rt, "worker"),
			Client: rapid.IntRange(0, 2).Draw(rt, "client"),
			Host:   rapid.SampledFrom([]int{0, 0, 0, 1}).Draw(rt, "host"),
			Sel:    sel.Draw(rt, "sel"),
			Enc:    rapid.SampledFrom([]int{0, 0, 0, 0, 0, 1}).Draw(rt, "enc") * rapid.IntRange(1, nKeyEncs-1).Draw(rt, "encway"),
		})
	}
	return sc
}

func TestServerReuse(t *testing.T) {
	name := t.Name()
	hx.Check(t, 8000, 400000, 0, func(rt *rapid.T) {
		sc := drawReuseScenario(rt)
		idents := caseIdentities(sc.Clients)
		conf := make([]srvConf, len(sc.Engines))
		for i, e := range sc.Engines {
			// replicas: one private key, one application-provided HmacKey
			conf[i] = srvConf{keyType: keys.Types[sc.SrvKey], ttl: ttlChoices[sc.TTL], secret: secretShared, ident: 0, engine: engine(e), skipReset: uint16(sc.Skip[i])}
		}
		var labels, fp []string
		nontrivial := false
		hx.Bubble(t, rt, func() {
			if sc.Phase > 0 {
				time.Sleep(time.Duration(sc.Phase))
			}
			labels = append(labels, "start-frac:"+fracClass(time.Now()))
			w := newWorld(rt, conf, idents)
			type tok struct {
				v    string
				peer int
			}
			var tokens []tok
			pick := func(n, sel int) int { // the latest one half of the time
				if sel%2 == 0 {
					return n - 1
				}
				return (sel / 2) % n
			}
			for _, a := range sc.Actions {
				s := w.srv[a.Worker%len(w.srv)]
				host := hostNames[a.Host]
				c := idents[a.Client]
				cpub := mustPubBytes(c.Pub)
				if a.Enc != 0 {
					if enc, en, tn, id, ok := reencodeKeyBytes(cpub, a.Enc, a.Sel); ok {
						cpub = enc
						w.noteEncoding(enc, en, tn, id)
						labels = append(labels, "keyenc:"+en)
					}
				}
				kind := a.Kind
				if (kind == raAnswer || kind == raOpaqueAsBearer) && len(w.challenges) == 0 {
					kind = raBeginSI
				}
				if (kind == raToken || kind == raTokenAsOpaque) && len(tokens) == 0 {
					kind = raBeginCI
				}
				var res result
				out := ""
				switch kind {
				case raBeginSI:
					res = w.send(s, host, host, nil, -1)
				case raBeginCI:
					res = w.sendParams(s, host, []param{{"challenge-server", challengeText(uint64(a.Sel))}, {"public-key", b64(cpub)}}, a.Client)
				case raAnswer:
					ce := w.challenges[pick(len(w.challenges), a.Sel)]
					x, xi := c, a.Client
					if ce.owner >= 0 && a.Sel%8 != 7 { // a bound challenge is answered by its owner, mostly
						x, xi = idents[ce.owner], ce.owner
						if a.Enc == 0 {
							cpub = mustPubBytes(x.Pub)
						}
					}
					spk, _ := firstDecode(ce.spk)
					h := ce.host
					if a.Sel%16 == 9 {
						h = host
					}
					sig := mustSign(x.Priv, clientSigData(ce.cc, spk, h))
					ps := []param{{"opaque", ce.opaque}, {"sig", b64(sig)}}
					if ce.owner < 0 {
						ps = []param{{"public-key", b64(cpub)}, {"challenge-server", challengeText(uint64(a.Sel))}, {"sig", b64(sig)}, {"opaque", ce.opaque}}
					}
					res = w.sendParams(s, h, ps, xi)
					if b, ok := getParam(res.info, "bearer"); ok && res.called {
						tokens = append(tokens, tok{b, w.identIndex(res.peer)})
					}
				case raToken:
					res = w.sendParams(s, host, []param{{"bearer", tokens[pick(len(tokens), a.Sel)].v}}, -1)
				case raOpaqueAsBearer:
					ce := w.challenges[pick(len(w.challenges), a.Sel)]
					ps := []param{{"bearer", ce.opaque}}
					if a.Sel%4 == 3 { // together with everything an answer would carry
						sig := mustSign(c.Priv, clientSigData(ce.cc, s.pub, ce.host))
						ps = append(ps, param{"public-key", b64(cpub)}, param{"sig", b64(sig)})
					}
					res = w.sendParams(s, ce.host, ps, -1)
					nontrivial = true
				case raTokenAsOpaque:
					tk := tokens[pick(len(tokens), a.Sel)]
					sig := mustSign(c.Priv, clientSigData("", s.pub, host))
					res = w.sendParams(s, host, []param{{"public-key", b64(cpub)}, {"challenge-server", challengeText(uint64(a.Sel))}, {"sig", b64(sig)}, {"opaque", tk.v}}, -1)
					nontrivial = true
				case raBroken:
					var hdr string
					switch a.Sel % 5 {
					case 0:
						hdr, out = scheme+` bearer="`, "unparsable"
					case 1:
						hdr, out = scheme+` sig="AAAA"`, "incomplete"
					case 2, 3:
						// a genuine token / opaque with one bit of its MAC or body flipped
						var v string
						if len(tokens) > 0 && a.Sel%5 == 2 {
							v = tokens[pick(len(tokens), a.Sel/5)].v
						} else if len(w.challenges) > 0 {
							v = w.challenges[pick(len(w.challenges), a.Sel/5)].opaque
						}
						d, ok := firstDecode(v)
						if !ok || len(d) == 0 {
							hdr, out = scheme+` bearer="AAAA"`, "short-token"
							break
						}
						d = append([]byte(nil), d...)
						d[(a.Sel/10)%len(d)] ^= 1 << (a.Sel % 8)
						hdr, out = scheme+` bearer="`+b64(d)+`"`, "bit-flipped-state"
					default:
						// the latest challenge answered by somebody with a signature over another challenge
						if len(w.challenges) == 0 {
							hdr, out = scheme+` bearer="AAAA"`, "short-token"
							break
						}
						ce := w.challenges[len(w.challenges)-1]
						sig := mustSign(c.Priv, clientSigData(challengeText(uint64(a.Sel)), s.pub, ce.host))
						hdr, out = buildHeader([]param{{"public-key", b64(cpub)}, {"challenge-server", challengeText(1)}, {"sig", b64(sig)}, {"opaque", ce.opaque}}), "wrong-signature"
					}
					res = w.send(s, host, host, &hdr, -1)
					nontrivial = true
				case raSleep:
					// whole lifetimes plus 1 ns / 0.4 ms: right after a value was handed out this is the first
					// instant / a sub-millisecond instant after its end
					d := []time.Duration{time.Second, time.Second, challengeTTL + time.Second, s.ttl + time.Second, s.ttl - time.Second,
						challengeTTL + 1, s.ttl + 1, s.ttl + 400*time.Microsecond, challengeTTL + 400*time.Microsecond}[a.Sel%9]
					if d%time.Second != 0 {
						labels = append(labels, "act:sleep:sub-ms-past-a-lifetime")
					}
					time.Sleep(d)
					fp = append(fp, fmt.Sprintf("sleep:%s", d))
					labels = append(labels, "act:sleep")
					continue
				}
				if out == "" {
					out = fmt.Sprintf("rejected:%d", res.status)
					switch {
					case res.panicked:
						out = "server-panic"
					case res.called:
						out = "accepted-by-" + res.how
					case res.status == http.StatusUnauthorized && res.www != nil:
						out = "challenged"
					}
				} else if res.called {
					out += ":accepted-by-" + res.how
				}
				// "An opaque issued as a challenge is never accepted as a bearer token" needs no rule of its
				// own: the oracle in send has no token of these bytes in its tables, and a bearer-only
				// request carries no signature.
				labels = append(labels, "act:"+reuseActionNames[kind], "act:"+reuseActionNames[kind]+":"+out, "via:"+engineNames[s.engine])
				fp = append(fp, fmt.Sprintf("%s/w%d:%s/h%d/%s", reuseActionNames[kind], s.idx, engineNames[s.engine], a.Host, out))
			}
			rl, reused := w.reuseLabels()
			labels = append(labels, rl...)
			labels = append(labels, fmt.Sprintf("workers:%d", len(w.srv)))
			nontrivial = nontrivial && reused
		})
		stats.Case(name, strings.Join(fp, " ; "), nontrivial, labels...)
		if stats.WantSample(name) {
			stats.Sample(name, map[string]any{"scenario": sc, "history": fp})
		}
	})
}
