package c19

// Native fuzz target: raw Authorization header bytes against a live server instance, judged
// by the same provenance oracle. Server challenges are random per process, so a literal valid
// header of one process means nothing to the provenance tables of another; the corpus
// therefore holds raw header TEMPLATES in which "$<kind><session>" stands for a value
// that is minted freshly (by honest handshakes run inside the same bubble) in every
// execution. Everything else in the input is taken literally, byte for byte.
//
//	kinds:    O opaque   S client signature   B bearer token   K client public key
//	          C challenge-client   H challenge-server   G server signature   P server public key
//	sessions: 0 client-initiated, client 0 (ed25519), server 0, host A
//	          1 server-initiated, client 1 (ecdsa),   server 0, host A
//	          2 client-initiated, client 2 (ed25519), server 0, host B
//	          3 server-initiated, client 0,           server 1, host A   (other instance)
//	          4 impersonation attempt: flow initiated with client 0's key by client 2;
//	            O4 = opaque bound to client 0, S4 = client 2's signature, K4 = client 2's key
//	          5 server-initiated, client 3 (secp256k1), server 0, host B
//
//	F<k>      a bearer token that NO server minted: forged at request time for client 0 and the
//	          request's Host under a secret anybody could try - k = 0 no key, 1 zeros, 2 the
//	          hostname, 3 the target's public key, 4 the secret of an unrelated deployment, 5 the
//	          provided secret of the other instance (if it has one), 6 the first 32 bytes of the
//	          target's provided secret, 7 the target's provided secret with its last byte changed
//	          (6, 7: an unrelated secret if the target drew its own)
//
// Server 0 is given a 45-byte HmacKey by the application, server 1 is left to draw its own secret.
//
// ctl: bit 0 target instance, bits 1-2 Host (A, B, invalid, upper-cased A), bits 3-5 virtual
// sleep before the request (0, 1s, 59s, 61s, 4m59s, 5m1s, 10m1s, 24h). Server 0 has TokenTTL 10
// min, server 1 has 1 min.

import (
	"bytes"
	"strings"
	"testing"
	"testing/synctest"
	"time"

	"verif/internal/hx"
	"verif/internal/keys"
	"verif/internal/stats"
)

var fuzzSleeps = []time.Duration{0, time.Second, 59 * time.Second, 61 * time.Second, 4*time.Minute + 59*time.Second,
	5*time.Minute + time.Second, 10*time.Minute + time.Second, 24 * time.Hour}

func fuzzIdentities() []*keys.Identity {
	return []*keys.Identity{keys.Ed(0), keys.Get("ecdsa", 1), keys.Ed(2), keys.Get("secp256k1", 3)}
}

type material map[string]string

func (m material) fromSteps(i string, ss []step) {
	for _, s := range ss {
		for _, p := range s.params {
			switch p.K {
			case "opaque":
				m["O"+i] = p.V
			case "sig":
				m["S"+i] = p.V
			case "bearer":
				m["B"+i] = p.V
			case "public-key":
				m["K"+i] = p.V
			case "challenge-server":
				m["H"+i] = p.V
			}
		}
		if v, ok := getParam(s.res.www, "challenge-client"); ok {
			m["C"+i] = v
		}
		if v, ok := getParam(s.res.www, "public-key"); ok {
			m["P"+i] = v
		}
		if v, ok := getParam(s.res.www, "sig"); ok {
			m["G"+i] = v
		}
		if v, ok := getParam(s.res.info, "sig"); ok {
			m["G"+i] = v
		}
	}
}

// sessionsUsed lists the sessions a template refers to (only those are minted: signatures under
// coverage instrumentation are the dominant cost of an execution).
func sessionsUsed(tmpl []byte) (used [6]bool) {
	for i := 0; i+2 < len(tmpl); i++ {
		if tmpl[i] == '$' && strings.IndexByte("OSBKCHGP", tmpl[i+1]) >= 0 && tmpl[i+2] >= '0' && tmpl[i+2] <= '5' {
			used[tmpl[i+2]-'0'] = true
		}
	}
	return
}

func mintMaterial(w *world, used [6]bool) material {
	m := material{}
	a, b := hostNames[0], hostNames[1]
	if used[0] {
		m.fromSteps("0", w.honest(0, w.srv[0], a, true, challengeText(100)))
	}
	if used[1] {
		m.fromSteps("1", w.honest(1, w.srv[0], a, false, challengeText(101)))
	}
	if used[2] {
		m.fromSteps("2", w.honest(2, w.srv[0], b, true, challengeText(102)))
	}
	if used[3] {
		m.fromSteps("3", w.honest(0, w.srv[1], a, false, challengeText(103)))
	}
	if used[5] {
		m.fromSteps("5", w.honest(3, w.srv[0], b, false, challengeText(105)))
	}
	if used[4] {
		// client 2 starts a client-initiated flow under client 0's public key
		victim, attacker := w.idents[0], w.idents[2]
		ps := []param{{"challenge-server", challengeText(104)}, {"public-key", b64(mustPubBytes(victim.Pub))}}
		r := w.sendParams(w.srv[0], a, ps, -1)
		cc, _ := getParam(r.www, "challenge-client")
		op, _ := getParam(r.www, "opaque")
		m["O4"], m["C4"], m["H4"] = op, cc, challengeText(104)
		m["S4"] = b64(mustSign(attacker.Priv, clientSigData(cc, w.srv[0].pub, a)))
		m["K4"] = b64(mustPubBytes(attacker.Pub))
	}
	return m
}

// forgedTokens fills F0..F5 (see the file comment). None of the keys is the target's secret.
func forgedTokens(m material, w *world, target *server, host string) {
	tok := forgedState{IsToken: true, PeerID: w.idents[0].ID, Hostname: host, CreatedTime: time.Now()}
	foreign := ownSecret(17)
	if o := w.other(target, 0); o.hmacKey != nil && o.domain != target.domain {
		foreign = o.hmacKey
	}
	first32, lastByte := ownSecret(17), ownSecret(17)
	if k, _, ok := relatedSecret(target.hmacKey, 0); ok {
		first32 = k
	}
	if k, _, ok := relatedSecret(target.hmacKey, 5); ok {
		lastByte = k
	}
	for k, key := range [][]byte{nil, make([]byte, 32), []byte(host), target.pub, ownSecret(17), foreign, first32, lastByte} {
		m["F"+string(rune('0'+k))] = b64(forge(key, tok))
	}
}

func expand(tmpl []byte, m material) string {
	var b strings.Builder
	for i := 0; i < len(tmpl); i++ {
		if tmpl[i] == '$' && i+2 < len(tmpl) {
			if v, ok := m[string(tmpl[i+1:i+3])]; ok {
				b.WriteString(v)
				i += 2
				continue
			}
		}
		b.WriteByte(tmpl[i])
	}
	return b.String()
}

var fuzzSeeds = []string{
	// valid
	`libp2p-PeerID opaque="$O0", sig="$S0"`,
	`libp2p-PeerID bearer="$B0"`,
	`libp2p-PeerID public-key="$K1", challenge-server="$H1", sig="$S1", opaque="$O1"`,
	`libp2p-PeerID challenge-server="$H0", public-key="$K0"`,
	`libp2p-PeerID opaque="$O2", sig="$S2"`,
	`libp2p-PeerID bearer="$B2"`,
	`libp2p-PeerID bearer="$B3"`,
	`libp2p-PeerID public-key="$K0", challenge-server="$H3", sig="$S3", opaque="$O3"`,
	`libp2p-PeerID sig="$S5",opaque="$O5",public-key="$K5",challenge-server="$H5"`,
	`libp2p-PeerID bearer="$B1"`,
	`Basic Zm9vOmJhcg==, libp2p-PeerID bearer="$B1"`,
	`libp2p-PeerID bearer="$B0" , Bearer xyz`,
	`libp2p-PeerID bearer="$B2", bearer="$B0"`,
	// not valid
	`libp2p-PeerID opaque="$O4", sig="$S4", public-key="$K4"`,
	`libp2p-PeerID opaque="$O4", sig="$S4"`,
	`libp2p-PeerID opaque="$O4", sig="$S0", public-key="$K0"`,
	`libp2p-PeerID bearer="$O0"`,
	`libp2p-PeerID bearer="$O1"`,
	`libp2p-PeerID opaque="$B0", sig="$S0", public-key="$K0"`,
	`libp2p-PeerID opaque="$B1", sig="$S1", public-key="$K1", challenge-server="$H1"`,
	`libp2p-PeerID opaque="$O0", sig="$S2"`,
	`libp2p-PeerID opaque="$O1", sig="$S0", public-key="$K0"`,
	`libp2p-PeerID opaque="$O1", sig="$S1", public-key="$K0"`,
	`libp2p-PeerID opaque="$O1", sig="$S1"`,
	`libp2p-PeerID opaque="$O0", sig="$G0"`,
	`libp2p-PeerID opaque="$O0", sig="$S0", bearer="$B2"`,
	`libp2p-PeerID bearer="$B0", opaque="$O2", sig="$S0"`,
	`libp2p-PeerID Bearer="$B0"`,
	`LIBP2P-PEERID bearer="$B0"`,
	`libp2p-PeerID bearer=$B0`,
	`libp2p-PeerID bearer="$B0`,
	`libp2p-PeerID bearer="x$B0"`,
	`libp2p-PeerID bearer="$B0AA=="`,
	`libp2p-PeerID opaque="$O1", sig="$S1AAAA", public-key="$K1"`,
	`libp2p-PeerID opaque="$O0",sig="$S0",opaque="$O2"`,
	`libp2p-PeerID public-key="$P0", challenge-server="$C0"`,
	``,
	`libp2p-PeerID`,
	`libp2p-PeerID `,
	`libp2p-PeerID bearer=""`,
	`libp2p-PeerID bearer="AAAA"`,
	`libp2p-PeerID opaque="", sig=""`,
	`libp2p-PeerID opaque="AAAAAAAAAAAAAAAAAAAAAAAAAAAAAAAAAAAAAAAAAAA=", sig="AAAA"`,
	`libp2p-PeerID bearer="AAAAAAAAAAAAAAAAAAAAAAAAAAAAAAAAAAAAAAAAAAB7ImlzLXRva2VuIjp0cnVlfQ=="`,
	`Bearer abc`,
	// the syntax around a value altered (syntax_test.go)
	`libp2p-PeerID bearer="$B0"AAAA"`,
	`libp2p-PeerID bearer="$B0"AAAA`,
	`libp2p-PeerID bearer="$B0"$B2"`,
	`libp2p-PeerID bearer="$B0""`,
	`libp2p-PeerID bearer=""$B0""`,
	`libp2p-PeerID bearer=" $B0"`,
	`libp2p-PeerID bearer='$B0'`,
	`x"libp2p-PeerIDbearer="$B0"`,
	`libp2p-PeerID opaque="$O0", sig="$S0"AAAA"`,
	`libp2p-PeerID opaque="$O0"=, sig="$S0"`,
	`libp2p-PeerID opaque="$O0, sig="$S0"`,
	`libp2p-PeerID public-key="$K1"AAAA", challenge-server="$H1", sig="$S1", opaque="$O1"`,
	`libp2p-PeerID public-key="$K1", challenge-server="$H1"x", sig="$S1", opaque="$O1"`,
	// minted by nobody (must stay at the end: validSeeds refers to indices above)
	`libp2p-PeerID bearer="$F0"`,
	`libp2p-PeerID bearer="$F1"`,
	`libp2p-PeerID bearer="$F2"`,
	`libp2p-PeerID bearer="$F3"`,
	`libp2p-PeerID bearer="$F4"`,
	`libp2p-PeerID bearer="$F5"`,
	`libp2p-PeerID bearer="$F6"`,
	`libp2p-PeerID bearer="$F7"`,
	`libp2p-PeerID public-key="$K0", challenge-server="$H0", sig="$S0", opaque="$F0"`,
}

// validSeeds: template, ctl under which an honest deployment must accept it (harness precondition;
// keeps the corpus from silently degrading into all-invalid inputs).
var validSeeds = []struct {
	tmpl string
	ctl  uint16
}{
	{fuzzSeeds[0], 0}, {fuzzSeeds[1], 0}, {fuzzSeeds[2], 0}, {fuzzSeeds[4], 1 << 1}, {fuzzSeeds[5], 1 << 1},
	{fuzzSeeds[6], 1}, {fuzzSeeds[7], 1}, {fuzzSeeds[8], 1 << 1}, {fuzzSeeds[9], 0},
	{fuzzSeeds[0], 4 << 3}, {fuzzSeeds[1], 4 << 3}, {fuzzSeeds[1], 5 << 3},
}

type fuzzOutcome struct {
	res result
	hdr string
}

func runFuzzCase(t *testing.T, tmpl []byte, ctl uint16) (out fuzzOutcome) {
	synctest.Test(t, func(t *testing.T) {
		w := newWorld(t, twoServers(srvConf{keyType: "ed25519", ttl: 10 * time.Minute, secret: secretOwn, hmac: keyMaterial(4242, 45)}, srvConf{keyType: "ed25519", ttl: time.Minute, secret: secretUnset}), fuzzIdentities())
		m := mintMaterial(w, sessionsUsed(tmpl))
		target := w.srv[ctl&1]
		host := [...]string{hostNames[0], hostNames[1], invalidHost, strings.ToUpper(hostNames[0])}[(ctl>>1)&3]
		if d := fuzzSleeps[(ctl>>3)&7]; d > 0 {
			time.Sleep(d)
		}
		if bytes.Contains(tmpl, []byte("$F")) {
			forgedTokens(m, w, target, host)
		}
		out.hdr = expand(tmpl, m)
		var authz *string
		if len(tmpl) > 0 {
			authz = &out.hdr
		}
		out.res = w.send(target, host, host, authz, -1) // oracle inside
	})
	return out
}

func TestFuzzSeedExpectations(t *testing.T) {
	hx.Shard0(t)
	for _, vs := range validSeeds {
		o := runFuzzCase(t, []byte(vs.tmpl), vs.ctl)
		if !o.res.called {
			t.Fatalf(precondition+"seed %q with ctl=%d was not accepted (status %d)", vs.tmpl, vs.ctl, o.res.status)
		}
		stats.CaseEnumerated(t.Name(), false, "accepted-by-"+o.res.how)
	}
}

func FuzzAuthorization(f *testing.F) {
	for i, s := range fuzzSeeds {
		f.Add([]byte(s), uint16(0))
		f.Add([]byte(s), uint16(i*8+i%8)) // some other target / host / time
		f.Add([]byte(s), uint16(4<<3))    // shortly before the challenge lifetime ends
		f.Add([]byte(s), uint16(5<<3))    // just after
		f.Add([]byte(s), uint16(1))       // the instance that drew its own secret
	}
	for _, vs := range validSeeds {
		f.Add([]byte(vs.tmpl), vs.ctl)
	}
	name := "FuzzAuthorization"
	f.Fuzz(func(t *testing.T, tmpl []byte, ctl uint16) {
		if len(tmpl) > 6000 {
			return
		}
		o := runFuzzCase(t, tmpl, ctl)
		out := "rejected"
		switch {
		case o.res.panicked:
			out = "server-panic"
		case o.res.called:
			out = "accepted-by-" + o.res.how
		}
		stats.Case(name, string(tmpl)+"/"+string(rune('0'+ctl%64)), true, "outcome:"+out)
	})
}
