package c19

// The client's handshake state machine driven directly, and asked for the server's ID at EVERY
// point of the handshake.
//
// "The client reports a server peer ID only if the server's signature over the client's own
// fresh challenge, the client's public key and the hostname verifies under that ID's key."
// handshake.PeerIDAuthHandshakeClient reports through its accessor PeerID(); ClientPeerIDAuth asks
// it once, after a completed handshake. The accessor is the library's own reporting point
// (hook p2p/http/auth/export_verif.go, alias VerifHandshakeClient) and a caller may ask at any
// time: after it parsed the first WWW-Authenticate (which STATES a public key, proving nothing),
// after its first Run(), after a Run() that rejected a signature, after it went on regardless.
// The harness plays the server: per round it answers honestly as V, as an attacker A under its
// own key, or as an impostor who states V's key and cannot sign for it.
//
// ORACLE at every probe: PeerID() returns an error / the empty ID, or the returned ID is the ID of
// a key under which some sig value this client was given so far verifies over (a challenge-server
// this client sent so far, the client's public key, the client's Hostname).

import (
	"fmt"
	"net/http"
	"strings"
	"testing"

	ic "github.com/libp2p/go-libp2p/core/crypto"
	"github.com/libp2p/go-libp2p/core/peer"
	httppeeridauth "github.com/libp2p/go-libp2p/p2p/http/auth"
	"pgregory.net/rapid"

	"verif/internal/hx"
	"verif/internal/keys"
	"verif/internal/stats"
)

const (
	cmClaimV = iota
	cmClaimA
	cmClaimNone
)

const (
	cmSignV        = iota // V signs what the spec says
	cmSignA               // A signs what the spec says, with its own key
	cmSignZero            // 64 zero bytes
	cmSignNone            // no sig parameter (in answer to a client-initiated hello: the flow is refused)
	cmSignVOtherCtx       // a genuine signature of V, made for another context
	cmSignVFlipped        // V's proper signature with one bit flipped
	cmSignReflect         // the client's own signature sent back
	nCmSign
)

var cmSignNames = [...]string{"V", "A", "zeros", "none", "V-other-context", "V-bit-flipped", "reflected-client-sig"}
var cmClaimNames = [...]string{"V", "A", "none"}
var cmCtxNames = [...]string{"other-challenge", "other-hostname", "other-client-key", "empty-challenge", "challenge-of-earlier-handshake"}
var cmShapeNames = [...]string{"as-honest", "challenge-shape", "info-shape", "all-in-both-headers"}

type cmRound struct {
	Claim  int `json:"claim"`
	Signer int `json:"signer"`
	Ctx    int `json:"ctx"`
	Shape  int `json:"shape"`
	Sel    int `json:"sel"`
}

func (r cmRound) String() string {
	s := fmt.Sprintf("key:%s/sig:%s/%s", cmClaimNames[r.Claim], cmSignNames[r.Signer], cmShapeNames[r.Shape])
	if r.Signer == cmSignVOtherCtx {
		s += "/" + cmCtxNames[r.Ctx]
	}
	return s
}

type cmScenario struct {
	ClientKey int       `json:"client_key"`
	VKey      int       `json:"v_key"`
	AKey      int       `json:"a_key"`
	Host      int       `json:"host"`
	Initiate  bool      `json:"client_initiated"`
	GoOn      bool      `json:"go_on_after_error"`
	Rounds    []cmRound `json:"rounds"`
}

func drawCMScenario(rt *rapid.T) cmScenario {
	kt := rapid.SampledFrom([]int{0, 0, 0, 1, 2, 3}) // mostly Ed25519: cheap
	sc := cmScenario{ClientKey: kt.Draw(rt, "clientkey"), VKey: kt.Draw(rt, "vkey"), AKey: kt.Draw(rt, "akey"),
		Host: rapid.IntRange(0, 1).Draw(rt, "host"), Initiate: rapid.Bool().Draw(rt, "initiate"), GoOn: rapid.Bool().Draw(rt, "goon")}
	n := rapid.IntRange(1, 4).Draw(rt, "rounds")
	// one server behaviour for the whole handshake most of the time, a new one per round otherwise
	base := cmRound{Claim: rapid.SampledFrom([]int{cmClaimV, cmClaimV, cmClaimV, cmClaimV, cmClaimA, cmClaimNone}).Draw(rt, "claim"),
		Signer: rapid.SampledFrom([]int{cmSignV, cmSignV, cmSignA, cmSignA, cmSignZero, cmSignNone, cmSignVOtherCtx, cmSignVOtherCtx, cmSignVFlipped, cmSignReflect}).Draw(rt, "signer")}
	for i := 0; i < n; i++ {
		r := base
		if rapid.IntRange(0, 3).Draw(rt, "vary") == 0 {
			r.Claim = rapid.IntRange(0, 2).Draw(rt, "claim")
			r.Signer = rapid.IntRange(0, nCmSign-1).Draw(rt, "signer")
		}
		r.Ctx = rapid.IntRange(0, len(cmCtxNames)-1).Draw(rt, "ctx")
		r.Shape = rapid.SampledFrom([]int{0, 0, 0, 0, 0, 1, 2, 3}).Draw(rt, "shape")
		r.Sel = rapid.IntRange(0, 1<<16-1).Draw(rt, "sel")
		sc.Rounds = append(sc.Rounds, r)
	}
	return sc
}

// cmRun is one handshake value together with everything the oracle needs.
type cmRun struct {
	f        failer
	hs       *httppeeridauth.VerifHandshakeClient
	host     string
	cpub     []byte
	keysByID map[peer.ID]ic.PubKey
	sentCS   []string // every challenge-server this value sent
	gotSigs  [][]byte // every sig value it was given, in any header
	stated   map[peer.ID]bool
	history  []string
	labels   []string
	unproven int // probes made while a stated key had no valid signature yet
	afterRej int // probes made after Run() returned an error, nothing proven
	reported peer.ID
	panicked bool
}

func (c *cmRun) provenBy(id peer.ID) bool {
	pub := c.keysByID[id]
	if pub == nil {
		return false
	}
	for _, cs := range c.sentCS {
		data := serverSigData(cs, c.cpub, c.host)
		for _, sg := range c.gotSigs {
			if safeVerify(pub, data, sg) {
				return true
			}
		}
	}
	return false
}

// probe asks the accessor and judges the answer.
func (c *cmRun) probe(point string, rejected bool) {
	id, err := c.hs.PeerID()
	anyProven := false
	for p := range c.stated {
		if c.provenBy(p) {
			anyProven = true
		}
	}
	if len(c.stated) > 0 && !anyProven {
		c.unproven++
		if rejected {
			c.afterRej++
		}
	}
	if err != nil || id == "" {
		if err == nil && id == "" {
			c.labels = append(c.labels, "probe:empty-id-without-error")
		}
		if len(c.stated) > 0 && !anyProven {
			c.labels = append(c.labels, "probe:"+point+":key-stated-nothing-proven:no-id")
		} else {
			c.labels = append(c.labels, "probe:"+point+":no-id")
		}
		c.history = append(c.history, point+" -> PeerID: no id")
		return
	}
	c.history = append(c.history, fmt.Sprintf("%s -> PeerID: %s", point, id))
	if !c.provenBy(id) {
		who := "a key the server only STATED in a public-key parameter"
		if !c.stated[id] {
			who = "a key no header stated"
		}
		c.f.Fatalf("C19 client state machine: PeerID() reports server %s at point %q, but no sig value given to this client so far verifies under that ID's key over (a challenge-server it sent, its public key, hostname %q): %s.\n challenges sent: %q\n sig values received: %d\n history:\n  %s",
			id, point, c.host, who, c.sentCS, len(c.gotSigs), strings.Join(c.history, "\n  "))
	}
	c.reported = id
	c.labels = append(c.labels, "probe:"+point+":id-proven")
}

func (c *cmRun) guard(what string, f func() error) (err error) {
	defer func() {
		if r := recover(); r != nil {
			c.panicked = true
			c.labels = append(c.labels, "client-panic:"+what)
			err = fmt.Errorf("panic: %v", r)
		}
	}()
	return f()
}

func TestClientMachine(t *testing.T) {
	name := t.Name()
	hx.Check(t, 8000, 300000, 0, func(rt *rapid.T) {
		sc := drawCMScenario(rt)
		client := keys.Get(keys.Types[sc.ClientKey], 0)
		v, a := keys.Get(keys.Types[sc.VKey], 20), keys.Get(keys.Types[sc.AKey], 21)
		other := keys.Ed(23)
		host := hostNames[sc.Host]
		c := &cmRun{f: rt, host: host, cpub: mustPubBytes(client.Pub), keysByID: map[peer.ID]ic.PubKey{}, stated: map[peer.ID]bool{},
			hs: &httppeeridauth.VerifHandshakeClient{Hostname: host, PrivKey: client.Priv}}
		for _, id := range []*keys.Identity{v, a, other, client} {
			if cid, ok := canonicalID(id.Pub); ok {
				c.keysByID[cid] = id.Pub
			}
		}
		// a challenge this client sent in an EARLIER handshake (another value), and what V signed for it
		earlierCS := challengeText(uint64(sc.Rounds[0].Sel) + 77)
		honestAll := true
		for _, r := range sc.Rounds {
			if r.Claim != cmClaimV || r.Signer != cmSignV || r.Shape != 0 {
				honestAll = false
			}
		}
		var fp []string
		var req []param // the client's latest request
		lastCS := ""
		failed := false
		if sc.Initiate {
			c.hs.SetInitiateChallenge()
			c.probe("after-SetInitiateChallenge", false)
		}
		// produce runs Run() and reads the request the client would send
		produce := func(point string) bool {
			err := c.guard("Run", c.hs.Run)
			if err != nil {
				c.history = append(c.history, fmt.Sprintf("Run: error %v", err))
				c.probe(point+":Run-error", true)
				failed = true
				return false
			}
			c.history = append(c.history, "Run: ok")
			c.probe(point+":Run-ok", false)
			h := http.Header{}
			c.hs.AddHeader(h)
			req = parseParams(h.Get("Authorization"))
			if cs, ok := getParam(req, "challenge-server"); ok {
				c.sentCS = append(c.sentCS, cs)
				lastCS = cs
			}
			return true
		}
		if sc.Initiate {
			produce("hello")
		}
		for i, r := range sc.Rounds {
			if c.panicked || (failed && !sc.GoOn) {
				break
			}
			// --- the harness server answers ---
			var ps []param
			switch r.Claim {
			case cmClaimV:
				ps = append(ps, param{"public-key", b64(mustPubBytes(v.Pub))})
				c.stated[v.ID] = true
			case cmClaimA:
				ps = append(ps, param{"public-key", b64(mustPubBytes(a.Pub))})
				c.stated[a.ID] = true
			}
			_, reqSig := getParam(req, "sig")
			_, reqCS := getParam(req, "challenge-server")
			answerShape := reqSig // an honest server answers a challenge answer with Authentication-Info
			proper := serverSigData(lastCS, c.cpub, host)
			var sig []byte
			switch r.Signer {
			case cmSignV:
				sig = mustSign(v.Priv, proper)
			case cmSignA:
				sig = mustSign(a.Priv, proper)
			case cmSignZero:
				sig = make([]byte, 64)
			case cmSignVOtherCtx:
				switch r.Ctx {
				case 0:
					sig = mustSign(v.Priv, serverSigData(challengeText(uint64(r.Sel)), c.cpub, host))
				case 1:
					sig = mustSign(v.Priv, serverSigData(lastCS, c.cpub, hostNames[1-sc.Host]))
				case 2:
					sig = mustSign(v.Priv, serverSigData(lastCS, mustPubBytes(other.Pub), host))
				case 3:
					sig = mustSign(v.Priv, serverSigData("", c.cpub, host))
				default:
					sig = mustSign(v.Priv, serverSigData(earlierCS, c.cpub, host))
				}
			case cmSignVFlipped:
				sig = mustSign(v.Priv, proper)
				sig[r.Sel%len(sig)] ^= 1 << (r.Sel / 256 % 8)
			case cmSignReflect:
				if s, ok := getParam(req, "sig"); ok {
					sig, _ = firstDecode(s)
				} else {
					sig = mustSign(client.Priv, proper)
				}
			}
			resp := http.Header{}
			challenge := []param{{"challenge-client", challengeText(uint64(r.Sel) + 1)}}
			challenge = append(challenge, ps...)
			challenge = append(challenge, param{"opaque", b64([]byte(fmt.Sprintf("opaque-%d-%d", i, r.Sel)))})
			info := []param{{"bearer", b64([]byte(fmt.Sprintf("token-%d-%d", i, r.Sel)))}}
			shape := r.Shape
			if shape == 0 {
				shape = 1
				if answerShape {
					shape = 2
				}
				// honest form: a challenge carries a signature only in answer to a client-initiated hello,
				// Authentication-Info only when the request carried a challenge-server
				if sig != nil && reqCS {
					challenge = append(challenge, param{"sig", b64(sig)})
					info = append([]param{{"sig", b64(sig)}}, info...)
				} else {
					sig = nil
				}
			} else if sig != nil {
				challenge = append(challenge, param{"sig", b64(sig)})
				info = append(append([]param{{"sig", b64(sig)}}, ps...), info...)
			}
			switch shape {
			case 1:
				resp.Set("WWW-Authenticate", buildHeader(challenge))
			case 2:
				resp.Set("Authentication-Info", buildHeader(info))
			default:
				all := append(cloneParams(challenge), param{"bearer", info[len(info)-1].V})
				resp.Set("WWW-Authenticate", buildHeader(all))
				resp.Set("Authentication-Info", buildHeader(all))
			}
			if sig != nil {
				c.gotSigs = append(c.gotSigs, sig)
			}
			c.history = append(c.history, fmt.Sprintf("server round %d: %s (WWW-Authenticate=%q Authentication-Info=%q)", i, r, resp.Get("WWW-Authenticate"), resp.Get("Authentication-Info")))
			fp = append(fp, r.String())
			c.labels = append(c.labels, "round:key:"+cmClaimNames[r.Claim]+"/sig:"+cmSignNames[r.Signer], "round:shape:"+cmShapeNames[r.Shape])
			if r.Signer == cmSignVOtherCtx && sig != nil {
				c.labels = append(c.labels, "round:V-other-context:"+cmCtxNames[r.Ctx])
			}
			// --- the client takes it ---
			point := fmt.Sprintf("round%d", i)
			perr := c.guard("ParseHeader", func() error { return c.hs.ParseHeader(resp) })
			if perr != nil {
				c.history = append(c.history, fmt.Sprintf("ParseHeader: error %v", perr))
				c.probe(point+":ParseHeader-error", false)
			} else {
				c.probe(point+":ParseHeader-ok", false)
			}
			if c.panicked {
				break
			}
			// the library's own caller ignores ParseHeader's error and runs
			produce(point)
		}
		done := c.hs.HandshakeDone()
		outcome := "unfinished"
		switch {
		case c.panicked:
			outcome = "client-panic"
		case c.reported != "" && done:
			outcome = "done:id-reported"
		case c.reported != "":
			outcome = "id-reported"
		case failed:
			outcome = "error"
		}
		if honestAll && !c.panicked {
			// harness precondition: an honest V is recognised (otherwise the check is vacuous)
			need := 2
			if len(sc.Rounds) >= need && (c.reported != v.ID || failed) {
				rt.Fatalf(precondition+"client state machine did not recognise an entirely honest server V: reported=%q failed=%v\n  %s", c.reported, failed, strings.Join(c.history, "\n  "))
			}
		}
		flow := "server-initiated"
		if sc.Initiate {
			flow = "client-initiated"
		}
		c.labels = append(c.labels, "flow:"+flow, "outcome:"+outcome, "clientkey:"+client.Type, "vkey:"+v.Type)
		if c.unproven > 0 {
			c.labels = append(c.labels, "asked-while-key-stated-nothing-proven")
		}
		if c.afterRej > 0 {
			c.labels = append(c.labels, "asked-after-rejected-answer-nothing-proven")
		}
		if c.hs.BearerToken() != "" && c.reported == "" && !c.panicked {
			c.labels = append(c.labels, "bearer-token-held-without-proven-server")
		}
		fpS := fmt.Sprintf("%s/goon:%v/ck%d/v%d/a%d ; %s ; %s", flow, sc.GoOn, sc.ClientKey, sc.VKey, sc.AKey, strings.Join(fp, " ; "), outcome)
		stats.Case(name, fpS, c.unproven > 0, c.labels...)
		if stats.WantSample(name) {
			stats.Sample(name, map[string]any{"scenario": sc, "history": c.history})
		}
	})
}
