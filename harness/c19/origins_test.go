package c19

// One client, several origins.
//
// The property: "the client reports a server peer ID only if the server's signature over the
// client's own fresh challenge, the client's public key and the hostname verifies under that
// ID's key". The hostname is the one of THE REQUEST: a proof obtained for one hostname says
// nothing about a request that names another one, however similar the two strings look.
// TestClientProvenance drives one client against ONE (deviating) server under two unrelated
// names. This test walks the other dimension: ONE real ClientPeerIDAuth is used, within its
// TokenTTL and beyond, against 2-4 ORIGINS whose Host strings are spellings of one another
// (same name with another port, no port, other letter case, a trailing dot; in 1/6 of the cases
// one origin has an unrelated name instead, as control). Every origin is served by
// something else:
//
//	auth    a real ServerPeerIDAuth instance of its own (any key type; HmacKey of its own, the
//	        HmacKey shared by the replicas of one deployment, or unset; sometimes the same
//	        private key as the first origin; NoTLS or TLS)
//	alias   the instance of an earlier auth origin, reached under this other spelling
//	proxy   the instance of an earlier auth origin behind a front end that rewrites Host to that
//	        origin's spelling (what it signs and accepts is bound to the OTHER hostname)
//	plain   an endpoint that knows nothing about the scheme and answers 200 / 204 / 302 / 403 /
//	        404 / 500 / a bare 401 to whatever it is sent
//	parrot  an endpoint that answers 200 / 401 / 403 and replays, as its own, the latest
//	        WWW-Authenticate and / or Authentication-Info value another origin sent this client
//
// The harness is the network: a RoundTripper that routes by the exact Host string and records
// every request and response.
//
// ORACLE (per call, from the recorded wire only):
//
//	(id)    a returned server ID must be justified for THIS request's hostname: either some value
//	        in a response of this call is a signature that verifies under that ID's key over (a
//	        challenge-server the client sent in this call, the client's public key, this request's
//	        Host) - or the call was a single bearer request, answered with something other than
//	        401, to an origin for whose exact Host string this client proved that very ID in an
//	        earlier call (the cached-token path). Whatever an origin that signed nothing answers,
//	        no ID may be attributed to it.
//	(token) a bearer value the client sends to an origin must have been handed to it by that
//	        origin (under that Host string): a cached token is only ever replayed to the origin
//	        whose handshake produced it.
//	(err)   no ID together with an error.
//
// Every request that reaches a real server instance also passes the server-side provenance
// oracle of world.send.

import (
	"fmt"
	"io"
	"net/http"
	"strings"
	"testing"
	"time"

	"github.com/libp2p/go-libp2p/core/peer"
	httppeeridauth "github.com/libp2p/go-libp2p/p2p/http/auth"
	"pgregory.net/rapid"

	"verif/internal/hx"
	"verif/internal/keys"
	"verif/internal/stats"
)

// originFamilies: per family, Host strings that some normalisation (drop the port, fold the
// case, drop the trailing dot) would map onto each other; the last
// entry of each family is an unrelated name (control).
var originFamilies = [][]string{
	{"site.example.com", "site.example.com:443", "site.example.com:8443", "SITE.EXAMPLE.COM", "Site.Example.Com:443",
		"site.example.com.", "SITE.example.com.:8443", "site.example.com:80", "other.example.net"},
	{"localhost", "localhost:4001", "LOCALHOST:4002", "LocalHost", "localhost.", "localhost.:4001", "Localhost:4001", "localhost.localdomain:4001"},
	{"127.0.0.1:4001", "127.0.0.1:4002", "127.0.0.1", "127.0.0.1:80", "127.0.0.1:443", "127.0.0.1:8080", "10.0.0.7:4001"},
	{"[2001:db8::a]:4001", "[2001:DB8::A]:4002", "[2001:db8::a]", "[2001:DB8::a]:4001", "[2001:db8::A]", "[2001:db8::a]:443", "[2001:db8::b]:4001"},
}

const (
	okAuth = iota
	okAlias
	okProxy
	okPlain
	okParrot
)

var originKindNames = [...]string{"auth", "alias", "proxy", "plain", "parrot"}

var plainCodes = []int{200, 200, 204, 302, 403, 404, 500, 401}
var parrotCodes = []int{200, 200, 401, 401, 403}

type originPlan struct {
	Spell  int  `json:"spelling"`
	Kind   int  `json:"kind"`
	Key    int  `json:"key,omitempty"`
	Secret int  `json:"secret,omitempty"`
	Twin   bool `json:"twin,omitempty"` // private key of origin 0
	TTL    int  `json:"ttl,omitempty"`
	TLS    bool `json:"tls,omitempty"`
	Of     int  `json:"of,omitempty"`   // alias / proxy: which earlier auth origin; parrot: whose headers
	Code   int  `json:"code,omitempty"` // plain / parrot
	Hdr    int  `json:"hdr,omitempty"`  // parrot: 1 WWW-Authenticate, 2 Authentication-Info, 3 both
}

type originCall struct {
	Origin  int  `json:"origin"`
	Sleep   int  `json:"sleep"`
	GetBody bool `json:"get_body"`
}

type originScenario struct {
	ClientKey int          `json:"client_key"`
	TokenTTL  int          `json:"token_ttl"`
	Family    int          `json:"family"`
	Origins   []originPlan `json:"origins"`
	Calls     []originCall `json:"calls"`
}

func drawOriginScenario(rt *rapid.T) originScenario {
	sc := originScenario{
		ClientKey: rapid.SampledFrom([]int{0, 0, 0, 1, 2, 3}).Draw(rt, "clientkey"),
		TokenTTL:  rapid.IntRange(0, len(clientTTLs)-1).Draw(rt, "ttl"),
		Family:    rapid.IntRange(0, len(originFamilies)-1).Draw(rt, "family"),
	}
	fam := originFamilies[sc.Family]
	idx := make([]int, len(fam))
	for i := range idx {
		idx[i] = i
	}
	// distinct Host strings by construction; the unrelated control name takes the place of one origin in 1/6 of the cases
	perm := rapid.Permutation(idx[:len(idx)-1]).Draw(rt, "spellings")
	n := rapid.SampledFrom([]int{2, 2, 2, 3, 3, 4}).Draw(rt, "origins")
	if rapid.IntRange(0, 5).Draw(rt, "control") == 0 {
		perm[rapid.IntRange(0, n-1).Draw(rt, "controlat")] = len(fam) - 1
	}
	for i := 0; i < n; i++ {
		op := originPlan{Spell: perm[i]}
		if i > 0 {
			op.Kind = rapid.SampledFrom([]int{okAuth, okAuth, okAuth, okAlias, okProxy, okPlain, okPlain, okParrot}).Draw(rt, "kind")
		}
		switch op.Kind {
		case okAuth:
			op.Key = rapid.SampledFrom([]int{0, 0, 0, 1, 2, 3}).Draw(rt, "key")
			op.Secret = int(rapid.SampledFrom([]secretMode{secretOwn, secretShared, secretShared, secretUnset}).Draw(rt, "secret"))
			op.Twin = i > 0 && rapid.IntRange(0, 4).Draw(rt, "twin") == 0
			op.TTL = rapid.IntRange(0, len(ttlChoices)-1).Draw(rt, "srvttl")
			op.TLS = rapid.IntRange(0, 3).Draw(rt, "tls") == 0
		case okAlias, okProxy:
			op.Of = rapid.IntRange(0, 1<<10).Draw(rt, "of")
		case okPlain:
			op.Code = rapid.IntRange(0, len(plainCodes)-1).Draw(rt, "code")
		default:
			op.Of = rapid.IntRange(0, 1<<10).Draw(rt, "of")
			op.Code = rapid.IntRange(0, len(parrotCodes)-1).Draw(rt, "code")
			op.Hdr = rapid.IntRange(1, 3).Draw(rt, "hdr")
		}
		sc.Origins = append(sc.Origins, op)
	}
	nc := rapid.IntRange(2, 6).Draw(rt, "calls")
	for i := 0; i < nc; i++ {
		c := originCall{
			Origin:  rapid.IntRange(0, n-1).Draw(rt, "origin"),
			Sleep:   rapid.SampledFrom([]int{0, 0, 0, 1, 1, 2, 3, 4}).Draw(rt, "sleep"),
			GetBody: rapid.IntRange(0, 3).Draw(rt, "getbody") != 0,
		}
		if i == 0 && rapid.IntRange(0, 3).Draw(rt, "first") != 0 {
			c.Origin = 0 // mostly: the honest first origin is authenticated before the others are visited
		}
		sc.Calls = append(sc.Calls, c)
	}
	return sc
}

// splitSpelling cuts a Host string into name and port (harness-side, textual).
func splitSpelling(h string) (name, port string) {
	if i := strings.LastIndexByte(h, ':'); i >= 0 && !strings.Contains(h[i:], "]") {
		return h[:i], h[i+1:]
	}
	return h, ""
}

// spellingDiff names how two distinct Host strings differ.
func spellingDiff(a, b string) string {
	na, pa := splitSpelling(a)
	nb, pb := splitSpelling(b)
	var d []string
	if na != nb {
		ta, tb := strings.TrimSuffix(na, "."), strings.TrimSuffix(nb, ".")
		switch {
		case strings.EqualFold(na, nb):
			d = append(d, "case")
		case ta == tb:
			d = append(d, "dot")
		case strings.EqualFold(ta, tb):
			d = append(d, "case", "dot")
		default:
			return "name"
		}
	}
	if pa != pb {
		d = append(d, "port")
	}
	return strings.Join(d, "+")
}

type origin struct {
	idx    int
	host   string
	kind   int
	srv    *server // auth / alias / proxy
	asHost string  // the Host the backend sees
	of     *origin // alias / proxy: the origin whose instance this is; parrot: preferred donor
	code   int
	hdr    int

	issued   map[string]bool // bearer values this origin handed to the client
	lastWWW  string
	lastInfo string
	proven   peer.ID // the ID the client proved for exactly this Host string, and when
	provenAt time.Time
	hasProof bool
}

type originNet struct {
	f       failer
	w       *world
	all     []*origin
	byHost  map[string]*origin
	tokenOf map[string][]string // bearer value -> Host strings of the origins that handed it out

	// per call
	cur        *origin
	kinds      []string
	codes      []int
	challenges []string
	cands      [][]byte // every byte string a response header of this call could decode to
	leaks      []string
	lastBearer bool
}

func (n *originNet) begin(o *origin) {
	n.cur, n.kinds, n.codes, n.challenges, n.cands, n.leaks, n.lastBearer = o, nil, nil, nil, nil, nil, false
}

func (n *originNet) RoundTrip(req *http.Request) (*http.Response, error) {
	o := n.byHost[req.Host]
	if o == nil || o != n.cur {
		n.f.Fatalf("harness: request with Host %q during the call to origin %q", req.Host, n.cur.host)
	}
	var authz *string
	n.lastBearer = false
	if v := req.Header.Get("Authorization"); v != "" {
		authz = &v
		ps := parseParams(v)
		if c, ok := getParam(ps, "challenge-server"); ok {
			n.challenges = append(n.challenges, c)
		}
		switch {
		case idxParam(ps, "bearer") >= 0:
			n.kinds = append(n.kinds, "bearer")
			n.lastBearer = true
		case idxParam(ps, "sig") >= 0 && idxParam(ps, "challenge-server") >= 0:
			n.kinds = append(n.kinds, "s2")
		case idxParam(ps, "sig") >= 0:
			n.kinds = append(n.kinds, "c2")
		default:
			n.kinds = append(n.kinds, "c1")
		}
		for _, p := range ps {
			if p.K == "bearer" && !o.issued[p.V] {
				n.leaks = append(n.leaks, fmt.Sprintf("bearer token handed out by %q", n.tokenOf[p.V]))
			}
		}
	} else {
		n.kinds = append(n.kinds, "none")
	}

	status, www, info := 0, "", ""
	switch o.kind {
	case okAuth, okAlias, okProxy:
		res := n.w.send(o.srv, o.asHost, o.asHost, authz, 0) // server-side oracle inside
		status, www, info = res.status, res.rawWWW, res.rawInfo
	case okPlain:
		status = o.code
	default:
		status = o.code
		d := o.of
		if d.lastWWW == "" && d.lastInfo == "" {
			for _, x := range n.all {
				if x != o && (x.lastWWW != "" || x.lastInfo != "") {
					d = x
					break
				}
			}
		}
		if o.hdr&1 != 0 {
			www = d.lastWWW
		}
		if o.hdr&2 != 0 {
			info = d.lastInfo
		}
	}
	h := http.Header{}
	if www != "" {
		h.Set("WWW-Authenticate", www)
		if o.kind != okParrot {
			o.lastWWW = www
		}
	}
	if info != "" {
		h.Set("Authentication-Info", info)
		if o.kind != okParrot {
			o.lastInfo = info
		}
	}
	for _, raw := range []string{www, info} {
		if raw == "" {
			continue
		}
		n.cands = append(n.cands, decodedCandidates(raw)...)
		for _, p := range parseParams(raw) {
			if p.K == "bearer" && !o.issued[p.V] {
				o.issued[p.V] = true
				n.tokenOf[p.V] = append(n.tokenOf[p.V], o.host)
			}
		}
	}
	n.codes = append(n.codes, status)
	return &http.Response{Status: http.StatusText(status), StatusCode: status, Proto: "HTTP/1.1", ProtoMajor: 1, ProtoMinor: 1,
		Header: h, Body: http.NoBody, Request: req}, nil
}

// provenNow: some response of the current call carried a signature valid under x's key over (a
// challenge the client sent in this call, the client's public key, the call's Host string).
func (n *originNet) provenNow(x peer.ID, cpub []byte) bool {
	pub := n.w.pubOf(x, n.cands)
	if pub == nil {
		return false
	}
	for _, c := range n.challenges {
		data := serverSigData(c, cpub, n.cur.host)
		for _, sg := range n.cands {
			if len(sg) < 32 || len(sg) > 1024 {
				continue
			}
			if safeVerify(pub, data, sg) {
				return true
			}
		}
	}
	return false
}

func buildOrigins(f failer, sc originScenario, client *keys.Identity) *originNet {
	fam := originFamilies[sc.Family]
	var conf []srvConf
	inst := map[int]int{} // origin index -> instance index
	for i, op := range sc.Origins {
		if op.Kind != okAuth {
			continue
		}
		c := srvConf{keyType: keys.Types[op.Key], ttl: ttlChoices[op.TTL], tls: op.TLS, secret: secretMode(op.Secret), ident: len(conf)}
		if op.Twin {
			c.keyType, c.ident = conf[0].keyType, conf[0].ident
		}
		inst[i] = len(conf)
		conf = append(conf, c)
	}
	w := newWorld(f, conf, []*keys.Identity{client})
	valid := map[string]bool{}
	for _, h := range fam {
		valid[h] = true
	}
	for _, s := range w.srv {
		s.auth.ValidHostnameFn = func(h string) bool { return valid[h] } // every spelling of the case is a name of the deployment
	}
	n := &originNet{f: f, w: w, byHost: map[string]*origin{}, tokenOf: map[string][]string{}}
	var auths []*origin
	for i, op := range sc.Origins {
		o := &origin{idx: i, host: fam[op.Spell], kind: op.Kind, issued: map[string]bool{}}
		o.asHost = o.host
		switch op.Kind {
		case okAuth:
			o.srv = w.srv[inst[i]]
			auths = append(auths, o)
		case okAlias, okProxy:
			o.of = auths[op.Of%len(auths)]
			o.srv = o.of.srv
			if op.Kind == okProxy {
				o.asHost = o.of.host
			}
		case okPlain:
			o.code = plainCodes[op.Code]
		default:
			o.of = n.all[op.Of%len(n.all)] // an earlier origin (origin 0 always exists)
			o.code, o.hdr = parrotCodes[op.Code], op.Hdr
		}
		n.all = append(n.all, o)
		n.byHost[o.host] = o
	}
	return n
}

// describeOrigin is the label / fingerprint text of origin b as seen from a client that holds a
// proof for origin a.
func describeOrigin(a, b *origin) string {
	switch b.kind {
	case okAuth:
		s := "auth-" + relation(a.srv, b.srv)
		if a.srv != b.srv && a.srv.ident == b.srv.ident {
			s += "-same-private-key"
		}
		return s
	case okAlias, okProxy:
		s := originKindNames[b.kind]
		if a.srv != nil && b.srv == a.srv {
			return s + "-of-it"
		}
		return s + "-of-another"
	case okPlain:
		return fmt.Sprintf("plain-%d", b.code)
	}
	return fmt.Sprintf("parrot-%d", b.code)
}

func TestClientOrigins(t *testing.T) {
	name := t.Name()
	hx.Check(t, 4000, 150000, 0, func(rt *rapid.T) {
		sc := drawOriginScenario(rt)
		var labels, fp []string
		nontrivial := false
		hx.Bubble(t, rt, func() {
			client := keys.Get(keys.Types[sc.ClientKey], 0)
			cpub := mustPubBytes(client.Pub)
			ttl := clientTTLs[sc.TokenTTL]
			net := buildOrigins(rt, sc, client)
			ca := &httppeeridauth.ClientPeerIDAuth{PrivKey: client.Priv, TokenTTL: ttl}
			labels = append(labels, fmt.Sprintf("origins:%d", len(net.all)), "clientkey:"+client.Type, fmt.Sprintf("family:%d", sc.Family))
			for _, o := range net.all {
				labels = append(labels, "origin-kind:"+originKindNames[o.kind])
				fp = append(fp, fmt.Sprintf("o%d=%s/%s", o.idx, o.host, originKindNames[o.kind]))
			}
			for _, cp := range sc.Calls {
				switch cp.Sleep {
				case 1:
					time.Sleep(time.Second)
				case 2:
					time.Sleep(30 * time.Second)
				case 3:
					time.Sleep(ttl - time.Second)
				case 4:
					time.Sleep(ttl + time.Second)
				}
				o := net.all[cp.Origin]
				// which OTHER origins does the client hold a live proof / token for (harness clock)?
				var held []*origin
				for _, a := range net.all {
					if a != o && a.hasProof && (ttl == 0 || time.Since(a.provenAt) <= ttl) {
						held = append(held, a)
					}
				}
				net.begin(o)
				req, err := http.NewRequest("POST", "http://"+o.host+"/x", strings.NewReader("body"))
				if err != nil {
					rt.Fatalf("harness: %v", err)
				}
				req.Host = o.host
				if cp.GetBody {
					req.GetBody = func() (io.ReadCloser, error) { return io.NopCloser(strings.NewReader("body")), nil }
				} else {
					req.GetBody = nil
				}
				id, resp, err := ca.AuthenticateWithRoundTripper(net, req)
				if resp != nil && resp.Body != nil {
					resp.Body.Close()
				}
				flow := strings.Join(net.kinds, ">")
				outcome := "error"
				var xl []string
				for _, a := range held {
					nontrivial = true
					d := spellingDiff(a.host, o.host)
					xl = append(xl, "differs:"+d+"/"+describeOrigin(a, o))
					labels = append(labels, "xorigin:differs:"+d, "xorigin:to:"+describeOrigin(a, o))
					if d != "name" {
						labels = append(labels, "xorigin:equivalent-spelling:to:"+originKindNames[o.kind])
					}
				}
				if len(held) > 0 {
					labels = append(labels, "xorigin:call-while-holding-another-origins-token")
					if len(net.codes) > 0 && net.codes[0] != http.StatusUnauthorized && o.kind != okAuth && o.kind != okAlias {
						labels = append(labels, "xorigin:unauthenticated-endpoint-answers-non-401")
					}
				}

				// (err) no ID together with an error
				if err != nil && id != "" {
					rt.Fatalf("C19 client: server ID %s returned together with error %v", id, err)
				}
				// (id) a reported ID is justified for this request's hostname
				if err == nil && id != "" {
					switch {
					case net.provenNow(id, cpub):
						o.proven, o.provenAt, o.hasProof = id, time.Now(), true
						outcome = "id-proven"
					case len(net.kinds) == 1 && net.kinds[0] == "bearer" && net.codes[0] != http.StatusUnauthorized && len(net.leaks) == 0 &&
						o.hasProof && o.proven == id:
						outcome = "id-from-cached-token"
					default:
						var heldDesc []string
						for _, a := range held {
							heldDesc = append(heldDesc, fmt.Sprintf("%q (%s, proved %s)", a.host, originKindNames[a.kind], a.proven))
						}
						own := "never"
						if o.hasProof {
							own = "ID " + o.proven.String()
						}
						rt.Fatalf("C19 client: returned server ID %s for the request to Host %q (origin kind %s), but no response of this call carries a signature by that ID over (a challenge of this call, the client's key, %q), and it is not a replay of this origin's own token to it (proved for this Host before: %s).\n requests of the call: %s, status codes %v, foreign tokens sent: %v\n origins with a live proof at that time: %s\n origins: %s",
							id, o.host, originKindNames[o.kind], o.host, own, flow, net.codes, net.leaks, strings.Join(heldDesc, ", "), strings.Join(fp[:len(net.all)], " "))
					}
				}
				// (token) a token is replayed only to the origin that handed it out
				if len(net.leaks) > 0 {
					rt.Fatalf("C19 client: the request to Host %q (origin kind %s) carried a %s; this origin never handed it to the client (requests %s)",
						o.host, originKindNames[o.kind], strings.Join(net.leaks, "; "), flow)
				}
				// vacuity guard: an honest server reached under a name it serves is accepted, and as itself
				if o.kind == okAuth || o.kind == okAlias {
					switch {
					case err != nil && !strings.Contains(err.Error(), "GetBody"):
						rt.Fatalf(precondition+"client rejected the honest server of origin %q: %v (requests %s, codes %v)", o.host, err, flow, net.codes)
					case err == nil && id != o.srv.ident.ID:
						rt.Fatalf(precondition+"honest origin %q is %s, client reported %s", o.host, o.srv.ident.ID, id)
					}
				}
				if err != nil && strings.Contains(err.Error(), "GetBody") {
					outcome = "error-no-getbody"
				}
				labels = append(labels, "flow:"+flow, "call:"+originKindNames[o.kind]+":"+outcome)
				if len(held) > 0 {
					labels = append(labels, "xorigin:outcome:"+originKindNames[o.kind]+":"+outcome)
				}
				fp = append(fp, fmt.Sprintf("%d/s%d/%s/%s[%s]", cp.Origin, cp.Sleep, flow, outcome, strings.Join(xl, ",")))
			}
		})
		stats.Case(name, strings.Join(fp, " ; "), nontrivial, labels...)
		if stats.WantSample(name) {
			stats.Sample(name, map[string]any{"scenario": sc, "flows": fp})
		}
	})
}
