package c19

// Several server instances, and state that was minted under another secret or under none.
//
// The property: the server reports a client only for "a bearer token the server itself issued"
// or a signature over "the server's own challenge", and "any state minted under a different
// server secret is rejected". TestServerProvenance reaches other instances as one of many
// operators; this test walks that dimension directly: 2-4 instances whose secrets come from the
// application (a key of their own, or one key deliberately given to several replicas) or are
// left unset (each instance then has to draw its own), honest sessions on some of them, and
// then every kind of Authorization value shown to an instance that did not mint it - for the
// hostname it was minted for and for the other one - plus values nobody minted, made offline
// under secrets anybody can try. The oracle is the provenance oracle of world.send, and, stated
// directly: material of a foreign instance and forged material never reaches Next.

import (
	"fmt"
	"strings"
	"testing"
	"time"

	"pgregory.net/rapid"

	"verif/internal/hx"
	"verif/internal/keys"
	"verif/internal/stats"
)

type instPlan struct {
	Key    int  `json:"key"`
	TTL    int  `json:"ttl"`
	Secret int  `json:"secret"`
	Twin   bool `json:"twin"` // private key of instance 0
	// Rotated: this instance is instance 0 after a restart with the next generation of its
	// secret: same private key, TokenTTL and mode, the HmacKey differing in its last byte only
	// (HmacKey unset again if instance 0 has none).
	Rotated bool   `json:"rotated"`
	KeyVar  keyVar `json:"hmac_key"`
}

type mintPlan struct {
	Client int    `json:"client"`
	Srv    int    `json:"srv"`
	Host   int    `json:"host"`
	CI     bool   `json:"client_initiated"`
	Chal   uint64 `json:"-"`
}

const (
	showBearer   = iota // the token as issued
	showAnswer          // the challenge opaque, answered by its owner with a fresh signature made for the TARGET's key and Host
	showReplay          // the owner's original answer, verbatim
	showForgeTok        // a token nobody minted
	showForgeCh         // a challenge nobody minted, answered properly
	nShows
)

var showNames = [...]string{"bearer", "answer-for-target", "answer-replayed", "forged-token", "forged-challenge"}

type showPlan struct {
	Kind  int    `json:"kind"`
	Mat   int    `json:"mat"`
	To    int    `json:"to"`   // minted material: 0 = the minting instance (control), k>0 = the k-th other; forged: target index
	Host  int    `json:"host"` // 0 = the hostname the material was minted for, 1 = the other valid one
	Key   int    `json:"key"`
	Who   int    `json:"who"`
	Shape int    `json:"shape"`
	Sleep int    `json:"sleep_s"`
	Chal  uint64 `json:"-"`
}

type instScenario struct {
	Keys    keyFamily  `json:"hmac_keys"` // shape of the application-provided HmacKeys, see secrets_test.go
	Inst    []instPlan `json:"instances"`
	Clients [2]int     `json:"client_key"`
	Mints   []mintPlan `json:"mints"`
	Shows   []showPlan `json:"shows"`
}

func drawInstScenario(rt *rapid.T) instScenario {
	var sc instScenario
	sel := rapid.IntRange(0, 1<<16-1)
	n := rapid.IntRange(2, 4).Draw(rt, "instances")
	for i := 0; i < n; i++ {
		sc.Inst = append(sc.Inst, instPlan{
			Key:     rapid.SampledFrom([]int{0, 0, 0, 1, 2, 3}).Draw(rt, "key"),
			TTL:     rapid.IntRange(0, len(ttlChoices)-1).Draw(rt, "ttl"),
			Secret:  int(rapid.SampledFrom([]secretMode{secretOwn, secretShared, secretUnset, secretUnset}).Draw(rt, "secret")),
			Twin:    i > 0 && rapid.IntRange(0, 3).Draw(rt, "twin") == 0,
			Rotated: i > 0 && rapid.IntRange(0, 4).Draw(rt, "rotated") == 0,
			KeyVar:  drawKeyVar(rt),
		})
	}
	sc.Keys = drawKeyFamily(rt)
	for i := range sc.Clients {
		sc.Clients[i] = rapid.SampledFrom([]int{0, 0, 0, 1, 2, 3}).Draw(rt, "clientkey")
	}
	nm := rapid.IntRange(1, 2).Draw(rt, "mints")
	for i := 0; i < nm; i++ {
		sc.Mints = append(sc.Mints, mintPlan{
			Client: rapid.IntRange(0, 1).Draw(rt, "client"),
			Srv:    rapid.IntRange(0, n-1).Draw(rt, "srv"),
			Host:   rapid.IntRange(0, 1).Draw(rt, "host"),
			CI:     rapid.Bool().Draw(rt, "ci"),
			Chal:   rapid.Uint64().Draw(rt, "chal"),
		})
	}
	ns := rapid.IntRange(2, 6).Draw(rt, "shows")
	for i := 0; i < ns; i++ {
		sc.Shows = append(sc.Shows, showPlan{
			Kind:  rapid.SampledFrom([]int{showBearer, showBearer, showAnswer, showAnswer, showReplay, showForgeTok, showForgeTok, showForgeCh}).Draw(rt, "kind"),
			Mat:   sel.Draw(rt, "mat"),
			To:    rapid.SampledFrom([]int{0, 1, 1, 1, 2, 2, 3}).Draw(rt, "to"),
			Host:  rapid.SampledFrom([]int{0, 0, 1}).Draw(rt, "host"),
			Key:   sel.Draw(rt, "key"),
			Who:   sel.Draw(rt, "who"),
			Shape: sel.Draw(rt, "shape"),
			Sleep: rapid.SampledFrom([]int{0, 0, 0, 1, 10}).Draw(rt, "sleep"),
			Chal:  rapid.Uint64().Draw(rt, "chal"),
		})
	}
	return sc
}

// minted is what one honest session leaves in the hands of its client.
type minted struct {
	srv    *server
	host   string
	client int
	ci     bool
	opaque string
	cc     string
	answer []param // the step-2 header as sent
	bearer string
	at     time.Time
}

func otherHost(h string) string {
	if h == hostNames[0] {
		return hostNames[1]
	}
	return hostNames[0]
}

func TestServerInstances(t *testing.T) {
	name := t.Name()
	hx.Check(t, 4000, 250000, 0, func(rt *rapid.T) {
		sc := drawInstScenario(rt)
		idents := []*keys.Identity{keys.Get(keys.Types[sc.Clients[0]], 0), keys.Get(keys.Types[sc.Clients[1]], 1)}
		conf := make([]srvConf, len(sc.Inst))
		modes := make([]secretMode, len(sc.Inst))
		vars := make([]keyVar, len(sc.Inst))
		rotated := make([]bool, len(sc.Inst))
		for i, ip := range sc.Inst {
			modes[i], vars[i], rotated[i] = secretMode(ip.Secret), ip.KeyVar, ip.Rotated
		}
		hmacKeys, keyHow := sc.Keys.keysFor(modes, vars, rotated)
		var fp, labels []string
		for i, ip := range sc.Inst {
			conf[i] = srvConf{keyType: keys.Types[ip.Key], ttl: ttlChoices[ip.TTL], secret: modes[i], ident: i, hmac: hmacKeys[i]}
			if ip.Twin {
				conf[i].keyType, conf[i].ident = conf[0].keyType, conf[0].ident
			}
			if ip.Rotated {
				conf[i] = conf[0]
				conf[i].hmac, conf[i].secret = hmacKeys[i], secretOwn
				if hmacKeys[i] == nil {
					conf[i].secret = secretUnset
				}
				labels = append(labels, "inst:"+keyHow[i])
			}
			if hmacKeys[i] != nil {
				labels = append(labels, "hmackey:len"+keyLenClass(len(hmacKeys[i])), "hmackey:"+keyHow[i])
			}
		}
		nontrivial := false
		hx.Bubble(t, rt, func() {
			w := newWorld(rt, conf, idents)
			var mats []minted
			for _, mp := range sc.Mints {
				s := w.srv[mp.Srv]
				host := hostNames[mp.Host]
				steps := w.honest(mp.Client, s, host, mp.CI, challengeText(mp.Chal))
				m := minted{srv: s, host: host, client: mp.Client, ci: mp.CI, at: steps[0].res.at}
				m.opaque, _ = getParam(steps[0].res.www, "opaque")
				m.cc, _ = getParam(steps[0].res.www, "challenge-client")
				m.answer = cloneParams(steps[1].params)
				m.bearer, _ = getParam(steps[2].params, "bearer")
				mats = append(mats, m)
				labels = append(labels, "minted-by:"+secretNames[s.secret])
			}
			for _, sp := range sc.Shows {
				if sp.Sleep > 0 {
					time.Sleep(time.Duration(sp.Sleep) * time.Second)
				}
				var ps []param
				var target *server
				var host, rel, desc string
				forged := sp.Kind == showForgeTok || sp.Kind == showForgeCh
				if forged {
					target = w.srv[sp.To%len(w.srv)]
					host = hostNames[sp.Host]
					c := &actx{w: w, target: target, host: host, victim: -1, chal: challengeText(sp.Chal)}
					key, kl := c.guessKey(sp.Key)
					now := time.Now()
					rel = "nobody"
					if sp.Kind == showForgeTok {
						vid, _, vl := c.victimOf(sp.Who)
						ps = []param{{"bearer", b64(forge(key, forgedState{IsToken: true, PeerID: vid, Hostname: host, CreatedTime: now}))}}
						desc = kl + ":names-" + vl
						labels = append(labels, "forge-names:"+vl)
					} else {
						x := idents[sp.Who%len(idents)]
						cc := challengeText(sp.Chal ^ 0x5bd1e995)
						st := forgedState{ChallengeClient: cc, Hostname: host, CreatedTime: now}
						sig := b64(mustSign(x.Priv, clientSigData(cc, target.pub, host)))
						if sp.Shape%2 == 0 {
							st.ClientPublicKey = mustPubBytes(x.Pub)
							ps = []param{{"opaque", b64(forge(key, st))}, {"sig", sig}}
							desc = kl + ":ci"
						} else {
							ps = []param{{"public-key", b64(mustPubBytes(x.Pub))}, {"challenge-server", c.chal}, {"sig", sig}, {"opaque", b64(forge(key, st))}}
							desc = kl + ":si"
						}
					}
					labels = append(labels, "forge-key:"+kl, "forge-vs-target-secret:"+secretNames[target.secret])
				} else {
					m := mats[sp.Mat%len(mats)]
					target = m.srv
					if sp.To > 0 {
						target = w.other(m.srv, sp.To-1)
					}
					host = m.host
					if sp.Host == 1 {
						host = otherHost(m.host)
					}
					rel = relation(m.srv, target)
					switch sp.Kind {
					case showBearer:
						ps = []param{{"bearer", m.bearer}}
					case showReplay:
						ps = cloneParams(m.answer)
					default:
						c := idents[m.client]
						sig := b64(mustSign(c.Priv, clientSigData(m.cc, target.pub, host)))
						if m.ci {
							ps = []param{{"opaque", m.opaque}, {"sig", sig}}
						} else {
							ps = []param{{"public-key", b64(mustPubBytes(c.Pub))}, {"challenge-server", challengeText(sp.Chal)}, {"sig", sig}, {"opaque", m.opaque}}
						}
					}
					flow := "si"
					if m.ci {
						flow = "ci"
					}
					desc = flow + ":" + secretNames[m.srv.secret] + "->" + secretNames[target.secret]
					if target != m.srv {
						labels = append(labels, "xinst:"+secretNames[m.srv.secret]+"->"+secretNames[target.secret])
						if target.ident == m.srv.ident {
							labels = append(labels, "xinst:same-private-key")
						}
						if rel == "foreign" && m.srv.hmacKey != nil && target.hmacKey != nil {
							pc := keyPairClass(m.srv.hmacKey, target.hmacKey)
							desc += ":" + pc
							labels = append(labels, "xkey:"+pc, "xkey:len"+keyLenClass(len(m.srv.hmacKey))+"->len"+keyLenClass(len(target.hmacKey)))
						}
					}
				}
				hdr := buildHeader(ps)
				res := w.send(target, host, host, &hdr, -1) // provenance oracle inside
				// The property, stated directly for this dimension.
				if res.called && (forged || rel == "foreign") {
					rt.Fatalf("C19 server: instance %d (secret %s) reported peer %s for %s state (%s) that it never minted and that was not minted under its secret.\n host=%q Authorization=%q",
						target.idx, secretNames[target.secret], res.peer, rel, showNames[sp.Kind]+":"+desc, host, hdr)
				}
				// Vacuity guard: the very same material is good where it belongs.
				if rel == "same-instance" && sp.Host == 0 && !res.called && time.Since(m0(mats, sp).at) < 20*time.Second {
					rt.Fatalf(precondition+"%s shown to the instance that minted it, for its hostname, %s after minting, was refused (status %d)",
						showNames[sp.Kind], time.Since(m0(mats, sp).at), res.status)
				}
				hostL := "minted-host"
				if sp.Host == 1 && !forged {
					hostL = "other-host"
				} else if forged {
					hostL = "any-host"
				}
				out := fmt.Sprintf("rejected:%d", res.status)
				if res.panicked {
					out = "server-panic"
				} else if res.called {
					out = "accepted-by-" + res.how
				}
				if forged || rel == "foreign" {
					nontrivial = true
				}
				fp = append(fp, fmt.Sprintf("%s|%s|%s|%s", showNames[sp.Kind], rel, desc, hostL))
				labels = append(labels, "show:"+showNames[sp.Kind]+":"+rel, "rel:"+rel+":"+out, "host:"+hostL)
			}
			labels = append(labels, fmt.Sprintf("instances:%d", len(w.srv)))
			for _, s := range w.srv {
				labels = append(labels, "srvsecret:"+secretNames[s.secret])
			}
		})
		stats.Case(name, strings.Join(fp, " ; "), nontrivial, labels...)
		if stats.WantSample(name) {
			stats.Sample(name, map[string]any{"scenario": sc, "shows": fp})
		}
	})
}

func m0(mats []minted, sp showPlan) minted { return mats[sp.Mat%len(mats)] }
