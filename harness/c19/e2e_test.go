package c19

// Real client against real server (in memory), every key-type pair, both flows, token reuse
// and token expiry; both oracles are active. This ties the harness' spec-level wire model to
// what the real client actually sends.

import (
	"io"
	"net/http"
	"strings"
	"testing"
	"testing/synctest"
	"time"

	httppeeridauth "github.com/libp2p/go-libp2p/p2p/http/auth"

	"verif/internal/hx"
	"verif/internal/keys"
	"verif/internal/stats"
)

type passThrough struct {
	w          *world
	s          *server
	kinds      []string
	challenges []string
	serverSigs [][]byte
}

func (p *passThrough) RoundTrip(req *http.Request) (*http.Response, error) {
	var authz *string
	if v := req.Header.Get("Authorization"); v != "" {
		authz = &v
		ps := parseParams(v)
		if c, ok := getParam(ps, "challenge-server"); ok {
			p.challenges = append(p.challenges, c)
		}
		switch {
		case idxParam(ps, "bearer") >= 0:
			p.kinds = append(p.kinds, "bearer")
		case idxParam(ps, "sig") >= 0 && idxParam(ps, "challenge-server") >= 0:
			p.kinds = append(p.kinds, "s2")
		case idxParam(ps, "sig") >= 0:
			p.kinds = append(p.kinds, "c2")
		default:
			p.kinds = append(p.kinds, "c1")
		}
	} else {
		p.kinds = append(p.kinds, "none")
	}
	res := p.w.send(p.s, req.Host, req.Host, authz, 0)
	h := http.Header{}
	if res.rawWWW != "" {
		h.Set("WWW-Authenticate", res.rawWWW)
	}
	if res.rawInfo != "" {
		h.Set("Authentication-Info", res.rawInfo)
	}
	for _, ps := range [][]param{res.www, res.info} {
		if sg, ok := getParam(ps, "sig"); ok {
			if d, ok := firstDecode(sg); ok {
				p.serverSigs = append(p.serverSigs, d)
			}
		}
	}
	return &http.Response{StatusCode: res.status, Header: h, Body: http.NoBody, Request: req}, nil
}

func TestEndToEndHonest(t *testing.T) {
	name := t.Name()
	idx := 0
	for _, ct := range keys.Types {
		for _, st := range keys.Types {
			for _, tlsMode := range []bool{false, true} {
				idx++
				if !hx.Mine(idx) {
					continue
				}
				{
					synctest.Test(t, func(rt *testing.T) {
						client := keys.Get(ct, 0)
						// the secret mode rotates with the enumeration index: provided / shared / left unset (the default
						// configuration of an application that sets no HmacKey)
						sm := secretMode(idx % 3)
						w := newWorld(rt, twoServers(srvConf{keyType: st, ttl: time.Minute, tls: tlsMode, secret: sm}, srvConf{keyType: st, ttl: time.Minute, tls: tlsMode, secret: sm}), []*keys.Identity{client})
						s := w.srv[0]
						pt := &passThrough{w: w, s: s}
						ca := &httppeeridauth.ClientPeerIDAuth{PrivKey: client.Priv, TokenTTL: time.Hour}
						cpub := mustPubBytes(client.Pub)
						host := hostNames[idx%2]
						do := func(want string) {
							pt.kinds, pt.challenges, pt.serverSigs = nil, nil, nil
							req, _ := http.NewRequest("POST", "http://"+host+"/", strings.NewReader("x"))
							req.Host = host
							req.GetBody = func() (io.ReadCloser, error) { return io.NopCloser(strings.NewReader("x")), nil }
							calls := s.ncalls
							id, resp, err := ca.AuthenticateWithRoundTripper(pt, req)
							if err != nil {
								rt.Fatalf(precondition+"real client %s <-> real server %s: %v (%v)", ct, st, err, pt.kinds)
							}
							resp.Body.Close()
							if got := strings.Join(pt.kinds, ">"); got != want {
								rt.Fatalf(precondition+"unexpected request sequence %s, want %s", got, want)
							}
							if id != s.ident.ID {
								rt.Fatalf("C19 client: honest run returned %s, the server is %s", id, s.ident.ID)
							}
							if s.ncalls == calls {
								rt.Fatalf(precondition + "authenticated request never reached Next")
							}
							if want != "bearer" {
								ok := false
								for _, sg := range pt.serverSigs {
									for _, c := range pt.challenges {
										if safeVerify(s.ident.Pub, serverSigData(c, cpub, host), sg) {
											ok = true
										}
									}
								}
								if !ok {
									rt.Fatalf("C19 client: server ID returned but no server signature over (client challenge, client key, hostname) was sent")
								}
							}
						}
						do("c1>c2")                           // client-initiated
						do("bearer")                          // cached token
						time.Sleep(time.Minute + time.Second) // server-side token expiry
						do("bearer>s2>bearer")                // rejected token -> server-initiated flow
					})
				}
				stats.CaseEnumerated(name, false, "client:"+ct, "server:"+st, "srvsecret:"+secretNames[idx%3])
			}
		}
	}
}
