package c19

// The server-side world: several real ServerPeerIDAuth instances driven through ServeHTTP with
// httptest recorders, the provenance tables (which opaque / token was minted by which
// instance, when, for whom) filled from the servers' own responses, the provenance oracle
// applied to EVERY request that reaches Next, and an honest client written from the spec
// that produces valid material.
//
// Server secrets. The property speaks of "a bearer token the server itself issued" and of
// "state minted under a different server secret". An instance gets its secret in one of three
// ways (secretMode): an application-provided HmacKey that no other instance has, an
// application-provided HmacKey that the application deliberately gave to several instances
// (replicas: ONE secret, hence one "server" in the property's sense), or no HmacKey at all, in
// which case the instance has to draw a secret of its own. Instances that were given the same
// bytes form one secret domain; every other instance is a domain of its own. The oracle accepts
// state only from the target's own domain.

import (
	"bytes"
	"crypto/tls"
	"fmt"
	"net/http"
	"net/http/httptest"
	"net/url"
	"strings"
	"time"

	ic "github.com/libp2p/go-libp2p/core/crypto"
	"github.com/libp2p/go-libp2p/core/peer"
	httppeeridauth "github.com/libp2p/go-libp2p/p2p/http/auth"

	"verif/internal/keys"
)

type failer interface {
	Fatalf(format string, args ...any)
}

var hostNames = []string{"a.example.com", "b.example.net:8443"}

const invalidHost = "evil.example.org"

func validHost(h string) bool {
	for _, v := range hostNames {
		if strings.EqualFold(h, v) { // "A.EXAMPLE.COM" is let through: a third, distinct hostname string
			return true
		}
	}
	return false
}

type opaqueRec struct {
	challenge string // the challenge-client text minted together with this opaque
	host      string
	minted    time.Time
	srv       int
	// bound: minted in answer to a client-initiated request (the response carries the server's
	// signature), so the server may know the client's key from its own state. Otherwise the key
	// can only come from the request that answers the challenge.
	bound bool
}

type tokenRec struct {
	peer   peer.ID
	issued time.Time
	host   string
	srv    int
}

type secretMode int

const (
	secretOwn    secretMode = iota // HmacKey provided, different from every other instance's
	secretShared                   // HmacKey provided, the same bytes for every instance in this mode
	secretUnset                    // HmacKey left nil: the instance draws its own secret
)

var secretNames = [...]string{"own", "shared", "unset"}

type server struct {
	idx     int
	ident   *keys.Identity
	pub     []byte
	hmacKey []byte // what the application provided; nil in mode secretUnset (the harness never learns the drawn secret)
	secret  secretMode
	domain  int // secret domain, see the file comment
	ttl     time.Duration
	tls     bool
	auth    *httppeeridauth.ServerPeerIDAuth
	// engine says what handles the instance's requests (reuse_test.go): ServeHTTP, or the
	// handshake state machine driven directly - a new value per request, or ONE value re-used
	// through Reset().
	engine engine
	direct *directServer
	// skipReset (engNoReset): bit k%16 set = the pool forgets Reset() before the k-th use of the value
	skipReset uint16
	opaques map[string]*opaqueRec
	tokens  map[string]*tokenRec

	called bool
	peer   peer.ID
	ncalls int
}

// poolEntry is one parameter value seen on the wire, usable as a donor by the operators.
type poolEntry struct {
	v     string
	srv   int
	host  string
	owner int // index of the client identity it belongs to, -1 unknown
}

type challengeEntry struct {
	srv    int
	host   string
	cc     string // challenge-client
	opaque string // b64
	spk    string // server public key b64 as sent
	minted time.Time
	owner  int // client identity bound into the opaque (client-initiated), -1 otherwise
}

type world struct {
	f          failer
	srv        []*server
	idents     []*keys.Identity // client identities of the case
	known      map[peer.ID]ic.PubKey
	pool       map[string][]poolEntry
	challenges []challengeEntry
	panics     int
	accepted   int
	rejected   int
	cryptoOnly int
	// alteredAccepted counts accepted requests that contained a parameter with altered quoting
	// next to a complete intact proof.
	alteredAccepted int
	// heldSecret counts acceptances of state the harness itself made under the accepting instance's own secret (no verdict)
	heldSecret int
	// reenc: non-canonical public-key encodings the harness sent, by the ID of their BYTES (keyenc_test.go)
	reenc map[peer.ID]string
	// notes are labels that the world's own procedures (honest sessions) add to the case
	notes []string
}

type srvConf struct {
	keyType string
	ttl     time.Duration
	tls     bool
	secret  secretMode
	ident   int // identity slot: instances with the same keyType and slot share one private key
	// hmac is the HmacKey the application provides (modes secretOwn / secretShared), see
	// secrets_test.go; nil selects the classic 32-byte keys ownSecret(i) / sharedSecret().
	hmac   []byte
	engine engine
	// skipReset: see server.skipReset
	skipReset uint16
}

// twoServers is the classic deployment: two unrelated instances.
func twoServers(a, b srvConf) []srvConf {
	a.ident, b.ident = 0, 1
	return []srvConf{a, b}
}

// ownSecret is the HmacKey an application provides to instance i alone.
func ownSecret(i int) []byte {
	key := make([]byte, 32)
	for j := range key {
		key[j] = byte(37*j + 101*i + 1)
	}
	return key
}

// sharedSecret is the HmacKey an application provides to all its replicas.
func sharedSecret() []byte {
	key := make([]byte, 32)
	for j := range key {
		key[j] = byte(41*j + 7)
	}
	return key
}

func newWorld(f failer, conf []srvConf, idents []*keys.Identity) *world {
	w := &world{f: f, idents: idents, known: map[peer.ID]ic.PubKey{}, pool: map[string][]poolEntry{}}
	clear(forgedWith)
	for _, id := range idents {
		w.know(id)
	}
	for i := range conf {
		id := keys.Get(conf[i].keyType, 10+conf[i].ident)
		var key []byte
		switch {
		case conf[i].secret == secretUnset:
		case conf[i].hmac != nil:
			key = append([]byte(nil), conf[i].hmac...)
		case conf[i].secret == secretOwn:
			key = ownSecret(i)
		default:
			key = sharedSecret()
		}
		// Secret domain: instances that were given the very same bytes are one server in the
		// property's sense; every other instance (any differing byte, any other length, or a
		// secret it drew itself) is a server of its own.
		domain := i
		for j := 0; j < i && key != nil; j++ {
			if w.srv[j].hmacKey != nil && bytes.Equal(w.srv[j].hmacKey, key) {
				domain = w.srv[j].domain
				break
			}
		}
		s := &server{idx: i, ident: id, pub: mustPubBytes(id.Pub), hmacKey: key, secret: conf[i].secret, domain: domain,
			ttl: conf[i].ttl, tls: conf[i].tls, opaques: map[string]*opaqueRec{}, tokens: map[string]*tokenRec{}}
		var provided []byte // stays nil in mode secretUnset
		if key != nil {
			provided = append([]byte(nil), key...)
		}
		s.auth = &httppeeridauth.ServerPeerIDAuth{
			PrivKey:         id.Priv,
			TokenTTL:        conf[i].ttl,
			NoTLS:           !conf[i].tls,
			ValidHostnameFn: validHost,
			HmacKey:         provided,
			Next: func(p peer.ID, rw http.ResponseWriter, r *http.Request) {
				s.called = true
				s.peer = p
				s.ncalls++
				rw.WriteHeader(http.StatusOK)
			},
		}
		s.engine, s.skipReset = conf[i].engine, conf[i].skipReset
		if s.engine != engHTTP {
			s.direct = newDirectServer(s, provided)
		}
		w.know(id)
		w.srv = append(w.srv, s)
	}
	return w
}

// know enters an identity of the case under the peer ID of its key MATERIAL (keyenc_test.go).
func (w *world) know(id *keys.Identity) {
	if cid, ok := canonicalID(id.Pub); ok {
		w.known[cid] = id.Pub
	}
}

// other returns an instance different from s (the sel-th one, cyclically).
func (w *world) other(s *server, sel int) *server {
	n := len(w.srv)
	if n < 2 {
		return s
	}
	return w.srv[(s.idx+1+sel%(n-1))%n]
}

// relation names how instance a (which minted something) relates to instance b (which is shown it).
func relation(a, b *server) string {
	switch {
	case a == b:
		return "same-instance"
	case a.domain == b.domain:
		return "replica"
	}
	return "foreign"
}

type result struct {
	status   int
	called   bool
	peer     peer.ID
	www      []param
	info     []param
	rawWWW   string
	rawInfo  string
	panicked bool
	how      string // which proof justified the acceptance
	at       time.Time
}

// send delivers one request to a server instance and applies the oracle. authz == nil means
// no Authorization header at all. owner is the client identity index the minted material is
// attributed to in the donor pool (-1 = unknown); it plays no role in the oracle.
func (w *world) send(s *server, host string, sni string, authz *string, owner int) result {
	req := &http.Request{Method: "POST", URL: &url.URL{Path: "/"}, Proto: "HTTP/1.1", ProtoMajor: 1, ProtoMinor: 1,
		Header: http.Header{}, Host: host, Body: http.NoBody}
	if authz != nil {
		req.Header["Authorization"] = []string{*authz}
	}
	if s.tls {
		req.TLS = &tls.ConnectionState{ServerName: sni}
	}
	rec := httptest.NewRecorder()
	s.called, s.peer = false, ""
	var res result
	func() {
		defer func() {
			if r := recover(); r != nil {
				// A crash of the handler reports no identity; it is outside this property. It is
				// counted (label server-panic) and described in the check's report, never hidden.
				res.panicked = true
				w.panics++
			}
		}()
		if s.direct != nil {
			s.direct.ServeHTTP(rec, req)
		} else {
			s.auth.ServeHTTP(rec, req)
		}
	}()
	now := time.Now()
	res.at = now
	res.status = rec.Code
	res.called, res.peer = s.called, s.peer
	if h := rec.Header().Get("WWW-Authenticate"); h != "" {
		res.www, res.rawWWW = parseParams(h), h
		w.recordChallenge(s, host, res.www, now, authz, owner)
	}
	if h := rec.Header().Get("Authentication-Info"); h != "" {
		res.info, res.rawInfo = parseParams(h), h
	}
	if s.direct != nil && s.direct.violation != "" && !res.panicked {
		w.f.Fatalf("C19 server (%s): %s\n server=%d host=%q\n Authorization=%v\n given to the value before, since its last Reset: %q",
			engineNames[s.engine], s.direct.violation, s.idx, host, authz, s.direct.prior)
	}
	if res.called {
		hdr := ""
		if authz != nil {
			hdr = *authz
		}
		ok, how, detail := w.justify(s, host, hdr, res.peer, now, false)
		unresetProof := false
		if !ok && s.direct != nil && s.direct.unreset && s.direct.prior != "" {
			// a value that was not reset is still at the same request: what it was given since its
			// last Reset counts as carried (reuse_test.go, engNoReset)
			ok, how, detail = w.justify(s, host, hdr+" , "+s.direct.prior, res.peer, now, false)
			how += "+given-before-the-forgotten-Reset"
			if !ok {
				// The un-reset value also keeps the FIELDS of the state it verified before (opaqueState.Unmarshal
				// decodes JSON into the struct it holds; absent fields keep their old values): the kind, peer and
				// instant it goes by may come from different genuine states. Instants are therefore not judged
				// for such a value - only that what it reports comes from state this server minted for that peer
				// resp. from a signature of that peer, given to it since its last Reset.
				ok, how, detail = w.justify(s, host, hdr+" , "+s.direct.prior, res.peer, time.Time{}, false)
				how += "+given-before-the-forgotten-Reset+instants-not-judged"
			}
			detail += fmt.Sprintf("\n the value was not Reset; given to it before, since its last Reset: %q", s.direct.prior)
			unresetProof = true
		}
		if !ok {
			if n, ok := w.reenc[res.peer]; ok {
				detail += "\n NOTE: " + n
			}
			w.f.Fatalf("C19 server: Next called with peer %s (key type %s) without proof.\n server=%d (%s) host=%q time=%s\n Authorization=%q\n %s",
				res.peer, w.typeOf(res.peer), s.idx, engineNames[s.engine], host, now.UTC().Format(time.RFC3339Nano), hdr, detail)
		}
		// Values whose quoting was altered are not carried by the request (syntax_test.go): the
		// proof must be complete without them.
		if carried, altered := carriedText(hdr); altered && !unresetProof {
			if ok2, _, detail2 := w.justify(s, host, carried, res.peer, now, true); !ok2 {
				w.f.Fatalf("C19 server: Next called with peer %s (key type %s) on the strength of an ALTERED parameter value: the proof is only there if bytes that follow a value's closing quote, unbalanced or doubled quotes are ignored.\n server=%d host=%q time=%s\n Authorization=%q\n what the header carries in intact parameters: %q\n %s",
					res.peer, w.typeOf(res.peer), s.idx, host, now.UTC().Format(time.RFC3339Nano), hdr, carried, detail2)
			}
			w.alteredAccepted++
		}
		res.how = how
		w.accepted++
		if b, ok := getParam(res.info, "bearer"); ok {
			if d, ok := firstDecode(b); ok {
				s.tokens[string(d)] = &tokenRec{peer: res.peer, issued: now, host: host, srv: s.idx}
				w.addPool("bearer", b, s.idx, host, w.identIndex(res.peer))
			}
		}
		if sg, ok := getParam(res.info, "sig"); ok {
			w.addPool("server-sig", sg, s.idx, host, -1)
		}
	} else {
		w.rejected++
		if rec.Code == http.StatusOK && !res.panicked {
			w.f.Fatalf("C19 server: status 200 without calling Next (Authorization=%v)", authz)
		}
	}
	return res
}

func (w *world) typeOf(p peer.ID) string {
	for _, id := range w.idents {
		if id.ID == p {
			return id.Type
		}
	}
	return "?"
}

func (w *world) identIndex(p peer.ID) int {
	for i, id := range w.idents {
		if id.ID == p {
			return i
		}
	}
	return -1
}

func (w *world) addPool(kind, v string, srv int, host string, owner int) {
	for _, e := range w.pool[kind] {
		if e.v == v {
			return
		}
	}
	w.pool[kind] = append(w.pool[kind], poolEntry{v, srv, host, owner})
}

// recordChallenge notes an opaque minted by s (every WWW-Authenticate it emits).
func (w *world) recordChallenge(s *server, host string, www []param, now time.Time, authz *string, owner int) {
	o, ok1 := getParam(www, "opaque")
	cc, ok2 := getParam(www, "challenge-client")
	if !ok1 || !ok2 {
		return
	}
	d, ok := firstDecode(o)
	if !ok {
		return
	}
	_, hasSig := getParam(www, "sig")
	if _, dup := s.opaques[string(d)]; !dup {
		s.opaques[string(d)] = &opaqueRec{challenge: cc, host: host, minted: now, srv: s.idx, bound: hasSig}
	}
	spk, _ := getParam(www, "public-key")
	bound := -1
	if hasSig {
		bound = owner
	}
	w.challenges = append(w.challenges, challengeEntry{srv: s.idx, host: host, cc: cc, opaque: o, spk: spk, minted: now, owner: bound})
	w.addPool("opaque", o, s.idx, host, owner)
	w.addPool("challenge-client", cc, s.idx, host, owner)
	if sg, ok := getParam(www, "sig"); ok {
		w.addPool("server-sig", sg, s.idx, host, -1)
	}
}

// pubOf finds a public key whose peer ID is p: the identities of the case, a key embedded in
// the ID, or any key carried by the request itself - in whatever encoding the library's parser
// accepts; the ID of a carried key is computed by the harness from the key material
// (canonicalID), so a key written in a non-canonical way stands for its own ID only.
func (w *world) pubOf(p peer.ID, cands [][]byte) ic.PubKey {
	if k, ok := w.known[p]; ok {
		return k
	}
	if k, err := p.ExtractPublicKey(); err == nil && k != nil {
		if id, ok := canonicalID(k); ok && id == p {
			return k
		}
	}
	for _, d := range cands {
		if len(d) < 30 || len(d) > 1200 {
			continue
		}
		k, err := ic.UnmarshalPublicKey(d)
		if err != nil {
			continue
		}
		if id, ok := canonicalID(k); ok && id == p {
			return k
		}
	}
	return nil
}

// justify is the provenance oracle for one accepted request. It looks only at byte strings
// the header can decode to (independently of the parser under test) and at the harness'
// own tables. Accepting peer p is justified iff
//
//	(bearer) some value decodes to exactly a token this server issued to p, not older
//	         than the instance's TokenTTL; or
//	(sig)    some value decodes to exactly an opaque this server minted as a challenge, not
//	         older than challengeTTL, and some value is a signature that verifies under p's
//	         public key over (that challenge, this instance's public key, the request's Host).
//
// "This server" is the instance itself or an instance the application gave the very same
// HmacKey (same secret domain). State of any other instance - in particular of another instance
// that was left to draw its own secret - and state that no instance minted at all justifies
// nothing.
//
// needKey (used for the second pass over the intact parameters only, see send): when the
// challenge was not minted in answer to a client-initiated request, the server has no way to
// know the peer's public key but from the request, so the key has to be carried as well.
func (w *world) justify(s *server, host, hdr string, p peer.ID, now time.Time, needKey bool) (bool, string, string) {
	cands := decodedCandidates(hdr)
	var notes []string
	for _, d := range cands {
		if k, ok := forgedWith[string(d)]; ok && s.hmacKey != nil && bytes.Equal(k, s.hmacKey) {
			w.heldSecret++
			return true, "harness-made-state-under-this-instances-own-secret(no verdict)", ""
		}
	}
	for _, d := range cands {
		for _, o := range w.srv {
			tr := o.tokens[string(d)]
			if tr == nil {
				continue
			}
			switch {
			case o.domain != s.domain:
				notes = append(notes, fmt.Sprintf("carries a token issued by ANOTHER server instance (%d, secret %s) that does not share this instance's secret (%s)%s", o.idx, secretNames[o.secret], secretNames[s.secret], keyNote(o, s)))
			case tr.peer != p:
				notes = append(notes, fmt.Sprintf("carries a token issued to %s, not to the reported peer", tr.peer))
			case now.After(tr.issued.Add(s.ttl)):
				notes = append(notes, fmt.Sprintf("carries a token of the reported peer that expired (age %s, TTL %s)", now.Sub(tr.issued), s.ttl))
			default:
				return true, "bearer", ""
			}
		}
	}
	pub := w.pubOf(p, cands)
	if pub == nil {
		notes = append(notes, "no public key for the reported peer ID is known or carried by the request")
	}
	for _, d := range cands {
		var or *opaqueRec
		for _, o := range w.srv {
			r := o.opaques[string(d)]
			if r == nil {
				continue
			}
			if o.domain != s.domain {
				notes = append(notes, fmt.Sprintf("carries an opaque minted by ANOTHER server instance (%d, secret %s) that does not share this instance's secret (%s)%s", o.idx, secretNames[o.secret], secretNames[s.secret], keyNote(o, s)))
				continue
			}
			if or == nil || o == s {
				or = r
			}
		}
		if or == nil {
			continue
		}
		if now.After(or.minted.Add(challengeTTL)) {
			notes = append(notes, fmt.Sprintf("carries an own challenge opaque that expired (age %s)", now.Sub(or.minted)))
			continue
		}
		if pub == nil {
			continue
		}
		if needKey && !or.bound && !carriesKeyOf(p, cands) {
			notes = append(notes, "carries a live own challenge opaque of a server-initiated handshake, but the reported peer's public key is in no intact parameter")
			continue
		}
		data := clientSigData(or.challenge, s.pub, host)
		for _, sg := range cands {
			if len(sg) < 32 || len(sg) > 1024 {
				continue
			}
			if safeVerify(pub, data, sg) {
				return true, "sig", ""
			}
		}
		notes = append(notes, fmt.Sprintf("carries a live own challenge opaque (minted for host %q) but no value is a signature by the reported peer over (its challenge, this server's key, host %q)", or.host, host))
	}
	if len(notes) == 0 {
		notes = append(notes, "the header carries neither a token nor a challenge opaque minted by this instance (or by an instance given the same secret)")
	}
	return false, "", "oracle: " + strings.Join(notes, "; ")
}

// carriesKeyOf: some value is a marshalled public key whose peer ID is p.
func carriesKeyOf(p peer.ID, cands [][]byte) bool {
	for _, d := range cands {
		if len(d) < 30 || len(d) > 1200 {
			continue
		}
		k, err := ic.UnmarshalPublicKey(d)
		if err != nil {
			continue
		}
		if id, ok := canonicalID(k); ok && id == p {
			return true
		}
	}
	return false
}

// keyNote describes the two application-provided secrets of a cross-instance acceptance.
func keyNote(minter, target *server) string {
	if minter.hmacKey == nil || target.hmacKey == nil {
		return ""
	}
	return fmt.Sprintf(" [HmacKey of the minter: %d bytes %x; of this instance: %d bytes %x; %s]",
		len(minter.hmacKey), minter.hmacKey, len(target.hmacKey), target.hmacKey, keyPairClass(minter.hmacKey, target.hmacKey))
}

// ---------------------------------------------------------------------------
// Honest client (from the spec). Every step is captured.

type step struct {
	name    string // c1 c2 c3 (client-initiated) / s1 s2 s3 (server-initiated)
	params  []param
	hasHdr  bool
	srv     int
	host    string
	client  int
	matTime time.Time // when the opaque / bearer this step presents was minted
	res     result
}

func (w *world) sendParams(s *server, host string, ps []param, owner int) result {
	h := buildHeader(ps)
	return w.send(s, host, host, &h, owner)
}

func (w *world) poolParams(ps []param, srv int, host string, owner int) {
	for _, p := range ps {
		w.addPool(p.K, p.V, srv, host, owner)
	}
}

const precondition = "harness precondition (valid material must be accepted, otherwise the check is vacuous): "

// honest runs one complete handshake plus one token use. chal is the client's challenge text.
func (w *world) honest(ci int, s *server, host string, clientInitiated bool, chal string) []step {
	return w.honestEnc(ci, s, host, clientInitiated, chal, encCanonical, 0)
}

// honestEnc is honest with a client whose encoder writes its public key in the way enc
// (keyenc_test.go). With a non-canonical way the server may refuse (then the session ends there;
// completeness is not asserted); if it accepts, the oracle in send demands that the reported ID
// is the one of the key that signed.
func (w *world) honestEnc(ci int, s *server, host string, clientInitiated bool, chal string, enc, encSel int) []step {
	c := w.idents[ci]
	cpub := mustPubBytes(c.Pub)
	variant := false
	if enc != encCanonical {
		if typ, data, ok := pubKeyMaterial(c.Pub); ok {
			if b, ok := encodeKey(typ, data, enc, encSel); ok {
				cpub, variant = b, true
				w.noteEncoding(b, keyEncNames[enc], c.Type, idOfKeyBytes(canonicalKey(typ, data)))
			}
		}
	}
	flow := "si"
	if clientInitiated {
		flow = "ci"
	}
	// A re-used state machine (reuse_test.go) that refuses an honest request is not judged here
	// (completeness is no part of the property); the session ends, the case goes on, and the
	// label shows that it happened.
	reusedValue := s.engine == engReused || s.engine == engNoReset
	lenient := variant || reusedValue
	note := func(out string) {
		if reusedValue && !variant && out != "accepted" {
			w.notes = append(w.notes, "reused-engine:honest-session-"+out)
		}
		if variant {
			w.notes = append(w.notes, "keyenc-session:"+keyEncNames[enc], "keyenc-session:"+c.Type+":"+flow+":"+out, "keyenc:"+keyEncNames[enc]+":"+out)
		}
	}
	var steps []step
	var www []param
	var t1 time.Time
	if clientInitiated {
		ps := []param{{"challenge-server", chal}, {"public-key", b64(cpub)}}
		r := w.sendParams(s, host, ps, ci)
		if lenient && !r.called && (r.status != http.StatusUnauthorized || r.www == nil) {
			note("refused-at-step-1")
			return steps
		}
		if r.called || r.status != http.StatusUnauthorized || r.www == nil {
			w.f.Fatalf(precondition+"client-initiated step 1: status=%d called=%v", r.status, r.called)
		}
		w.poolParams(ps, s.idx, host, ci)
		steps = append(steps, step{"c1", ps, true, s.idx, host, ci, r.at, r})
		www, t1 = r.www, r.at
		// the server proves itself: checked here only as a sanity test of the harness' own sigData
		sg, _ := getParam(www, "sig")
		sd, _ := firstDecode(sg)
		if !variant && !safeVerify(s.ident.Pub, serverSigData(chal, cpub, host), sd) {
			w.f.Fatalf(precondition + "server signature in the client-initiated flow does not verify under the spec's data layout")
		}
	} else {
		r := w.send(s, host, host, nil, -1)
		if r.called || r.status != http.StatusUnauthorized || r.www == nil {
			w.f.Fatalf(precondition+"server-initiated step 1: status=%d called=%v", r.status, r.called)
		}
		steps = append(steps, step{"s1", nil, false, s.idx, host, ci, r.at, r})
		www, t1 = r.www, r.at
	}
	cc, _ := getParam(www, "challenge-client")
	spk, _ := getParam(www, "public-key")
	op, _ := getParam(www, "opaque")
	spkBytes, _ := firstDecode(spk)
	sig := mustSign(c.Priv, clientSigData(cc, spkBytes, host))
	var ps []param
	name := "c2"
	if clientInitiated {
		ps = []param{{"opaque", op}, {"sig", b64(sig)}}
	} else {
		name = "s2"
		ps = []param{{"public-key", b64(cpub)}, {"challenge-server", chal}, {"sig", b64(sig)}, {"opaque", op}}
	}
	r := w.sendParams(s, host, ps, ci)
	if lenient && (!r.called || s.engine == engNoReset && r.peer != c.ID) {
		note("refused-at-step-2")
		return steps
	}
	if !r.called || r.peer != c.ID {
		w.f.Fatalf(precondition+"%s: honest %s client not accepted: status=%d called=%v peer=%s", name, c.Type, r.status, r.called, r.peer)
	}
	note("accepted")
	w.poolParams(ps, s.idx, host, ci)
	steps = append(steps, step{name, ps, true, s.idx, host, ci, t1, r})
	bearer, ok := getParam(r.info, "bearer")
	if !ok {
		w.f.Fatalf(precondition + "no bearer token in Authentication-Info")
	}
	ps = []param{{"bearer", bearer}}
	r3 := w.sendParams(s, host, ps, ci)
	if reusedValue && (!r3.called || s.engine == engNoReset && r3.peer != c.ID) {
		note("refused-at-step-3")
		return steps
	}
	if !r3.called || r3.peer != c.ID {
		w.f.Fatalf(precondition+"fresh token not accepted: status=%d called=%v peer=%s", r3.status, r3.called, r3.peer)
	}
	name = "c3"
	if !clientInitiated {
		name = "s3"
	}
	steps = append(steps, step{name, ps, true, s.idx, host, ci, r.at, r3})
	return steps
}
