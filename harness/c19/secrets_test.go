package c19

// Shape of application-provided HmacKeys.
//
// The property: "any state minted under a different server secret is rejected". HmacKey is an
// exported []byte field: the operator chooses its length and content. Two secrets are different
// as soon as ONE byte differs or the lengths differ, wherever that is. The cases therefore draw
// a key FAMILY per case: a base key of a length below, at and above the digest size (32) and the
// block size (64) of the HMAC-SHA256 named in the property's anchors, and per instance either
// exactly the base key (replicas: one secret), or a variant of it - ONE byte changed (first,
// middle, last, or at offset 31 / 32 / 63 / 64), the base key extended by some bytes, the base key
// cut short (one key a proper prefix of the other) - or unrelated material of another length. A
// "rotated" instance is the successor of instance 0 after a restart with the next generation of
// its secret: same private key and configuration, the key differing in its last byte only.
//
// All key bytes are non-zero. That keeps "different bytes" and "different secret" the same
// thing: HMAC pads keys shorter than its block with zero bytes, so K and K||0x00 are one secret
// by the definition of HMAC, and nothing here may depend on telling them apart.

import "bytes"

var keyLens = []int{1, 16, 31, 32, 33, 40, 48, 63, 64, 65, 80, 128, 200}

type keyFamily struct {
	BaseLen int    `json:"base_len"` // index into keyLens
	Seed    uint64 `json:"seed"`
}

const (
	kvUnrelated = iota // other material, of its own length
	kvOneByte          // parent with ONE byte changed (position class Pos)
	kvExtended         // parent followed by 1 / 4 / 32 more bytes
	kvTruncated        // parent without its last 1 / 4 / half of the bytes
	nKeyVars
)

var keyVarNames = [...]string{"unrelated", "one-byte", "extended", "truncated"}

type keyVar struct {
	Rel int `json:"rel"`
	Pos int `json:"pos"`
	Len int `json:"len"` // kvUnrelated: index into keyLens
}

// keyMaterial returns n deterministic non-zero bytes.
func keyMaterial(seed uint64, n int) []byte {
	b := make([]byte, n)
	x := seed*0x9e3779b97f4a7c15 | 1
	for i := range b {
		x ^= x << 13
		x ^= x >> 7
		x ^= x << 17
		b[i] = byte(1 + (x>>24)%255)
	}
	return b
}

// otherByte returns a non-zero byte different from b; different salts (0..200) give different bytes.
func otherByte(b byte, salt int) byte {
	return byte((int(b)-1+1+salt%200)%255 + 1)
}

// changeByte returns a copy of key with the byte at pos replaced.
func changeByte(key []byte, pos, salt int) []byte {
	out := append([]byte(nil), key...)
	out[pos] = otherByte(out[pos], salt)
	return out
}

// bytePositions lists the positions a one-byte difference is tried at: the ends, the middle and
// the offsets around the digest and block size of HMAC-SHA256.
func bytePositions(n int) []int {
	var out []int
	for _, p := range []int{0, n / 2, n - 1, 31, 32, 63, 64, n - 2} {
		if p >= 0 && p < n {
			out = append(out, p)
		}
	}
	return out
}

// variant derives instance inst's own key from parent.
func (f keyFamily) variant(parent []byte, v keyVar, inst int) ([]byte, string) {
	n := len(parent)
	switch v.Rel {
	case kvExtended:
		k := []int{1, 4, 32}[v.Pos%3]
		return append(append([]byte(nil), parent...), keyMaterial(f.Seed+uint64(7*inst+3), k)...), keyVarNames[v.Rel]
	case kvTruncated:
		k := []int{1, 4, n / 2}[v.Pos%3]
		if k > 0 && k < n {
			return append([]byte(nil), parent[:n-k]...), keyVarNames[v.Rel]
		}
	case kvUnrelated:
		return keyMaterial(f.Seed+uint64(1000+inst), keyLens[v.Len%len(keyLens)]), keyVarNames[v.Rel]
	}
	ps := bytePositions(n)
	return changeByte(parent, ps[v.Pos%len(ps)], inst), keyVarNames[kvOneByte]
}

// keysFor materialises the HmacKey of every instance: nil for secretUnset, the base key for
// secretShared, a variant of the base key for secretOwn. rotated[i] makes instance i the successor
// of instance 0 (the caller copies the rest of the configuration): the next generation of
// instance 0's key if it has one, unset otherwise. Own keys are pairwise different and different
// from the base key by construction.
func (f keyFamily) keysFor(modes []secretMode, vars []keyVar, rotated []bool) ([][]byte, []string) {
	base := keyMaterial(f.Seed, keyLens[f.BaseLen%len(keyLens)])
	out := make([][]byte, len(modes))
	how := make([]string, len(modes))
	for i, m := range modes {
		if i > 0 && rotated != nil && rotated[i] {
			if out[0] == nil {
				how[i] = "rotated-unset"
				continue
			}
			out[i], how[i] = changeByte(out[0], len(out[0])-1, i), "rotated-generation"
		} else {
			switch m {
			case secretUnset:
				how[i] = "unset"
				continue
			case secretShared:
				out[i], how[i] = append([]byte(nil), base...), "base"
				continue
			}
			out[i], how[i] = f.variant(base, vars[i], i)
		}
		for clash := true; clash; {
			clash = bytes.Equal(out[i], base)
			for j := 0; j < i; j++ {
				clash = clash || (out[j] != nil && bytes.Equal(out[i], out[j]))
			}
			if clash {
				out[i] = changeByte(out[i], len(out[i])-1, 50+i)
			}
		}
	}
	return out, how
}

func keyLenClass(n int) string {
	switch {
	case n < 32:
		return "<32"
	case n == 32:
		return "32"
	case n < 64:
		return "33-63"
	case n == 64:
		return "64"
	}
	return ">64"
}

// keyPairClass describes how two different provided keys relate: the length of their common
// prefix, and whether one is a proper prefix of the other.
func keyPairClass(a, b []byte) string {
	cp := 0
	for cp < len(a) && cp < len(b) && a[cp] == b[cp] {
		cp++
	}
	pre := ""
	if cp == len(a) || cp == len(b) {
		pre = ":one-is-prefix"
	}
	switch {
	case cp == 0:
		return "common-prefix=0"
	case cp < 32:
		return "common-prefix=1-31" + pre
	case cp < 64:
		return "common-prefix=32-63" + pre
	}
	return "common-prefix>=64" + pre
}

// relatedSecret returns a secret that is NOT key but close to it: what somebody holds who knows
// only the beginning of the key, an older generation of it, or a padded copy.
func relatedSecret(key []byte, sel int) ([]byte, string, bool) {
	if len(key) == 0 || bytes.IndexByte(key, 0) >= 0 {
		return nil, "", false // zero bytes: a shorter key may be the same HMAC secret
	}
	n := len(key)
	switch k := sel % 6; {
	case k == 0 && n > 32:
		return append([]byte(nil), key[:32]...), "target-first32-secret", true
	case k == 1 && n > 64:
		return append([]byte(nil), key[:64]...), "target-first64-secret", true
	case k == 2 && n > 1:
		return append([]byte(nil), key[:n-1]...), "target-minus-last-secret", true
	case k == 3:
		return append(append([]byte(nil), key...), otherByte(key[0], sel/6)), "target-extended-secret", true
	case k == 4:
		ps := bytePositions(n)
		return changeByte(key, ps[(sel/6)%len(ps)], sel/6), "target-one-byte-secret", true
	}
	return changeByte(key, n-1, sel/6), "target-last-byte-secret", true
}
