package c19

// The GRANULARITY of time: "any use after expiry ... is rejected", "every time offset relative to
// challenge and token lifetimes". The statement's rule is exact - a challenge lives 5 min, a token
// TokenTTL, and an instant is a point on the clock, not a number of seconds or milliseconds. A
// server that writes the time of issue into its state with less precision than the clock has
// (seconds, milliseconds; rounded to the nearest or up) lets that state live longer than its
// lifetime whenever the time of issue does not fall on a multiple of its unit.
//
// Generated dimension (used by TestServerProvenance, and walked completely by
// TestServerExpiryInstants below):
//
//	issue instant: the virtual clock is moved off the whole second before anything is minted, by
//	               a number of nanoseconds with arbitrary sub-second / sub-millisecond part
//	               (..:00.0007 s, ..:00.000499999 s, ..:00.9995 s, ...); honest sessions are
//	               separated by gaps of the same granularity;
//	use instant:   lifetime + 1 ns / + 0.4 ms / + 0.6 ms / + 0.4 s / + 0.6 s / + 1 s (and, not judged,
//	               lifetime - 1 ns and exactly the lifetime) after the instant of issue.
//
// Oracle: unchanged - justify() in world_test.go compares time.Time values at full precision
// (now.After(issued.Add(ttl))); "issued" is the virtual instant at which the harness saw the
// server hand the value out (virtual time does not move while a request is handled).

import (
	"fmt"
	"sort"
	"testing"
	"testing/synctest"
	"time"

	"pgregory.net/rapid"

	"verif/internal/hx"
	"verif/internal/keys"
	"verif/internal/stats"
)

// subMsInstants: sub-millisecond parts (ns) around the points where rounding to a coarser unit
// changes direction.
var subMsInstants = []int{0, 1, 400_000, 499_999, 500_000, 500_001, 600_000, 700_000, 999_999}

// drawSubSecond draws a sub-second part in nanoseconds: any millisecond, any sub-millisecond part.
func drawSubSecond(rt *rapid.T, label string) int {
	ms := rapid.OneOf(rapid.SampledFrom([]int{0, 0, 499, 500, 999}), rapid.IntRange(0, 999)).Draw(rt, label+"-ms")
	sub := rapid.OneOf(rapid.SampledFrom(subMsInstants), rapid.IntRange(0, 999_999)).Draw(rt, label+"-ns")
	return ms*1_000_000 + sub
}

// fracClass names where an instant lies within its millisecond and within its second.
func fracClass(t time.Time) string {
	ns := t.Nanosecond()
	sub := ns % 1_000_000
	switch {
	case ns == 0:
		return "whole-second"
	case sub == 0 && ns < 500_000_000:
		return "whole-ms,s+<.5"
	case sub == 0:
		return "whole-ms,s+>=.5"
	case sub < 500_000:
		return "ms+<.5"
	default:
		return "ms+>=.5"
	}
}

// useOffsets: when a value is shown again, relative to the end of its lifetime.
var useOffsets = []struct {
	d    time.Duration
	name string
}{
	{-1, "ttl-1ns"}, {0, "ttl"}, {1, "ttl+1ns"}, {400 * time.Microsecond, "ttl+0.4ms"}, {600 * time.Microsecond, "ttl+0.6ms"},
	{time.Millisecond, "ttl+1ms"}, {400 * time.Millisecond, "ttl+0.4s"}, {600 * time.Millisecond, "ttl+0.6s"}, {time.Second, "ttl+1s"},
}

// issueFractions: sub-second parts (ns) of the instant of issue walked by the enumeration.
var issueFractions = []int{0, 1, 400_000, 499_999, 500_000, 500_001, 700_000, 999_999, 1_500_000, 123_456_789,
	499_999_999, 500_000_000, 500_700_000, 999_499_999, 999_500_000, 999_999_999}

// TestServerExpiryInstants: every client key type x both flows x every issue fraction; one honest
// session, then its token and its challenge answer are shown again at every use offset (in the
// order of the clock). Every acceptance is judged by the provenance oracle inside send().
func TestServerExpiryInstants(t *testing.T) {
	name := t.Name()
	idx := 0
	for kt, ktName := range keys.Types {
		for fl := 0; fl < 2; fl++ {
			for fi, frac := range issueFractions {
				idx++
				if !hx.Mine(idx) {
					continue
				}
				ci := fl == 0
				ttl := ttlChoices[(idx+fi)%len(ttlChoices)]
				eng := engine(idx % 3)
				var labels []string
				synctest.Test(t, func(rt *testing.T) {
					time.Sleep(time.Duration(idx%7)*time.Second + time.Duration(frac)) // off the whole second
					client := keys.Get(ktName, 0)
					w := newWorld(rt, []srvConf{{keyType: keys.Types[(kt+idx)%len(keys.Types)], ttl: ttl, secret: secretOwn, engine: eng}}, []*keys.Identity{client})
					s := w.srv[0]
					host := hostNames[idx%2]
					steps := w.honest(0, s, host, ci, challengeText(uint64(9000+idx)))
					if len(steps) < 3 { // only a re-used state machine may refuse an honest request unjudged (see honestEnc)
						labels = append(labels, "honest-session-refused")
						return
					}
					answer, token := steps[1], steps[2]
					if got := token.matTime.Nanosecond(); got != frac {
						rt.Fatalf("harness: issue instant has sub-second part %d ns, want %d", got, frac)
					}
					labels = append(labels, "issue-frac:"+fracClass(token.matTime))
					type probe struct {
						at   time.Time
						kind string
						off  string
						ps   []param
					}
					var probes []probe
					for _, o := range useOffsets {
						probes = append(probes,
							probe{token.matTime.Add(ttl + o.d), "token", o.name, token.params},
							probe{answer.matTime.Add(challengeTTL + o.d), "challenge", o.name, answer.params})
					}
					sort.SliceStable(probes, func(i, j int) bool { return probes[i].at.Before(probes[j].at) })
					for _, p := range probes {
						if d := time.Until(p.at); d > 0 {
							time.Sleep(d)
						}
						if !time.Now().Equal(p.at) {
							rt.Fatalf("harness: clock at %s, probe planned for %s", time.Now(), p.at)
						}
						res := w.sendParams(s, host, p.ps, -1) // provenance oracle (full-precision expiry) inside
						out := "rejected"
						if res.called {
							out = "accepted"
						}
						labels = append(labels, fmt.Sprintf("instant:%s:%s:%s", p.kind, p.off, out))
					}
				})
				flow := "si"
				if ci {
					flow = "ci"
				}
				labels = append(labels, "client:"+ktName+":"+flow, "engine:"+engineNames[eng], "token-ttl:"+ttl.String())
				stats.CaseEnumerated(name, true, labels...)
			}
		}
	}
	stats.Exhaustive(name)
}
