// Package c19 checks property C19: HTTP Peer-ID auth reports only proven identities.
package c19

import (
	"testing"

	"verif/internal/hx"
	"verif/internal/stats"
)

func TestMain(m *testing.M) {
	stats.Describe("exploration",
		"Server side: per case two real ServerPeerIDAuth instances (different private keys of any of the four key types, different HMAC secrets, "+
			"TokenTTL below / above the challenge lifetime, NoTLS or TLS mode) are driven through ServeHTTP inside a virtual-time bubble. An honest "+
			"client written from the spec runs 1-3 complete handshakes (client- and server-initiated, all four client key types, two hostnames); "+
			"every request and response is captured. Then 1-5 attack requests are built from a captured step (or from any challenge seen so far, "+
			"answered by any identity) with 0-3 operators: bit flips / truncation inside decoded opaque, bearer, sig, public-key, challenge values; "+
			"drop, duplicate, reorder, re-case parameters; equivalent and non-equivalent base64 re-encodings; swap with the same parameter of another "+
			"session / client / server / hostname; challenge opaque as bearer and token as opaque; fresh signatures by any identity over any "+
			"(challenge, server key, hostname) incl. empty / omitted parts; state forged under a foreign secret, zero MAC, spliced MAC, rewritten "+
			"peer ID; header formatting noise; other instance, other / invalid / re-cased Host, SNI mismatch; virtual sleeps to just before, at and "+
			"just after the challenge and token lifetimes. ORACLE (provenance, applied to every request that reaches Next, honest ones included): "+
			"some value of the header decodes to exactly a token this instance issued to the reported peer and not older than TokenTTL, or to "+
			"exactly a challenge opaque this instance minted not more than 5 min ago together with a signature that verifies under the reported "+
			"peer's key over (that challenge, this instance's public key, the request's Host). Client side: the real ClientPeerIDAuth talks to a "+
			"harness server (RoundTripper) that answers each request honestly or with a generated deviation (wrong signer, wrong / stale / foreign "+
			"challenge, wrong client key, wrong / omitted hostname, mutated or replayed signature, dropped / duplicated / swapped public-key, "+
			"refused client-initiated flow, rejected token, swapped header names, status codes), over 1-4 calls (sessions of the same client key, two "+
			"hostnames) with token reuse and expiry. On top of that the finished WWW-Authenticate / Authentication-Info value gets 0-2 parameter-level "+
			"operators - add / drop / duplicate / swap-the-value of any of challenge-server, challenge-client, opaque, public-key, sig, bearer, hostname, "+
			"client-public-key (also the ones an honest server never sends), front or back, the donor value taken from an earlier session of this "+
			"client (either direction), reflected from this session's request, or fresh - and, for half of the signatures made for another context "+
			"(stale / earlier-session / altered / empty challenge, other client key, other hostname, replayed earlier signature) and 1/8 of the "+
			"ordinary ones, the impostor's replay shape: the header also states, as parameters, the challenge-server / client-public-key / hostname "+
			"values the signature was really made for. The oracle's tables are filled from the final header on the wire. A "+
			"returned server ID must own a signature sent in that call over (a challenge the client sent in that call, the client's key, the "+
			"hostname), or be the ID proven when the cached token was obtained. "+
			"NON-TRIVIAL = at least one operator / deviation / cross-target / expiry shift applied; DISTINCT = distinct (base step, operator+parameter "+
			"list, target, host class, sleep class) resp. distinct response-plan list.",
		"challenge lifetime is the implementation constant 5 min (handshake/server.go challengeTTL); acceptance exactly at the TTL instant is allowed either way",
		"core/crypto Sign/Verify are trusted (property C08); a signature counts as proof when Verify accepts it under the reported peer's key over the exact expected bytes (ECDSA trailing-bytes malleability therefore never raises an alarm)",
		"not asserted: a token minted under hostname A being refused under hostname B of the same instance; an opaque minted under hostname A being refused under B when the signature covers B; completeness (honest material being accepted) is only a harness precondition",
		"a panic of the handler reports no identity and is counted (label server-panic), not judged by this property",
	)
	hx.Main(m)
}
