// Package c19 checks property C19: HTTP Peer-ID auth reports only proven identities.
package c19

import (
	"testing"

	"verif/internal/hx"
	"verif/internal/stats"
)

func TestMain(m *testing.M) {
	stats.Describe("exploration",
		"Server side: per case 2-3 (TestServerInstances: 2-4) real ServerPeerIDAuth instances (private keys of any of the four key types, 1/5 of the "+
			"further instances with the SAME private key as instance 0; per instance the secret is an application-provided HmacKey of its own, an "+
			"HmacKey the application gave to several instances alike (replicas: one secret), or HmacKey left UNSET so that the instance has to draw "+
			"its own secret - the default configuration; the provided keys of a case form one key FAMILY: a base key of 1, 16, 31, 32, 33, 40, 48, 63, 64, 65, 80, 128 "+
			"or 200 non-zero bytes (below, at and above the digest and block size of HMAC-SHA256), given unchanged to the replicas; every instance with a key of its own gets a "+
			"variant - ONE byte changed (first, middle, last but one, last, offset 31 / 32 / 63 / 64), the base key extended by 1 / 4 / 32 bytes, cut by 1 / 4 / half of its bytes "+
			"(one key a proper prefix of the other) - or unrelated material of another length; "+
			"TokenTTL below / above the challenge lifetime, NoTLS or TLS mode) are driven through ServeHTTP inside a virtual-time bubble. An honest "+
			"client written from the spec runs 1-3 complete handshakes (client- and server-initiated, all four client key types, two hostnames); "+
			"every request and response is captured. Then 1-5 attack requests are built from a captured step (or from any challenge seen so far, "+
			"answered by any identity) with 0-3 operators: bit flips / truncation inside decoded opaque, bearer, sig, public-key, challenge values; "+
			"drop, duplicate, reorder, re-case parameters; equivalent and non-equivalent base64 re-encodings; swap with the same parameter of another "+
			"session / client / server / hostname; challenge opaque as bearer and token as opaque; fresh signatures by any identity over any "+
			"(challenge, server key, hostname) incl. empty / omitted parts; state nobody minted - tokens and challenge states (server- and "+
			"client-initiated shape, properly signed for the target) made offline under a secret anybody can try: no key, 32 / 64 zero bytes, the "+
			"hostname, the target's public key, its peer ID, the secret of an unrelated deployment, the provided secret of another instance outside "+
			"the target's secret domain - naming a client of the case, a peer no server has ever seen, or the server itself; zero MAC, spliced MAC, rewritten "+
			"peer ID; or under a secret CLOSE to the target's provided one - its first 32 / 64 bytes, all but its last byte, one byte changed, one byte appended; "+
			"header formatting noise; the SYNTAX around one value (applied last, to the final parameter list): bytes glued to the closing quote (k=\"v\"J), a quote "+
			"plus bytes inserted before it (k=\"v\"J\"; J = base64 text, padding, another genuine value, the same value, other bytes), missing closing / opening quote, "+
			"doubled quotes on either or both sides, a quote inside the value, bytes before the opening quote, single quotes, no quotes, blanks around '=' or inside the "+
			"quotes, trailing tab, backslash before the closing quote; any other instance as target, other / invalid / re-cased Host, SNI mismatch; virtual sleeps to just before, at and "+
			"just after the challenge and token lifetimes. INSTANTS (instants_test.go) have nanosecond granularity: in 3/4 of the cases of TestServerProvenance / TestServerReuse the virtual clock is moved "+
			"off the whole second before anything is minted (any millisecond of the second, any sub-millisecond part, with 0 / 1 / 400 000 / 499 999 / 500 000 / 500 001 / 600 000 / 700 000 / 999 999 ns "+
			"preferred), 1/3 of the honest sessions follow after a gap with such a part, and a value is shown again 1 s before the end of its lifetime (challenge: 5 min; token: TokenTTL), exactly at it, "+
			"and 1 ns / 0.4 ms / 0.6 ms / 0.4 s / 1 s after it; the label expiry:<use offset>@<where the issue instant lies in its millisecond and second>:<outcome> counts genuine, unaltered material shown "+
			"to its own server at these instants. TestServerExpiryInstants enumerates the dimension completely: every client key type x both flows x 16 sub-second parts of the issue instant (128 sessions, "+
			"engines and TokenTTLs in rotation), token and challenge answer each shown again at lifetime - 1 ns, + 0, + 1 ns, + 0.4 ms, + 0.6 ms, + 1 ms, + 0.4 s, + 0.6 s, + 1 s. TestServerInstances walks the instance dimension directly: 1-2 honest sessions, then 2-6 "+
			"presentations of a token as issued / the challenge answered by its owner with a fresh signature for the TARGET's key and Host / the "+
			"original answer verbatim / a forged token / a forged challenge, to the minting instance (control, must be accepted while fresh), a replica or "+
			"a foreign instance, under the hostname it was minted for or the other one; 1/5 of the further instances are ROTATED: instance 0 after a restart with the next "+
			"generation of its secret (same private key and configuration, HmacKey differing in its last byte only; unset again if instance 0 has none). "+
			"TestServerKeyShapes enumerates the key-shape dimension completely: every base length x every variant (152 key pairs; unrelated deployments on even, rotation of one "+
			"server on odd cases), tokens / freshly answered challenges / replayed answers of each instance shown to the other, tokens forged under every secret close to the "+
			"target's shown to the target. TestServerQuoting enumerates the syntax dimension completely: every parameter of a valid challenge answer (both flows, all client key "+
			"types) and of a valid token request x 17 ways of writing it x glued bytes (768 requests, each next to its accepted unaltered control). "+
			"ENCODINGS of a public key (keyenc_test.go): a public-key parameter is the protobuf message {1: KeyType, 2: Data}; besides the canonical bytes the harness writes the very same key in 15 "+
			"other ways - an unknown field (varint, bytes, fixed32, fixed64, field numbers 3..15 and 1000..1999) after, before or between the two fields, the fields re-ordered, over-long varints "+
			"for the type, the length or a tag, the type field twice (same value; a wrong value first - the last one counts), the data field twice, and another form of Data itself (uncompressed / "+
			"hybrid point for Secp256k1, non-minimal DER length for RSA / ECDSA). In TestServerProvenance 1/4 of the honest sessions are run by a client whose encoder writes its key in such a way "+
			"(both flows: the key travels as a parameter, or lands in the opaque), and the operator keyenc re-encodes the public-key parameter of any attack request; TestServerReuse does it in 1/6 of "+
			"its requests; TestClientProvenance lets the harness server claim V's key in such a way (deviation Claim 6). TestServerKeyEncodings enumerates the dimension completely: every client key type "+
			"x both flows x every way of writing x every engine (378 sessions). The server / client may refuse such a key; whatever is accepted is judged by the provenance oracle, for which the peer ID "+
			"of a key - known, embedded in an ID, or carried by the request in any encoding - is computed by the harness from the key MATERIAL by the peer-ID spec (canonical protobuf of the "+
			"standard-library key; identity multihash up to 42 bytes, SHA2-256 otherwise), never by the library's MarshalPublicKey / IDFromPublicKey of a key it parsed: a key written in a non-canonical "+
			"way proves the ID of the key, never an ID of the bytes. "+
			"HISTORY / ENGINE (reuse_test.go): every server instance handles its requests through ServerPeerIDAuth.ServeHTTP (4/7 in TestServerProvenance), or through the handshake state machine driven "+
			"directly (hook p2p/http/auth/export_verif.go) the way ServeHTTP drives it - a new value per request (1/7), or ONE value re-used for all requests of the instance through Reset(), as a "+
			"pool or the package benchmark do (2/7); all engines are held to the same oracle. TestServerReuse: one deployment (one private key, one HmacKey) served by 1-3 workers, worker 0 a re-used "+
			"state machine, the others of any engine; 4-12 requests, each to a drawn worker: begin server- / client-initiated, answer any challenge seen so far (latest or any; by its owner or somebody "+
			"else; for its host or another), use any token received, present any challenge opaque seen so far as bearer token (alone or with key and signature), a token as opaque, a refused request "+
			"(unparsable, incomplete, one bit of a genuine token / opaque flipped, a signature over another challenge), virtual sleeps of 1 s / past the challenge lifetime / around TokenTTL. The label "+
			"reuse:X->Y counts what a re-used value had handled just before each request (X, Y in challenge, answer-accepted, token-accepted, parse-error, refused, refused:invalid-HMAC / "+
			"challenge-expired / token-expired followed by the new challenge). A re-used value that refuses an honest request is not judged (label reused-engine:honest-session-refused-*, 0 on a correct tree). "+
			"RESET FORGOTTEN (reuse_test.go, engine handshake-reset-forgotten): in TestServerReuse worker 0 (1/3 of the cases) and any further worker (1/4) is ONE re-used value whose pool forgets Reset() before "+
			"every use, before a drawn half of the uses, or before a drawn quarter (16-bit mask over the use count); PeerID() is asked after every Run() that returned nil. Such a value is, by the contract of Reset(), still at the same "+
			"request: an ID it reports must be proven (same provenance rules, evaluated at the instant and for the Host of the current request) by what it was given since its last Reset() - label "+
			"act:*:accepted-by-*+given-before-the-forgotten-Reset counts acceptances that needed an earlier request's values - and a Run() that only issued a challenge (SetHeader wrote WWW-Authenticate) must report no peer. "+
			"The label reset-forgotten:X->Y counts what the un-reset value had handled before (X) and what the request it then handled came to (Y; no-new-challenge = the value is still at the refused request). "+
			"ORACLE (provenance, applied to every request that reaches Next, honest ones included): "+
			"some value of the header decodes to exactly a token this server issued to the reported peer and not older than TokenTTL, or to "+
			"exactly a challenge opaque this server minted not more than 5 min ago together with a signature that verifies under the reported "+
			"peer's key over (that challenge, this instance's public key, the request's Host); 'this server' = the instance itself or an instance "+
			"the application gave the very same HmacKey; state of any other instance (in particular of another instance with an unset HmacKey) and "+
			"state no instance minted justify nothing. A value counts only if the request CARRIES it in a parameter whose quoting is intact: a token (delimited by blank, tab, comma; "+
			"also tried with separators between a pair of quotes belonging to the value, RFC 7235) that holds no double quote, or exactly two, the second one being its last byte; "+
			"an accepted request that contains any other token must be justified by its intact parameters alone, and then the reported peer's public key must be among them "+
			"unless the challenge was minted in answer to a client-initiated request (the server knows the key from its own state). Secrets are the same only if the provided "+
			"bytes are identical. Client side: the real ClientPeerIDAuth talks to a "+
			"harness server (RoundTripper) that answers each request honestly or with a generated deviation (wrong signer, wrong / stale / foreign "+
			"challenge, wrong client key, wrong / omitted hostname, mutated or replayed signature, dropped / duplicated / swapped public-key, "+
			"refused client-initiated flow, rejected token, swapped header names, status codes), over 1-4 calls (sessions of the same client key, two "+
			"hostnames) with token reuse and expiry. On top of that the finished WWW-Authenticate / Authentication-Info value gets 0-2 parameter-level "+
			"operators - add / drop / duplicate / swap-the-value of any of challenge-server, challenge-client, opaque, public-key, sig, bearer, hostname, "+
			"client-public-key (also the ones an honest server never sends), front or back, the donor value taken from an earlier session of this "+
			"client (either direction), reflected from this session's request, or fresh - and, for half of the signatures made for another context "+
			"(stale / earlier-session / altered / empty challenge, other client key, other hostname, replayed earlier signature) and 1/8 of the "+
			"ordinary ones, the impostor's replay shape: the header also states, as parameters, the challenge-server / client-public-key / hostname "+
			"values the signature was really made for. The oracle's tables are filled from the final header on the wire. A "+
			"returned server ID must own a signature sent in that call over (a challenge the client sent in that call, the client's key, the "+
			"hostname), or be the ID proven when the cached token was obtained. "+
			"CLIENT STATE MACHINE (clientmachine_test.go, TestClientMachine): handshake.PeerIDAuthHandshakeClient (hook export_verif.go, alias VerifHandshakeClient) is driven directly through SetInitiateChallenge / ParseHeader / Run / AddHeader "+
			"(client- and server-initiated, all four key types for client, V and A, two hostnames) for 1-4 rounds against the harness server, which per round (one behaviour for the whole handshake in 3/4 of the rounds, a drawn one otherwise) states V's key, A's key or no key and sends a signature by V "+
			"as the spec says, by A with its own key, 64 zero bytes, none (a refused client-initiated flow), a genuine signature of V for another context (other challenge, other hostname, other client key, empty challenge, the challenge of an earlier handshake), V's signature with one bit flipped, or the client's own signature reflected; in the honest header for the request, "+
			"always as WWW-Authenticate, always as Authentication-Info (key included), or everything in both headers; after an error the caller stops or goes on regardless (1/2). PeerID() is asked at EVERY point: after SetInitiateChallenge, after every ParseHeader (nil or error) and after every Run (nil or error). ORACLE per probe: an error / empty ID, or the ID of a key under which some sig value "+
			"given to this client so far verifies over (a challenge-server this value sent so far, the client's key, its Hostname). Labels probe:<point>:key-stated-nothing-proven:no-id count probes made while a header had stated a public key and no valid signature of a stated key had arrived (NON-TRIVIAL = at least one such probe); asked-after-rejected-answer-nothing-proven = such a probe after Run() returned an error. "+
			"TestClientOrigins walks the origin dimension of the client: ONE real ClientPeerIDAuth (all four key types, TokenTTL unlimited / 1 min / 1 h) makes "+
			"2-6 calls, 0 s / 1 s / 30 s / TokenTTL-1 s / TokenTTL+1 s apart, to 2-4 ORIGINS whose Host strings are distinct spellings out of one family "+
			"(a DNS name, localhost, an IPv4 literal, an IPv6 literal: the same name with another port, without port, in other letter case, with a trailing dot; "+
			"in 1/6 of the cases one origin has an unrelated name instead, as control); the harness network routes by the exact Host string. Origin 0 is a real "+
			"ServerPeerIDAuth; every further origin is a real instance of its own (any key type, HmacKey own / shared by the replicas of one deployment / unset, "+
			"1/5 with the private key of origin 0, NoTLS or TLS), an alias (the instance of an earlier origin reached under this spelling), a proxy (such an "+
			"instance behind a front end that rewrites Host to the other spelling), a plain endpoint that answers 200 / 204 / 302 / 403 / 404 / 500 / bare 401 "+
			"without any authentication, or a parrot that answers 200 / 401 / 403 and replays the latest WWW-Authenticate / Authentication-Info another origin "+
			"sent this client. ORACLE per call, from the recorded wire: a returned server ID needs, in a response of THAT call, a signature valid under the "+
			"ID's key over (a challenge-server the client sent in that call, the client's key, THAT request's Host string), or the call is one bearer request, "+
			"not answered 401, to an origin for whose exact Host string this client proved that very ID before; a bearer value sent to an origin must have "+
			"been handed out by that origin; an origin that signed nothing gets no identity attributed, whatever it answers. "+
			"NON-TRIVIAL = at least one operator / deviation / cross-target / expiry shift applied (TestServerInstances: at least one presentation to a "+
			"foreign instance or of forged state; TestClientOrigins: at least one call to an origin while the client holds an unexpired proof / token of a "+
			"DIFFERENT origin; TestServerKeyShapes / TestServerQuoting / TestServerExpiryInstants: every case, they are enumerations of alterations resp. of uses past expiry; TestServerKeyEncodings: every non-canonical way; TestServerReuse: at least one opaque-as-bearer / token-as-opaque / refused request AND a re-used state machine that handled at least two requests); DISTINCT = distinct (base step, operator+parameter "+
			"list, target relation, host class, sleep class) resp. distinct response-plan list resp. distinct (kind, relation, flow, minter secret mode -> "+
			"target secret mode / guessed secret, host class) list resp. distinct (origin spellings and kinds, per call: origin, sleep class, request flow, outcome, "+
			"relation to the origins whose token is held).",
		"challenge lifetime is the implementation constant 5 min (handshake/server.go challengeTTL); acceptance exactly at the TTL instant is allowed either way; expiry is computed on time.Time values at full (nanosecond) precision from the virtual instant at which the harness saw the value handed out - virtual time does not move while a request is handled, so this is the instant the server read from its clock; refusal BEFORE the end of a lifetime is not judged (completeness is no part of the property)",
		"core/crypto Sign/Verify are trusted (property C08); a signature counts as proof when Verify accepts it under the reported peer's key over the exact expected bytes (ECDSA trailing-bytes malleability therefore never raises an alarm)",
		"not asserted: a token minted under hostname A being refused under hostname B of the same instance; an opaque minted under hostname A being refused under B when the signature covers B; completeness (honest material being accepted) is only a harness precondition",
		"instances that the application gives the same HmacKey count as one server (one secret): a token or challenge of one is allowed, not required, to be honoured by the other; every instance with an unset HmacKey is a server of its own",
		"HMAC pads keys shorter than its block with zero bytes, so keys that differ only by trailing zero bytes are ONE secret by the definition of HMAC-SHA256 (named in the property's anchors); generated keys contain no zero byte, which makes 'any differing byte or length' and 'a different secret' the same thing; an empty HmacKey is never generated (an operator error, not a secret)",
		"syntax: for unquoted values, single quotes, blanks around '=' or inside the quotes, bytes before the opening quote, a trailing tab and a backslash before the closing quote, acceptance and refusal are both allowed (only provenance is judged); bytes after a closing quote within the token, unbalanced, doubled and inner double quotes alter the value (spec grammar key=\"value\": the value is another string, or the token is no parameter), so such a token proves nothing; re-encodings that decode to the same bytes (CR / LF inside base64, alphabet, padding) are not alterations",
		"the peer ID of a key is the one the libp2p peer-ID spec derives from the canonical encoding of the key material; x509.MarshalPKIXPublicKey (RSA, ECDSA), the raw Ed25519 bytes and the compressed Secp256k1 point, taken from the standard-library key behind the libp2p key (crypto.PubKeyToStdKey), are trusted to be that material (the enumeration checks that they agree with the library on keys that never were on the wire)",
		"the direct engines reproduce around the state machine what ServeHTTP does (host checks, 400 / 401 mapping, new challenge after invalid HMAC / expired state recognised by the error text); Hostname is set per request as ServeHTTP does; Reset() before every request is the documented way of re-use; a value re-used WITHOUT Reset() (engine handshake-reset-forgotten) keeps, by that contract, everything it parsed since the last Reset(), so for it 'the request carries' means 'the value was given since its last Reset()' and the quoting rule is not applied to what earlier requests gave it; such a value also keeps the FIELDS of the state it verified before (opaqueState.Unmarshal decodes JSON into the struct it holds, absent fields keep their values: after an expired token of P, a fresh challenge opaque shown as bearer is taken for a live token of P), so when the proof needs earlier values and does not hold at the current instant, instants are not judged (label *+instants-not-judged): only that the reported peer comes from state this server minted for it, or from its signature, given since the last Reset(); PeerID() is asked only after a Run() that returned nil (after a Run() error the accessor's answer has no meaning in the API: a refused expired token leaves its peer in place)",
		"a panic of the handler reports no identity and is counted (label server-panic), not judged by this property",
		"client side, 'the hostname' is the exact Host string of the request: two Host strings that differ only in port, letter case or a trailing dot are two origins, and a proof (or the token obtained with it) for one says nothing about the other; that the client must not send a bearer token to an origin that did not hand it out is asserted as the wire-level form of this (the token stands for the earlier proof); the client-side TokenTTL itself is not asserted",
	)
	hx.Main(m)
}
