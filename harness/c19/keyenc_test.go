package c19

// Encodings of a public key.
//
// The property quantifies over header values obtained by RE-ENCODING parameters, for every key
// type, and says that an identity is reported only if the signature is valid "under that peer's
// public key". A public-key parameter is the protobuf message {1: KeyType, 2: Data} of the
// libp2p peer-ID spec; protobuf allows many byte strings for one message (unknown fields, any
// field order, over-long varints, a field given twice: the last one counts), and some key types
// have several point / DER forms. Whatever the parser under test accepts, the peer ID that
// belongs to a key is defined by the spec over the CANONICAL encoding of the key material
// (type, then data, minimal varints; data = PKIX DER for RSA / ECDSA, the 32 raw bytes for
// Ed25519, the 33-byte compressed point for Secp256k1): identity multihash if that encoding is at
// most 42 bytes long, SHA2-256 multihash otherwise.
//
// Everything here is computed by the harness from the key MATERIAL (the standard-library key
// behind the libp2p key), never from the library's MarshalPublicKey / IDFromPublicKey of a key it
// parsed: a key that the library parsed from non-canonical bytes must still be attributed the ID
// of the key, not an ID of the bytes.

import (
	"crypto/ecdsa"
	"crypto/ed25519"
	"crypto/rsa"
	"crypto/sha256"
	"crypto/x509"
	"bytes"
	"encoding/binary"
	"fmt"
	"strings"
	"testing"
	"testing/synctest"
	"time"

	"github.com/decred/dcrd/dcrec/secp256k1/v4"
	ic "github.com/libp2p/go-libp2p/core/crypto"
	"github.com/libp2p/go-libp2p/core/peer"

	"verif/internal/hx"
	"verif/internal/keys"
	"verif/internal/stats"
)

// KeyType numbers of the spec (crypto.proto).
const (
	ktRSA       = 0
	ktEd25519   = 1
	ktSecp256k1 = 2
	ktECDSA     = 3
)

var ktNames = map[int]string{ktRSA: "rsa", ktEd25519: "ed25519", ktSecp256k1: "secp256k1", ktECDSA: "ecdsa"}

// pubKeyMaterial returns the spec's (KeyType, Data) of a key, from the key material.
func pubKeyMaterial(k ic.PubKey) (typ int, data []byte, ok bool) {
	std, err := ic.PubKeyToStdKey(k)
	if err != nil {
		return 0, nil, false
	}
	switch x := std.(type) {
	case *rsa.PublicKey:
		data, err = x509.MarshalPKIXPublicKey(x)
		typ = ktRSA
	case ed25519.PublicKey:
		data, typ = append([]byte(nil), x...), ktEd25519
	case *ecdsa.PublicKey:
		data, err = x509.MarshalPKIXPublicKey(x)
		typ = ktECDSA
	case *ic.Secp256k1PublicKey:
		data, typ = (*secp256k1.PublicKey)(x).SerializeCompressed(), ktSecp256k1
	default:
		return 0, nil, false
	}
	return typ, data, err == nil
}

func pbVarint(b []byte, v uint64) []byte { return binary.AppendUvarint(b, v) }

// pbOverlong writes v as a varint with one superfluous continuation group (0x80|.., 0x00).
func pbOverlong(b []byte, v uint64) []byte {
	x := binary.AppendUvarint(nil, v)
	x[len(x)-1] |= 0x80
	return append(append(b, x...), 0x00)
}

func pbType(b []byte, typ int) []byte { return pbVarint(append(b, 0x08), uint64(typ)) }
func pbData(b []byte, data []byte) []byte {
	return append(pbVarint(append(b, 0x12), uint64(len(data))), data...)
}

// canonicalKey is the canonical protobuf encoding of (typ, data).
func canonicalKey(typ int, data []byte) []byte { return pbData(pbType(nil, typ), data) }

// idOfKeyBytes is the spec's peer ID of a canonical key encoding.
func idOfKeyBytes(b []byte) peer.ID {
	if len(b) <= 42 {
		return peer.ID(append(pbVarint([]byte{0x00}, uint64(len(b))), b...))
	}
	h := sha256.Sum256(b)
	return peer.ID(append([]byte{0x12, 0x20}, h[:]...))
}

// canonicalID is the peer ID of the key k, from its material.
func canonicalID(k ic.PubKey) (peer.ID, bool) {
	typ, data, ok := pubKeyMaterial(k)
	if !ok {
		return "", false
	}
	return idOfKeyBytes(canonicalKey(typ, data)), true
}

// Ways of writing one public key.
const (
	encCanonical = iota
	encUnknownVarintAfter
	encUnknownBytesAfter
	encUnknownFixed32After
	encUnknownFixed64After
	encUnknownBefore
	encUnknownBetween
	encUnknownHighField
	encReordered
	encOverlongType
	encOverlongLen
	encOverlongTag
	encTypeTwice
	encTypeWrongThenRight
	encDataTwice
	encDataForm // another form of Data itself: uncompressed / hybrid point (Secp256k1), non-minimal DER length (RSA, ECDSA)
	nKeyEncs
)

var keyEncNames = [...]string{"canonical", "unknown-varint-after", "unknown-bytes-after", "unknown-fixed32-after", "unknown-fixed64-after",
	"unknown-before", "unknown-between", "unknown-high-field", "fields-reordered", "overlong-type-varint", "overlong-length-varint",
	"overlong-tag-varint", "type-twice", "type-wrong-then-right", "data-twice", "data-other-form"}

// unknownField is a protobuf field the PublicKey message does not define (field numbers 3..15,
// varint or length-delimited), chosen by sel.
func unknownField(sel int) []byte {
	num := 3 + sel%13
	if sel%2 == 0 {
		return []byte{byte(num<<3 | 0), byte(1 + sel/2%100)}
	}
	return []byte{byte(num<<3 | 2), 0x02, 'a', byte('a' + sel/2%26)}
}

// encodeKey writes the key (typ, data) in the given way. Every result is, by the protobuf rules,
// an encoding of the very same message (encDataForm: of the very same key); ok = false when the
// way does not exist for this key type.
func encodeKey(typ int, data []byte, enc, sel int) (out []byte, ok bool) {
	switch enc {
	case encCanonical:
		return canonicalKey(typ, data), true
	case encUnknownVarintAfter:
		return append(canonicalKey(typ, data), 0x78, byte(1+sel%100)), true // field 15, varint
	case encUnknownBytesAfter:
		return append(canonicalKey(typ, data), 0x72, 0x02, 'a', byte('a'+sel%26)), true // field 14, bytes
	case encUnknownFixed32After:
		return append(canonicalKey(typ, data), 0x7d, byte(sel), 0, 0, 1), true // field 15, fixed32
	case encUnknownFixed64After:
		return append(canonicalKey(typ, data), 0x79, byte(sel), 0, 0, 0, 0, 0, 0, 1), true // field 15, fixed64
	case encUnknownBefore:
		return pbData(pbType(unknownField(sel), typ), data), true
	case encUnknownBetween:
		return pbData(append(pbType(nil, typ), unknownField(sel)...), data), true
	case encUnknownHighField:
		f := pbVarint(pbVarint(nil, uint64(1000+sel%1000)<<3), uint64(sel%128)) // field 1000.., varint
		return append(canonicalKey(typ, data), f...), true
	case encReordered:
		return pbType(pbData(nil, data), typ), true
	case encOverlongType:
		return pbData(pbOverlong([]byte{0x08}, uint64(typ)), data), true
	case encOverlongLen:
		return append(pbOverlong(append(pbType(nil, typ), 0x12), uint64(len(data))), data...), true
	case encOverlongTag:
		if sel%2 == 0 {
			return pbData(pbVarint([]byte{0x88, 0x00}, uint64(typ)), data), true
		}
		return append(pbVarint(append(pbType(nil, typ), 0x92, 0x00), uint64(len(data))), data...), true
	case encTypeTwice:
		return pbData(pbType(pbType(nil, typ), typ), data), true
	case encTypeWrongThenRight:
		return pbData(pbType(pbType(nil, (typ+1+sel%3)%4), typ), data), true
	case encDataTwice:
		return pbData(pbData(pbType(nil, typ), []byte{1, 2, byte(sel)}), data), true
	case encDataForm:
		switch typ {
		case ktSecp256k1:
			k, err := secp256k1.ParsePubKey(data)
			if err != nil {
				return nil, false
			}
			d := k.SerializeUncompressed()
			if sel%2 == 1 { // hybrid form: 0x06 / 0x07 by the parity of Y
				d[0] = 0x06 | d[64]&1
			}
			return canonicalKey(typ, d), true
		case ktRSA, ktECDSA:
			// outer SEQUENCE with a non-minimal (BER) length: one more length byte than needed
			if len(data) < 4 || data[0] != 0x30 {
				return nil, false
			}
			var hdr, body []byte
			switch {
			case data[1] < 0x80:
				hdr, body = []byte{0x30, 0x81, data[1]}, data[2:]
			case data[1] == 0x81:
				hdr, body = []byte{0x30, 0x82, 0x00, data[2]}, data[3:]
			case data[1] == 0x82:
				hdr, body = []byte{0x30, 0x83, 0x00, data[2], data[3]}, data[4:]
			default:
				return nil, false
			}
			return canonicalKey(typ, append(hdr, body...)), true
		}
		return nil, false
	}
	return nil, false
}

// reencodeKeyBytes re-encodes a marshalled public key (as found in a parameter). The library's
// parser serves only to get at the key material here (generator side).
func reencodeKeyBytes(d []byte, enc, sel int) (out []byte, encName, typeName string, id peer.ID, ok bool) {
	k, err := ic.UnmarshalPublicKey(d)
	if err != nil {
		return nil, "", "", "", false
	}
	typ, data, ok := pubKeyMaterial(k)
	if !ok {
		return nil, "", "", "", false
	}
	for try := 0; try < nKeyEncs; try++ {
		e := 1 + (enc+try)%(nKeyEncs-1) // never the canonical one
		if out, ok := encodeKey(typ, data, e, sel); ok {
			return out, keyEncNames[e], ktNames[typ], idOfKeyBytes(canonicalKey(typ, data)), true
		}
	}
	return nil, "", "", "", false
}

// noteEncoding remembers a non-canonical encoding the harness put on the wire, so that a verdict
// can say what a strange reported ID is.
func (w *world) noteEncoding(sent []byte, encName, typeName string, id peer.ID) {
	if w.reenc == nil {
		w.reenc = map[peer.ID]string{}
	}
	w.reenc[idOfKeyBytes(sent)] = fmt.Sprintf("the reported ID is the hash of the BYTES of a public-key parameter as sent: a non-canonical encoding (%s) of the %s key whose peer ID is %s; a peer ID belongs to the key, i.e. to its canonical encoding", encName, typeName, id)
}

// TestServerKeyEncodings walks the encoding dimension completely: every client key type x both
// flows x every way of writing the key x every engine (reuse_test.go). A client whose encoder
// writes its key that way runs a handshake and uses the token. The server may refuse such a key;
// whatever it accepts is judged by the provenance oracle in send: the reported ID (and the ID the
// token stands for) must be the ID of the key that signed.
func TestServerKeyEncodings(t *testing.T) {
	name := t.Name()
	idx := 0
	for kt, ktName := range keys.Types {
		for fl := 0; fl < 2; fl++ {
			for enc := 0; enc < nKeyEncs; enc++ {
				for eng := engHTTP; eng <= engReused; eng++ {
					idx++
					if !hx.Mine(idx) {
						continue
					}
					client := keys.Get(ktName, 0)
					typ, data, ok := pubKeyMaterial(client.Pub)
					if !ok {
						t.Fatalf("harness: no key material for a %s key", ktName)
					}
					if enc == encCanonical {
						// the harness' own encoder and ID derivation agree with the library on a key that never was on the wire
						if cid, _ := canonicalID(client.Pub); cid != client.ID || !bytes.Equal(canonicalKey(typ, data), mustPubBytes(client.Pub)) {
							t.Fatalf(precondition+"the spec's canonical encoding / peer ID of a generated %s key, computed by the harness (%s), differs from the library's (%s)", ktName, cid, client.ID)
						}
					}
					if _, ok := encodeKey(typ, data, enc, idx); !ok {
						continue // this way of writing does not exist for this key type
					}
					var notes []string
					ci := fl == 0
					synctest.Test(t, func(rt *testing.T) {
						w := newWorld(rt, []srvConf{{keyType: keys.Types[(kt+enc)%len(keys.Types)], ttl: time.Hour, secret: secretOwn, engine: eng}}, []*keys.Identity{client})
						if eng == engReused {
							// the re-used state machine has handled a complete canonical session before
							w.honest(0, w.srv[0], hostNames[0], !ci, challengeText(uint64(9000+idx)))
						}
						steps := w.honestEnc(0, w.srv[0], hostNames[idx%2], ci, challengeText(uint64(7000+idx)), enc, idx)
						notes = w.notes
						if enc == encCanonical && eng != engReused && len(steps) < 3 {
							rt.Fatalf(precondition + "canonical session incomplete")
						}
					})
					out := "accepted"
					for _, n := range notes {
						if strings.HasPrefix(n, "keyenc-session:"+ktName+":") {
							out = n[strings.LastIndexByte(n, ':')+1:]
						}
					}
					flow := []string{"ci", "si"}[fl]
					stats.CaseEnumerated(name, enc != encCanonical, "keyenc:"+keyEncNames[enc]+":"+out, "keyenc-key:"+ktName+":"+out,
						"keyenc-flow:"+flow+":"+out, "engine:"+engineNames[eng], "keyenc:"+keyEncNames[enc]+":"+ktName+":"+out)
				}
			}
		}
	}
	stats.Exhaustive(name)
}
