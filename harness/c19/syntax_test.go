package c19

// Header syntax around parameter values.
//
// The property: "Any alteration of the opaque challenge state, token, signature, public key ...
// is rejected". On the wire a value is what stands between the two double quotes of key="value"
// (libp2p HTTP Peer-ID auth spec; RFC 7235 auth-param with a quoted-string). An alteration does
// not have to touch the base64 text: bytes glued to the closing quote (bearer="T"AAAA), a quote
// plus bytes inserted before it (bearer="T"AAAA"), a missing, an extra or a doubled quote change
// what the parameter says - under the spec's grammar the value is now another string
// (T"AAAA), or the thing is no parameter at all - although the genuine text T is still in there
// for a parser that stops looking at the first closing quote.
//
// ORACLE. A value whose quoting was altered is not carried by the request. carriedText keeps
// what the header carries in intact parameters; send() demands that an accepted request is
// justified by that alone. A token is intact when it holds no double quote at all (the oracle
// stays lenient about unquoted values: RFC 7235 allows key=token) or exactly two, the second
// one being its last byte. Three readings of "token" are tried and a value counts as carried if
// ANY keeps it: (1) tokens end at space, tab or comma wherever they stand (the grammar of the
// libp2p spec: a comma separated list, values never contain separators); (2) separators between
// a pair of quotes belong to the quoted string (RFC 7235), which keeps ` v ` inside quotes one
// value - whitespace padding inside the quotes is left to the base64 leniency of the provenance
// oracle, like embedded CR / LF; (3) as (1), but the scheme name is a token of its own wherever it
// stands (the implementation searches the scheme name anywhere in the field and reads the
// parameters right behind it, so x"libp2p-PeerIDbearer="T" does carry T for it).

import (
	"strings"
)

func isSep(c byte) bool { return c == ' ' || c == '\t' || c == ',' }

func intactQuoting(tok string) bool {
	n := strings.Count(tok, `"`)
	return n == 0 || (n == 2 && tok[len(tok)-1] == '"')
}

// carriedText returns the intact tokens of all readings, separated by blanks, and whether any
// token of reading (1) was dropped (if none was, the header carries everything it contains).
func carriedText(h string) (string, bool) {
	var b strings.Builder
	altered := false
	keep := func(tok string, first bool) {
		if intactQuoting(tok) {
			b.WriteString(tok)
			b.WriteByte(' ')
		} else if first {
			altered = true
		}
	}
	plain := func(h string, first bool) {
		for i := 0; i < len(h); {
			if isSep(h[i]) {
				i++
				continue
			}
			j := i
			for j < len(h) && !isSep(h[j]) {
				j++
			}
			keep(h[i:j], first)
			i = j
		}
	}
	plain(h, true)
	if !altered {
		return h, false
	}
	for i := 0; i < len(h); {
		if isSep(h[i]) {
			i++
			continue
		}
		j := i
		inQuotes := false
		for j < len(h) && (inQuotes || !isSep(h[j])) {
			if h[j] == '"' {
				inQuotes = !inQuotes
			}
			j++
		}
		keep(h[i:j], false)
		i = j
	}
	// (3) as (1), and the scheme name ends a token wherever it stands: a reader may look for the
	// scheme name anywhere in the field and start reading parameters right behind it
	// (byte-wise ASCII lower-casing: strings.ToLower re-encodes invalid UTF-8 and would shift the indices)
	asciiLower := func(x string) string {
		b := []byte(x)
		for i, c := range b {
			if c >= 'A' && c <= 'Z' {
				b[i] = c + 'a' - 'A'
			}
		}
		return string(b)
	}
	low, ls := asciiLower(h), asciiLower(scheme)
	var c strings.Builder
	for i := 0; i < len(h); {
		if strings.HasPrefix(low[i:], ls) {
			c.WriteString(" " + h[i:i+len(ls)] + " ")
			i += len(ls)
			continue
		}
		c.WriteByte(h[i])
		i++
	}
	plain(c.String(), false)
	return b.String(), true
}

// ---------------------------------------------------------------------------
// Generator side: how one parameter is written.

const (
	qJunkAfterClose   = iota // k="v"J
	qJunkThenQuote           // k="v"J"      a quote and bytes inserted before the closing quote
	qNoClose                 // k="v
	qNoOpen                  // k=v"
	qDoubleBoth              // k=""v""
	qDoubleClose             // k="v""
	qDoubleOpen              // k=""v"
	qQuoteInside             // k="v1"v2"    a quote inserted inside the value
	qJunkBeforeOpen          // k=J"v"
	qSingleQuotes            // k='v'
	qUnquoted                // k=v
	qSpaceBeforeEq           // k ="v"
	qSpaceAfterEq            // k= "v"
	qSpaceInsideOpen         // k=" v"
	qSpaceInsideClose        // k="v "
	qTabAfter                // k="v"<TAB>
	qEscapedClose            // k="v\"
	nQuoteKinds
)

var quoteNames = [...]string{"junk-after-close", "junk-then-quote", "no-close", "no-open", "double-both", "double-close", "double-open",
	"quote-inside", "junk-before-open", "single-quotes", "unquoted", "space-before-eq", "space-after-eq", "space-inside-open",
	"space-inside-close", "tab-after", "escaped-close"}

// writeToken renders parameter k with value v in the given way; junk never contains a
// separator or a quote.
func writeToken(k, v string, kind int, junk string, pos int) string {
	switch kind {
	case qJunkAfterClose:
		return k + `="` + v + `"` + junk
	case qJunkThenQuote:
		return k + `="` + v + `"` + junk + `"`
	case qNoClose:
		return k + `="` + v
	case qNoOpen:
		return k + `=` + v + `"`
	case qDoubleBoth:
		return k + `=""` + v + `""`
	case qDoubleClose:
		return k + `="` + v + `""`
	case qDoubleOpen:
		return k + `=""` + v + `"`
	case qQuoteInside:
		p := 0
		if len(v) > 0 {
			p = pos % (len(v) + 1)
		}
		return k + `="` + v[:p] + `"` + v[p:] + `"`
	case qJunkBeforeOpen:
		return k + `=` + junk + `"` + v + `"`
	case qSingleQuotes:
		return k + `='` + v + `'`
	case qUnquoted:
		return k + `=` + v
	case qSpaceBeforeEq:
		return k + ` ="` + v + `"`
	case qSpaceAfterEq:
		return k + `= "` + v + `"`
	case qSpaceInsideOpen:
		return k + `=" ` + v + `"`
	case qSpaceInsideClose:
		return k + `="` + v + ` "`
	case qTabAfter:
		return k + `="` + v + "\"\t"
	default:
		return k + `="` + v + `\"`
	}
}

// quoteDropsValue: the kinds after which the oracle no longer counts v as carried (the others
// leave acceptance and refusal both open). TestSyntaxOracleTable pins this table to carriedText.
func quoteDropsValue(kind int) bool {
	switch kind {
	case qJunkAfterClose, qJunkThenQuote, qNoClose, qNoOpen, qDoubleBoth, qDoubleClose, qDoubleOpen, qQuoteInside:
		return true
	}
	return false
}
