package c19

// Harness-side implementation of the wire format of the libp2p HTTP Peer-ID auth scheme
// (https://github.com/libp2p/specs/blob/master/http/peer-id-auth.md), written from the
// specification: header building / parsing, the data-to-sign layout, lenient extraction
// of every byte string a header could possibly carry (used by the oracle so that it never
// depends on the parser under test), and forging of opaque state under foreign secrets.

import (
	"crypto/hmac"
	"crypto/sha256"
	"encoding/base64"
	"encoding/binary"
	"encoding/json"
	"regexp"
	"sort"
	"strings"
	"time"

	ic "github.com/libp2p/go-libp2p/core/crypto"
	"github.com/libp2p/go-libp2p/core/peer"
)

const scheme = "libp2p-PeerID"

// challengeTTL is the lifetime of a server challenge (handshake/server.go: challengeTTL).
const challengeTTL = 5 * time.Minute

type param struct{ K, V string }

func cloneParams(ps []param) []param { return append([]param(nil), ps...) }

// buildHeader renders params the way an honest implementation does.
func buildHeader(ps []param) string {
	var b strings.Builder
	b.WriteString(scheme)
	b.WriteByte(' ')
	for i, p := range ps {
		if i > 0 {
			b.WriteString(", ")
		}
		b.WriteString(p.K)
		b.WriteString(`="`)
		b.WriteString(p.V)
		b.WriteByte('"')
	}
	return b.String()
}

var paramRe = regexp.MustCompile(`([A-Za-z][A-Za-z-]*)="([^"]*)"`)

// parseParams reads a header produced by an honest peer (server responses, requests of the
// real client). It is never applied to attack input to decide a verdict.
func parseParams(h string) []param {
	var out []param
	for _, m := range paramRe.FindAllStringSubmatch(h, -1) {
		out = append(out, param{m[1], m[2]})
	}
	return out
}

func getParam(ps []param, k string) (string, bool) {
	v, ok := "", false
	for _, p := range ps {
		if p.K == k {
			v, ok = p.V, true // last one wins, as in the honest parser
		}
	}
	return v, ok
}

func idxParam(ps []param, k string) int {
	for i := len(ps) - 1; i >= 0; i-- {
		if ps[i].K == k {
			return i
		}
	}
	return -1
}

func setParam(ps []param, k, v string) []param {
	if i := idxParam(ps, k); i >= 0 {
		ps[i].V = v
		return ps
	}
	return append(ps, param{k, v})
}

func delParam(ps []param, k string) []param {
	out := ps[:0:0]
	for _, p := range ps {
		if p.K != k {
			out = append(out, p)
		}
	}
	return out
}

func b64(b []byte) string { return base64.URLEncoding.EncodeToString(b) }

type kv struct {
	k string
	v []byte
}

// sigData is the byte string that is signed: the scheme name followed by the parts sorted by
// key, each as uvarint(len(key)+1+len(value)) || key || '=' || value.
func sigData(parts ...kv) []byte {
	ps := append([]kv(nil), parts...)
	sort.SliceStable(ps, func(i, j int) bool { return ps[i].k < ps[j].k })
	out := []byte(scheme)
	for _, p := range ps {
		out = binary.AppendUvarint(out, uint64(len(p.k)+1+len(p.v)))
		out = append(out, p.k...)
		out = append(out, '=')
		out = append(out, p.v...)
	}
	return out
}

// clientSigData: what a client signs to prove its identity to the server.
func clientSigData(challengeClient string, serverPub []byte, host string) []byte {
	return sigData(kv{"challenge-client", []byte(challengeClient)}, kv{"server-public-key", serverPub}, kv{"hostname", []byte(host)})
}

// serverSigData: what a server signs to prove its identity to the client.
func serverSigData(challengeServer string, clientPub []byte, host string) []byte {
	return sigData(kv{"challenge-server", []byte(challengeServer)}, kv{"client-public-key", clientPub}, kv{"hostname", []byte(host)})
}

func mustSign(k ic.PrivKey, data []byte) []byte {
	s, err := k.Sign(data)
	if err != nil {
		panic(err)
	}
	return s
}

func mustPubBytes(k ic.PubKey) []byte {
	b, err := ic.MarshalPublicKey(k)
	if err != nil {
		panic(err)
	}
	return b
}

func safeVerify(pub ic.PubKey, data, sig []byte) (ok bool) {
	defer func() {
		if recover() != nil {
			ok = false
		}
	}()
	ok, err := pub.Verify(data, sig)
	return ok && err == nil
}

// ---------------------------------------------------------------------------
// Lenient extraction for the oracle.

func isB64Char(c byte) bool {
	switch {
	case c >= 'A' && c <= 'Z', c >= 'a' && c <= 'z', c >= '0' && c <= '9':
		return true
	case c == '-', c == '_', c == '+', c == '/', c == '=', c == '\r', c == '\n':
		return true
	}
	return false
}

var encodings = []*base64.Encoding{base64.URLEncoding, base64.StdEncoding, base64.RawURLEncoding, base64.RawStdEncoding}

// decodeLenient returns every byte string s could stand for under any base64 flavour
// (URL / standard alphabet, padded / unpadded, embedded CR / LF ignored, non-canonical
// trailing bits tolerated).
func decodeLenient(s string) [][]byte {
	s = strings.NewReplacer("\r", "", "\n", "").Replace(s)
	var out [][]byte
	seen := map[string]bool{}
	try := func(x string) {
		for _, e := range encodings {
			if d, err := e.DecodeString(x); err == nil && !seen[string(d)] {
				seen[string(d)] = true
				out = append(out, d)
			}
		}
	}
	try(s)
	if t := strings.TrimRight(s, "="); t != s {
		try(t)
	}
	return out
}

// decodedCandidates returns every byte string that any parameter of the header could
// decode to, independently of quoting, parameter names, order, duplicates and separators:
// the header is cut at every character that cannot be part of a base64 text, and every run
// (and every suffix of a run that follows an inner '=') is decoded leniently.
func decodedCandidates(h string) [][]byte {
	var out [][]byte
	seen := map[string]bool{}
	add := func(s string) {
		if len(s) < 4 {
			return
		}
		for _, d := range decodeLenient(s) {
			if len(d) > 0 && !seen[string(d)] {
				seen[string(d)] = true
				out = append(out, d)
			}
		}
	}
	i := 0
	for i < len(h) {
		if !isB64Char(h[i]) {
			i++
			continue
		}
		j := i
		for j < len(h) && isB64Char(h[j]) {
			j++
		}
		run := h[i:j]
		add(run)
		for k := 0; k+1 < len(run); k++ {
			if run[k] == '=' && run[k+1] != '=' {
				add(run[k+1:])
			}
		}
		i = j
	}
	return out
}

// firstDecode decodes an honest parameter value (strict URL base64 with padding).
func firstDecode(v string) ([]byte, bool) {
	d, err := base64.URLEncoding.DecodeString(v)
	if err != nil {
		ds := decodeLenient(v)
		if len(ds) == 0 {
			return nil, false
		}
		return ds[0], true
	}
	return d, true
}

// ---------------------------------------------------------------------------
// Forged server state. The layout (HMAC-SHA256 tag followed by the JSON document) is the
// mechanism named in the property anchors; it is used ONLY to build attack inputs: if the
// layout changes, these inputs degrade to garbage and the oracle is unaffected.

type forgedState struct {
	IsToken         bool      `json:"is-token,omitempty"`
	ClientPublicKey []byte    `json:"client-public-key,omitempty"`
	PeerID          peer.ID   `json:"peer-id,omitempty"`
	ChallengeClient string    `json:"challenge-client,omitempty"`
	Hostname        string    `json:"hostname"`
	CreatedTime     time.Time `json:"created-time"`
}

func forge(key []byte, st forgedState) []byte {
	body, err := json.Marshal(st)
	if err != nil {
		panic(err)
	}
	m := hmac.New(sha256.New, key)
	m.Write(body)
	out := append(m.Sum(nil), body...)
	forgedWith[string(out)] = append([]byte(nil), key...)
	return out
}

// forgedWith remembers under which secret the harness made each forged state of the running case
// (cleared by newWorld). A forgery made with the real secret of some instance - "another instance's
// secret" aimed at a target that must refuse it - is, for THAT instance and its secret domain, not a
// forgery at all: whoever holds an instance's secret can mint its state. If such a value later
// reaches that domain, its acceptance says nothing about the server (no verdict, counted).
var forgedWith = map[string][]byte{}
