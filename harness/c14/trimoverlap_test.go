package c14

import (
	"context"
	"fmt"
	"runtime"
	"sort"
	"strings"
	"sync"
	"sync/atomic"
	"testing"
	"testing/synctest"
	"time"

	"pgregory.net/rapid"

	"verif/internal/hx"
	"verif/internal/stats"
)

// Overlapping trims.
//
// The statement quantifies over "TrimOpenConns/ForceTrim calls, also issued concurrently"
// and says of a trim, whichever entry point, that it "does nothing when the connection
// count is at or below the low watermark, and otherwise leaves at most low-watermark
// connections among the eligible peers". Here two or three trim calls overlap: the first
// one is parked inside the CloseWithError of the first connection it closes (harness
// code, reached while the manager is in the middle of that trim), the later ones are
// started one after the other on their own goroutines and get a bounded number of
// scheduler yields to reach whatever the manager makes them wait on; then the first one
// is let go. Nothing else happens in the window, virtual time stands still, so all calls
// see the same peers.
//
// Each call is judged when it RETURNS:
//   - the connections it closed itself (a trim closes on its caller's goroutine) obey the
//     rules of its kind: nothing protected / in grace for a regular trim, protected ones
//     only after all unprotected ones for a forced trim, lowest value first, nothing at or
//     below the low watermark;
//   - if the count was above the low watermark, at most low-watermark connections are left
//     open among the peers eligible for its kind, counting as closed everything ANY of the
//     overlapping trims had closed by then (a regular trim that found another one running
//     and returned after it has left what that one left). For a regular trim the eligible
//     peers are the unprotected ones past their grace period; a forced trim ignores the
//     grace period by documentation, so every unprotected peer is eligible for it.

func curGID() uint64 {
	var buf [64]byte
	n := runtime.Stack(buf[:], false)
	var id uint64
	for _, b := range buf[len("goroutine "):n] {
		if b < '0' || b > '9' {
			break
		}
		id = id*10 + uint64(b-'0')
	}
	return id
}

type trimCall struct {
	kind     trimKind
	gid      uint64
	retMark  int // number of closes recorded when the call had returned
	done     chan struct{}
	returned atomic.Bool
	early    bool // returned while the first trim was still parked
}

func (w *world) callTrim(k trimKind) {
	if k == trimForce {
		w.cm.ForceTrim()
	} else {
		w.cm.TrimOpenConns(context.Background())
	}
}

// overlapTrims runs the calls as described above and judges each at its return.
//
// pinPeer < 0: the window is the first trim's first CloseWithError. pinPeer >= 0: the window
// is the callback of an UpsertTag(peer, tag, identity) instead (the pin of overlap_test.go): all
// calls are started from inside it, the first one included, so that a first trim that closes
// nothing (everybody protected or in grace) holds up the later ones just the same on a manager
// that keeps the peer's lock across the callback. The identity upsert changes no value.
func (w *world) overlapTrims(kinds []trimKind, pinPeer int, pinTag string) {
	names := make([]string, len(kinds))
	for i, k := range kinds {
		names[i] = k.String()
	}
	if pinPeer >= 0 {
		w.logf("overlapping trims: %s, all started from inside the callback of UpsertTag(p%d,%s,identity), %d yields each", strings.Join(names, ", "), pinPeer, pinTag, overlapYields)
	} else {
		w.logf("overlapping trims: %s; the first is parked in its first CloseWithError until the others had %d yields each", strings.Join(names, ", "), overlapYields)
	}
	snaps := w.snapshot()
	now := time.Now()
	mark := w.rec.mark()
	calls := make([]*trimCall, len(kinds))
	for i, k := range kinds {
		calls[i] = &trimCall{kind: k, done: make(chan struct{})}
	}
	var (
		parkOnce sync.Once
		parked   = make(chan struct{})
		release  = make(chan struct{})
	)
	first := calls[0]
	w.rec.tagGID = true
	w.rec.hook = func(ev closeEvent) {
		if pinPeer < 0 && ev.gid == first.gid {
			parkOnce.Do(func() {
				close(parked)
				<-release
			})
		}
	}
	start := func(c *trimCall) {
		ready := make(chan struct{})
		go func() {
			defer close(c.done)
			c.gid = curGID()
			close(ready)
			w.callTrim(c.kind)
			c.retMark = w.rec.mark()
			c.returned.Store(true)
		}()
		<-ready
	}
	isParked := false
	later := func() {
		for _, c := range calls[1:] {
			start(c)
			for i := 0; i < overlapYields && !c.returned.Load(); i++ {
				runtime.Gosched()
			}
			c.early = c.returned.Load()
		}
	}
	if pinPeer < 0 {
		start(first)
		select {
		case <-parked:
			isParked = true
		case <-first.done:
		}
		later()
	} else {
		p := w.peers[pinPeer]
		var once sync.Once
		w.cm.UpsertTag(p.id, pinTag, func(v int) int {
			once.Do(func() {
				start(first)
				for i := 0; i < overlapYields && !first.returned.Load(); i++ {
					runtime.Gosched()
				}
				first.early = first.returned.Load()
				isParked = !first.early
				later()
			})
			return v
		})
		mUpsert(p, pinTag, func(v int) int { return v }, now)
		if first.gid == 0 { // the manager did not run the callback
			start(first)
			<-first.done
			later()
		}
	}
	close(release)
	for _, c := range calls {
		<-c.done
	}
	w.rec.hook, w.rec.tagGID = nil, false
	synctest.Wait()
	if !time.Now().Equal(now) {
		w.fail("harness assumption broken: virtual time moved while trims overlapped")
	}
	all := w.rec.since(mark)
	for _, k := range kinds {
		if k != trimForce {
			w.trimTimes = append(w.trimTimes, now)
			break
		}
	}

	count, unprotGrace, eligibleConns := 0, 0, 0
	special := false
	for _, s := range snaps {
		count += len(s.conns)
		switch {
		case s.protected:
			special = true
		case !w.cfg.pastGrace(s.firstSeen, now):
			unprotGrace += len(s.conns)
			special = true
		default:
			eligibleConns += len(s.conns)
		}
	}

	var rows []string
	for i, c := range calls {
		var own []closeEvent
		also := map[*fakeConn]bool{}
		for j, ev := range all {
			if ev.gid == c.gid {
				own = append(own, ev)
			} else if j < c.retMark-mark {
				also[ev.c] = true
			}
		}
		rows = append(rows, fmt.Sprintf("%v#%d closed %s", c.kind, i, connList(own)))
		w.logf("%v (call %d of the overlap; returned while the first was parked: %v) closed %s itself; %d connections closed by the others before it returned",
			c.kind, i, c.early, connList(own), len(also))
		if msg := judgeBatchX(w.cfg, c.kind, now, snaps, own, also, true); msg != "" {
			w.fail("overlapping trims %s, call %d: %s\npeers (closed = by this call): %s\nall closes of the overlap: %s",
				strings.Join(names, ", "), i, msg, describeSnaps(w.cfg, now, snaps, own), connList(all))
		}
		// labels
		if i == 0 {
			continue
		}
		pos := "behind-" + map[bool]string{true: "force", false: "regular"}[first.kind == trimForce]
		if pinPeer >= 0 {
			pos += "(pinned-by-upsert-callback)"
		}
		kn := map[bool]string{true: "force", false: "regular"}[c.kind == trimForce]
		if !isParked {
			w.labels["trim-overlap:first-trim-not-held(no-window):"+kn+"-"+pos] = true
			continue
		}
		w.labels["trim-overlap:"+kn+"-"+pos] = true
		if c.early {
			w.labels["trim-overlap:later-call-returned-while-first-parked:"+kn] = true
		} else {
			w.labels["trim-overlap:later-call-waited-for-the-first:"+kn] = true
		}
		if count > w.cfg.low {
			if len(own) == 0 {
				w.labels["trim-overlap:"+kn+"-"+pos+"-above-low-closed-nothing-itself"] = true
			} else {
				w.labels["trim-overlap:"+kn+"-"+pos+"-above-low-closed-some-itself"] = true
			}
			if c.kind == trimForce && first.kind != trimForce && unprotGrace+min(eligibleConns, w.cfg.low) > w.cfg.low {
				// the regular trim cannot bring the unprotected peers down to the low watermark: the forced one has to
				w.labels["trim-overlap:force-behind-regular-with-unprotected-in-grace-peers-keeping-count-above-low"] = true
				if eligibleConns <= w.cfg.low {
					w.labels["trim-overlap:force-behind-regular-that-has-nothing-to-close,unprotected-above-low"] = true
				}
			}
		}
	}
	if isParked {
		if pinPeer >= 0 {
			w.labels["trim-overlap:first-held-up-by-upsert-callback"] = true
		} else {
			w.labels["trim-overlap:first-parked-in-close"] = true
		}
		w.labels[fmt.Sprintf("trim-overlap:%d-calls", len(calls))] = true
	}
	if len(all) > 0 {
		w.labels["trim-overlap:closed"] = true
		if special {
			w.nontrivial = true
			sort.Strings(rows[1:])
			w.fps = append(w.fps, fmt.Sprintf("overlap/%s/low=%d/%s", strings.Join(rows, ";"), w.cfg.low, describeSnaps(w.cfg, now, snaps, all)))
		}
	}
	w.noteClosed(all)
}

// pinPeer: the drawn peer if it has connections, else the next one that has, else -1.
func (w *world) pinPeer(pi int) int {
	if pi < 0 {
		return -1
	}
	for k := range w.peers {
		if q := w.peers[(pi+k)%len(w.peers)]; len(q.conns) > 0 {
			return q.idx
		}
	}
	return -1
}

var overlapKindSets = [][]trimKind{
	{trimExplicit, trimForce}, {trimExplicit, trimForce}, {trimExplicit, trimForce},
	{trimForce, trimExplicit}, {trimForce, trimExplicit},
	{trimExplicit, trimExplicit}, {trimForce, trimForce},
	{trimExplicit, trimExplicit, trimForce}, {trimExplicit, trimForce, trimExplicit}, {trimExplicit, trimForce, trimForce},
	{trimForce, trimExplicit, trimForce}, {trimForce, trimForce, trimExplicit},
}

// TestTrimOverlap: a constructed population (peers past their grace period, peers inside it,
// protected ones, drawn values and connection counts, mostly above the low watermark), then
// one group of overlapping trims, then the Disconnected notifications and a second group.
func TestTrimOverlap(t *testing.T) {
	name := t.Name()
	hx.Check(t, 2400, 160000, 0, func(rt *rapid.T) {
		cfg := config{
			low:      rapid.IntRange(1, 3).Draw(rt, "low"),
			grace:    pick(rt, "grace", []time.Duration{15 * time.Second, 30 * time.Second, time.Minute, 0}),
			silence:  pick(rt, "silence", silences),
			decayRes: time.Minute,
		}
		cfg.high = cfg.low + rapid.IntRange(0, 6).Draw(rt, "highMinusLow")
		np := rapid.IntRange(2, 8).Draw(rt, "npeers")
		type pdraw struct {
			fresh, prot bool
			conns, val  int
		}
		pd := make([]pdraw, np)
		for i := range pd {
			pd[i] = pdraw{
				fresh: rapid.IntRange(0, 2).Draw(rt, "fresh") == 0,
				prot:  rapid.IntRange(0, 4).Draw(rt, "protected") == 0,
				conns: rapid.IntRange(1, 2).Draw(rt, "conns"),
				val:   rapid.IntRange(-2, 6).Draw(rt, "value"),
			}
		}
		kinds1 := pick(rt, "kinds", overlapKindSets)
		deliver := rapid.Bool().Draw(rt, "deliverDisconnects")
		again := rapid.Bool().Draw(rt, "secondGroup")
		kinds2 := pick(rt, "kinds2", overlapKindSets)
		nlate := rapid.IntRange(0, 3).Draw(rt, "lateConns")
		pins := [2]int{-1, -1} // per group: -1 = park in the first close, else the peer of the upsert whose callback is the window
		for g := range pins {
			if rapid.IntRange(0, 2).Draw(rt, "pinByUpsert") == 0 {
				pins[g] = rapid.IntRange(0, np-1).Draw(rt, "pinPeer")
			}
		}
		pinTag := pick(rt, "pinTag", staticTags)

		var w *world
		hx.Bubble(t, rt, func() {
			w = newWorld(cfg, np, rt.Fatalf)
			defer w.close()
			setup := func(fresh bool) {
				for i, d := range pd {
					if d.fresh != fresh {
						continue
					}
					for k := 0; k < d.conns; k++ {
						w.connected(w.newConn(i, (i+k)%2 == 0, k))
					}
					if d.val != 0 {
						w.tagPeer(i, "s0", d.val)
					}
					if d.prot {
						w.protect(i, "pa")
					}
				}
				synctest.Wait()
				w.check()
			}
			setup(false)
			w.advance(cfg.grace + time.Second)
			setup(true)
			w.overlapTrims(kinds1, w.pinPeer(pins[0]), pinTag)
			w.check()
			if deliver {
				for _, c := range w.conns {
					if w.pendingClosed[c] {
						w.disconnected(c)
					}
				}
				synctest.Wait()
				w.check()
			}
			if again {
				for k := 0; k < nlate; k++ {
					w.connected(w.newConn((k*3)%np, k%2 == 0, 0))
				}
				synctest.Wait()
				w.check()
				w.overlapTrims(kinds2, w.pinPeer(pins[1]), pinTag)
				w.check()
			}
		})
		labels := make([]string, 0, len(w.labels))
		for l := range w.labels {
			labels = append(labels, l)
		}
		sort.Strings(labels)
		fp := append([]string(nil), w.fps...)
		sort.Strings(fp)
		stats.Case(name, strings.Join(fp, "\n"), w.nontrivial, labels...)
		if stats.WantSample(name) {
			tr := w.trace
			if len(tr) > 40 {
				tr = tr[:40]
			}
			stats.Sample(name, map[string]any{"config": cfg.String(), "npeers": np, "trace": tr, "nontrivial_trims": w.fps})
		}
	})
}
