package c14

import (
	"context"
	"fmt"
	"strings"
	"sync"
	"sync/atomic"
	"testing"
	"testing/synctest"
	"time"

	cmi "github.com/libp2p/go-libp2p/core/connmgr"
	"github.com/libp2p/go-libp2p/core/network"
	"github.com/libp2p/go-libp2p/p2p/net/connmgr"
	"pgregory.net/rapid"

	"verif/internal/hx"
	"verif/internal/stats"
)

// Concurrent property. Several goroutines issue the operations of the sequential
// machine against one manager; operations that share a virtual instant race for real.
// The oracle is relaxed to what every interleaving must satisfy:
//
//   - every connection has one owner goroutine, every protection tag and every
//     "own" static tag has one writer, the shared static tag is only incremented and the
//     decaying tag only summed, so the final state is the same for every interleaving;
//   - a trim runs inside one virtual instant T (it never waits for the clock). A close at
//     T that happened while no ForceTrim was in flight is the work of a regular trim:
//     its peer must not be protected during the whole of T (protected by a tag before T and
//     that tag not removed at T) and must not be inside its grace period for every possible
//     first-seen time (first Connected ever delivered for the peer is less than the grace
//     period ago);
//   - nothing is closed at T if at most low-watermark connections could be open during T;
//   - a closed connection must have been possibly open during T.

type cop struct {
	Kind string `json:"k"`
	Peer int    `json:"p,omitempty"`
	Arg  int    `json:"a,omitempty"`
	// inc-overlap: the operation on the same peer that the increment's callback starts on another goroutine
	Sec    string `json:"s,omitempty"`
	SecArg int    `json:"sa,omitempty"`
}

type flip struct {
	at time.Time
	on bool
}

type cconn struct {
	c    *fakeConn
	hist []flip // owner's Connected / Disconnected calls in program order
}

func lastBefore(h []flip, t time.Time) bool { // state established at instants strictly before t
	on := false
	for _, f := range h {
		if f.at.Before(t) {
			on = f.on
		}
	}
	return on
}

func anyAt(h []flip, t time.Time, on bool) bool {
	for _, f := range h {
		if f.at.Equal(t) && f.on == on {
			return true
		}
	}
	return false
}

func final(h []flip) bool { return len(h) > 0 && h[len(h)-1].on }

type gstate struct {
	id      int
	conns   []*cconn
	prot    map[int][]flip // peer -> history of this goroutine's protection tag
	ownTag  map[int]int    // peer -> last TagPeer value on this goroutine's tag (old peers only matter)
	hasTag  map[int]bool
	cntSum  map[int]int    // peer -> sum of increments to the shared tag
	bumpSum map[int]int    // peer -> sum of accepted bumps
	overlap map[string]int // statistics: overlapped increments by kind of the second operation
}

type cworld struct {
	cfg    config
	cm     *connmgr.BasicConnMgr
	nf     network.Notifiee
	rec    *recorder
	t0     time.Time
	npeers int
	nextN  atomic.Int32
	dsum   cmi.DecayingTag
	gs     []*gstate
}

func (cw *cworld) newConn(pi, arg int) *fakeConn {
	n := int(cw.nextN.Add(1))
	return newFakeConn(cw.rec, n, pi, peerPool[pi], arg&1 == 1, (arg>>1)%3)
}

func (g *gstate) ptag() string { return fmt.Sprintf("g%d", g.id) }

func (cw *cworld) exec(g *gstate, o cop) {
	now := time.Now()
	p := peerPool[o.Peer]
	switch o.Kind {
	case "sleep":
		time.Sleep(time.Duration(o.Arg) * time.Second)
	case "connect":
		cc := &cconn{c: cw.newConn(o.Peer, o.Arg)}
		g.conns = append(g.conns, cc)
		cc.hist = append(cc.hist, flip{now, true})
		cw.nf.Connected(nil, cc.c)
	case "reconnect": // duplicate notification, or a connection coming back
		if len(g.conns) == 0 {
			return
		}
		cc := g.conns[o.Arg%len(g.conns)]
		cc.hist = append(cc.hist, flip{now, true})
		cw.nf.Connected(nil, cc.c)
	case "disconnect":
		if len(g.conns) == 0 {
			return
		}
		cc := g.conns[o.Arg%len(g.conns)]
		cc.hist = append(cc.hist, flip{now, false})
		cw.nf.Disconnected(nil, cc.c)
	case "reap": // Disconnected for own connections that a trim closed
		closed := map[*fakeConn]bool{}
		for _, ev := range cw.rec.since(0) {
			closed[ev.c] = true
		}
		for _, cc := range g.conns {
			if closed[cc.c] && final(cc.hist) {
				cc.hist = append(cc.hist, flip{now, false})
				cw.nf.Disconnected(nil, cc.c)
			}
		}
	case "tag":
		cw.cm.TagPeer(p, g.ptag(), o.Arg)
		g.ownTag[o.Peer], g.hasTag[o.Peer] = o.Arg, true
	case "untag":
		cw.cm.UntagPeer(p, g.ptag())
		g.ownTag[o.Peer], g.hasTag[o.Peer] = 0, true
	case "inc":
		k := o.Arg
		cw.cm.UpsertTag(p, "cnt", func(v int) int { return v + k })
		g.cntSum[o.Peer] += k
	case "inc-overlap":
		// an increment of the shared tag whose callback starts a second operation on the same peer on
		// another goroutine and yields before it returns (see overlap_test.go). The second operation is
		// part of this goroutine's program (single-writer rules as for its own operations), so the final
		// state is still the same for every interleaving.
		k := o.Arg
		run, post, fullWait := cw.second(g, o, now)
		inside, _ := overlapUpsert(cw.cm, p, "cnt", func(v int) int { return v + k }, run, fullWait)
		g.cntSum[o.Peer] += k
		post()
		g.overlap["overlap:inc+"+o.Sec]++
		if inside {
			g.overlap["overlap:second-returned-inside-callback:"+o.Sec]++
		} else {
			g.overlap["overlap:second-waited-for-the-upsert"]++
		}
	case "bump":
		if cw.dsum.Bump(p, o.Arg) == nil {
			g.bumpSum[o.Peer] += o.Arg
		}
	case "protect":
		g.prot[o.Peer] = append(g.prot[o.Peer], flip{now, true})
		cw.cm.Protect(p, g.ptag())
	case "unprotect":
		g.prot[o.Peer] = append(g.prot[o.Peer], flip{now, false})
		cw.cm.Unprotect(p, g.ptag())
	case "trim":
		cw.cm.TrimOpenConns(context.Background())
	case "force":
		cw.rec.forceActive.Add(1)
		cw.cm.ForceTrim()
		cw.rec.forceActive.Add(-1)
	case "read":
		cw.cm.GetTagInfo(p)
		cw.cm.GetInfo()
		cw.cm.IsProtected(p, "")
	}
}

// second builds the operation an overlapped increment starts from inside its callback: run is
// executed on the helper goroutine, post by the owner after both operations have returned.
func (cw *cworld) second(g *gstate, o cop, now time.Time) (run, post func(), fullWait bool) {
	p := peerPool[o.Peer]
	post = func() {}
	switch o.Sec {
	case "tag":
		return func() { cw.cm.TagPeer(p, g.ptag(), o.SecArg) }, func() { g.ownTag[o.Peer], g.hasTag[o.Peer] = o.SecArg, true }, false
	case "untag":
		return func() { cw.cm.UntagPeer(p, g.ptag()) }, func() { g.ownTag[o.Peer], g.hasTag[o.Peer] = 0, true }, false
	case "bump":
		var err error
		return func() { err = cw.dsum.Bump(p, o.SecArg) }, func() {
			if err == nil {
				g.bumpSum[o.Peer] += o.SecArg
			}
		}, true
	case "connect":
		cc := &cconn{c: cw.newConn(o.Peer, o.SecArg)}
		g.conns = append(g.conns, cc)
		cc.hist = append(cc.hist, flip{now, true})
		return func() { cw.nf.Connected(nil, cc.c) }, post, false
	case "disconnect": // one of this goroutine's connections to the peer, the one most recently connected first
		for i := len(g.conns) - 1; i >= 0; i-- {
			if cc := g.conns[i]; cc.c.pi == o.Peer {
				cc.hist = append(cc.hist, flip{now, false})
				return func() { cw.nf.Disconnected(nil, cc.c) }, post, false
			}
		}
	case "trim":
		return func() { cw.cm.TrimOpenConns(context.Background()) }, post, false
	case "force":
		return func() {
			cw.rec.forceActive.Add(1)
			cw.cm.ForceTrim()
			cw.rec.forceActive.Add(-1)
		}, post, false
	}
	// "inc" (and a disconnect without a connection to the peer): a second increment of the shared tag
	k2 := 1 + (o.SecArg%4+4)%4
	return func() { cw.cm.UpsertTag(p, "cnt", func(v int) int { return v + k2 }) }, func() { g.cntSum[o.Peer] += k2 }, false
}

var copSeconds = func() []string {
	var out []string
	for _, o := range []weighted{{"inc", 4}, {"tag", 3}, {"untag", 1}, {"bump", 1}, {"connect", 1}, {"disconnect", 3}, {"trim", 2}, {"force", 1}} {
		for i := 0; i < o.w; i++ {
			out = append(out, o.name)
		}
	}
	return out
}()

var copKinds = func() []string {
	var out []string
	for _, o := range []weighted{{"sleep", 6}, {"connect", 8}, {"reconnect", 2}, {"disconnect", 4}, {"reap", 3}, {"tag", 3}, {"untag", 1},
		{"inc", 4}, {"inc-overlap", 4}, {"bump", 3}, {"protect", 3}, {"unprotect", 3}, {"trim", 5}, {"force", 2}, {"read", 1}} {
		for i := 0; i < o.w; i++ {
			out = append(out, o.name)
		}
	}
	return out
}()

func TestConcurrent(t *testing.T) {
	name := t.Name()
	hx.Check(t, 4000, 300000, 0, func(rt *rapid.T) {
		low := rapid.IntRange(1, 3).Draw(rt, "low")
		cfg := config{low: low, high: low + rapid.IntRange(0, 3).Draw(rt, "highMinusLow"), grace: 2 * time.Minute,
			silence: pick(rt, "silence", []time.Duration{5 * time.Second, 10 * time.Second}), decayRes: time.Minute}
		nOldU := rapid.IntRange(1, 3).Draw(rt, "oldUnprotected")
		nOldP := rapid.IntRange(0, 2).Draw(rt, "oldProtected")
		nFresh := rapid.IntRange(1, 3).Draw(rt, "fresh")
		nOld := nOldU + nOldP
		np := nOld + nFresh
		oldConns := make([]int, nOld)
		oldVals := make([]int, nOld)
		for i := range oldConns {
			oldConns[i] = rapid.IntRange(1, 2).Draw(rt, "oldConns")
			oldVals[i] = rapid.IntRange(-2, 6).Draw(rt, "oldValue")
		}
		ng := rapid.IntRange(2, 6).Draw(rt, "goroutines")
		plans := make([][]cop, ng)
		for g := range plans {
			n := rapid.IntRange(3, 14).Draw(rt, "nops")
			for i := 0; i < n; i++ {
				o := cop{Kind: pick(rt, "op", copKinds), Peer: rapid.IntRange(0, np-1).Draw(rt, "peer")}
				switch o.Kind {
				case "sleep":
					o.Peer, o.Arg = 0, rapid.IntRange(0, 3).Draw(rt, "secs")
				case "connect", "reconnect", "disconnect":
					o.Arg = rapid.IntRange(0, 11).Draw(rt, "arg")
				case "tag":
					o.Arg = rapid.IntRange(-3, 9).Draw(rt, "val")
				case "inc", "bump":
					o.Arg = rapid.IntRange(1, 4).Draw(rt, "k")
				case "inc-overlap":
					o.Arg = rapid.IntRange(1, 4).Draw(rt, "k")
					o.Sec = pick(rt, "second", copSeconds)
					switch o.Sec {
					case "tag":
						o.SecArg = rapid.IntRange(-3, 9).Draw(rt, "val")
					case "inc", "bump":
						o.SecArg = rapid.IntRange(1, 4).Draw(rt, "k2")
					case "connect":
						o.SecArg = rapid.IntRange(0, 11).Draw(rt, "arg")
					}
				case "trim", "force", "reap":
					o.Peer = 0
				}
				plans[g] = append(plans[g], o)
			}
		}
		lockstep := rapid.Bool().Draw(rt, "startTogether")

		var (
			nclosesB    int
			specialSeen bool
			labels      = map[string]bool{}
		)
		hx.Bubble(t, rt, func() {
			cm, err := connmgr.NewConnManager(cfg.low, cfg.high, connmgr.WithGracePeriod(cfg.grace), connmgr.WithSilencePeriod(cfg.silence),
				connmgr.DecayerConfig(&connmgr.DecayerCfg{Resolution: cfg.decayRes}))
			if err != nil {
				rt.Fatalf("NewConnManager: %v", err)
			}
			defer cm.Close()
			cw := &cworld{cfg: cfg, cm: cm, nf: cm.Notifee(), rec: &recorder{}, t0: time.Now(), npeers: np}
			cw.dsum, err = cm.RegisterDecayingTag("dsum", time.Minute, decayFn(decayNone), bumpFn(bumpSum))
			if err != nil {
				rt.Fatalf("RegisterDecayingTag: %v", err)
			}
			mk := func(id int) *gstate {
				return &gstate{id: id, prot: map[int][]flip{}, ownTag: map[int]int{}, hasTag: map[int]bool{}, cntSum: map[int]int{}, bumpSum: map[int]int{}, overlap: map[string]int{}}
			}
			main := mk(99) // the set-up phase is the history of one more "goroutine"
			for g := 0; g < ng; g++ {
				cw.gs = append(cw.gs, mk(g))
			}
			all := append([]*gstate{main}, cw.gs...)

			// phase A: old peers connect, get a value, some are protected for good ("g99" is never removed)
			for i := 0; i < nOld; i++ {
				for k := 0; k < oldConns[i]; k++ {
					cw.exec(main, cop{Kind: "connect", Peer: i, Arg: i + k})
				}
				cw.exec(main, cop{Kind: "tag", Peer: i, Arg: oldVals[i]})
				if i >= nOldU {
					cw.exec(main, cop{Kind: "protect", Peer: i})
				}
			}
			time.Sleep(cfg.grace + 7*time.Second)
			synctest.Wait()
			startB := time.Now()
			markB := cw.rec.mark()

			// phase B
			var wg sync.WaitGroup
			for g := 0; g < ng; g++ {
				wg.Add(1)
				go func(gs *gstate, plan []cop) {
					defer wg.Done()
					if !lockstep {
						time.Sleep(time.Duration(gs.id) * 500 * time.Millisecond)
					}
					for _, o := range plan {
						cw.exec(gs, o)
					}
				}(cw.gs[g], plans[g])
			}
			wg.Wait()
			synctest.Wait()
			endB := time.Now()
			if endB.Sub(startB) >= cfg.grace {
				rt.Fatalf("harness: phase B lasted %v, not shorter than the grace period", endB.Sub(startB))
			}

			for _, g := range cw.gs {
				for l := range g.overlap {
					labels[l] = true
				}
			}

			// ---- oracle over the recorded history ----
			var conns []*cconn
			firstConnect := map[int]time.Time{}
			for _, g := range all {
				for _, cc := range g.conns {
					conns = append(conns, cc)
					t0 := cc.hist[0].at
					if f, ok := firstConnect[cc.c.pi]; !ok || t0.Before(f) {
						firstConnect[cc.c.pi] = t0
					}
				}
			}
			byConn := map[*fakeConn]*cconn{}
			for _, cc := range conns {
				byConn[cc.c] = cc
			}
			possiblyOpen := func(cc *cconn, T time.Time) bool { return lastBefore(cc.hist, T) || anyAt(cc.hist, T, true) }
			protectedThroughout := func(pi int, T time.Time) bool {
				for _, g := range all {
					h := g.prot[pi]
					if lastBefore(h, T) && !anyAt(h, T, false) {
						return true
					}
				}
				return false
			}
			closes := cw.rec.since(0)
			nclosesB = len(closes) - markB
			for _, ev := range closes {
				T := ev.at
				cc := byConn[ev.c]
				if !possiblyOpen(cc, T) {
					rt.Fatalf("at %v: closed c%d of p%d, which was disconnected at an earlier instant (history %v)", T.Sub(cw.t0), ev.c.n, ev.c.pi, histString(cw.t0, cc.hist))
				}
				upper := 0
				for _, x := range conns {
					if possiblyOpen(x, T) {
						upper++
					}
				}
				if upper <= cfg.low {
					rt.Fatalf("at %v: closed c%d of p%d although at most %d connections (low watermark %d) can have been open", T.Sub(cw.t0), ev.c.n, ev.c.pi, upper, cfg.low)
				}
				prot := protectedThroughout(ev.c.pi, T)
				fresh := T.Sub(firstConnect[ev.c.pi]) < cfg.grace
				if ev.force > 0 {
					labels["close-during-forcetrim"] = true
					if prot {
						labels["protected-closed-during-forcetrim"] = true
					}
					continue
				}
				labels["close-by-regular-trim"] = true
				if prot {
					rt.Fatalf("at %v: a regular trim closed c%d of p%d, which was protected during that whole instant", T.Sub(cw.t0), ev.c.n, ev.c.pi)
				}
				if fresh {
					rt.Fatalf("at %v: a regular trim closed c%d of p%d, whose first connection ever is only %v old (grace period %v)", T.Sub(cw.t0), ev.c.n, ev.c.pi, T.Sub(firstConnect[ev.c.pi]), cfg.grace)
				}
			}
			// was there a protected / in-grace peer with connections while something was closed in phase B?
			for _, ev := range closes[markB:] {
				for _, x := range conns {
					if possiblyOpen(x, ev.at) && (protectedThroughout(x.c.pi, ev.at) || ev.at.Sub(firstConnect[x.c.pi]) < cfg.grace) {
						specialSeen = true
					}
				}
			}

			// final state: identical for every interleaving
			want := 0
			perPeer := make([]map[string]bool, np)
			for i := range perPeer {
				perPeer[i] = map[string]bool{}
			}
			for _, cc := range conns {
				if final(cc.hist) {
					want++
					perPeer[cc.c.pi][cc.c.addr.String()] = true
				}
			}
			if got := cm.GetInfo().ConnCount; got != want {
				rt.Fatalf("after all goroutines finished: ConnCount = %d, notifications imply %d", got, want)
			}
			for pi := 0; pi < np; pi++ {
				ti := cm.GetTagInfo(peerPool[pi])
				if ti == nil {
					if len(perPeer[pi]) > 0 {
						rt.Fatalf("p%d: %d connections open by the notifications but GetTagInfo is nil", pi, len(perPeer[pi]))
					}
					continue
				}
				if len(ti.Conns) != len(perPeer[pi]) {
					rt.Fatalf("p%d: manager tracks %d connections, notifications imply %d", pi, len(ti.Conns), len(perPeer[pi]))
				}
				for a := range perPeer[pi] {
					if _, ok := ti.Conns[a]; !ok {
						rt.Fatalf("p%d: connection %s not tracked", pi, a)
					}
				}
				sum := 0
				for _, v := range ti.Tags {
					sum += v
				}
				if ti.Value != sum {
					rt.Fatalf("p%d: GetTagInfo.Value = %d but its tags %v sum to %d", pi, ti.Value, ti.Tags, sum)
				}
				if pi < nOld {
					// the set-up connections of old peers are never disconnected, so nothing recorded for them may be lost
					cnt, dsum := 0, 0
					for _, g := range all {
						cnt += g.cntSum[pi]
						dsum += g.bumpSum[pi]
						if g.hasTag[pi] && ti.Tags[g.ptag()] != g.ownTag[pi] {
							rt.Fatalf("p%d: tag %s = %d, its only writer last set %d", pi, g.ptag(), ti.Tags[g.ptag()], g.ownTag[pi])
						}
					}
					if ti.Tags["cnt"] != cnt {
						rt.Fatalf("p%d: shared tag cnt = %d, the increments delivered sum to %d (lost update)", pi, ti.Tags["cnt"], cnt)
					}
					if ti.Tags["dsum"] != dsum {
						rt.Fatalf("p%d: decaying tag dsum = %d, the accepted bumps sum to %d", pi, ti.Tags["dsum"], dsum)
					}
				}
			}

			// settle: everything past the grace period, then one sequential trim judged by the batch oracle
			time.Sleep(cfg.grace + time.Second)
			synctest.Wait()
			var snaps []peerSnap
			for pi := 0; pi < np; pi++ {
				s := peerSnap{idx: pi, firstSeen: cw.t0}
				for _, cc := range conns {
					if cc.c.pi == pi && final(cc.hist) {
						s.conns = append(s.conns, cc.c)
					}
				}
				if len(s.conns) == 0 {
					continue
				}
				for _, g := range all {
					if final(g.prot[pi]) {
						s.protected = true
					}
				}
				ti := cm.GetTagInfo(peerPool[pi])
				s.vlo, s.vhi = ti.Value, ti.Value
				snaps = append(snaps, s)
			}
			mark := cw.rec.mark()
			now := time.Now()
			kind := trimExplicit
			if plans[0][0].Arg%2 == 1 {
				kind = trimForce
				cm.ForceTrim()
			} else {
				cm.TrimOpenConns(context.Background())
			}
			synctest.Wait()
			batch := cw.rec.since(mark)
			if msg := judgeBatch(cfg, kind, now, snaps, batch); msg != "" {
				rt.Fatalf("sequential trim after the concurrent phase: %s\npeers: %s", msg, describeSnaps(cfg, now, snaps, batch))
			}
			if len(batch) > 0 {
				labels["final-trim-closed"] = true
			}
		})
		if nclosesB > 0 {
			labels["closes-in-concurrent-phase"] = true
		}
		if lockstep {
			labels["start-together"] = true
		}
		var ls []string
		for l := range labels {
			ls = append(ls, l)
		}
		var fp strings.Builder
		fmt.Fprintf(&fp, "%v|%v|%v|%d|%v", cfg, oldConns, oldVals, nFresh, lockstep)
		for _, p := range plans {
			fmt.Fprintf(&fp, "|%v", p)
		}
		stats.Case(name, fp.String(), nclosesB > 0 && specialSeen, ls...)
		if stats.WantSample(name) {
			stats.Sample(name, map[string]any{"config": cfg.String(), "oldUnprotected": nOldU, "oldProtected": nOldP, "fresh": nFresh,
				"oldConns": oldConns, "oldValues": oldVals, "plans": plans, "startTogether": lockstep, "closesInConcurrentPhase": nclosesB})
		}
	})
}

func histString(t0 time.Time, h []flip) string {
	var b strings.Builder
	for _, f := range h {
		fmt.Fprintf(&b, "%v:%v ", f.at.Sub(t0), map[bool]string{true: "Connected", false: "Disconnected"}[f.on])
	}
	return b.String()
}
