package c14

import (
	"context"
	"fmt"
	"runtime"
	"sync"
	"sync/atomic"
	"testing/synctest"
	"time"

	"github.com/libp2p/go-libp2p/core/peer"
	"github.com/libp2p/go-libp2p/p2p/net/connmgr"
	"pgregory.net/rapid"
)

// Overlap of tag operations on one peer.
//
// The statement quantifies over histories "also issued concurrently" and demands that
// each peer's tag total equals what the tag operations delivered so far imply "under
// any interleaving". UpsertTag is the one tag operation that runs caller code (the
// upsert callback) in the middle of its read-modify-write, so the harness can own the
// schedule of an overlap: from inside the callback it starts a second operation on the
// same peer on another goroutine and gives it a bounded chance to run to completion
// before the callback returns. Whatever the manager does with the two (serialise them
// in either order), once both have returned the peer's state must be the result of
// one of the two serial orders and its total must be the sum of its tags.
//
// The wait is bounded in scheduler yields, not in time: inside a synctest bubble a
// goroutine blocked on a sync.Mutex is not durably blocked, so virtual time cannot pass
// and synctest.Wait cannot be used while the second operation is (legitimately) waiting
// for a lock the first one holds. The outcome on a manager that serialises the two is
// the same whether the second goroutine got to run during the yields or not, so the
// case stays a pure function of the draws.

const overlapYields = 300

// overlapUpsert calls UpsertTag(p, tag, f') where f' starts second on a fresh goroutine,
// yields up to overlapYields times (stopping early once second has returned, unless
// fullWait: the operation only queues work for another goroutine) and returns f(v).
// It returns after both operations have returned. inside = second returned while the
// callback was still running; seen = the value the callback was called with.
func overlapUpsert(cm *connmgr.BasicConnMgr, p peer.ID, tag string, f func(int) int, second func(), fullWait bool) (inside bool, seen int) {
	var (
		once    sync.Once
		fin     atomic.Bool
		started = make(chan struct{})
		done    = make(chan struct{})
		called  bool
	)
	cm.UpsertTag(p, tag, func(v int) int {
		once.Do(func() {
			called = true
			seen = v
			go func() {
				defer close(done)
				close(started)
				second()
				fin.Store(true)
			}()
			<-started
			for i := 0; i < overlapYields; i++ {
				if fin.Load() && !fullWait {
					break
				}
				runtime.Gosched()
			}
			inside = fin.Load()
		})
		return f(v)
	})
	if !called { // the manager did not run the callback: still deliver the second operation
		second()
		return false, 0
	}
	<-done
	return inside, seen
}

// ---------------------------------------------------------------------------
// sequential state machine: the "upsert-overlap" operation

// second is the operation started from inside the upsert callback, always on the peer
// the upsert is for.
type second struct {
	kind     string
	desc     string
	run      func()                             // the call(s) on the manager; runs on the helper goroutine
	fullWait bool                               // the effect is applied by the decayer goroutine
	accepted func() bool                        // after run: did the manager accept the operation (nil = always)
	model    func(pm *peerModel, now time.Time) // effect on the peer's model
	// modelMay is an effect the operation is allowed but not obliged to have when it takes
	// effect before the upsert (a trim pruning the peer's buffered entry); when it takes
	// effect after the upsert the step-by-step comparison already tolerates it.
	modelMay func(pm *peerModel, now time.Time)
	trim     *trimKind
	conn     *fakeConn // connect / disconnect
	sameTag  bool
}

func (p *peerModel) clone() *peerModel {
	q := *p
	q.conns = make(map[*fakeConn]bool, len(p.conns))
	for k, v := range p.conns {
		q.conns[k] = v
	}
	q.static = make(map[string]int, len(p.static))
	for k, v := range p.static {
		q.static[k] = v
	}
	q.decay = make(map[*dtagModel]int, len(p.decay))
	for k, v := range p.decay {
		q.decay[k] = v
	}
	q.prot = make(map[string]bool, len(p.prot))
	for k, v := range p.prot {
		q.prot[k] = v
	}
	return &q
}

// sameTagState: the two models imply the same tags, total and number of connections.
func sameTagState(x, y *peerModel) bool {
	if len(x.conns) != len(y.conns) || x.total() != y.total() {
		return false
	}
	for _, pair := range [][2]*peerModel{{x, y}, {y, x}} {
		for k, v := range pair[0].static {
			if pair[1].static[k] != v {
				return false
			}
		}
		for k, v := range pair[0].decay {
			if pair[1].decay[k] != v {
				return false
			}
		}
	}
	return true
}

func mUpsert(pm *peerModel, tag string, f func(int) int, now time.Time) {
	pm.touch(now)
	pm.static[tag] = f(pm.static[tag])
}

func drawUpsertFn(rt *rapid.T) (string, func(int) int) {
	k := rapid.IntRange(-3, 6).Draw(rt, "k")
	switch rapid.IntRange(0, 6).Draw(rt, "fn") {
	case 0, 1:
		return fmt.Sprintf("x+%d", k), func(v int) int { return v + k }
	case 2, 3:
		return "2x", func(v int) int { return 2 * v }
	case 4, 5:
		return fmt.Sprintf("=%d", k), func(int) int { return k }
	default: // a value from the whole int range
		k = drawWide(rt)
		return fmt.Sprintf("=%d", k), func(int) int { return k }
	}
}

var secondKinds = func() []string {
	var out []string
	for _, o := range []weighted{{"tag", 4}, {"untag", 2}, {"upsert", 3}, {"bump", 1}, {"disconnect", 4}, {"connect", 1}, {"trim", 4}, {"force", 1}} {
		for i := 0; i < o.w; i++ {
			out = append(out, o.name)
		}
	}
	return out
}()

// stepUpsertOverlap draws and runs one overlapped upsert.
func (w *world) stepUpsertOverlap(rt *rapid.T) {
	np := len(w.peers)
	kind := pick(rt, "second", secondKinds)
	if kind == "bump" && len(w.liveTags()) == 0 {
		kind = "tag"
	}
	// the peer: mostly one for which the overlap matters (construction, not rejection)
	var entry, withConns, oneConn, temp []int
	for _, p := range w.peers {
		if p.exists() {
			entry = append(entry, p.idx)
		}
		if len(p.conns) > 0 {
			withConns = append(withConns, p.idx)
		}
		if len(p.conns) == 1 {
			oneConn = append(oneConn, p.idx)
		}
		if p.temp && len(p.conns) == 0 {
			temp = append(temp, p.idx)
		}
	}
	pi := rapid.IntRange(0, np-1).Draw(rt, "peer")
	pref := entry
	switch kind {
	case "disconnect":
		if len(withConns) == 0 {
			kind = "tag"
			break
		}
		pi, pref = withConns[pi%len(withConns)], withConns
		if len(oneConn) > 0 {
			pref = oneConn
		}
	case "trim":
		// the interesting peer holds a buffered entry (tagged, never connected) that the trim may drop:
		// make one if there is none
		if len(temp) == 0 {
			var absent []int
			for _, p := range w.peers {
				if !p.exists() {
					absent = append(absent, p.idx)
				}
			}
			if len(absent) > 0 {
				q := pick(rt, "earlyTagPeer", absent)
				w.tagPeer(q, pick(rt, "earlyTag", staticTags), rapid.IntRange(1, 12).Draw(rt, "earlyVal"))
				temp = append(temp, q)
			}
		}
		if len(temp) > 0 {
			pref = temp
		}
	}
	if len(pref) > 0 && rapid.IntRange(0, 3).Draw(rt, "anyPeer") != 0 {
		pi = pick(rt, "preferredPeer", pref)
	}
	p := w.peers[pi]
	if kind == "trim" && p.temp && len(p.conns) == 0 {
		// ... and mostly past the grace period when the trim runs
		if left := w.cfg.grace - time.Since(p.tempSince); left > 0 && rapid.IntRange(0, 3).Draw(rt, "staysInGrace") != 0 {
			w.advance(left + pick(rt, "extra", []time.Duration{0, time.Second}))
		}
	}
	// the tag: mostly one that holds a non-zero value
	tag := pick(rt, "tag", staticTags)
	var nz []string
	for _, t := range staticTags {
		if p.static[t] != 0 {
			nz = append(nz, t)
		}
	}
	if len(nz) > 0 && rapid.IntRange(0, 3).Draw(rt, "anyTag") != 0 {
		tag = pick(rt, "nonzeroTag", nz)
	}
	fname, f := drawUpsertFn(rt)

	s := &second{kind: kind}
	tag2 := func() string {
		if rapid.IntRange(0, 3).Draw(rt, "otherTag") == 0 {
			return pick(rt, "tag2", staticTags)
		}
		return tag
	}
	switch kind {
	case "tag":
		t2 := tag2()
		val := w.drawVal(rt, p, t2, -5, 12)
		s.desc, s.sameTag = fmt.Sprintf("TagPeer(p%d,%s,%d)", pi, t2, val), t2 == tag
		s.run = func() { w.cm.TagPeer(p.id, t2, val) }
		s.model = func(pm *peerModel, now time.Time) { pm.touch(now); pm.static[t2] = val }
	case "untag":
		t2 := tag2()
		s.desc, s.sameTag = fmt.Sprintf("UntagPeer(p%d,%s)", pi, t2), t2 == tag
		s.run = func() { w.cm.UntagPeer(p.id, t2) }
		s.model = func(pm *peerModel, now time.Time) { delete(pm.static, t2) }
	case "upsert":
		t2 := tag2()
		gname, g := drawUpsertFn(rt)
		s.desc, s.sameTag = fmt.Sprintf("UpsertTag(p%d,%s,%s)", pi, t2, gname), t2 == tag
		s.run = func() { w.cm.UpsertTag(p.id, t2, g) }
		s.model = func(pm *peerModel, now time.Time) { mUpsert(pm, t2, g, now) }
	case "bump":
		d, delta := pick(rt, "dtag", w.liveTags()), rapid.IntRange(-3, 10).Draw(rt, "delta")
		var err error
		s.desc, s.fullWait = fmt.Sprintf("Bump(%s,p%d,%d)", d.name, pi, delta), true
		s.run = func() { err = d.handle.Bump(p.id, delta) }
		s.accepted = func() bool { return err == nil }
		s.model = func(pm *peerModel, now time.Time) {
			pm.touch(now)
			pm.decay[d] = bumpOnce(d.bumpKind, pm.decay[d], delta)
		}
	case "disconnect":
		var own []*fakeConn
		for _, c := range w.conns {
			if p.conns[c] {
				own = append(own, c)
			}
		}
		c := pick(rt, "conn", own)
		s.conn = c
		s.desc = fmt.Sprintf("Disconnected(p%d c%d)", pi, c.n)
		s.run = func() { w.nf.Disconnected(nil, c) }
		s.model = func(pm *peerModel, now time.Time) {
			if !pm.conns[c] {
				return
			}
			delete(pm.conns, c)
			if len(pm.conns) == 0 {
				pm.dropEntry()
			}
		}
	case "connect":
		c := w.newConn(pi, rapid.Bool().Draw(rt, "inbound"), rapid.IntRange(0, 2).Draw(rt, "streams"))
		s.conn = c
		s.desc = fmt.Sprintf("Connected(p%d c%d)", pi, c.n)
		s.run = func() { w.nf.Connected(nil, c) }
		s.model = func(pm *peerModel, now time.Time) {
			if len(pm.conns) == 0 {
				pm.firstSeen, pm.temp = now, false
			}
			pm.conns[c] = true
		}
	case "trim", "force":
		k := trimExplicit
		s.desc = "TrimOpenConns"
		s.run = func() { w.cm.TrimOpenConns(context.Background()) }
		if kind == "force" {
			k = trimForce
			s.desc = "ForceTrim"
			s.run = func() { w.cm.ForceTrim() }
		}
		s.trim = &k
		s.model = func(*peerModel, time.Time) {}
		if kind == "trim" {
			s.modelMay = func(pm *peerModel, now time.Time) {
				// documented: a regular trim drops the buffered entry of a peer that never connected once it is past the grace period
				if pm.temp && len(pm.conns) == 0 && !pm.protected() && now.Sub(pm.tempSince) >= w.cfg.grace {
					pm.dropEntry()
				}
			}
		}
	}
	w.upsertOverlapped(p, tag, fname, f, s)
}

func (w *world) upsertOverlapped(p *peerModel, tag, fname string, f func(int) int, s *second) {
	w.logf("UpsertTag(p%d,%s,%s) whose callback starts %s on another goroutine and yields before it returns", p.idx, tag, fname, s.desc)
	now := time.Now()
	var snaps []peerSnap
	if s.trim != nil {
		snaps = w.snapshot()
		if *s.trim != trimForce {
			w.trimTimes = append(w.trimTimes, now)
		}
	}
	mark := w.rec.mark()
	before := p.clone()

	inside, seen := overlapUpsert(w.cm, p.id, tag, f, s.run, s.fullWait)
	synctest.Wait()
	if !time.Now().Equal(now) {
		w.fail("harness assumption broken: virtual time moved during an overlapped upsert")
	}
	apply := func(pm *peerModel) {
		if s.accepted == nil || s.accepted() {
			s.model(pm, now)
		}
	}

	// the serial orders
	type cand struct {
		order string
		pm    *peerModel
	}
	a := p.clone()
	mUpsert(a, tag, f, now)
	valueAfterUpsert := a.total()
	_, fitsAfterUpsert := a.exactTotal()
	apply(a)
	b := p.clone()
	apply(b)
	mUpsert(b, tag, f, now)
	cands := []cand{{"upsert first", a}, {"second operation first", b}}
	if s.modelMay != nil {
		c := p.clone()
		s.modelMay(c, now)
		mUpsert(c, tag, f, now)
		cands = append(cands, cand{"second operation (dropping the buffered entry) first", c})
	}
	ti := w.cm.GetTagInfo(p.id)
	chosen := -1
	var diffs []string
	for i, c := range cands {
		d := w.diffPeer(c.pm, ti)
		if d == "" {
			chosen = i
			break
		}
		diffs = append(diffs, fmt.Sprintf("  %s: %s", c.order, d))
	}
	if chosen < 0 {
		got := "no entry"
		if ti != nil {
			got = fmt.Sprintf("Value=%d Tags=%v #conns=%d", ti.Value, ti.Tags, len(ti.Conns))
		}
		msg := fmt.Sprintf("UpsertTag(p%d,%s,%s) overlapped by %s (callback called with %d; second operation returned inside the callback: %v): "+
			"afterwards the manager holds %s for the peer, which no serial order of the two operations explains (before: static %v total %d)",
			p.idx, tag, fname, s.desc, seen, inside, got, before.static, before.total())
		for _, d := range diffs {
			msg += "\n" + d
		}
		w.fail("%s", msg)
	}
	// does the order show at all?
	observable := false
	for _, c := range cands[1:] {
		if !sameTagState(cands[0].pm, c.pm) {
			observable = true
		}
	}
	*p = *cands[chosen].pm

	// labels
	w.labels["overlap:upsert+"+s.kind] = true
	if s.sameTag {
		w.labels["overlap:second-writes-the-same-tag"] = true
	}
	if observable {
		w.labels["overlap:order-observable"] = true
		if chosen == 0 {
			w.labels["overlap:observed-upsert-first"] = true
		} else {
			w.labels["overlap:observed-second-first"] = true
		}
	}
	if inside {
		// on a manager that holds the peer's lock across the callback only operations that return without
		// taking it (a bump, which is queued; a trim that finds nothing to do) can get here
		w.labels["overlap:second-returned-inside-callback:"+s.kind] = true
	} else {
		w.labels["overlap:second-waited-for-the-upsert"] = true
	}
	switch s.kind {
	case "disconnect":
		if before.conns[s.conn] && len(before.conns) == 1 {
			w.labels["overlap:last-disconnect"] = true
			if before.static[tag] != 0 {
				w.labels["overlap:last-disconnect-of-peer-holding-the-tag"] = true
			}
		}
		delete(w.pendingClosed, s.conn)
	case "connect":
		if before.temp {
			w.labels["overlap:connect-of-buffered-peer"] = true
		}
	case "trim":
		if before.temp && len(before.conns) == 0 && !before.protected() && now.Sub(before.tempSince) >= w.cfg.grace {
			w.labels["overlap:trim-with-prunable-buffered-entry"] = true
			if before.static[tag] != 0 {
				w.labels["overlap:trim-with-prunable-buffered-entry-holding-the-tag"] = true
			}
			if ti == nil {
				w.labels["overlap:buffered-entry-pruned"] = true
			}
		}
	}

	if s.trim == nil {
		return
	}
	// the trim is judged against the peer's value before or after the upsert
	batch := w.rec.since(mark)
	w.logf("%v (overlapping the upsert) -> closed %s", *s.trim, connList(batch))
	after := append([]peerSnap(nil), snaps...)
	for i := range after {
		if after[i].idx == p.idx {
			after[i].vlo, after[i].vhi = valueAfterUpsert, valueAfterUpsert
			after[i].unrep = !fitsAfterUpsert
		}
	}
	use := after
	if m1 := judgeBatch(w.cfg, *s.trim, now, after, batch); m1 != "" {
		use = snaps
		if m2 := judgeBatch(w.cfg, *s.trim, now, snaps, batch); m2 != "" {
			w.fail("%v overlapping UpsertTag(p%d,%s,%s) is wrong for either order:\n  upsert first: %s\n    peers: %s\n  trim first: %s\n    peers: %s",
				*s.trim, p.idx, tag, fname, m1, describeSnaps(w.cfg, now, after, batch), m2, describeSnaps(w.cfg, now, snaps, batch))
		}
	}
	w.judge(*s.trim, now, use, batch)
	w.noteClosed(batch)
}
