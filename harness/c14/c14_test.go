package c14

import (
	"log/slog"
	"sort"
	"strings"
	"testing"
	"testing/synctest"
	"time"

	logging "github.com/libp2p/go-libp2p/gologshim"
	"pgregory.net/rapid"

	"verif/internal/hx"
	"verif/internal/stats"
)

func TestMain(m *testing.M) {
	// the manager logs every duplicate / unknown notification at error level; keep the shard logs readable
	logging.SetDefaultHandler(slog.DiscardHandler)
	stats.Describe("exploration",
		"TestTrimModel: rapid state machine over a real BasicConnMgr in a synctest bubble (virtual clock) with fake connections that record "+
			"CloseWithError; operations = Connected/Disconnected (several conns per peer, duplicates, unknown conns), TagPeer/UntagPeer/UpsertTag "+
			"(negative values; one TagPeer value in four, one upsert function in seven and one bump delta in eight come from the WHOLE int range: "+
			"around MaxInt, MinInt, +-MaxInt/2, +-2^62 or any int, a TagPeer value being moved into the room the peer's other tags leave so that its total "+
			"stays an int; peers whose totals are further apart than MaxInt are ranked by the plain numeric order of the totals), decaying tags (register/bump/remove/close), Protect/Unprotect with several tags, clock advances across grace/"+
			"silence/decay periods (split at every ticker instant so that background trims are observed one by one), TrimOpenConns, ForceTrim, "+
			"late delivery of Disconnected for trimmed conns, and OVERLAPPED tag operations: an UpsertTag whose callback (harness code) starts a second "+
			"operation on the same peer on another goroutine (TagPeer/UntagPeer/UpsertTag mostly of the same tag, a decaying bump, Connected, "+
			"Disconnected mostly the peer's last, TrimOpenConns mostly with the peer's buffered entry prunable, ForceTrim) and yields a bounded "+
			"number of times before it returns; once both have returned the peer's state must be the result of one of the two serial orders (and "+
			"its total the sum of its tags), an overlapping trim must be right for the peer's value before or after the upsert; "+
			"and the LIFECYCLE of decaying tags: DecayingTag.Close() followed by RegisterDecayingTag with the closed tag's name at a drawn distance "+
			"(while the closure is still queued because the decayer goroutine is held inside an earlier bump's bump function = harness code, also a bump of the tag being closed; "+
			"right after the closure was applied; after a clock advance of part of / one / two decayer rounds), a retry after a refusal, then 0..3 bumps of the new tag and 0..5 decayer rounds, "+
			"and Bump/Remove/Close on the handle of a closed tag (also while a namesake is registered); a registration may be refused or accepted, an accepted one enters the model as a decaying tag "+
			"like any other (own schedule, bumps apply, every due round visits it, totals and trim order follow), a closed tag's values count for no peer; "+
			"after every step the manager is compared with a reference model and every batch of "+
			"closes is judged against the statement. TestTrimEnumerated: every multiset of up to 3 (4 thorough) peers over value x conns x "+
			"protected x in-grace, times low watermark, times {TrimOpenConns, background, ForceTrim}, judged by the same oracle. TestTrimEnumeratedWide: "+
			"every multiset of up to 3 out-of-grace one-connection peers over total in {MinInt, -MaxInt/2-2, -1, 0, 1, MaxInt/2+1, MaxInt} x protected, "+
			"times low watermark 1..2, times the three kinds of trim, same oracle (non-trivial there = the trim closed one and kept the other of two "+
			"eligible peers whose totals are further apart than MaxInt). TestTrimOverlap: OVERLAPPING TRIM CALLS. A constructed population (2..8 peers, 1..2 conns, values -2..6, "+
			"one in three connected after the grace period of the others has passed = still in grace, one in five protected; low 1..3), then a group of 2..3 trim calls "+
			"(TrimOpenConns and ForceTrim in every order: force behind regular, regular behind force, same kind twice, three calls), each on its own goroutine: "+
			"the first is parked inside the CloseWithError of the first connection it closes (harness code) or, one group in three, all calls are started from inside the "+
			"callback of an identity UpsertTag on a connected peer (so a first trim that closes nothing holds up the others too); every later call gets a bounded number "+
			"of scheduler yields to reach whatever the manager makes it wait on, then the first is let go. Optionally the Disconnected notifications are delivered, "+
			"0..3 new connections arrive and a second group runs. Each call is judged when it RETURNS: the connections it closed itself (by goroutine) obey the rules "+
			"of its kind, and if the count was above the low watermark at most low-watermark connections are left open among the peers eligible for its kind, counting "+
			"as closed whatever any overlapping trim had closed by then (eligible for a forced trim = every unprotected peer, in grace or not). TestConcurrent: "+
			"the same operations from several goroutines with an interval-relaxed oracle, including increments of the shared tag whose callback "+
			"starts a second operation of the same goroutine on the same peer (increment, own tag, bump, connect, disconnect, trims) and yields. "+
			"NON-TRIVIAL = some trim closed >= 1 connection while >= 1 protected or in-grace peer with open connections existed (concurrent test: "+
			">= 1 close while such a peer existed). DISTINCT = distinct (trim kind, low watermark, sorted list of per-peer (value, #conns, protected, grace state, #closed)) "+
			"over the non-trivial trims of the case.",
		"a peer whose age equals the grace period exactly may be treated as inside or outside it (boundary not fixed by the statement)",
		"ForceTrim is the memory-emergency trim; it documents that it ignores the grace period, so only the protected-peers rule, the ordering rule, the low-watermark no-op and the eligible-peers bound are asserted for it",
		"which of several equal-valued peers is closed is not asserted (ties free); closing more peers than necessary is not asserted against",
		"watermarks >= 1 (0 disables trimming by documentation)",
		"a peer whose tag values (ints) sum to a number outside the int range has no total the manager could report; such sums only arise from upserts/bumps on top of wide values (label wide:peer-total-does-not-fit-int-at-trim), Value is then compared modulo 2^64 like Go's int sum and the peer's rank in a trim is not judged",
		"decay schedule modelled from the documented semantics: the decayer ticks every Resolution (from the manager's creation); a tag is decayed once per effective Interval (DecayingTag.Interval()), first one Interval after the decayer tick at or before its registration; only intervals that are multiples of the resolution (or shorter than it) are generated",
		"synctest virtual time; benbjohnson/clock.New() follows it",
		"tag lifecycle: the 'closure still queued' schedule is pinned by parking the decayer goroutine in a bump function until the Close and the RegisterDecayingTag have returned; only the closure is queued inside that window (the decayer picks among several non-empty queues at random, which would make the case depend on more than the draws); whether a registration is refused is not asserted",
		"overlapping trims: nothing else happens between the first call and the last return (virtual time stands still), so all calls are judged against one population; a regular trim that finds another trim running may return without closing anything itself once that trim has finished (what is left is judged, not who closed it); a ForceTrim is held to the bound over all unprotected peers because it documents that it ignores the grace period; closes are attributed to a call by the goroutine that made them (a trim closes on its caller's goroutine)",
		"overlapped operations: the window is the upsert callback; the second operation gets a bounded number of scheduler yields (not time: a goroutine waiting for a mutex keeps a synctest bubble busy) to run inside it. A manager that holds the peer's lock across the callback serialises the two (label overlap:second-waited-for-the-upsert); both serial orders are accepted",
	)
	hx.Main(m)
}

var (
	graces    = []time.Duration{0, 15 * time.Second, 30 * time.Second, time.Minute}
	silences  = []time.Duration{5 * time.Second, 10 * time.Second, 20 * time.Second}
	decayRess = []time.Duration{10 * time.Second, 15 * time.Second, time.Minute}
)

type weighted struct {
	name string
	w    int
}

var opTable = []weighted{
	{"connect", 12}, {"connect-burst", 4}, {"connect-dup", 2}, {"disconnect", 5}, {"disconnect-unknown", 2},
	{"tag", 7}, {"untag", 3}, {"upsert", 3}, {"upsert-overlap", 5},
	{"dreg", 3}, {"dbump", 5}, {"dremove", 1}, {"dclose", 1}, {"decay-scenario", 3},
	{"dclose-reregister", 3}, {"dclosed-use", 1},
	{"protect", 4}, {"unprotect", 3},
	{"advance", 10}, {"trim", 6}, {"force", 3}, {"flush-closed", 4}, {"streams", 1},
}

var opNames = func() []string {
	var out []string
	for _, o := range opTable {
		for i := 0; i < o.w; i++ {
			out = append(out, o.name)
		}
	}
	return out
}()

func pick[T any](rt *rapid.T, label string, xs []T) T {
	return xs[rapid.IntRange(0, len(xs)-1).Draw(rt, label)]
}

func drawConfig(rt *rapid.T) config {
	low := rapid.IntRange(1, 4).Draw(rt, "low")
	return config{
		low:      low,
		high:     low + rapid.IntRange(0, 4).Draw(rt, "highMinusLow"),
		grace:    pick(rt, "grace", graces),
		silence:  pick(rt, "silence", silences),
		decayRes: pick(rt, "decayRes", decayRess),
	}
}

func (w *world) drawAdvance(rt *rapid.T) time.Duration {
	c := w.cfg
	choices := []time.Duration{time.Second, 3 * time.Second, c.silence, c.silence + time.Second, c.silence / 2,
		c.grace, c.grace + time.Second, c.grace / 2, c.decayRes, 2*c.decayRes + time.Second, c.grace - time.Second}
	d := pick(rt, "advance", choices)
	if d <= 0 {
		d = time.Second
	}
	return d
}

func (w *world) step(rt *rapid.T) {
	np := len(w.peers)
	op := pick(rt, "op", opNames)
	switch op {
	case "connect":
		w.connected(w.newConn(rapid.IntRange(0, np-1).Draw(rt, "peer"), rapid.Bool().Draw(rt, "inbound"), rapid.IntRange(0, 2).Draw(rt, "streams")))
	case "connect-burst":
		n := rapid.IntRange(2, 4).Draw(rt, "n")
		for i := 0; i < n; i++ {
			w.connected(w.newConn(rapid.IntRange(0, np-1).Draw(rt, "peer"), rapid.Bool().Draw(rt, "inbound"), rapid.IntRange(0, 2).Draw(rt, "streams")))
		}
	case "connect-dup":
		tr := w.tracked()
		if len(tr) == 0 {
			rt.Skip("nothing tracked")
		}
		w.connected(pick(rt, "conn", tr))
	case "disconnect":
		tr := w.tracked()
		if len(tr) == 0 {
			rt.Skip("nothing tracked")
		}
		w.disconnected(pick(rt, "conn", tr))
	case "disconnect-unknown":
		un := w.untracked()
		if len(un) == 0 || rapid.Bool().Draw(rt, "fresh") {
			w.disconnected(w.newConn(rapid.IntRange(0, np-1).Draw(rt, "peer"), false, 0))
		} else {
			w.disconnected(pick(rt, "conn", un))
		}
	case "tag":
		pi, tag := rapid.IntRange(0, np-1).Draw(rt, "peer"), pick(rt, "tag", staticTags)
		w.tagPeer(pi, tag, w.drawVal(rt, w.peers[pi], tag, -5, 12))
	case "untag":
		w.untagPeer(rapid.IntRange(0, np-1).Draw(rt, "peer"), pick(rt, "tag", staticTags))
	case "upsert":
		name, f := drawUpsertFn(rt)
		w.upsertTag(rapid.IntRange(0, np-1).Draw(rt, "peer"), pick(rt, "tag", staticTags), name, f)
	case "upsert-overlap":
		w.stepUpsertOverlap(rt)
	case "dreg":
		var free []string
		live := map[string]bool{}
		for _, d := range w.liveTags() {
			live[d.name] = true
		}
		for _, n := range decayNames {
			if !live[n] {
				free = append(free, n)
			}
		}
		if len(free) == 0 {
			rt.Skip("all decaying names in use")
		}
		mult := pick(rt, "intervalHalves", []int{1, 2, 4, 6, 12}) // in halves of the resolution
		w.registerDecaying(pick(rt, "name", free), time.Duration(mult)*w.cfg.decayRes/2,
			rapid.IntRange(0, nDecayKinds-1).Draw(rt, "decay"), rapid.IntRange(0, nBumpKinds-1).Draw(rt, "bump"))
	case "decay-scenario":
		// a long-interval tag registered late: idle decayer rounds, register, bump, several rounds
		var free []string
		live := map[string]bool{}
		for _, d := range w.liveTags() {
			live[d.name] = true
		}
		for _, n := range decayNames {
			if !live[n] {
				free = append(free, n)
			}
		}
		if len(free) == 0 {
			rt.Skip("all decaying names in use")
		}
		res := w.cfg.decayRes
		w.advance(time.Duration(rapid.IntRange(1, 3).Draw(rt, "idleRounds"))*res + pick(rt, "offset", []time.Duration{0, time.Second, res / 2}))
		w.registerDecaying(pick(rt, "name", free), time.Duration(pick(rt, "intervalMultiple", []int{2, 3, 6}))*res,
			pick(rt, "decay", []int{decayFixed2, decayHalf, decayFixed2, decayExpire}), rapid.IntRange(0, nBumpKinds-1).Draw(rt, "bump"))
		d := w.dtags[len(w.dtags)-1]
		if d.closed {
			rt.Skip("registration refused")
		}
		if rapid.Bool().Draw(rt, "waitBeforeBump") {
			w.advance(pick(rt, "wait", []time.Duration{time.Second, res, res + time.Second}))
		}
		nb := rapid.IntRange(1, 3).Draw(rt, "nbumps")
		for i := 0; i < nb; i++ {
			w.bump(d, rapid.IntRange(0, np-1).Draw(rt, "peer"), rapid.IntRange(4, 12).Draw(rt, "delta"))
		}
		w.advance(time.Duration(rapid.IntRange(1, 7).Draw(rt, "rounds"))*res + pick(rt, "offset2", []time.Duration{0, time.Second}))
	case "dbump":
		lt := w.liveTags()
		if len(lt) == 0 {
			rt.Skip("no decaying tag")
		}
		d, pi := pick(rt, "dtag", lt), rapid.IntRange(0, np-1).Draw(rt, "peer")
		delta := rapid.IntRange(-3, 10).Draw(rt, "delta")
		if rapid.IntRange(0, 7).Draw(rt, "wideDelta") == 0 {
			delta = drawWide(rt)
			w.labels["wide:bump-delta"] = true
		}
		w.bump(d, pi, delta)
	case "dremove":
		lt := w.liveTags()
		if len(lt) == 0 {
			rt.Skip("no decaying tag")
		}
		w.removeDecaying(pick(rt, "dtag", lt), rapid.IntRange(0, np-1).Draw(rt, "peer"))
	case "dclose":
		lt := w.liveTags()
		if len(lt) == 0 {
			rt.Skip("no decaying tag")
		}
		w.closeDecaying(pick(rt, "dtag", lt))
	case "dclose-reregister":
		w.stepCloseReregister(rt)
	case "dclosed-use":
		w.stepUseClosedTag(rt)
	case "protect":
		w.protect(rapid.IntRange(0, np-1).Draw(rt, "peer"), pick(rt, "ptag", protTags))
	case "unprotect":
		// prefer peers that are protected
		var prot []int
		for _, p := range w.peers {
			if p.protected() {
				prot = append(prot, p.idx)
			}
		}
		pi := rapid.IntRange(0, np-1).Draw(rt, "peer")
		if len(prot) > 0 && rapid.IntRange(0, 3).Draw(rt, "anyPeer") != 0 {
			pi = pick(rt, "protPeer", prot)
		}
		w.unprotect(pi, pick(rt, "ptag", protTags))
	case "advance":
		w.advance(w.drawAdvance(rt))
	case "trim":
		w.trim(trimExplicit)
		if rapid.Bool().Draw(rt, "deliverDisconnects") {
			w.flushClosed(rt, true)
		}
	case "force":
		w.trim(trimForce)
		if rapid.Bool().Draw(rt, "deliverDisconnects") {
			w.flushClosed(rt, true)
		}
	case "flush-closed":
		if len(w.pendingClosed) == 0 {
			rt.Skip("nothing pending")
		}
		w.flushClosed(rt, rapid.Bool().Draw(rt, "all"))
	case "streams":
		tr := w.tracked()
		if len(tr) == 0 {
			rt.Skip("nothing tracked")
		}
		c := pick(rt, "conn", tr)
		n := rapid.IntRange(0, 3).Draw(rt, "streams")
		w.logf("c%d.NumStreams=%d", c.n, n)
		c.streams.Store(int32(n))
	}
	synctest.Wait()
}

// flushClosed delivers the Disconnected notification for connections a trim closed
// (the swarm does this asynchronously in production).
func (w *world) flushClosed(rt *rapid.T, all bool) {
	var pend []*fakeConn
	for _, c := range w.conns {
		if w.pendingClosed[c] {
			pend = append(pend, c)
		}
	}
	for _, c := range pend {
		if all || rapid.Bool().Draw(rt, "deliver") {
			w.disconnected(c)
		}
	}
}

// TestTrimModel is the sequential state machine.
func TestTrimModel(t *testing.T) {
	name := t.Name()
	hx.Check(t, 12000, 1200000, 45, func(rt *rapid.T) {
		cfg := drawConfig(rt)
		np := rapid.IntRange(2, 7).Draw(rt, "npeers")
		auto := rapid.Bool().Draw(rt, "disconnectTrimmedAtOnce")
		var w *world
		hx.Bubble(t, rt, func() {
			w = newWorld(cfg, np, rt.Fatalf)
			defer w.close()
			w.autoFlush = auto
			rt.Repeat(map[string]func(*rapid.T){
				"step": w.step,
				"":     func(*rapid.T) { w.check() },
			})
		})
		labels := make([]string, 0, len(w.labels))
		for l := range w.labels {
			labels = append(labels, l)
		}
		sort.Strings(labels)
		fp := append([]string(nil), w.fps...)
		sort.Strings(fp)
		if auto {
			labels = append(labels, "mode:trimmed-conns-disconnect-at-once")
		} else {
			labels = append(labels, "mode:trimmed-conns-linger")
		}
		stats.Case(name, strings.Join(fp, "\n"), w.nontrivial, labels...)
		if stats.WantSample(name) {
			tr := w.trace
			if len(tr) > 60 {
				tr = tr[:60]
			}
			stats.Sample(name, map[string]any{"config": cfg.String(), "npeers": np, "trace": tr, "nontrivial_trims": w.fps})
		}
	})
}
