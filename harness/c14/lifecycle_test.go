package c14

import (
	"testing/synctest"
	"time"

	cmi "github.com/libp2p/go-libp2p/core/connmgr"
	"pgregory.net/rapid"
)

// Lifecycle of decaying tags as operations of the history.
//
// The statement demands that each peer's tag total equals what the tag operations
// delivered so far imply, for histories with decaying-tag bumps "also issued
// concurrently". A decaying tag has a lifecycle of its own: DecayingTag.Close() ends it
// (its values no longer count for any peer) and RegisterDecayingTag may be called again
// with the name of a closed tag, at any distance from the Close:
//
//   - while the closure is still queued (the decayer goroutine, which applies bumps and
//     closures one after the other, is busy with an earlier bump),
//   - right after the closure has been applied,
//   - after a clock advance (whole or broken decayer rounds in between).
//
// A registration may be refused (the name is still taken while the closure is queued);
// nothing is demanded about that. Whenever it succeeds, the new tag is a decaying tag like
// any other: it enters the model with its own schedule, bumps apply, every decay round
// that is due visits it, and totals and trim order follow (world.diffPeer / judgeBatch).
//
// The schedule "closure still queued" is owned by the harness through a bump function
// (caller code run by the decayer goroutine): while world.gate is set, the next bump
// function call parks until released. Close and RegisterDecayingTag only touch the tag
// registry, never the peer segment the parked bump holds, so they return while the
// decayer is parked; the case stays a pure function of the draws. Only the closure is
// queued inside the window (the decayer picks among several non-empty queues at random).

type bumpGate struct {
	entered, release chan struct{}
	used             bool // only touched by the decayer goroutine
}

func (w *world) gatedBumpFn(kind int) cmi.BumpFn {
	return func(dv cmi.DecayingValue, delta int) int {
		if g := w.gate; g != nil && !g.used {
			g.used = true
			close(g.entered)
			<-g.release
		}
		return bumpOnce(kind, dv.Value, delta)
	}
}

const (
	distQueued  = "closure-still-queued"
	distApplied = "closure-just-applied"
	distAdvance = "after-clock-advance"
)

// stepCloseReregister closes a live decaying tag and registers a tag of the same name
// again at a drawn distance, then (if a registration succeeded) uses the new tag.
func (w *world) stepCloseReregister(rt *rapid.T) {
	lt := w.liveTags()
	if len(lt) == 0 {
		rt.Skip("no decaying tag")
	}
	np, res := len(w.peers), w.cfg.decayRes
	// every draw is made up front, so that the draws do not depend on what the manager answers
	d := pick(rt, "dtag", lt)
	dist := pick(rt, "distance", []string{distQueued, distQueued, distApplied, distAdvance})
	preBump := rapid.Bool().Draw(rt, "bumpBeforeClose")
	prePeer, preDelta := rapid.IntRange(0, np-1).Draw(rt, "prePeer"), rapid.IntRange(1, 10).Draw(rt, "preDelta")
	gateTag := pick(rt, "busyWithBumpOf", lt)
	gatePeer, gateDelta := rapid.IntRange(0, np-1).Draw(rt, "busyPeer"), rapid.IntRange(1, 8).Draw(rt, "busyDelta")
	retry := rapid.IntRange(0, 3).Draw(rt, "retryOnceClosureApplied") != 0
	gap := pick(rt, "gap", []time.Duration{time.Second, res / 2, res, res + time.Second, 2 * res})
	interval := time.Duration(pick(rt, "intervalHalves", []int{1, 2, 2, 4, 6})) * res / 2
	dk := pick(rt, "decay", []int{decayFixed2, decayHalf, decayExpire, decayFixed2, decayNone})
	bk := rapid.IntRange(0, nBumpKinds-1).Draw(rt, "bump")
	nb := rapid.IntRange(0, 3).Draw(rt, "nbumps")
	var bp, bd [3]int
	for i := range bp {
		bp[i], bd[i] = rapid.IntRange(0, np-1).Draw(rt, "peer"), rapid.IntRange(3, 12).Draw(rt, "delta")
	}
	after := time.Duration(rapid.IntRange(0, 5).Draw(rt, "rounds"))*res + pick(rt, "offset", []time.Duration{0, time.Second, res / 2})

	if preBump {
		w.bump(d, prePeer, preDelta)
	}
	w.labels["lifecycle:close-then-register-same-name:"+dist] = true
	var nd *dtagModel
	switch dist {
	case distQueued:
		g := &bumpGate{entered: make(chan struct{}), release: make(chan struct{})}
		w.gate = g
		p := w.peers[gatePeer]
		err := gateTag.handle.Bump(p.id, gateDelta)
		w.logf("Bump(%s,p%d,%d) err=%v; the decayer goroutine is held inside the bump function", gateTag.name, gatePeer, gateDelta, err)
		synctest.Wait()
		w.gate = nil
		parked := false
		select {
		case <-g.entered:
			parked = true
		default:
			w.labels["lifecycle:decayer-not-parked(bump-refused)"] = true
		}
		cerr := d.handle.Close()
		w.logf("Close(%s) err=%v", d.name, cerr)
		if cerr == nil {
			w.closedNames[d.name] = true
		}
		nd = w.registerDecaying(d.name, interval, dk, bk)
		if parked {
			close(g.release)
		}
		synctest.Wait()
		// the decayer finishes the bump first, then gets to the closure
		if err == nil {
			p.touch(time.Now())
			p.decay[gateTag] = bumpOnce(gateTag.bumpKind, p.decay[gateTag], gateDelta)
			if gateTag == d {
				w.labels["lifecycle:closed-while-its-own-bump-is-being-applied"] = true
			}
		}
		if cerr == nil {
			w.modelClosed(d)
		}
	case distApplied:
		w.closeDecaying(d)
		nd = w.registerDecaying(d.name, interval, dk, bk)
	case distAdvance:
		w.closeDecaying(d)
		w.advance(gap)
		nd = w.registerDecaying(d.name, interval, dk, bk)
	}
	if nd != nil {
		w.labels["lifecycle:registration-accepted:"+dist] = true
	} else {
		w.labels["lifecycle:registration-refused:"+dist] = true
		if retry {
			if nd = w.registerDecaying(d.name, interval, dk, bk); nd != nil {
				w.labels["lifecycle:registration-accepted:retry-after-refusal"] = true
			} else {
				w.labels["lifecycle:registration-refused:retry-after-refusal"] = true
			}
		}
	}
	if nd == nil {
		return
	}
	for i := 0; i < nb; i++ {
		w.bump(nd, bp[i], bd[i])
		w.labels["lifecycle:re-registered-tag-bumped"] = true
	}
	if after > 0 {
		w.advance(after)
	}
}

// stepUseClosedTag calls Bump / Remove / Close on the handle of a closed tag. Whatever
// the call answers, a closed tag's value must not count: the model does not change.
func (w *world) stepUseClosedTag(rt *rapid.T) {
	var closed []*dtagModel
	live := map[string]bool{}
	for _, d := range w.dtags {
		if d.closed {
			closed = append(closed, d)
		} else {
			live[d.name] = true
		}
	}
	if len(closed) == 0 {
		rt.Skip("no closed decaying tag")
	}
	d := pick(rt, "closedTag", closed)
	pi := rapid.IntRange(0, len(w.peers)-1).Draw(rt, "peer")
	delta := rapid.IntRange(1, 10).Draw(rt, "delta")
	what := pick(rt, "call", []string{"Bump", "Bump", "Remove", "Close"})
	var err error
	switch what {
	case "Bump":
		err = d.handle.Bump(w.peers[pi].id, delta)
	case "Remove":
		err = d.handle.Remove(w.peers[pi].id)
	default:
		err = d.handle.Close()
	}
	w.logf("%s on the closed tag %s (p%d,%d) err=%v", what, d.name, pi, delta, err)
	synctest.Wait()
	w.labels["lifecycle:"+what+"-on-closed-tag"] = true
	if live[d.name] {
		w.labels["lifecycle:"+what+"-on-closed-tag-while-namesake-registered"] = true
	}
}

// noteLifecycleAtTrim records that a trim which closed something ranked a peer whose
// total contains a value of a re-registered tag.
func (w *world) noteLifecycleAtTrim(snaps []peerSnap) {
	for _, s := range snaps {
		for d, v := range w.peers[s.idx].decay {
			if d.rereg && v != 0 {
				w.labels["lifecycle:trim-closed-conns-while-a-peer-holds-a-value-of-a-re-registered-tag"] = true
			}
		}
	}
}
