package c14

import (
	"fmt"
	"math"
	"math/big"
	"testing"

	"pgregory.net/rapid"

	"verif/internal/hx"
	"verif/internal/stats"
)

// Tag values over the whole int range.
//
// TagPeer, UpsertTag and DecayingTag.Bump take plain ints, negative ones included, and the
// statement orders peers by their totals ("never closes a peer while a lower-valued eligible
// peer is kept") without any bound on the values: a peer pinned with MaxInt and a peer
// punished with a negative total are further apart than an int can express, and the pruning
// order must still be the numeric order of the two totals.

// drawWide draws a value from the classes of the int range that small values do not reach.
func drawWide(rt *rapid.T) int {
	k := rapid.IntRange(0, 100).Draw(rt, "wideOffset")
	switch rapid.IntRange(0, 6).Draw(rt, "wideClass") {
	case 0:
		return math.MaxInt - k
	case 1:
		return math.MinInt + k
	case 2:
		return math.MaxInt/2 + 50 - k // around half the range: twice it is around MaxInt
	case 3:
		return -(math.MaxInt / 2) - 50 + k
	case 4:
		return 1<<62 + 50 - k
	case 5:
		return -(1 << 62) + 50 - k
	default:
		return rapid.Int().Draw(rt, "wideAny")
	}
}

// drawVal draws the value of a TagPeer(p, tag, ·): mostly from the small range [lo,hi], one in
// four from the whole int range, then moved into the room the peer's other tags leave so that
// the peer's total stays a number the manager can report (construction; totals that leave the
// int range only arise from upserts/bumps and are labelled, see peerSnap.unrep).
func (w *world) drawVal(rt *rapid.T, p *peerModel, tag string, lo, hi int) int {
	if rapid.IntRange(0, 3).Draw(rt, "wide") != 0 {
		return rapid.IntRange(lo, hi).Draw(rt, "val")
	}
	v := big.NewInt(int64(drawWide(rt)))
	rest, _ := p.exactTotal()
	rest.Sub(rest, big.NewInt(int64(p.static[tag])))
	min := new(big.Int).Sub(big.NewInt(math.MinInt), rest)
	max := new(big.Int).Sub(big.NewInt(math.MaxInt), rest)
	for _, b := range []struct {
		bound *big.Int
		sign  int
	}{{min, -1}, {max, 1}, {big.NewInt(math.MinInt), -1}, {big.NewInt(math.MaxInt), 1}} {
		if v.Cmp(b.bound) == b.sign {
			v.Set(b.bound)
			w.labels["wide:value-moved-into-the-room-left-by-the-peer's-other-tags"] = true
		}
	}
	return int(v.Int64())
}

func isWide(v int) bool { return v > 1<<32 || v < -(1<<32) }

// ---------------------------------------------------------------------------
// bounded-exhaustive sweep of the trim selection over totals spread over the int range

var widePstates = func() []pstate {
	var out []pstate
	for _, v := range []int{math.MinInt, -(math.MaxInt / 2) - 2, -1, 0, 1, math.MaxInt/2 + 1, math.MaxInt} {
		for _, pr := range []bool{false, true} {
			out = append(out, pstate{v, 1, pr, false})
		}
	}
	return out
}()

// TestTrimEnumeratedWide: every multiset of up to 3 peers (one connection each, past the grace
// period) over total x protected with totals {MinInt, -MaxInt/2-2, -1, 0, 1, MaxInt/2+1, MaxInt},
// every low watermark 1..2 and every kind of trim, judged by the same batch oracle.
func TestTrimEnumeratedWide(t *testing.T) {
	name := t.Name()
	idx := 0
	var rec func(ps []pstate, from int)
	rec = func(ps []pstate, from int) {
		if len(ps) > 0 {
			for low := 1; low <= 2; low++ {
				for _, kind := range []trimKind{trimExplicit, trimBackground, trimForce} {
					idx++
					if !hx.Mine(idx) {
						continue
					}
					w, failure := runEnumCase(t, ps, low, kind)
					if failure != "" {
						t.Fatalf("peers %+v low=%d kind=%v: %s", ps, low, kind, failure)
					}
					labels := []string{"kind:" + kind.String()}
					chose := false
					for l := range w.labels {
						if len(l) > 5 && (l[:5] == "trim-" || l[:5] == "wide:") {
							labels = append(labels, l)
						}
						if len(l) > 16 && l[:16] == "wide:trim-closed" {
							chose = true
						}
					}
					stats.CaseEnumerated(name, chose, labels...)
					if chose && stats.WantSample(name) {
						stats.Sample(name, map[string]any{"peers": fmt.Sprintf("%+v", ps), "low": low, "kind": kind.String()})
					}
				}
			}
		}
		if len(ps) == 3 {
			return
		}
		for s := from; s < len(widePstates); s++ {
			rec(append(ps[:len(ps):len(ps)], widePstates[s]), s)
		}
	}
	rec(nil, 0)
	stats.Exhaustive(name)
}
