package c14

import (
	"fmt"
	"runtime/debug"
	"testing"
	"testing/synctest"
	"time"

	"verif/internal/hx"
	"verif/internal/stats"
)

// Bounded-exhaustive sweep of the trim selection itself: every multiset of up to N peers
// over (value, #conns, protected, still in grace), every low watermark 1..3 and every
// kind of trim, judged by the same batch oracle as the state machine.

type pstate struct {
	value, conns int
	prot, fresh  bool
}

var pstates = func() []pstate {
	var out []pstate
	for v := 0; v < 3; v++ {
		for c := 1; c <= 2; c++ {
			for _, pr := range []bool{false, true} {
				for _, fr := range []bool{false, true} {
					out = append(out, pstate{v, c, pr, fr})
				}
			}
		}
	}
	return out
}()

type enumFailure struct{ msg string }

// runBubble runs f in a synctest bubble and returns the failure raised through failf, if any.
func runBubble(t *testing.T, f func(failf func(string, ...any))) (failure string) {
	synctest.Test(t, func(*testing.T) {
		defer func() {
			if r := recover(); r != nil {
				if ef, ok := r.(enumFailure); ok {
					failure = ef.msg
					return
				}
				failure = fmt.Sprintf("panic: %v\n%s", r, debug.Stack())
			}
		}()
		f(func(format string, args ...any) { panic(enumFailure{fmt.Sprintf(format, args...)}) })
	})
	return
}

func runEnumCase(t *testing.T, ps []pstate, low int, kind trimKind) (w *world, failure string) {
	cfg := config{low: low, high: low + 1, grace: 30 * time.Second, silence: 25 * time.Second, decayRes: time.Hour}
	failure = runBubble(t, func(failf func(string, ...any)) {
		w = newWorld(cfg, len(ps), failf)
		defer w.close()
		setup := func(fresh bool) {
			for i, s := range ps {
				if s.fresh != fresh {
					continue
				}
				for k := 0; k < s.conns; k++ {
					w.connected(w.newConn(i, (i+k)%2 == 0, k))
				}
				if s.value != 0 {
					w.tagPeer(i, "s0", s.value)
				}
				if s.prot {
					w.protect(i, "pa")
				}
			}
			w.check()
		}
		setup(false)
		w.advance(40 * time.Second) // background tick at 25s: everybody still in grace
		setup(true)
		switch kind {
		case trimBackground:
			w.advance(10 * time.Second) // tick at 50s: old peers are 50s old, fresh ones 10s
		default:
			w.trim(kind)
		}
		w.check()
	})
	return
}

func TestTrimEnumerated(t *testing.T) {
	name := t.Name()
	maxPeers := hx.Pick(3, 4)
	idx := 0
	var rec func(ps []pstate, from int)
	rec = func(ps []pstate, from int) {
		if len(ps) > 0 {
			for low := 1; low <= 3; low++ {
				for _, kind := range []trimKind{trimExplicit, trimBackground, trimForce} {
					idx++
					if !hx.Mine(idx) {
						continue
					}
					w, failure := runEnumCase(t, ps, low, kind)
					if failure != "" {
						t.Fatalf("peers %+v low=%d kind=%v: %s", ps, low, kind, failure)
					}
					labels := []string{"kind:" + kind.String()}
					for l := range w.labels {
						if len(l) > 5 && l[:5] == "trim-" || l == "force-closed-protected" || l == "force-closed-in-grace" {
							labels = append(labels, l)
						}
					}
					stats.CaseEnumerated(name, w.nontrivial, labels...)
					if w.nontrivial && stats.WantSample(name) {
						stats.Sample(name, map[string]any{"peers": fmt.Sprintf("%+v", ps), "low": low, "kind": kind.String(), "trims": w.fps})
					}
				}
			}
		}
		if len(ps) == maxPeers {
			return
		}
		for s := from; s < len(pstates); s++ {
			rec(append(ps[:len(ps):len(ps)], pstates[s]), s)
		}
	}
	rec(nil, 0)
	stats.Exhaustive(name)
}
