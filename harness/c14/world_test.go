// Package c14 checks property C14: the connection manager trims only eligible peers,
// lowest value first, and its connection count / tag totals follow the notifications
// and tag operations delivered so far.
//
// world_test.go holds the pieces shared by all tests: the fake network.Conn that
// records closes, the reference model, the per-trim batch oracle (judge) and the
// after-every-step comparison of the manager with the model (check).
package c14

import (
	"context"
	"fmt"
	"math"
	"math/big"
	"sort"
	"strings"
	"sync"
	"sync/atomic"
	"testing/synctest"
	"time"

	ic "github.com/libp2p/go-libp2p/core/crypto"
	cmi "github.com/libp2p/go-libp2p/core/connmgr"
	"github.com/libp2p/go-libp2p/core/network"
	"github.com/libp2p/go-libp2p/core/peer"
	"github.com/libp2p/go-libp2p/p2p/net/connmgr"
	ma "github.com/multiformats/go-multiaddr"

	"verif/internal/keys"
)

// ---------------------------------------------------------------------------
// peers: a pool with two pairs sharing a segment (the manager shards by the last
// byte of the peer ID) so that same-segment and cross-segment paths both occur.

var peerPool = func() []peer.ID {
	byLast := map[byte][]peer.ID{}
	var pairs, singles []peer.ID
	used := map[peer.ID]bool{}
	for i := 0; i < 400 && len(pairs) < 4; i++ {
		id := keys.Ed(1000 + i).ID
		b := id[len(id)-1]
		byLast[b] = append(byLast[b], id)
		if len(byLast[b]) == 2 {
			pairs = append(pairs, byLast[b]...)
			used[byLast[b][0]], used[byLast[b][1]] = true, true
		}
	}
	for i := 0; len(singles) < 6; i++ {
		id := keys.Ed(1000 + i).ID
		if !used[id] && len(byLast[id[len(id)-1]]) == 1 {
			singles = append(singles, id)
		}
	}
	// order: pair, single, single, pair, single ...
	out := []peer.ID{pairs[0], pairs[1], singles[0], singles[1], pairs[2], pairs[3], singles[2], singles[3], singles[4], singles[5]}
	return out
}()

// ---------------------------------------------------------------------------
// fake connection

type closeEvent struct {
	c     *fakeConn
	at    time.Time
	code  network.ConnErrorCode
	plain bool  // Close() instead of CloseWithError
	force int32 // number of ForceTrim calls in flight when the close happened (concurrent test)
	gid   uint64 // goroutine that made the call (trimoverlap_test.go; a trim closes on its caller's goroutine)
}

type recorder struct {
	mu          sync.Mutex
	closes      []closeEvent
	forceActive atomic.Int32
	// trimoverlap_test.go: set while no trim is running, read by the closing goroutines
	tagGID bool
	hook   func(closeEvent) // called after the close was recorded, on the closing goroutine
}

func (r *recorder) record(ev closeEvent) {
	ev.at = time.Now()
	ev.force = r.forceActive.Load()
	if r.tagGID {
		ev.gid = curGID()
	}
	r.mu.Lock()
	r.closes = append(r.closes, ev)
	r.mu.Unlock()
	if r.hook != nil {
		r.hook(ev)
	}
}

func (r *recorder) mark() int {
	r.mu.Lock()
	defer r.mu.Unlock()
	return len(r.closes)
}

func (r *recorder) since(mark int) []closeEvent {
	r.mu.Lock()
	defer r.mu.Unlock()
	return append([]closeEvent(nil), r.closes[mark:]...)
}

type fakeConn struct {
	n       int // index in creation order
	pi      int // index of the remote peer in the case's peer list
	remote  peer.ID
	addr    ma.Multiaddr
	dir     network.Direction
	streams atomic.Int32
	opened  time.Time
	rec     *recorder
}

var _ network.Conn = (*fakeConn)(nil)

var localAddr = ma.StringCast("/ip4/127.0.0.1/tcp/4001")

func newFakeConn(rec *recorder, n, pi int, remote peer.ID, inbound bool, streams int) *fakeConn {
	c := &fakeConn{n: n, pi: pi, remote: remote, rec: rec, opened: time.Now(),
		addr: ma.StringCast(fmt.Sprintf("/ip4/10.%d.%d.%d/tcp/%d", pi, n/250, 1+n%250, 1000+n))}
	c.dir = network.DirOutbound
	if inbound {
		c.dir = network.DirInbound
	}
	c.streams.Store(int32(streams))
	return c
}

func (c *fakeConn) Close() error {
	c.rec.record(closeEvent{c: c, plain: true})
	return nil
}
func (c *fakeConn) CloseWithError(code network.ConnErrorCode) error {
	c.rec.record(closeEvent{c: c, code: code})
	return nil
}
func (c *fakeConn) ID() string                                      { return fmt.Sprintf("fake-%d", c.n) }
func (c *fakeConn) NewStream(context.Context) (network.Stream, error) { return nil, fmt.Errorf("fake") }
func (c *fakeConn) GetStreams() []network.Stream                    { return nil }
func (c *fakeConn) IsClosed() bool                                  { return false }
func (c *fakeConn) As(any) bool                                     { return false }
func (c *fakeConn) LocalPeer() peer.ID                              { return "" }
func (c *fakeConn) RemotePeer() peer.ID                             { return c.remote }
func (c *fakeConn) RemotePublicKey() ic.PubKey                      { return nil }
func (c *fakeConn) ConnState() network.ConnectionState              { return network.ConnectionState{} }
func (c *fakeConn) LocalMultiaddr() ma.Multiaddr                    { return localAddr }
func (c *fakeConn) RemoteMultiaddr() ma.Multiaddr                   { return c.addr }
func (c *fakeConn) Scope() network.ConnScope                        { return nil }
func (c *fakeConn) Stat() network.ConnStats {
	return network.ConnStats{Stats: network.Stats{Direction: c.dir, Opened: c.opened}, NumStreams: int(c.streams.Load())}
}

// ---------------------------------------------------------------------------
// configuration and model

type config struct {
	low, high                int
	grace, silence, decayRes time.Duration
}

func (c config) String() string {
	return fmt.Sprintf("low=%d high=%d grace=%v silence=%v res=%v", c.low, c.high, c.grace, c.silence, c.decayRes)
}

type trimKind int

const (
	trimExplicit trimKind = iota
	trimBackground
	trimForce
)

func (k trimKind) String() string { return [...]string{"TrimOpenConns", "background", "ForceTrim"}[k] }

var (
	staticTags = []string{"s0", "s1", "s2"}
	decayNames = []string{"d0", "d1", "d2"}
	protTags   = []string{"pa", "pb", "pc"}
)

// decaying tag behaviours (pure functions of the value, re-implemented by the model)
const (
	decayFixed2 = iota // v-2, removed when <= 0
	decayNone
	decayHalf   // v/2, removed when == 0
	decayExpire // always removed
	nDecayKinds
)
const (
	bumpSum = iota
	bumpOverwrite
	bumpBounded // min(v+delta, 12), max(..., -4)
	nBumpKinds
)

func decayOnce(kind, v int) int {
	switch kind {
	case decayFixed2:
		if v-2 <= 0 {
			return 0
		}
		return v - 2
	case decayNone:
		return v
	case decayHalf:
		return v / 2
	default:
		return 0
	}
}

func decayFn(kind int) cmi.DecayFn {
	return func(dv cmi.DecayingValue) (int, bool) {
		switch kind {
		case decayFixed2:
			a := dv.Value - 2
			return a, a <= 0
		case decayNone:
			return dv.Value, false
		case decayHalf:
			a := dv.Value / 2
			return a, a == 0
		default:
			return 0, true
		}
	}
}

func bumpOnce(kind, v, delta int) int {
	switch kind {
	case bumpSum:
		return v + delta
	case bumpOverwrite:
		return delta
	default:
		n := v + delta
		if n > 12 {
			n = 12
		}
		if n < -4 {
			n = -4
		}
		return n
	}
}

func bumpFn(kind int) cmi.BumpFn {
	return func(dv cmi.DecayingValue, delta int) int { return bumpOnce(kind, dv.Value, delta) }
}

type dtagModel struct {
	name      string
	handle    cmi.DecayingTag
	decayKind int
	bumpKind  int
	closed    bool
	// schedule, from the documented semantics: the decayer ticks every Resolution; a tag is
	// decayed once per (effective) Interval, first one Interval after the decayer tick at or
	// before its registration. Effective interval = max(requested, Resolution).
	interval time.Duration
	nextDue  time.Time
	late     bool // interval >= 2 resolutions and registered after >= 1 decayer round in which no tag was due
	rereg    bool // registered under a name that an earlier, closed tag had (lifecycle_test.go)
}

type peerModel struct {
	idx       int
	id        peer.ID
	conns     map[*fakeConn]bool // tracked according to the notifications delivered
	firstSeen time.Time          // instant of the Connected that made conns non-empty
	temp      bool               // tagged before any connection: the manager buffers the tags
	tempSince time.Time
	static    map[string]int
	decay     map[*dtagModel]int
	prot      map[string]bool
}

func (p *peerModel) exists() bool    { return len(p.conns) > 0 || p.temp }
func (p *peerModel) protected() bool { return len(p.prot) > 0 }
func (p *peerModel) total() int {
	s := 0
	for _, v := range p.static {
		s += v
	}
	for _, v := range p.decay {
		s += v
	}
	return s
}

// exactTotal is the peer's tag total as a number (the tag values are ints, their sum need
// not be one); fits = the manager can report it in GetTagInfo().Value at all.
func (p *peerModel) exactTotal() (sum *big.Int, fits bool) {
	sum = new(big.Int)
	for _, v := range p.static {
		sum.Add(sum, big.NewInt(int64(v)))
	}
	for _, v := range p.decay {
		sum.Add(sum, big.NewInt(int64(v)))
	}
	return sum, sum.IsInt64()
}

// wideGap: the difference of the two totals does not fit an int.
func wideGap(a, b int) bool {
	d := new(big.Int).Sub(big.NewInt(int64(a)), big.NewInt(int64(b)))
	return d.CmpAbs(big.NewInt(math.MaxInt)) > 0
}

func (p *peerModel) anyNonZero() bool {
	for _, v := range p.static {
		if v != 0 {
			return true
		}
	}
	for _, v := range p.decay {
		if v != 0 {
			return true
		}
	}
	return false
}
func (p *peerModel) dropEntry() {
	p.temp = false
	p.static = map[string]int{}
	p.decay = map[*dtagModel]int{}
}
func (p *peerModel) touch(now time.Time) { // a tag operation that makes the manager buffer an entry
	if !p.exists() {
		p.temp, p.tempSince = true, now
	}
}

// peerSnap is what a trim can see of one peer with at least one tracked connection.
type peerSnap struct {
	idx       int
	conns     []*fakeConn
	protected bool
	firstSeen time.Time
	vlo, vhi  int // value during the trim (a range when a decay tick coincides with it)
	unrep     bool // the sum of the peer's tag values does not fit an int: it has no reportable total, its rank is not judged
}

// ---------------------------------------------------------------------------
// world = manager + model + history

type world struct {
	failf func(format string, args ...any)
	cfg   config
	cm    *connmgr.BasicConnMgr
	nf    network.Notifiee
	rec   *recorder
	t0    time.Time
	peers []*peerModel
	conns []*fakeConn
	dtags []*dtagModel

	pendingClosed map[*fakeConn]bool // closed by a trim; Disconnected not delivered yet
	autoFlush     bool               // deliver Disconnected for every connection a trim closes right away

	// flags describing the step that just ran, consumed by check()
	idleRounds   int // decayer rounds since the last one in which some tag was due
	gate         *bumpGate       // lifecycle_test.go: the next bump function call parks the decayer loop
	closedNames  map[string]bool // names of decaying tags closed so far
	trimTimes    []time.Time // instants at which a regular (non-forced) trim ran or may have run

	// statistics
	labels     map[string]bool
	fps        []string
	nontrivial bool
	trace      []string
}

func newWorld(cfg config, npeers int, failf func(string, ...any)) *world {
	w := &world{failf: failf, cfg: cfg, rec: &recorder{}, pendingClosed: map[*fakeConn]bool{}, labels: map[string]bool{}, closedNames: map[string]bool{}}
	cm, err := connmgr.NewConnManager(cfg.low, cfg.high,
		connmgr.WithGracePeriod(cfg.grace), connmgr.WithSilencePeriod(cfg.silence),
		connmgr.DecayerConfig(&connmgr.DecayerCfg{Resolution: cfg.decayRes}))
	if err != nil {
		failf("NewConnManager(%v): %v", cfg, err)
	}
	w.cm, w.nf, w.t0 = cm, cm.Notifee(), time.Now()
	for i := 0; i < npeers; i++ {
		w.peers = append(w.peers, &peerModel{idx: i, id: peerPool[i], conns: map[*fakeConn]bool{},
			static: map[string]int{}, decay: map[*dtagModel]int{}, prot: map[string]bool{}})
	}
	return w
}

func (w *world) close() { w.cm.Close() }

func (w *world) logf(format string, args ...any) {
	w.trace = append(w.trace, fmt.Sprintf("[%v] ", time.Since(w.t0))+fmt.Sprintf(format, args...))
}

func (w *world) fail(format string, args ...any) {
	w.failf("%s\nconfig: %v\ntrace:\n  %s", fmt.Sprintf(format, args...), w.cfg, strings.Join(w.trace, "\n  "))
}

func (w *world) count() int {
	n := 0
	for _, p := range w.peers {
		n += len(p.conns)
	}
	return n
}

func (w *world) tracked() []*fakeConn {
	var out []*fakeConn
	for _, c := range w.conns {
		if w.peers[c.pi].conns[c] {
			out = append(out, c)
		}
	}
	return out
}

func (w *world) untracked() []*fakeConn {
	var out []*fakeConn
	for _, c := range w.conns {
		if !w.peers[c.pi].conns[c] {
			out = append(out, c)
		}
	}
	return out
}

func (w *world) liveTags() []*dtagModel {
	var out []*dtagModel
	for _, d := range w.dtags {
		if !d.closed {
			out = append(out, d)
		}
	}
	return out
}

// --- operations (each mirrors one call on the manager into the model) ---

func (w *world) newConn(pi int, inbound bool, streams int) *fakeConn {
	c := newFakeConn(w.rec, len(w.conns), pi, w.peers[pi].id, inbound, streams)
	w.conns = append(w.conns, c)
	return c
}

func (w *world) connected(c *fakeConn) {
	p := w.peers[c.pi]
	dup := p.conns[c]
	w.logf("Connected(p%d c%d)%s", c.pi, c.n, map[bool]string{true: " (duplicate)", false: ""}[dup])
	w.nf.Connected(nil, c)
	if dup {
		w.labels["dup-connect"] = true
		return
	}
	if len(p.conns) == 0 {
		p.firstSeen = time.Now()
		if p.temp {
			w.labels["early-tags-then-connect"] = true
		}
		p.temp = false // buffered tags are kept
	} else {
		w.labels["multi-conn-peer"] = true
	}
	p.conns[c] = true
}

func (w *world) disconnected(c *fakeConn) {
	p := w.peers[c.pi]
	known := p.conns[c]
	w.logf("Disconnected(p%d c%d)%s", c.pi, c.n, map[bool]string{false: " (not tracked)", true: ""}[known])
	w.nf.Disconnected(nil, c)
	if !known {
		w.labels["unknown-disconnect"] = true
		return
	}
	delete(p.conns, c)
	delete(w.pendingClosed, c)
	if len(p.conns) == 0 {
		// the peer is gone: everything recorded for it goes with it
		if p.anyNonZero() {
			w.labels["disconnect-drops-tags"] = true
		}
		p.dropEntry()
	}
}

func (w *world) tagPeer(pi int, tag string, val int) {
	p := w.peers[pi]
	w.logf("TagPeer(p%d,%s,%d)", pi, tag, val)
	w.cm.TagPeer(p.id, tag, val)
	p.touch(time.Now())
	p.static[tag] = val
	if val < 0 {
		w.labels["negative-tag"] = true
	}
	if isWide(val) {
		w.labels["wide:TagPeer-value"] = true
	}
}

func (w *world) untagPeer(pi int, tag string) {
	p := w.peers[pi]
	w.logf("UntagPeer(p%d,%s)", pi, tag)
	w.cm.UntagPeer(p.id, tag)
	delete(p.static, tag)
}

func (w *world) upsertTag(pi int, tag string, name string, f func(int) int) {
	p := w.peers[pi]
	w.logf("UpsertTag(p%d,%s,%s)", pi, tag, name)
	w.cm.UpsertTag(p.id, tag, f)
	p.touch(time.Now())
	p.static[tag] = f(p.static[tag])
	if isWide(p.static[tag]) {
		w.labels["wide:UpsertTag-result"] = true
	}
}

func (w *world) registerDecaying(name string, interval time.Duration, dk, bk int) *dtagModel {
	h, err := w.cm.RegisterDecayingTag(name, interval, decayFn(dk), w.gatedBumpFn(bk))
	w.logf("RegisterDecayingTag(%s,%v,decay=%d,bump=%d) err=%v", name, interval, dk, bk, err)
	if err != nil {
		return nil
	}
	res := w.cfg.decayRes
	eff := h.Interval() // documented: the effective interval (raised to the resolution when shorter)
	lastRound := w.t0.Add(time.Since(w.t0) / res * res) // decayer tick at or before now
	d := &dtagModel{name: name, handle: h, decayKind: dk, bumpKind: bk, interval: eff, nextDue: lastRound.Add(eff),
		late: eff >= 2*res && w.idleRounds >= 1, rereg: w.closedNames[name]}
	w.dtags = append(w.dtags, d)
	w.labels["decaying-tag"] = true
	if d.rereg {
		w.labels["lifecycle:registered-under-the-name-of-a-closed-tag"] = true
	}
	if eff >= 2*res {
		w.labels["decaying:interval-multiple-of-resolution"] = true
	}
	if d.late {
		w.labels["decaying:long-interval-registered-after-idle-rounds"] = true
	}
	return d
}

// decayRound mirrors one tick of the decayer at instant now: every live tag that is due is
// applied once to every peer holding a value for it and becomes due again one interval later.
func (w *world) decayRound(now time.Time) {
	anyDue := false
	for _, d := range w.dtags {
		if d.closed {
			continue
		}
		due := !d.nextDue.After(now)
		for _, p := range w.peers {
			v, ok := p.decay[d]
			if !ok {
				continue
			}
			if v != 0 && d.decayKind != decayNone && d.late {
				w.labels["decaying:late-long-tag-holds-value-across-round"] = true
				if !due {
					w.labels["decaying:late-long-tag-round-not-due"] = true
				}
			}
			if !due {
				if v != 0 && d.decayKind != decayNone {
					w.labels["decaying:round-passes-tag-not-due"] = true
				}
				continue
			}
			nv := decayOnce(d.decayKind, v)
			if nv != v {
				w.labels["decay-applied-by-schedule"] = true
				if d.rereg {
					w.labels["lifecycle:re-registered-tag-decayed-by-schedule"] = true
				}
			}
			if nv == 0 {
				delete(p.decay, d)
			} else {
				p.decay[d] = nv
			}
		}
		if due {
			anyDue = true
			d.nextDue = d.nextDue.Add(d.interval)
		}
	}
	if anyDue {
		w.idleRounds = 0
	} else {
		w.idleRounds++
	}
}

func (w *world) bump(d *dtagModel, pi, delta int) {
	p := w.peers[pi]
	err := d.handle.Bump(p.id, delta)
	w.logf("Bump(%s,p%d,%d) err=%v", d.name, pi, delta, err)
	synctest.Wait() // applied asynchronously by the decayer goroutine
	if err != nil {
		return
	}
	p.touch(time.Now())
	p.decay[d] = bumpOnce(d.bumpKind, p.decay[d], delta)
	w.labels["decaying-bump"] = true
}

func (w *world) removeDecaying(d *dtagModel, pi int) {
	p := w.peers[pi]
	err := d.handle.Remove(p.id)
	w.logf("Remove(%s,p%d) err=%v", d.name, pi, err)
	synctest.Wait()
	if err != nil {
		return
	}
	p.touch(time.Now())
	delete(p.decay, d)
}

func (w *world) closeDecaying(d *dtagModel) {
	err := d.handle.Close()
	w.logf("Close(%s) err=%v", d.name, err)
	synctest.Wait()
	if err != nil {
		return
	}
	w.modelClosed(d)
}

// modelClosed: a closed tag's values no longer count for any peer.
func (w *world) modelClosed(d *dtagModel) {
	d.closed = true
	w.closedNames[d.name] = true
	for _, p := range w.peers {
		if p.decay[d] != 0 {
			w.labels["lifecycle:closed-tag-held-a-value"] = true
		}
		delete(p.decay, d)
	}
}

func (w *world) protect(pi int, tag string) {
	w.logf("Protect(p%d,%s)", pi, tag)
	w.cm.Protect(w.peers[pi].id, tag)
	w.peers[pi].prot[tag] = true
	if len(w.peers[pi].prot) > 1 {
		w.labels["multi-tag-protection"] = true
	}
}

func (w *world) unprotect(pi int, tag string) {
	w.logf("Unprotect(p%d,%s)", pi, tag)
	w.cm.Unprotect(w.peers[pi].id, tag)
	p := w.peers[pi]
	if p.prot[tag] && len(p.prot) > 1 {
		w.labels["unprotect-one-of-several"] = true
	}
	delete(p.prot, tag)
}

func (w *world) snapshot() []peerSnap {
	var out []peerSnap
	for _, p := range w.peers {
		if len(p.conns) == 0 {
			continue
		}
		s := peerSnap{idx: p.idx, protected: p.protected(), firstSeen: p.firstSeen}
		for _, c := range w.conns {
			if p.conns[c] {
				s.conns = append(s.conns, c)
			}
		}
		s.vlo = p.total()
		s.vhi = s.vlo
		if _, fits := p.exactTotal(); !fits {
			s.unrep = true
			w.labels["wide:peer-total-does-not-fit-int-at-trim(rank-not-judged)"] = true
		}
		out = append(out, s)
	}
	return out
}

func (w *world) noteClosed(batch []closeEvent) {
	for _, ev := range batch {
		if w.peers[ev.c.pi].conns[ev.c] {
			w.pendingClosed[ev.c] = true
			if w.autoFlush {
				w.disconnected(ev.c)
			}
		}
	}
}

// trim runs TrimOpenConns or ForceTrim and judges the batch of closes it produced.
func (w *world) trim(kind trimKind) {
	snaps := w.snapshot()
	mark := w.rec.mark()
	now := time.Now()
	if kind == trimForce {
		w.cm.ForceTrim()
	} else {
		w.cm.TrimOpenConns(context.Background())
		w.trimTimes = append(w.trimTimes, now)
	}
	synctest.Wait()
	batch := w.rec.since(mark)
	w.logf("%v -> closed %s", kind, connList(batch))
	w.judge(kind, now, snaps, batch)
	w.noteClosed(batch)
}

// advance moves the virtual clock forward by d, in segments that each contain at most
// one tick of the background trimmer and at most one tick of the decayer, so that every
// background trim is judged against the state it ran in.
func (w *world) advance(d time.Duration) {
	w.logf("advance %v", d)
	end := time.Now().Add(d)
	for time.Now().Before(end) {
		now := time.Now()
		next := end
		for _, per := range []time.Duration{w.cfg.silence, w.cfg.decayRes} {
			k := now.Sub(w.t0)/per + 1
			if tick := w.t0.Add(k * per); tick.Before(next) {
				next = tick
			}
		}
		snaps := w.snapshot()
		mark := w.rec.mark()
		time.Sleep(next.Sub(now))
		synctest.Wait()
		if time.Since(w.t0)%w.cfg.decayRes == 0 {
			w.decayRound(time.Now())
		}
		w.trimTimes = append(w.trimTimes, time.Now())
		w.check()
		batch := w.rec.since(mark)
		if len(batch) == 0 {
			continue
		}
		at := batch[0].at
		for _, ev := range batch {
			if !ev.at.Equal(at) {
				w.fail("harness assumption broken: closes at two instants (%v, %v) within one clock segment", at.Sub(w.t0), ev.at.Sub(w.t0))
			}
		}
		for i := range snaps {
			v := w.peers[snaps[i].idx].total()
			if v < snaps[i].vlo {
				snaps[i].vlo = v
				w.labels["bg-trim-coincides-with-decay"] = true
			}
			if v > snaps[i].vhi {
				snaps[i].vhi = v
				w.labels["bg-trim-coincides-with-decay"] = true
			}
		}
		w.logf("background trim at %v -> closed %s", at.Sub(w.t0), connList(batch))
		w.judge(trimBackground, at, snaps, batch)
		w.noteClosed(batch)
	}
}

func connList(batch []closeEvent) string {
	var b strings.Builder
	b.WriteString("[")
	for i, ev := range batch {
		if i > 0 {
			b.WriteString(" ")
		}
		fmt.Fprintf(&b, "p%d/c%d", ev.c.pi, ev.c.n)
	}
	b.WriteString("]")
	return b.String()
}

// ---------------------------------------------------------------------------
// the per-trim oracle

func (c config) inGrace(firstSeen, now time.Time) bool {
	return c.grace > 0 && now.Sub(firstSeen) < c.grace
}

// pastGrace is deliberately strict: a peer whose age equals the grace period exactly
// may be treated either way (the statement does not fix the boundary).
func (c config) pastGrace(firstSeen, now time.Time) bool {
	return c.grace == 0 || now.Sub(firstSeen) > c.grace
}

// judgeBatch checks one trim against the statement. snaps = peers with tracked
// connections at the time of the trim; closed = connections closed by it.
func judgeBatch(cfg config, kind trimKind, now time.Time, snaps []peerSnap, batch []closeEvent) string {
	return judgeBatchX(cfg, kind, now, snaps, batch, nil, false)
}

// judgeBatchX: also = connections closed by other trims before this one returned (overlapping
// trims, trimoverlap_test.go): they are not "left" when this trim returns, whoever closed them.
// forceIgnoresGrace: for the bound on what a ForceTrim leaves, every unprotected peer is eligible
// (ForceTrim documents that it ignores the grace period).
func judgeBatchX(cfg config, kind trimKind, now time.Time, snaps []peerSnap, batch []closeEvent, also map[*fakeConn]bool, forceIgnoresGrace bool) string {
	closed := map[*fakeConn]bool{}
	for _, ev := range batch {
		closed[ev.c] = true
	}
	tracked := map[*fakeConn]bool{}
	count := 0
	for _, s := range snaps {
		for _, c := range s.conns {
			tracked[c] = true
		}
		count += len(s.conns)
	}
	for _, ev := range batch {
		if !tracked[ev.c] {
			return fmt.Sprintf("%v closed connection c%d of p%d, which the notifications delivered so far say is not open", kind, ev.c.n, ev.c.pi)
		}
	}
	if count <= cfg.low && len(closed) > 0 {
		return fmt.Sprintf("%v closed %s although the connection count %d is at or below the low watermark %d", kind, connList(batch), count, cfg.low)
	}
	nclosed := func(s peerSnap) int {
		n := 0
		for _, c := range s.conns {
			if closed[c] {
				n++
			}
		}
		return n
	}
	eligible := func(s peerSnap) bool { return !s.protected && cfg.pastGrace(s.firstSeen, now) }

	protectedClosed := false
	for _, s := range snaps {
		if nclosed(s) == 0 {
			continue
		}
		if s.protected {
			protectedClosed = true
			if kind != trimForce {
				return fmt.Sprintf("%v closed a connection of protected peer p%d", kind, s.idx)
			}
		}
		if kind != trimForce && cfg.inGrace(s.firstSeen, now) {
			return fmt.Sprintf("%v closed a connection of p%d, which is still inside its grace period (age %v < %v)", kind, s.idx, now.Sub(s.firstSeen), cfg.grace)
		}
	}
	if protectedClosed {
		// forced trim: protected peers only after all unprotected ones
		for _, s := range snaps {
			if !s.protected && nclosed(s) != len(s.conns) {
				return fmt.Sprintf("%v closed a protected peer while unprotected peer p%d keeps %d of its %d connections", kind, s.idx, len(s.conns)-nclosed(s), len(s.conns))
			}
		}
	}
	// lowest value first. When a decay tick shares the instant of a background trim the values move
	// under the trim's sort, whose outcome is then not determined by any single snapshot: not judged.
	stable := true
	for _, s := range snaps {
		if s.vlo != s.vhi {
			stable = false
		}
	}
	for _, p := range snaps {
		if nclosed(p) == 0 || !stable || p.unrep {
			continue
		}
		for _, q := range snaps {
			// plain numeric order of the totals, whatever their distance
			if nclosed(q) == 0 && eligible(q) && !q.unrep && q.vhi < p.vlo {
				return fmt.Sprintf("%v closed p%d (value %d) while the lower-valued eligible peer p%d (value %d) is kept", kind, p.idx, p.vlo, q.idx, q.vhi)
			}
		}
	}
	// at most low-watermark connections are left among the eligible peers
	if count > cfg.low {
		left := 0
		for _, s := range snaps {
			if eligible(s) || (forceIgnoresGrace && kind == trimForce && !s.protected) {
				for _, c := range s.conns {
					if !closed[c] && !also[c] {
						left++
					}
				}
			}
		}
		if left > cfg.low {
			among := "the eligible peers"
			if forceIgnoresGrace && kind == trimForce {
				among = "the unprotected peers (a forced trim ignores the grace period)"
			}
			return fmt.Sprintf("%v with %d connections (low watermark %d) left %d connections open among %s when it returned", kind, count, cfg.low, left, among)
		}
	}
	return ""
}

func describeSnaps(cfg config, now time.Time, snaps []peerSnap, batch []closeEvent) string {
	closed := map[*fakeConn]bool{}
	for _, ev := range batch {
		closed[ev.c] = true
	}
	var rows []string
	for _, s := range snaps {
		n := 0
		for _, c := range s.conns {
			if closed[c] {
				n++
			}
		}
		g := "out"
		if cfg.inGrace(s.firstSeen, now) {
			g = "grace"
		} else if !cfg.pastGrace(s.firstSeen, now) {
			g = "edge"
		}
		v := fmt.Sprint(s.vlo)
		if s.vhi != s.vlo {
			v = fmt.Sprintf("%d..%d", s.vlo, s.vhi)
		}
		rows = append(rows, fmt.Sprintf("v=%s conns=%d prot=%v %s closed=%d", v, len(s.conns), s.protected, g, n))
	}
	sort.Strings(rows)
	return strings.Join(rows, " | ")
}

func (w *world) judge(kind trimKind, now time.Time, snaps []peerSnap, batch []closeEvent) {
	if msg := judgeBatch(w.cfg, kind, now, snaps, batch); msg != "" {
		w.fail("%s\npeers at the trim: %s", msg, describeSnaps(w.cfg, now, snaps, batch))
	}
	// statistics
	count, special, edge := 0, false, false
	for _, s := range snaps {
		count += len(s.conns)
		if s.protected || w.cfg.inGrace(s.firstSeen, now) {
			special = true
		}
		if !w.cfg.inGrace(s.firstSeen, now) && !w.cfg.pastGrace(s.firstSeen, now) {
			edge = true
		}
	}
	name := map[trimKind]string{trimExplicit: "explicit", trimBackground: "background", trimForce: "force"}[kind]
	distinct := map[*fakeConn]bool{}
	for _, ev := range batch {
		distinct[ev.c] = true
	}
	// the wide-value class: eligible peers whose totals are further apart than MaxInt
	if count > w.cfg.low {
		hit := func(s peerSnap) bool {
			for _, c := range s.conns {
				if distinct[c] {
					return true
				}
			}
			return false
		}
		for _, p := range snaps {
			for _, q := range snaps {
				if p.unrep || q.unrep || p.protected || q.protected || !w.cfg.pastGrace(p.firstSeen, now) || !w.cfg.pastGrace(q.firstSeen, now) || !wideGap(p.vlo, q.vlo) {
					continue
				}
				w.labels["wide:trim-above-low-with-eligible-totals-further-apart-than-maxint:"+name] = true
				if hit(p) != hit(q) {
					w.labels["wide:trim-closed-one-kept-other-of-peers-further-apart-than-maxint:"+name] = true
				}
			}
		}
	}
	if len(distinct) < len(batch) {
		w.labels["same-conn-closed-twice-in-one-trim:"+name] = true
	}
	if kind == trimForce && count-len(distinct) > w.cfg.low {
		// not part of the statement (which only bounds the eligible peers); recorded for the report
		w.labels["force-left-total-above-low"] = true
	}
	switch {
	case len(batch) > 0:
		w.labels["trim-closed:"+name] = true
		w.noteLifecycleAtTrim(snaps)
		if special {
			w.nontrivial = true
			w.labels["trim-closed-with-ineligible-present:"+name] = true
			w.fps = append(w.fps, fmt.Sprintf("%s/low=%d/%s", name, w.cfg.low, describeSnaps(w.cfg, now, snaps, batch)))
		}
		if edge {
			w.labels["trim-with-peer-at-grace-boundary"] = true
		}
		for _, ev := range batch {
			if w.peers[ev.c.pi].protected() {
				w.labels["force-closed-protected"] = true
			}
			if kind == trimForce && w.cfg.inGrace(w.peers[ev.c.pi].firstSeen, now) {
				w.labels["force-closed-in-grace"] = true
			}
			if len(w.peers[ev.c.pi].conns) > 1 {
				w.labels["closed-multi-conn-peer"] = true
			}
			if w.pendingClosed[ev.c] {
				w.labels["closed-again-before-disconnect"] = true
			}
		}
	case count <= w.cfg.low:
		w.labels["trim-noop-at-or-below-low:"+name] = true
	default:
		w.labels["trim-noop-above-low:"+name] = true
	}
}

// ---------------------------------------------------------------------------
// after every step: the manager against the model

// pruneAllowed: the manager documents that a buffered entry of a peer that never
// connected is dropped by a (regular) trim once it is past the grace period.
func (w *world) pruneAllowed(p *peerModel) bool {
	if p.protected() {
		return false
	}
	for _, t := range w.trimTimes {
		if t.Sub(p.tempSince) >= w.cfg.grace {
			return true
		}
	}
	return false
}

func (w *world) check() {
	defer func() { w.trimTimes = w.trimTimes[:0] }()
	if got, want := w.cm.GetInfo().ConnCount, w.count(); got != want {
		w.fail("GetInfo().ConnCount = %d, the notifications delivered so far imply %d", got, want)
	}
	for _, p := range w.peers {
		ti := w.cm.GetTagInfo(p.id)
		if msg := w.diffPeer(p, ti); msg != "" {
			w.fail("%s", msg)
		}
		if ti == nil {
			if p.temp && p.anyNonZero() {
				w.labels["buffered-entry-pruned"] = true
			}
			p.dropEntry()
			continue
		}
		if !p.exists() {
			// not expected from the tag operations; harmless as long as it is empty
			p.temp, p.tempSince = true, time.Now()
		}
	}
}

// diffPeer compares what the manager reports for one peer with the model of that peer;
// "" = they agree. It does not change anything.
func (w *world) diffPeer(p *peerModel, ti *cmi.TagInfo) string {
	if ti == nil {
		if len(p.conns) > 0 {
			return fmt.Sprintf("p%d has %d tracked connections but GetTagInfo returns nil", p.idx, len(p.conns))
		}
		if p.anyNonZero() && !w.pruneAllowed(p) {
			return fmt.Sprintf("p%d: GetTagInfo returns nil but the tag operations delivered so far imply a total of %d (static %v)", p.idx, p.total(), p.static)
		}
		return ""
	}
	// connections
	if len(ti.Conns) != len(p.conns) {
		return fmt.Sprintf("p%d: manager tracks %d connections, notifications imply %d", p.idx, len(ti.Conns), len(p.conns))
	}
	for c := range p.conns {
		if _, ok := ti.Conns[c.addr.String()]; !ok {
			return fmt.Sprintf("p%d: connection c%d is not tracked by the manager", p.idx, c.n)
		}
	}
	// cached total against the tags the manager itself reports
	sum := 0
	for _, v := range ti.Tags {
		sum += v
	}
	if ti.Value != sum {
		return fmt.Sprintf("p%d: GetTagInfo.Value = %d but its tags %v sum to %d", p.idx, ti.Value, ti.Tags, sum)
	}
	// static tags
	for _, name := range staticTags {
		if ti.Tags[name] != p.static[name] {
			return fmt.Sprintf("p%d: tag %s = %d, tag operations imply %d", p.idx, name, ti.Tags[name], p.static[name])
		}
	}
	// decaying tags: exact, including the decay schedule (see dtagModel)
	live := map[string]*dtagModel{}
	for _, d := range w.dtags {
		if !d.closed {
			live[d.name] = d
		}
	}
	for _, name := range decayNames {
		got := ti.Tags[name]
		d := live[name]
		if d == nil {
			if got != 0 {
				return fmt.Sprintf("p%d: decaying tag %s = %d but no such tag is registered", p.idx, name, got)
			}
			continue
		}
		want := p.decay[d]
		if got == want {
			continue
		}
		return fmt.Sprintf("p%d: decaying tag %s = %d, but its bumps/removals and its schedule (interval %v, decay kind %d, next due at %v) imply %d",
			p.idx, name, got, d.interval, d.decayKind, d.nextDue.Sub(w.t0), want)
	}
	if ti.Value != p.total() {
		return fmt.Sprintf("p%d: GetTagInfo.Value = %d, tag operations imply %d (tags %v)", p.idx, ti.Value, p.total(), ti.Tags)
	}
	return ""
}
